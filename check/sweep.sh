#!/bin/sh
# sweep.sh <tier> <seed>... : runs every check for the given seeds (sequentially), evidence redirected so that the
# committed evidence/ is untouched; one summary line per run in sweep_<tier>.summary, replays kept per seed.
# Meant for `vp run -- sh check/sweep.sh quick 2 3 4` (builds everything first) or from /verif itself.
tier=$1; shift
here=$(cd "$(dirname "$0")/.." && pwd)
cd "$here"
python3 check/run.py --setup > sweep_setup.log 2>&1 || { echo "SETUP FAILED"; tail -30 sweep_setup.log; exit 1; }
export VERIF_EVIDENCE_DIR="$here/.build/sweep_evidence"
sum="$here/sweep_$tier.summary"
for seed in "$@"; do
  for id in C01 C02 C03 C04 C05 C06 C07 C08 C09 C10 C11 C12 C13 C14 C15 C16 C17 C18 C19 C20; do
    s=$(date +%s)
    VERIF_SEED=$seed python3 check/run.py $id --tier $tier > .build/sweep_$id.log 2>&1
    rc=$?
    e=$(date +%s)
    echo "seed=$seed $id rc=$rc $((e-s))s $(grep -v KNOWN .build/sweep_$id.log | tail -1 | cut -c1-160)" >> "$sum"
    if [ $rc -ne 0 ]; then
      mkdir -p .build/sweep_fail; cp .build/sweep_$id.log .build/sweep_fail/${id}_$seed.log
      for f in .build/replay/${id}_*.json; do [ -f "$f" ] && cp "$f" .build/sweep_fail/${id}_${seed}_$(basename $f); done
    fi
  done
done
echo ALLDONE >> "$sum"
