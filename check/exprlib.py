#!/usr/bin/env python3
"""Generators, runners and comparators for the expression-core checks
(C01, C05, C07, and the build-program part of others)."""
import math
import os
import struct
import hashlib

UNARY = ["OP_SQUARE", "OP_SQRT", "OP_NEG", "OP_SIN", "OP_COS", "OP_TAN", "OP_ASIN", "OP_ACOS",
         "OP_ATAN", "OP_EXP", "OP_ABS", "OP_LOG", "OP_RECIP", "CONST_VAR"]
BINARY = ["OP_ADD", "OP_MUL", "OP_MIN", "OP_MAX", "OP_SUB", "OP_DIV", "OP_ATAN2", "OP_POW",
          "OP_NTH_ROOT", "OP_MOD", "OP_NANFILL", "OP_COMPARE"]
SMOOTH_UN = ["OP_SQUARE", "OP_NEG", "OP_SIN", "OP_COS", "OP_ATAN", "OP_ABS", "OP_EXP"]
ARITH_BIN = ["OP_ADD", "OP_MUL", "OP_MIN", "OP_MAX", "OP_SUB"]


def f2h(x):
    return "%08x" % struct.unpack("<I", struct.pack("<f", x))[0]


def h2f(h):
    return struct.unpack("<f", struct.pack("<I", int(h, 16)))[0]


def h2d(h):
    return struct.unpack("<d", struct.pack("<Q", int(h, 16)))[0]


class Prog:
    """A build program: a list of command lines; tracks handle count/kinds."""

    def __init__(self, cid):
        self.cid = cid
        self.lines = []
        self.kinds = []     # per handle: 'const' | 'var' | 'axis' | 'tree'
        self.nvars = 0
        self.ncmd = 0

    def emit(self, line, kind=None):
        self.lines.append(line)
        self.ncmd += 1
        if kind is not None:
            self.kinds.append(kind)
            return len(self.kinds) - 1
        return None

    def text(self):
        return f"case {self.cid}\n" + "\n".join(self.lines) + "\nend\n"


# -0.0 is deliberately absent: the optimiser's canonical map gives 0.0 and -0.0 one key, and IEEE
# branch cuts (atan2(-0, y<0) = -pi, 1/-0 = -inf) then make the float value depend on which zero
# survives; the properties speak of the real-valued function, where the two zeros are equal
CONST_POOL = [0.0, 1.0, -1.0, 2.0, 0.5, -0.5, 3.0, -2.0, 0.25, 1.5, 10.0, 4.0]


def gen_program(rng, cid, size, ops_un=None, ops_bin=None, remap_p=0.08, apply_p=0.05,
                var_p=0.08, safe=True):
    """Random build program with sharing.  safe=True keeps to opcodes that are
    total and continuous on R (so value comparisons are meaningful)."""
    ops_un = ops_un or (SMOOTH_UN if safe else UNARY)
    ops_bin = ops_bin or (ARITH_BIN + (["OP_DIV"] if not safe else []) if safe else BINARY)
    p = Prog(cid)
    p.usize = []          # upper bound on the size of each handle's tree unfolding
    _emit = p.emit

    p.mentions = []       # per handle: free variables (handles) its unfolding mentions
    p.hasaxis = []        # per handle: the written term mentions x, y or z somewhere (syntactically)

    def emit(line, kind=None, size=1):
        h = _emit(line, kind)
        if kind is not None:
            p.usize.append(size)
            toks = line.split()
            ms = set()
            if toks[0] == "var":
                ms = {h}
            else:
                for tk in toks[1:]:
                    if tk.isdigit() and int(tk) < len(p.mentions):
                        ms |= p.mentions[int(tk)]
            p.mentions.append(ms)
            p.hasaxis.append(toks[0] in ("x", "y", "z") or any(
                tk.isdigit() and int(tk) < len(p.hasaxis) and p.hasaxis[int(tk)] for tk in toks[1:]))
        return h
    p.emit2 = emit
    hx = emit("x", "axis")
    hy = emit("y", "axis")
    hz = emit("z", "axis")
    trees = [hx, hy, hz]      # non-constant handles
    consts = []
    vars_ = []
    applied = {}
    remapped = []
    p.axisfree_apply = set()

    def pick(allow_const=True):
        if allow_const and consts and rng.random() < 0.25:
            return rng.choice(consts)
        # bias to recent handles, but keep sharing of old ones
        if rng.random() < 0.6:
            return trees[-1 - min(len(trees) - 1, int(rng.expovariate(0.5)))]
        return rng.choice(trees)

    def new_const():
        r = rng.random()
        if r < 0.6:
            c = rng.choice(CONST_POOL)
        elif r < 0.8:
            c = rng.randint(-8, 8) / 4.0
        else:
            c = struct.unpack("<f", struct.pack("<f", rng.uniform(-4, 4)))[0]
        h = emit(f"const {f2h(c)}", "const")
        consts.append(h)
        return h

    CAP = 1500            # the optimiser and flatten walk the tree unfolding (no memo)
    S = p.usize
    for _ in range(size):
        r = rng.random()
        if r < 0.18:
            new_const()
        elif r < 0.18 + var_p:
            h = emit("var", "var")
            p.nvars += 1
            vars_.append(h)
            trees.append(h)
        elif r < 0.18 + var_p + remap_p:
            t, a, b, c = pick(False), pick(), pick(), pick()
            # a remap DIRECTLY on an apply node, preferably one whose body mentions no axis (the coordinates enter
            # through the substituted value only: the remap must still reach them)
            allap = [hh for hs_ in applied.values() for hh in hs_]
            if allap and rng.random() < 0.5:
                pref = [hh for hh in allap if hh in p.axisfree_apply]
                t = rng.choice(pref if pref and rng.random() < 0.7 else allap)
            sz = S[t] * max(1, S[a] + S[b] + S[c])
            if sz > CAP:
                continue
            h = emit(f"remap {t} {a} {b} {c}", "tree", sz)
            trees.append(h)
            remapped.append(h)
        elif r < 0.18 + var_p + remap_p + apply_p and vars_:
            t, e = pick(False), pick()
            v = rng.choice(vars_)
            # an apply AROUND a remap whose body mentions the variable (the remap must keep the binding)
            cand = [hh for hh in remapped if p.mentions[hh]]
            if cand and rng.random() < 0.5:
                t = rng.choice(cand)
                v = rng.choice(sorted(p.mentions[t]))
            # nested applies of the SAME variable (inner binding must shadow the outer one)
            elif applied and rng.random() < 0.5:
                v = rng.choice(sorted(applied))
                t = rng.choice(applied[v])
                if rng.random() < 0.5:
                    e = pick()
            # a body that mentions the variable but no axis, a value that mentions an axis
            elif rng.random() < 0.3:
                cb = [hh for hh in trees if p.mentions[hh] and not p.hasaxis[hh]]
                ce = [hh for hh in trees if p.hasaxis[hh]]
                if cb and ce:
                    t = rng.choice(cb); v = rng.choice(sorted(p.mentions[t])); e = rng.choice(ce)
            sz = S[t] * max(1, S[e])
            if sz > CAP:
                continue
            h = emit(f"apply {t} {v} {e}", "tree", sz)
            if not p.hasaxis[t]:
                p.axisfree_apply.add(h)
            applied.setdefault(v, []).append(h)
            trees.append(h)
        elif r < 0.55:
            op = rng.choice(ops_un)
            a = pick()
            h = emit(f"un {op} {a}", "tree", 1 + S[a])
            trees.append(h)
        else:
            op = rng.choice(ops_bin)
            a, b = pick(), pick()
            if rng.random() < 0.12:
                b = a                       # x*x, min(x,x), x-x ...
            if op in ("OP_POW", "OP_NTH_ROOT"):
                b = emit(f"const {f2h(float(rng.choice([1, 2, 3, 4])))}", "const")
                consts.append(b)
            if 1 + S[a] + S[b] > CAP:
                continue
            h = emit(f"bin {op} {a} {b}", "tree", 1 + S[a] + S[b])
            trees.append(h)
    p.root = trees[-1]
    return p


# ---------------------------------------------------------------------------
# DAG dumps
# ---------------------------------------------------------------------------
def parse_dump(s):
    """'X c40000000 b.OP_MUL.0.1 ...' -> list of tuples"""
    nodes = []
    for tok in s.split():
        if tok in ("X", "Y", "Z", "I"):
            nodes.append((tok,))
        elif tok[0] == "c":
            nodes.append(("c", tok[1:]))
        elif tok[0] == "v":
            nodes.append(("v", tok[1:]))
        elif tok[0] == "o":
            nodes.append(("o", tok[1:]))
        else:
            parts = tok.split(".")
            nodes.append(tuple([parts[0]] + [parts[1]] + [int(x) for x in parts[2:]]) if parts[0] in ("u", "b", "n")
                         else tuple([parts[0]] + [int(x) for x in parts[1:]]))
    return nodes


def dumps_equal_tol(a, b, ulps=64):
    """structure equal, constants within a few ulps (transcendental folding)"""
    from common import ulp_diff32
    na, nb = parse_dump(a), parse_dump(b)
    if len(na) != len(nb):
        return False
    for x, y in zip(na, nb):
        if x[0] != y[0]:
            return False
        if x[0] == "c":
            if ulp_diff32(x[1], y[1]) > ulps:
                return False
        elif x != y:
            return False
    return True



def dags_equal_mod_sharing(a, b, ulps=4):
    """the two dumps have the same tree unfolding (sharing is not semantic), constants within a few ulps"""
    from common import ulp_diff32
    import sys
    na, nb = parse_dump(a), parse_dump(b)
    if not na or not nb:
        return False
    memo = {}
    sys.setrecursionlimit(max(10000, sys.getrecursionlimit()))

    def eq(i, j):
        k = (i, j)
        if k in memo:
            return memo[k]
        memo[k] = True          # DAGs: no cycles, provisional value never consulted
        x, y = na[i], nb[j]
        r = False
        if x[0] == y[0] and len(x) == len(y):
            if x[0] == "c":
                r = ulp_diff32(x[1], y[1]) <= ulps
            elif x[0] in ("X", "Y", "Z", "I"):
                r = True
            elif x[0] in ("v", "o", "n"):
                r = x[1] == y[1]
            elif x[0] in ("u", "b"):
                r = x[1] == y[1] and all(eq(p, q) for p, q in zip(x[2:], y[2:]))
            else:
                r = all(eq(p, q) for p, q in zip(x[1:], y[1:]))
        memo[k] = r
        return r
    return eq(len(na) - 1, len(nb) - 1)


COMM = {"OP_ADD", "OP_MUL", "OP_MIN", "OP_MAX"}


def ac_canon(s, shift=4):
    """AC-normal form of the DAG's tree unfolding, hash-consed bottom-up:
    same-opcode chains of + * min max become sorted multisets, square(a) inside a
    product is a*a, min/max multisets are deduplicated.  Constants are rounded
    to 20 bits so that differently-ordered float coefficient sums compare."""
    nodes = parse_dump(s)
    canon = []

    def flat(op, c):
        # c is canonical repr (tuple); expand same-op chain
        if c[0] == "ac" and c[1] == op:
            return list(c[2])
        if op == "OP_MUL" and c[0] == "u" and c[1] == "OP_SQUARE":
            return flat(op, c[2]) * 2
        return [c]

    for n in nodes:
        k = n[0]
        if k in ("X", "Y", "Z", "I"):
            canon.append((k,))
        elif k == "c":
            u = int(n[1], 16)
            if (u & 0x7fffffff) == 0:
                u = 0
            if (u & 0x7f800000) == 0x7f800000 and (u & 0x7fffff):
                canon.append(("c", "nan"))
            else:
                canon.append(("c", u >> shift))
        elif k in ("v", "o"):
            canon.append((k, n[1]))
        elif k == "n":
            canon.append(("n", n[1]))
        elif k == "u" and n[1] != "OP_SQUARE":
            canon.append(("u", n[1], canon[n[2]]))
        elif k in ("b", "u"):
            op = n[1] if k == "b" else "OP_MUL"
            if op in COMM:
                # square(a) is the product a * a wherever it stands (Tree::binary rewrites a * a into
                # square(a), and which factors of a product meet first depends on pointer order)
                items = (flat(op, canon[n[2]]) + flat(op, canon[n[3]])) if k == "b" else flat(op, canon[n[2]]) * 2
                # fold the constants of the multiset (the code folds whichever
                # constants happen to be adjacent in pointer order)
                cs = [it for it in items if it[0] == "c" and it[1] != "nan"]
                if len(cs) > 1:
                    vals = [h2f("%08x" % (it[1] << shift)) for it in cs]
                    if op == "OP_MIN":
                        v = min(vals)
                    elif op == "OP_MAX":
                        v = max(vals)
                    elif op == "OP_ADD":
                        v = sum(vals)
                    else:
                        v = 1.0
                        for t in vals:
                            v *= t
                    try:
                        u = int(f2h(v), 16)
                    except (OverflowError, struct.error):
                        u = 0x7f800000
                    if (u & 0x7fffffff) == 0:
                        u = 0
                    items = [it for it in items if not (it[0] == "c" and it[1] != "nan")] + [("c", u >> shift)]
                items = sorted(items, key=repr)
                if op in ("OP_MIN", "OP_MAX"):
                    ded = []
                    for it in items:
                        if not ded or ded[-1] != it:
                            ded.append(it)
                    items = ded
                canon.append(("ac", op, tuple(items)) if len(items) > 1 else items[0])
            else:
                canon.append(("b", op, canon[n[2]], canon[n[3]]))
        else:
            canon.append(tuple([k] + [canon[i] for i in n[1:]]))
    return canon[-1]


def ac_normal(s):
    return hashlib.sha256(repr(ac_canon(s)).encode()).hexdigest()


def ac_equal_tol(s1, s2, ulps=64):
    """AC-normal forms equal up to [ulps] on constants (no quantisation boundary): the multisets of
    commutative chains are matched greedily with the tolerant comparison"""
    import sys
    sys.setrecursionlimit(max(10000, sys.getrecursionlimit()))
    a, b = ac_canon(s1, 0), ac_canon(s2, 0)
    memo = {}

    def ord32(u):
        return u if u < 0x80000000 else 0x80000000 - u

    def eq(x, y):
        k = (id(x), id(y))
        if k in memo:
            return memo[k]
        r = eq1(x, y)
        memo[k] = r
        return r

    def eq1(x, y):
        if x[0] != y[0] or len(x) != len(y):
            return False
        if x[0] == "c":
            if x[1] == "nan" or y[1] == "nan":
                return x[1] == y[1]
            return abs(ord32(x[1]) - ord32(y[1])) <= ulps
        if x[0] == "ac":
            if x[1] != y[1] or len(x[2]) != len(y[2]):
                return False
            rest = list(y[2])
            for it in x[2]:
                for j, jt in enumerate(rest):
                    if eq(it, jt):
                        del rest[j]
                        break
                else:
                    return False
            return True
        for p, q in zip(x[1:], y[1:]):
            if isinstance(p, tuple) and isinstance(q, tuple):
                if not eq(p, q):
                    return False
            elif p != q:
                return False
        return True
    return eq(a, b)


def eval_dump(s, x, y, z, vars_):
    """value of a DAG dump in doubles (reference semantics of the opcodes; oracles / remaps unsupported -> None)"""
    nodes = parse_dump(s)
    val = []
    nan = float("nan")

    def un(op, a):
        try:
            if op == "OP_SQUARE": return a * a
            if op == "OP_SQRT": return math.sqrt(a) if a >= 0 else nan
            if op == "OP_NEG": return -a
            if op == "OP_SIN": return math.sin(a)
            if op == "OP_COS": return math.cos(a)
            if op == "OP_TAN": return math.tan(a)
            if op == "OP_ASIN": return math.asin(a) if -1 <= a <= 1 else nan
            if op == "OP_ACOS": return math.acos(a) if -1 <= a <= 1 else nan
            if op == "OP_ATAN": return math.atan(a)
            if op == "OP_EXP": return math.exp(a)
            if op == "OP_ABS": return abs(a)
            if op == "OP_LOG": return math.log(a) if a > 0 else (-math.inf if a == 0 else nan)
            if op == "OP_RECIP": return 1.0 / a if a != 0 else math.copysign(math.inf, a)
            if op == "CONST_VAR": return a
        except (OverflowError, ValueError):
            return nan
        return None

    def bi(op, a, b):
        try:
            if op == "OP_ADD": return a + b
            if op == "OP_MUL": return a * b
            if op == "OP_MIN": return b if b < a else a
            if op == "OP_MAX": return b if a < b else a
            if op == "OP_SUB": return a - b
            if op == "OP_DIV": return a / b if b != 0 else (nan if a == 0 or a != a else math.copysign(math.inf, a) * math.copysign(1.0, b))
            if op == "OP_ATAN2": return math.atan2(a, b)
            if op == "OP_POW": return math.pow(a, b)
            if op == "OP_NTH_ROOT":
                if a < 0:
                    return -math.pow(-a, 1.0 / b) if int(b) & 1 else nan
                return math.pow(a, 1.0 / b)
            if op == "OP_MOD":
                if b == 0 or a != a or b != b or math.isinf(a) or math.isinf(b): return nan
                r = math.fmod(a, b)
                if r != 0 and (r < 0) != (b < 0): r += b
                return r
            if op == "OP_NANFILL": return b if a != a else a
            if op == "OP_COMPARE": return -1.0 if a < b else (1.0 if a > b else 0.0)
        except (OverflowError, ValueError, ZeroDivisionError):
            return nan
        return None
    for n in nodes:
        k = n[0]
        if k == "X": v = x
        elif k == "Y": v = y
        elif k == "Z": v = z
        elif k == "c": v = h2f(n[1])
        elif k == "v":
            i = int(n[1]); v = vars_[i] if 0 <= i < len(vars_) else 0.0
        elif k == "u": v = un(n[1], val[n[2]])
        elif k == "b": v = bi(n[1], val[n[2]], val[n[3]])
        else: return None
        if v is None:
            return None
        val.append(v)
    return val[-1] if val else None


def dumps_numerically_equal(a, b, rng, nvars=8, npts=12):
    """last-resort comparison of two optimiser outputs: the same function at random points (the two
    may differ by a 1e-7 residue in an affine constant term accumulated with / without fused multiply-add)"""
    good = 0
    for _ in range(npts):
        x, y, z = (rng.uniform(-2, 2) for _ in range(3))
        vs = [rng.uniform(-2, 2) for _ in range(nvars)]
        va, vb = eval_dump(a, x, y, z, vs), eval_dump(b, x, y, z, vs)
        if va is None or vb is None:
            return False
        if not (math.isfinite(va) and math.isfinite(vb)):
            continue
        if abs(va - vb) > 1e-4 * (1 + abs(va)):
            return False
        good += 1
    return good >= npts // 2


def dump_stats(s):
    nodes = parse_dump(s)
    ops = set(n[1] for n in nodes if n[0] in ("u", "b"))
    return len(nodes), ops


def parse_out(text):
    res = {}
    for line in text.splitlines():
        parts = line.split(" ", 2)
        if len(parts) < 3:
            continue
        res.setdefault((parts[0], int(parts[1])), []).append(parts[2])
    return res


def value_ok(impl_hex, mline):
    """mline = model 'V f32opt f32unopt ref64 M S'.  Returns (ok, skipped)."""
    f = mline.split()
    ref, mx, sens = h2d(f[3]), h2d(f[4]), h2d(f[5])
    v = h2f(impl_hex)
    if not (math.isfinite(ref) and math.isfinite(mx) and math.isfinite(sens)) or mx > 1e6:
        return True, True
    if sens > 1e-3 * (1 + abs(ref)):         # ill-conditioned / near a discontinuity
        return True, True
    tol = 2e-4 * (1.0 + mx) + 200 * sens
    # numerically fragile points (a discontinuous operation - mod, compare, a min/max tie - whose
    # arguments do not depend on the perturbed inputs, cos of a huge constant, ...): the model's own
    # binary32 run disagrees with its binary64 run, or moves under one-ulp rounding noise
    v32u = h2f(f[2])
    if math.isfinite(v32u) and abs(v32u - ref) > tol:
        return True, True
    if len(f) > 6:
        noise = h2d(f[6])
        if not (16 * noise <= tol):
            return True, True
    if not math.isfinite(v):
        return False, False
    return abs(v - ref) <= tol, False


