#!/usr/bin/env python3
"""Entry point:  run.py --setup | run.py <Cxx> [--tier quick|thorough] [--replay file]"""
import importlib
import os
import sys

HERE = os.path.dirname(os.path.abspath(__file__))
sys.path.insert(0, HERE)
import common  # noqa: E402


def setup():
    rep = common.regen_translators()
    print("translators:", rep)
    ok, out = common.coq_make()
    if not ok:
        print(out[-6000:])
        print("setup: Coq build FAILED")
        return 1
    bad = common.coq_hygiene()
    if bad:
        print("forbidden constructs:", bad)
        return 1
    for name in common.DRIVERS:
        ok, out = common.build_driver(**common.DRIVERS[name])
        if not ok:
            print(out[-4000:])
            print(f"setup: driver {name} FAILED")
            return 1
    ok, log = common.build_harness(["core", "render"])
    ok2, log2 = common.build_harness(common.all_harness_bins())
    if not (ok and ok2):
        print((log + log2)[-4000:])
        print("setup: harness build FAILED")
        return 1
    # sanitizer variants (ThreadSanitizer for C14, AddressSanitizer for C11 / C13): prebuilt so that the first
    # quick run does not pay for them
    import cxxbuild
    from props import c14 as _c14
    okt, logt, _ = cxxbuild.build_variant("tsan", _c14.TSAN_FLAGS, ["bin/threads"])
    asan = ("-std=gnu++17 -O1 -g -fsanitize=address -fno-omit-frame-pointer -DNDEBUG -DLIBFIVE_VERIF -fPIC -w "
            "-DGIT_TAG='\"verif\"' -DGIT_REV='\"verif\"' -DGIT_BRANCH='\"verif\"'")
    oka, loga, _ = cxxbuild.build_variant("asan", asan, ["bin/expr", "bin/handles"])
    if not (okt and oka):
        print((logt + loga)[-4000:])
        print("setup: sanitizer variants FAILED")
        return 1
    print("setup ok")
    return 0


def main():
    args = sys.argv[1:]
    if not args:
        print(__doc__)
        return 2
    if args[0] == "--setup":
        return setup()
    prop = args[0]
    if "--tier" in args:
        os.environ["VERIF_TIER"] = args[args.index("--tier") + 1]
    replay = args[args.index("--replay") + 1] if "--replay" in args else None
    mod = importlib.import_module(f"props.{prop.lower()}")
    return mod.run(replay=replay)


if __name__ == "__main__":
    sys.exit(main() or 0)
