#!/usr/bin/env python3
"""Debug helper: dissect.py <replay.json> — runs the failing ivcheck query on every handle."""
import json, subprocess, sys
d = json.load(open(sys.argv[1]))['replay']
lines = d['program'].split('\n')
build = [l for l in lines if not l.startswith('ivcheck') and l not in ('end', '') and not l.startswith('case')]
q = d['query'].split()
out = ["case dbg"] + build
for h in range(len(build)):
    out.append("ivcheck %d %s" % (h, " ".join(q[2:])))
out.append("end")
r = subprocess.run(['/verif/.build/cxx/bin/expr'], input="\n".join(out) + "\n", capture_output=True, text=True)
res = [l for l in r.stdout.splitlines() if ' IV ' in l or ' IS ' in l or 'ERR' in l]
for h in range(len(build)):
    print(h, build[h], '|', res[2 * h].split(' ', 2)[2], '|', res[2 * h + 1].split(' ', 2)[2])
