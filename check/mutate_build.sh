#!/bin/bash
# mutation test for gen_build.py / BuildAgree.v ; usage: mut_run.sh
set -u
W=/tmp/bldwork
rm -rf $W/mut; mkdir -p $W/mut
run_one() {  # name, python-edit-expression (old, new, occurrence index)
  name=$1; old=$2; new=$3; occ=$4
  root=$W/mut/$name
  mkdir -p $root/libfive/src/tree $root/libfive/include/libfive/tree $root/coq/theories/Base $root/coq/theories/Tree $root/coq/theories/Gen
  cp /repo/libfive/src/tree/tree.cpp /repo/libfive/src/tree/operations.cpp $root/libfive/src/tree/
  cp /repo/libfive/include/libfive/tree/operations.hpp $root/libfive/include/libfive/tree/
  python3 - "$root/libfive/src/tree/tree.cpp" "$old" "$new" "$occ" <<'PY'
import sys
p, old, new, occ = sys.argv[1], sys.argv[2], sys.argv[3], int(sys.argv[4])
s = open(p).read()
if old:
    parts = s.split(old)
    assert len(parts) > occ + 1, "mutation site not found"
    s = old.join(parts[:occ + 1]) + new + old.join(parts[occ + 1:])
    assert s != open(p).read()
open(p, "w").write(s)
PY
  cp $W/coq/theories/Base/{Opcode,Num,Arena}.vo $root/coq/theories/Base/
  cp $W/coq/theories/Tree/Build.vo $W/coq/theories/Tree/BuildRules.vo $W/coq/theories/Tree/BuildAgree.v $root/coq/theories/Tree/
  cd $root/coq
  if ! (cd $W/translate && python3 gen_build.py $root) > theories/Gen/BuildRules_gen.v 2> gen.err; then
    echo "$name: GENERATOR RAISED: $(tail -1 gen.err)"; return
  fi
  if ! timeout 300 coqc -Q theories LF theories/Gen/BuildRules_gen.v > gen.log 2>&1; then
    echo "$name: generated table does not compile: $(grep -A3 Error gen.log | tr '\n' ' ' | cut -c1-200)"; return
  fi
  if timeout 300 coqc -Q theories LF theories/Tree/BuildAgree.v > agree.log 2>&1; then
    echo "$name: BuildAgree.v COMPILES (diff of table vs original: $(diff <(cd $W/translate && python3 gen_build.py /repo) theories/Gen/BuildRules_gen.v | grep -c '^[<>]') lines)"
  else
    echo "$name: BuildAgree.v FAILS: $(grep -m1 -B0 -A0 'File ' agree.log) $(grep -A8 '^Error' agree.log | tr '\n' ' ' | tr -s ' ' | cut -c1-260)"
  fi
}
export -f run_one; export W
run_one M0_unmodified "" "" 0 &
run_one M1_add_lhsneg_swapped_sub "return rhs - v->lhs;" "return v->lhs - rhs;" 0 &
run_one M2_drop_x_times_1 "            } else if (v->value == 1) {
                return lhs;
            }" "            }" 0 &
run_one M3_mul_lhs_0_becomes_1 "            if (v->value == 0) {
                return lhs;" "            if (v->value == 1) {
                return lhs;" 0 &
run_one M4_zero_plus_x_returns_lhs "            if (v->value == 0.0) {
                return rhs;" "            if (v->value == 0.0) {
                return lhs;" 0 &
run_one M5_minmax_rule_also_add "op == Opcode::OP_MIN || op == Opcode::OP_MAX" "op == Opcode::OP_MIN || op == Opcode::OP_MAX || op == Opcode::OP_ADD" 0 &
run_one M6_add_rhs_const_plain_if "        } else if ((v = std::get_if<TreeConstant>(rhs.ptr))) {
            if (v->value == 0.0) {
                return lhs;" "        } if ((v = std::get_if<TreeConstant>(rhs.ptr))) {
            if (v->value == 0.0) {
                return lhs;" 0 &
run_one M7_abs_drops_square "v->op == Opcode::OP_ABS || v->op == Opcode::OP_SQUARE" "v->op == Opcode::OP_ABS" 0 &
run_one M8_default_operands_swapped "TreeBinaryOp {op, lhs, rhs}" "TreeBinaryOp {op, rhs, lhs}" 0 &
run_one M9_sub_rules_reordered_unary_first "        } else if ((v = std::get_if<TreeConstant>(rhs.ptr))) {
            if (v->value == 0.0) {
                return lhs;
            }
        } else if (auto v = std::get_if<TreeUnaryOp>(rhs.ptr)) {
            if (v->op == Opcode::OP_NEG) {
                return lhs + v->lhs;
            }
        }" "        } else if (auto v = std::get_if<TreeUnaryOp>(rhs.ptr)) {
            if (v->op == Opcode::OP_NEG) {
                return lhs + v->lhs;
            }
        } else if (auto v = std::get_if<TreeConstant>(rhs.ptr)) {
            if (v->value == 0.0) {
                return lhs;
            }
        }" 0 &
run_one M5b_minmax_rule_also_atan2 "op == Opcode::OP_MIN || op == Opcode::OP_MAX" "op == Opcode::OP_MIN || op == Opcode::OP_MAX || op == Opcode::OP_ATAN2" 0 &
run_one M5c_div_rule_also_add "else if (op == Opcode::OP_DIV)" "else if (op == Opcode::OP_DIV || op == Opcode::OP_ADD)" 0 &
wait
