"""Shape generators shared by the mesh / contour checks (C03, C04, C10, C11)."""
import math
from exprlib import Prog, f2h


def closed_solid(rng, cid, rotate=True, sharp=True):
    """a bounded solid strictly inside [-1.6,1.6]^3: CSG of 1..3 spheres / boxes / tori / cylinders, each optionally
    rotated about a random axis; fields are 1-Lipschitz (Euclidean distances, max / min of them)"""
    p = Prog(cid)
    for c in ("x", "y", "z"):
        p.emit(c, "axis")

    def const(v):
        return p.emit(f"const {f2h(v)}", "const")

    def bin_(op, a, b):
        return p.emit(f"bin {op} {a} {b}", "tree")

    def un(op, a):
        return p.emit(f"un {op} {a}", "tree")

    def prim():
        cx, cy, cz = (rng.uniform(-0.35, 0.35) for _ in range(3))
        ax = [0, 1, 2]
        if rotate and rng.random() < 0.6:
            # rotate the coordinate frame about one axis
            k = rng.randrange(3)
            i, j = [t for t in range(3) if t != k]
            ang = rng.choice([math.pi / 4, math.pi / 6, 0.3, rng.uniform(0, math.pi)])
            c, s = const(math.cos(ang)), const(math.sin(ang))
            ni = bin_("OP_ADD", bin_("OP_MUL", c, i), bin_("OP_MUL", s, j))
            nj = bin_("OP_SUB", bin_("OP_MUL", c, j), bin_("OP_MUL", s, i))
            ax[i], ax[j] = ni, nj
        d = [bin_("OP_SUB", a, const(v)) for a, v in zip(ax, (cx, cy, cz))]
        kind = rng.random()
        if kind < 0.35:
            s = bin_("OP_ADD", bin_("OP_ADD", un("OP_SQUARE", d[0]), un("OP_SQUARE", d[1])), un("OP_SQUARE", d[2]))
            return bin_("OP_SUB", un("OP_SQRT", s), const(rng.uniform(0.4, 0.7)))
        if kind < 0.65 and sharp:
            h = [rng.uniform(0.3, 0.55) for _ in range(3)]
            m = [bin_("OP_SUB", un("OP_ABS", d[i]), const(h[i])) for i in range(3)]
            return bin_("OP_MAX", m[0], bin_("OP_MAX", m[1], m[2]))
        if kind < 0.85:
            rho = un("OP_SQRT", bin_("OP_ADD", un("OP_SQUARE", d[0]), un("OP_SQUARE", d[1])))
            q = bin_("OP_SUB", rho, const(0.55))
            s2 = bin_("OP_ADD", un("OP_SQUARE", q), un("OP_SQUARE", d[2]))
            return bin_("OP_SUB", un("OP_SQRT", s2), const(rng.uniform(0.18, 0.25)))
        rho = un("OP_SQRT", bin_("OP_ADD", un("OP_SQUARE", d[0]), un("OP_SQUARE", d[1])))
        return bin_("OP_MAX", bin_("OP_SUB", rho, const(rng.uniform(0.3, 0.5))),
                    bin_("OP_SUB", un("OP_ABS", d[2]), const(rng.uniform(0.3, 0.55))))
    cur = prim()
    for _ in range(rng.randint(0, 2)):
        o = prim()
        op = rng.choice(["OP_MIN", "OP_MIN", "OP_MAX"])
        if op == "OP_MAX" and rng.random() < 0.5:
            o = un("OP_NEG", o)
        cur = bin_(op, cur, o)
    p.root = cur
    return p


def gear_solid(rng, cid):
    """a k-lobed gear prism, rho - (R + a cos(k atan2(y, x))) scaled to be 1-Lipschitz near its surface, cut by a slab
    (and optionally united with a ball): surface in all four quadrants of atan2's arguments"""
    p = Prog(cid)
    for c in ("x", "y", "z"):
        p.emit(c, "axis")

    def const(v):
        return p.emit(f"const {f2h(v)}", "const")

    def bin_(op, a, b):
        return p.emit(f"bin {op} {a} {b}", "tree")

    def un(op, a):
        return p.emit(f"un {op} {a}", "tree")
    k = rng.choice([3, 4, 5, 7])
    R, a = rng.uniform(0.7, 0.85), rng.uniform(0.08, 0.14)
    ang = rng.uniform(0, 2 * math.pi)
    c, s_ = const(math.cos(ang)), const(math.sin(ang))
    xr = bin_("OP_ADD", bin_("OP_MUL", c, 0), bin_("OP_MUL", s_, 1))
    yr = bin_("OP_SUB", bin_("OP_MUL", c, 1), bin_("OP_MUL", s_, 0))
    rho = un("OP_SQRT", bin_("OP_ADD", un("OP_SQUARE", xr), un("OP_SQUARE", yr)))
    th = bin_("OP_ATAN2", yr, xr)
    lobes = bin_("OP_MUL", const(a), un("OP_COS", bin_("OP_MUL", const(float(k)), th)))
    scale = 1.0 / math.sqrt(1.0 + (a * k / (R - a)) ** 2)
    side = bin_("OP_MUL", const(scale), bin_("OP_SUB", rho, bin_("OP_ADD", const(R), lobes)))
    slab = bin_("OP_SUB", un("OP_ABS", 2), const(rng.uniform(0.3, 0.6)))
    cur = bin_("OP_MAX", side, slab)
    if rng.random() < 0.4:
        d = [bin_("OP_SUB", ax, const(rng.uniform(-0.3, 0.3))) for ax in (0, 1, 2)]
        sph = bin_("OP_SUB", un("OP_SQRT", bin_("OP_ADD", bin_("OP_ADD", un("OP_SQUARE", d[0]), un("OP_SQUARE", d[1])), un("OP_SQUARE", d[2]))),
                   const(rng.uniform(0.4, 0.6)))
        cur = bin_("OP_MIN", cur, sph)
    p.root = cur
    return p


BOX3 = (-1.6, -1.6, -1.6, 1.6, 1.6, 1.6)
