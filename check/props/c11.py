"""C11 — cancellation yields nothing or a complete result, and always terminates.

proof obligations : Properties_C11.v (every processing order any schedule can produce visits each cell once, parents
                    first; while a cell is unprocessed a task is available (no deadlock); the done flag is raised exactly
                    when every cell has been processed; once cancel (or done) is set every worker leaves its loop after at
                    most the current body; the repaired Mesh::render returns no mesh or a complete one for every placement
                    of the flag; the code before the repair is refuted)
correspondence    : LIBFIVE_VERIF schedule points: with one worker the number of pool-loop iterations == 1 + 8 x
                    (collected ambiguous cells) == the model's number of cells; each phase marker is visited once
property oracle   : systematic cancellation: the flag is raised at the k-th visit of a named site (worker-pool loop, leaf
                    evaluation, child collection, index assignment loop, dual-walk loop, dual work, after build / assign /
                    walk), k swept over 1..count; the call must return within the watchdog and return null or a mesh
                    as watertight as the uncancelled one and at least half its size; uncancelled renders always return a mesh
"""
import os
import re
import sys

sys.path.insert(0, os.path.dirname(os.path.dirname(os.path.abspath(__file__))))
import common
import exprlib
from exprlib import f2h, parse_out

SITES = ["pool.loop", "pool.leaf", "pool.collect", "assign.loop", "dual.loop", "dual.work",
         "mesh.after_build", "mesh.after_assign", "mesh.after_walk"]


def closed_shape(rng, cid):
    """a bounded solid well inside [-1.6,1.6]^3: CSG of 1..3 spheres / boxes / tori"""
    p = exprlib.Prog(cid)
    for c in ("x", "y", "z"):
        p.emit(c, "axis")

    def const(v):
        return p.emit(f"const {f2h(v)}", "const")

    def prim():
        cx, cy, cz = (rng.uniform(-0.4, 0.4) for _ in range(3))
        d = [p.emit(f"bin OP_SUB {a} {const(v)}", "tree") for a, v in zip((0, 1, 2), (cx, cy, cz))]
        k = rng.random()
        if k < 0.5:
            s = p.emit(f"bin OP_ADD {p.emit(f'un OP_SQUARE {d[0]}', 'tree')} {p.emit(f'un OP_SQUARE {d[1]}', 'tree')}", "tree")
            s = p.emit(f"bin OP_ADD {s} {p.emit(f'un OP_SQUARE {d[2]}', 'tree')}", "tree")
            return p.emit(f"bin OP_SUB {p.emit(f'un OP_SQRT {s}', 'tree')} {const(rng.uniform(0.4, 0.75))}", "tree")
        if k < 0.8:
            h = [rng.uniform(0.3, 0.6) for _ in range(3)]
            m = [p.emit(f"bin OP_SUB {p.emit(f'un OP_ABS {d[i]}', 'tree')} {const(h[i])}", "tree") for i in range(3)]
            return p.emit(f"bin OP_MAX {m[0]} {p.emit(f'bin OP_MAX {m[1]} {m[2]}', 'tree')}", "tree")
        s = p.emit(f"bin OP_ADD {p.emit(f'un OP_SQUARE {d[0]}', 'tree')} {p.emit(f'un OP_SQUARE {d[1]}', 'tree')}", "tree")
        q = p.emit(f"bin OP_SUB {p.emit(f'un OP_SQRT {s}', 'tree')} {const(0.6)}", "tree")
        s2 = p.emit(f"bin OP_ADD {p.emit(f'un OP_SQUARE {q}', 'tree')} {p.emit(f'un OP_SQUARE {d[2]}', 'tree')}", "tree")
        return p.emit(f"bin OP_SUB {p.emit(f'un OP_SQRT {s2}', 'tree')} {const(0.22)}", "tree")
    cur = prim()
    for _ in range(rng.randint(0, 2)):
        o = prim()
        op = rng.choice(["OP_MIN", "OP_MIN", "OP_MAX"])
        if op == "OP_MAX" and rng.random() < 0.5:
            o = p.emit(f"un OP_NEG {o}", "tree")       # difference
        cur = p.emit(f"bin {op} {cur} {o}", "tree")
    p.root = cur
    return p


def run(replay=None):
    ck = common.Check("C11", level="proof")
    rep = common.regen_translators()      # Gen/RenderSkeleton_gen.v: Mesh::render's phase skeleton per algorithm, from the source
    proof = ck.proof_obligations()
    ck.coverage["translators"] = {k: v for k, v in rep.items() if "Render" in k or v != "ok"}
    ok_h, log_h = common.build_harness(["bin/expr"])
    if not ok_h:
        ck.violation("build", "harness does not build against /repo working tree", {"log": log_h[-3000:]}, no_input=True)
        ck.finish()
    quick = ck.tier == "quick"
    rng = ck.rng
    exe_h = os.path.join(common.BUILD, "cxx", "bin", "expr")
    box = " ".join(f2h(v) for v in (-1.6, -1.6, -1.6, 1.6, 1.6, 1.6))
    # pass 1: uncancelled renders (visit counts per site)
    shapes = [closed_shape(rng, f"c{k}") for k in range(24 if quick else 400)]
    configs = []
    for p in shapes:
        p.cfg = []
        for alg in range(3):
            for workers in ([1, rng.choice([2, 4, 8, 16])] if quick else [1, 2, 3, 4, 8, 16]):
                mf = rng.choice([0.4, 0.3, 0.55, 0.8] if alg == 0 else [0.5, 0.8, 0.65])
                p.cfg.append((alg, workers, mf, p.ncmd + 1))
                p.emit(f"cancel {p.root} {alg} {workers} {f2h(mf)} {box} -1 0")
    hout, hskip = common.run_cases_sharded(exe_h, [p.text() for p in shapes], shards=8, timeout=900 if not quick else 400, single_timeout=120, max_offenders=3)
    for t in hskip:
        ck.violation("hang", "an uncancelled render did not terminate within the watchdog", {"program": t})
    H = parse_out(hout)
    stats = dict(uncancelled=0, injections=0, fired=0, returned_null=0, returned_complete=0, single_worker_identity=0,
                 per_site={s: 0 for s in SITES}, max_ms=0)
    base = {}
    for p in shapes:
        for alg, workers, mf, cmd in p.cfg:
            out = [l for l in H.get((p.cid, cmd), []) if l.startswith("CN ")]
            if not out:
                err = H.get((p.cid, cmd), [])
                if p.cid not in set(t.split()[1] for t in hskip):
                    ck.violation("exception", f"render raised / no answer: {err[:1]}", {"program": p.text(), "command": p.lines[cmd - 1]})
                continue
            f = dict(x.split("=", 1) for x in out[0].split()[1:])
            stats["uncancelled"] += 1
            if f["result"] != "mesh":
                ck.violation("no_mesh", "an uncancelled render returned no mesh", {"program": p.text(), "command": p.lines[cmd - 1], "detail": out[0]})
                continue
            counts = [int(v) for v in f["counts"].split(",")]
            base[(p.cid, alg, workers, mf)] = (int(f["tris"]), int(f["verts"]), f["closed"], counts, int(f.get("ms", 0)))
            if workers == 1:
                if counts[0] == 1 + 8 * counts[2] and counts[6] == 1 and counts[8] == 1:
                    stats["single_worker_identity"] += 1
                else:
                    ck.violation("correspondence", "schedule-point counts of a one-worker build differ from the model "
                                 "(iterations = cells = 1 + 8 x ambiguous cells; one visit per phase marker)",
                                 {"program": p.text(), "command": p.lines[cmd - 1], "detail": out[0],
                                  "theorem_or_stage": "correspondence:pool-iterations"}, no_input=True)
    # pass 2: cancellation at the k-th visit of each site
    inj = []
    for p in shapes:
        q = exprlib.Prog(p.cid + "i")
        q.lines = [l for l in p.lines if not l.startswith("cancel ")]
        q.ncmd = len(q.lines)
        q.tests = []
        for alg, workers, mf, _ in p.cfg:
            b = base.get((p.cid, alg, workers, mf))
            if not b:
                continue
            counts = b[3]
            for si, c in enumerate(counts):
                if c <= 0:
                    continue
                ks = {1, c, max(1, c // 2), max(1, c - 1), rng.randint(1, c)}
                if not quick:
                    ks |= {rng.randint(1, c) for _ in range(6)} | {2, 3}
                if workers == 1 and c <= (12 if quick else 60):
                    ks |= set(range(1, c + 1))             # every placement
                for k in sorted(ks):
                    q.tests.append((alg, workers, mf, si, k, q.ncmd + 1))
                    q.emit(f"cancel {p.root} {alg} {workers} {f2h(mf)} {box} {si} {k}")
        inj.append(q)
    hout2, hskip2 = common.run_cases_sharded(exe_h, [q.text() for q in inj], shards=8, timeout=1800 if not quick else 500, single_timeout=60, max_offenders=3)
    for t in hskip2:
        ck.violation("hang", "a cancelled render did not return within the watchdog", {"program": t[:3000]})
    H2 = parse_out(hout2)
    samples = []
    for q in inj:
        for alg, workers, mf, si, k, cmd in q.tests:
            out = [l for l in H2.get((q.cid, cmd), []) if l.startswith("CN ")]
            if not out:
                if q.cid not in set(t.split()[1] for t in hskip2):
                    ck.violation("exception", f"cancelled render raised / no answer: {H2.get((q.cid, cmd), [])[:1]}",
                                 {"program": q.text()[:3000], "command": q.lines[cmd - 1]})
                continue
            f = dict(x.split("=", 1) for x in out[0].split()[1:])
            stats["injections"] += 1
            stats["max_ms"] = max(stats["max_ms"], int(f["ms"]))
            if f["fired"] == "1":
                stats["fired"] += 1
                stats["per_site"][SITES[si]] += 1
            b = base[(q.cid[:-1], alg, workers, mf)]
            if f["result"] == "null":
                stats["returned_null"] += 1
                if f["fired"] != "1":
                    ck.violation("null_uncancelled", "a render whose cancel flag was never raised returned no mesh",
                                 {"program": q.text()[:3000], "command": q.lines[cmd - 1], "detail": out[0]})
            else:
                # Completeness of a returned mesh.  Two renders of one shape are not bit-identical even with one
                # worker in an optimised build (alignment-dependent vectorised Eigen kernels move QEF solutions and
                # collapse decisions; the hybrid mesher differs by up to 25 % in triangle count on small meshes),
                # and with several workers the mesh depends on the schedule.  A truncated dual walk leaves boundary
                # edges, so: as watertight as the uncancelled mesh, and not grossly smaller.
                same = (b[2] != "1" or f["closed"] == "1") and int(f["tris"]) >= 0.5 * b[0]
                if f["fired"] != "1":
                    same = True            # the flag was never raised: this is an ordinary, complete render
                if same:
                    stats["returned_complete"] += 1
                else:
                    ck.violation("partial:" + SITES[si].split(".")[0],
                                 f"cancel raised at visit {k} of {SITES[si]}: the render returned a mesh of {f['tris']} triangles / "
                                 f"{f['verts']} vertices (closed={f['closed']}); the uncancelled mesh has {b[0]} / {b[1]} (closed={b[2]})",
                                 {"program": q.text()[:3000], "command": q.lines[cmd - 1], "detail": out[0]})
            # "returns in bounded time": a render whose flag was raised must not take much longer than the complete render
            # of the same shape (wall-clock times are load dependent - a loaded machine stretches both - so the bound is
            # relative; a render that never returns is caught by the watchdog above)
            if f["fired"] == "1" and int(f["ms"]) > max(20000, 10 * b[4] + 10000):
                ck.violation("slow", f"a cancelled render took {f['ms']} ms to return (the complete render takes {b[4]} ms)",
                             {"command": q.lines[cmd - 1], "detail": out[0]})
            if len(samples) < 4 and f["fired"] == "1":
                samples.append({"command": q.lines[cmd - 1], "answer": out[0]})
    # ---- pass 3: the same cancellations under AddressSanitizer, with the cancelling worker held for 30 ms in the
    # middle of its iteration so that the other workers leave (and release what they own) first
    import cxxbuild
    ASAN_FLAGS = ("-std=gnu++17 -O1 -g -fsanitize=address -fno-omit-frame-pointer -DNDEBUG -DLIBFIVE_VERIF -fPIC -w "
                  "-DGIT_TAG='\"verif\"' -DGIT_REV='\"verif\"' -DGIT_BRANCH='\"verif\"'")
    ok_a, log_a, _ = cxxbuild.build_variant("asan", ASAN_FLAGS, ["bin/expr"])
    stats["asan_injections"] = 0
    if not ok_a:
        ck.violation("build", "harness does not build against /repo working tree (AddressSanitizer variant)",
                     {"log": log_a[-3000:]}, no_input=True)
    else:
        exe_a = os.path.join(common.VERIF, ".build", "cxx-asan", "bin", "expr")
        aprogs = []
        for p in shapes[:(6 if quick else 60)]:
            q = exprlib.Prog(p.cid + "a")
            q.lines = [l for l in p.lines if not l.startswith("cancel ")]
            q.ncmd = len(q.lines)
            for alg, workers, mf, _ in p.cfg:
                b = base.get((p.cid, alg, workers, mf))
                if not b or workers < 2:
                    continue
                for si in (0, 1, 2, 3, 4):
                    c = b[3][si]
                    if c <= 0:
                        continue
                    for k in sorted({1, max(1, c // 3), rng.randint(1, c)}):
                        q.emit(f"cancel {p.root} {alg} {workers} {f2h(mf)} {box} {si} {k} 30")
                        stats["asan_injections"] += 1
            aprogs.append(q)
        env = dict(os.environ, ASAN_OPTIONS="detect_leaks=0:halt_on_error=1:exitcode=99:allocator_may_return_null=1:alloc_dealloc_mismatch=0")
        import subprocess
        from concurrent.futures import ThreadPoolExecutor

        def one(q):
            try:
                r = subprocess.run([exe_a], input=q.text(), stdout=subprocess.PIPE, stderr=subprocess.PIPE, text=True,
                                   errors="replace", timeout=1800 if not quick else 300, env=env)
                return q, r.returncode, r.stderr
            except subprocess.TimeoutExpired:
                return q, -1, "TIMEOUT"
        if hskip2:
            aprogs = aprogs[:2]          # cancelled renders already hang: do not wait for every program's timeout
        with ThreadPoolExecutor(max_workers=6) as ex:
            for q, rc, err in ex.map(one, aprogs):
                if "ERROR: AddressSanitizer" in err:
                    kind = (re.search(r"ERROR: AddressSanitizer: (\S+)", err) or [None, "?"])[1]
                    ck.violation("asan:" + kind, "AddressSanitizer reports a memory error in a cancelled multi-worker render "
                                 "(the cancelling worker was held for 30 ms in the middle of its iteration)",
                                 {"program": q.text()[:3000], "report": err[err.find("ERROR: AddressSanitizer"):][:3000]})
                elif rc != 0:
                    ck.violation("crash", f"a cancelled render crashed or hung under AddressSanitizer (rc={rc})",
                                 {"program": q.text()[:3000], "stderr": err[-2000:]})
    if not proof["ok"]:
        ck.violation("proof", "Properties_C11.v no longer checks", {"theorem_or_file": proof["file"],
                     "log": proof["log"][-3000:]}, no_input=True)
    ck.coverage.update(stats)
    ck.coverage["evaluations"] = stats["uncancelled"] + stats["injections"]
    ck.coverage["traces_validated_against_impl"] = stats["single_worker_identity"]
    ck.coverage["samples"] = samples
    ck.coverage["rule"] = ("closed CSG solids x {DC, simplex, hybrid} x workers x min_feature; for every site visited, cancellation at "
                           "k in {1, c/2, c-1, c, random}, and at EVERY k when one worker visits the site at most 12 (60 thorough) times")
    ck.coverage["trusted_base"] += [
        "LIBFIVE_VERIF schedule-point hook (commit 64013ba) and harness/expr.cpp's cancel command",
        "with several workers the OS decides the interleaving around the injection point; the theorems cover all orders",
    ]
    ck.assumptions += ["'bounded time' is checked as a 20 s bound per call plus a watchdog; the theorem is: at most one loop body per worker after the flag is set"]
    ck.finish()
