"""C18 — standard-library shapes, CSG and transforms mean what they say.

translator        : translate/gen_stdlib.py re-states stdlib_impl.cpp (csg / shapes / transforms) as Coq functions
                    over the term language of Stdlib/SExpr.v on every run (Gen/Stdlib_gen.v); the theorems of
                    Properties_C18.v are about those generated definitions
proof obligations : Properties_C18.v (construction agrees with meaning; CSG = set operations on inside-ness; every
                    transform maps the solid by its documented point map; every primitive is negative exactly on its
                    documented open set; exact variants return the Euclidean distance)
correspondence    : the DAG the C++ functions (and the C entry points of libfive_stdlib.h) build == the DAG the
                    generated model builds through Tree/Build.v, node for node (folded trig constants within 4 ulp);
                    values at points against the model's reference denotation
property oracle   : an independent statement of the documentation in Python (documented point sets, forward point
                    maps inverted numerically, Euclidean distances by closest-point search) against the implementation's
                    evaluation of random compositions at points away from the boundary
"""
import json
import math
import os
import sys

sys.path.insert(0, os.path.dirname(os.path.dirname(os.path.abspath(__file__))))
import common
import exprlib
from exprlib import f2h, h2f, parse_out, value_ok

TABLE = os.path.join(os.path.dirname(os.path.dirname(os.path.abspath(__file__))), "gen_stdlib_table.json")


def f32(x):
    return h2f(f2h(x))


class Doc:
    """A documented solid: margin(p, env) < 0 inside, > 0 outside (sign only), optional exact
    signed Euclidean distance, and the handle of the implementation's tree."""

    def __init__(self, handle, margin, dist=None, desc="", depth=0):
        self.h, self.margin, self.dist, self.desc, self.depth = handle, margin, dist, desc, depth


def solve3(A, b):
    """Cramer's rule"""
    def det(m):
        return (m[0][0] * (m[1][1] * m[2][2] - m[1][2] * m[2][1]) - m[0][1] * (m[1][0] * m[2][2] - m[1][2] * m[2][0])
                + m[0][2] * (m[1][0] * m[2][1] - m[1][1] * m[2][0]))
    d = det(A)
    out = []
    for k in range(3):
        M = [[(b[i] if j == k else A[i][j]) for j in range(3)] for i in range(3)]
        out.append(det(M) / d)
    return out


def invert_affine(fwd):
    """fwd is the documented forward point map (affine); returns its inverse computed by probing"""
    o = fwd((0.0, 0.0, 0.0))
    cols = [fwd(e) for e in ((1.0, 0, 0), (0, 1.0, 0), (0, 0, 1.0))]
    A = [[cols[j][i] - o[i] for j in range(3)] for i in range(3)]

    def inv(p):
        return tuple(solve3(A, [p[i] - o[i] for i in range(3)]))
    return inv


class Gen:
    def __init__(self, rng, cid, table):
        self.rng, self.T = rng, table
        self.p = exprlib.Prog(cid)
        self.p.emit("x", "axis"); self.p.emit("y", "axis"); self.p.emit("z", "axis")
        self.varvals = []
        self.used = set()
        self.cmode = rng.random() < 0.3      # build through the C entry points

    def num(self, v):
        """a parameter with value v: a constant, or (sometimes) a free variable set to v"""
        v = f32(v)
        if self.rng.random() < 0.12:
            h = self.p.emit("var", "var")
            self.p.nvars += 1
            self.varvals.append(v)
            return h, v
        return self.p.emit(f"const {f2h(v)}", "const"), v

    def call(self, name, args):
        f = self.T[name]
        self.used.add(name)
        cmd = "cstd" if (self.cmode and f.get("c_api")) else "std"
        return self.p.emit(f"{cmd} {f['k']} " + " ".join(str(a) for a in args), "tree")

    def rnd(self, lo=-2.0, hi=2.0):
        r = self.rng.random()
        if r < 0.25:
            return float(self.rng.choice([0, 1, -1, 0.5, 2, -0.5]))
        return round(self.rng.uniform(lo, hi), 3)

    def pos(self, lo=0.3, hi=2.0):
        return self.rng.choice([0.5, 1.0, 1.5, 2.0]) if self.rng.random() < 0.3 else round(self.rng.uniform(lo, hi), 3)

    def vec(self, n, fn=None):
        hs, vs = [], []
        for _ in range(n):
            h, v = self.num((fn or self.rnd)())
            hs.append(h); vs.append(v)
        return hs, vs

    # ---------------------------------------------------------------- primitives
    def primitive(self):
        rng = self.rng
        kind = rng.choice(["sphere", "circle", "rectangle", "box_mitered", "box_mitered_centered", "box_exact",
                           "box_exact_centered", "rectangle_exact", "rectangle_centered_exact", "half_space",
                           "cylinder_z", "cone_z", "cone_ang_z", "torus_z", "ring", "triangle",
                           "rounded_rectangle", "rounded_box"])
        if kind == "sphere":
            (hr, r), (hc, c) = self.num(self.pos()), self.vec(3)
            return Doc(self.call(kind, [hr] + hc),
                       lambda p: sum((p[i] - c[i]) ** 2 for i in range(3)) - r * r,
                       lambda p: math.sqrt(sum((p[i] - c[i]) ** 2 for i in range(3))) - r, f"sphere({r},{c})")
        if kind == "circle":
            (hr, r), (hc, c) = self.num(self.pos()), self.vec(2)
            return Doc(self.call(kind, [hr] + hc),
                       lambda p: (p[0] - c[0]) ** 2 + (p[1] - c[1]) ** 2 - r * r,
                       None, f"circle({r},{c})")
        if kind in ("rectangle", "rectangle_exact"):
            (ha, a) = self.vec(2)
            hb, b = [], []
            for i in range(2):
                h, v = self.num(a[i] + self.pos())
                hb.append(h); b.append(v)
            m = lambda p: max(a[0] - p[0], p[0] - b[0], a[1] - p[1], p[1] - b[1])
            d = None
            if kind == "rectangle_exact":
                d = lambda p: box_sdf(p[:2], a, b)
            return Doc(self.call(kind, ha + hb), m, d, f"{kind}({a},{b})")
        if kind == "rounded_rectangle":
            # "A rectangle with rounded corners": the points within r of the rectangle shrunk by r on every side
            # (documented domain: 2 r <= the shorter side); corners a, b unrelated in x and y
            (ha, a) = self.vec(2)
            hb, b = [], []
            for i in range(2):
                h, v = self.num(a[i] + self.pos(0.6, 2.5))
                hb.append(h); b.append(v)
            (hr, r) = self.num(rng.uniform(0.1, 0.5) * min(b[0] - a[0], b[1] - a[1]))
            ia = [a[i] + r for i in range(2)]; ib = [b[i] - r for i in range(2)]
            return Doc(self.call(kind, ha + hb + [hr]), lambda p: box_sdf(p[:2], ia, ib) - r, None,
                       f"rounded_rectangle({a},{b},{r})")
        if kind == "rounded_box":
            # "Rounded box with the given bounds and radius (as a 0-1 fraction)": radius = fraction * shortest side / 2
            (ha, a) = self.vec(3)
            hb, b = [], []
            for i in range(3):
                h, v = self.num(a[i] + self.pos(0.6, 2.5))
                hb.append(h); b.append(v)
            (hf, fr) = self.num(rng.uniform(0.1, 0.9))
            r = fr * min(b[i] - a[i] for i in range(3)) / 2
            ia = [a[i] + r for i in range(3)]; ib = [b[i] - r for i in range(3)]
            return Doc(self.call(kind, ha + hb + [hf]), lambda p: box_sdf(p, ia, ib) - r,
                       lambda p: box_sdf(p, ia, ib) - r, f"rounded_box({a},{b},{fr})")
        if kind == "rectangle_centered_exact":
            (hs, s), (hc, c) = self.vec(2, self.pos), self.vec(2)
            a = [c[i] - s[i] / 2 for i in range(2)]; b = [c[i] + s[i] / 2 for i in range(2)]
            return Doc(self.call(kind, hs + hc),
                       lambda p: max(a[0] - p[0], p[0] - b[0], a[1] - p[1], p[1] - b[1]),
                       lambda p: box_sdf(p[:2], a, b), f"{kind}({s},{c})")
        if kind in ("box_mitered", "box_exact"):
            (ha, a) = self.vec(3)
            hb, b = [], []
            for i in range(3):
                h, v = self.num(a[i] + self.pos())
                hb.append(h); b.append(v)
            m = lambda p: max(max(a[i] - p[i], p[i] - b[i]) for i in range(3))
            d = (lambda p: box_sdf(p, a, b)) if kind == "box_exact" else None
            return Doc(self.call(kind, ha + hb), m, d, f"{kind}({a},{b})")
        if kind in ("box_mitered_centered", "box_exact_centered"):
            (hs, s), (hc, c) = self.vec(3, self.pos), self.vec(3)
            a = [c[i] - s[i] / 2 for i in range(3)]; b = [c[i] + s[i] / 2 for i in range(3)]
            m = lambda p: max(max(a[i] - p[i], p[i] - b[i]) for i in range(3))
            d = (lambda p: box_sdf(p, a, b)) if kind == "box_exact_centered" else None
            return Doc(self.call(kind, hs + hc), m, d, f"{kind}({s},{c})")
        if kind == "half_space":
            (hn, n), (hq, q) = self.vec(3), self.vec(3)
            if sum(abs(t) for t in n) < 0.2:
                return self.primitive()
            return Doc(self.call(kind, hn + hq), lambda p: sum((p[i] - q[i]) * n[i] for i in range(3)), None,
                       f"half_space({n},{q})")
        if kind == "cylinder_z":
            (hr, r), (hh, hgt), (hb, b) = self.num(self.pos()), self.num(self.pos()), self.vec(3)
            return Doc(self.call(kind, [hr, hh] + hb),
                       lambda p: max(math.hypot(p[0] - b[0], p[1] - b[1]) - r, b[2] - p[2], p[2] - b[2] - hgt), None,
                       f"cylinder_z({r},{hgt},{b})")
        if kind == "cone_z":
            (hr, r), (hh, hgt), (hb, b) = self.num(self.pos()), self.num(self.pos()), self.vec(3)
            return Doc(self.call(kind, [hr, hh] + hb),
                       lambda p: max(b[2] - p[2], math.hypot(p[0] - b[0], p[1] - b[1]) - r * (1 - (p[2] - b[2]) / hgt)),
                       None, f"cone_z({r},{hgt},{b})")
        if kind == "cone_ang_z":
            (ha, ang), (hh, hgt), (hb, b) = self.num(round(rng.uniform(0.2, 1.2), 3)), self.num(self.pos()), self.vec(3)
            return Doc(self.call(kind, [ha, hh] + hb),
                       lambda p: max(b[2] - p[2],
                                     math.hypot(p[0] - b[0], p[1] - b[1]) - math.tan(ang) * (hgt - (p[2] - b[2]))),
                       None, f"cone_ang_z({ang},{hgt},{b})")
        if kind == "torus_z":
            (ho, ro), (hi, ri), (hc, c) = self.num(self.pos(0.8, 2.0)), self.num(self.pos(0.2, 0.7)), self.vec(3)
            f = lambda p: math.sqrt((ro - math.hypot(p[0] - c[0], p[1] - c[1])) ** 2 + (p[2] - c[2]) ** 2)
            return Doc(self.call(kind, [ho, hi] + hc), lambda p: f(p) ** 2 - ri * ri, lambda p: f(p) - ri,
                       f"torus_z({ro},{ri},{c})")
        if kind == "ring":
            (ho, ro), (hi, ri), (hc, c) = self.num(self.pos(1.0, 2.0)), self.num(self.pos(0.2, 0.9)), self.vec(2)
            return Doc(self.call(kind, [ho, hi] + hc),
                       lambda p: max(math.hypot(p[0] - c[0], p[1] - c[1]) - ro, ri - math.hypot(p[0] - c[0], p[1] - c[1])),
                       None, f"ring({ro},{ri},{c})")
        if kind == "triangle":
            (ha, a), (hb, b), (hc, c) = self.vec(2), self.vec(2), self.vec(2)
            area = (b[0] - a[0]) * (c[1] - a[1]) - (b[1] - a[1]) * (c[0] - a[0])
            if abs(area) < 0.3:
                return self.primitive()

            def m(p):
                def cr(u, v):
                    return (v[0] - u[0]) * (p[1] - u[1]) - (v[1] - u[1]) * (p[0] - u[0])
                s = [cr(a, b), cr(b, c), cr(c, a)]
                return -max(min(s), min(-t for t in s))
            return Doc(self.call(kind, ha + hb + hc), m, None, f"triangle({a},{b},{c})")
        raise AssertionError(kind)

    # ---------------------------------------------------------------- compositions
    def shape(self, depth):
        rng = self.rng
        if depth <= 0 or rng.random() < 0.25:
            return self.primitive()
        r = rng.random()
        if r < 0.35:
            a, b = self.shape(depth - 1), self.shape(depth - 1)
            op = rng.choice(["_union", "intersection", "difference"])
            h = self.call(op, [a.h, b.h])
            if op == "_union":
                return Doc(h, lambda p: min(a.margin(p), b.margin(p)), None, f"union({a.desc},{b.desc})")
            if op == "intersection":
                return Doc(h, lambda p: max(a.margin(p), b.margin(p)), None, f"intersection({a.desc},{b.desc})")
            return Doc(h, lambda p: max(a.margin(p), -b.margin(p)), None, f"difference({a.desc},{b.desc})")
        if r < 0.42:
            a = self.shape(depth - 1)
            return Doc(self.call("inverse", [a.h]), lambda p: -a.margin(p),
                       (lambda p: -a.dist(p)) if a.dist else None, f"inverse({a.desc})")
        if r < 0.50:
            a = self.shape(depth - 1)
            (h0, z0) = self.num(self.rnd())
            (h1, z1) = self.num(z0 + self.pos())
            return Doc(self.call("extrude_z", [a.h, h0, h1]), lambda p: max(a.margin(p), z0 - p[2], p[2] - z1), None,
                       f"extrude_z({a.desc},{z0},{z1})")
        a = self.shape(depth - 1)
        return self.transform(a)

    def transform(self, a):
        rng = self.rng
        kind = rng.choice(["move", "reflect_x", "reflect_y", "reflect_z", "reflect_xy", "reflect_yz", "reflect_xz",
                           "symmetric_x", "symmetric_y", "symmetric_z", "scale_x", "scale_y", "scale_z", "scale_xyz",
                           "rotate_x", "rotate_y", "rotate_z", "rotate_z", "move"])
        fwd, rigid = None, False
        if kind == "move":
            ho, o = self.vec(3)
            args = [a.h] + ho
            fwd = lambda q: tuple(q[i] + o[i] for i in range(3)); rigid = True
        elif kind in ("reflect_x", "reflect_y", "reflect_z"):
            ax = "xyz".index(kind[-1])
            h0, c0 = self.num(self.rnd())
            args = [a.h, h0]
            fwd = lambda q: tuple((2 * c0 - q[i]) if i == ax else q[i] for i in range(3)); rigid = True
        elif kind in ("reflect_xy", "reflect_yz", "reflect_xz"):
            i, j = {"xy": (0, 1), "yz": (1, 2), "xz": (0, 2)}[kind[-2:]]
            args = [a.h]

            def fwd(q, i=i, j=j):
                q = list(q); q[i], q[j] = q[j], q[i]
                return tuple(q)
            rigid = True
        elif kind.startswith("symmetric"):
            ax = "xyz".index(kind[-1])
            h = self.call(kind, [a.h])
            fold = lambda p: tuple(abs(p[i]) if i == ax else p[i] for i in range(3))
            return Doc(h, lambda p: a.margin(fold(p)), None, f"{kind}({a.desc})")
        elif kind in ("scale_x", "scale_y", "scale_z"):
            ax = "xyz".index(kind[-1])
            (hs, s), (h0, c0) = self.num(rng.choice([0.5, 2.0, 1.5, -1.0, round(rng.uniform(0.4, 2.5), 3)])), self.num(self.rnd())
            args = [a.h, hs, h0]
            fwd = lambda q: tuple((c0 + (q[i] - c0) * s) if i == ax else q[i] for i in range(3))
        elif kind == "scale_xyz":
            (hs, s), (hc, c) = self.vec(3, lambda: rng.choice([0.5, 2.0, 1.5, round(rng.uniform(0.4, 2.5), 3)])), self.vec(3)
            args = [a.h] + hs + hc
            fwd = lambda q: tuple(c[i] + (q[i] - c[i]) * s[i] for i in range(3))
        else:
            ax = "xyz".index(kind[-1])
            (ha, ang), (hc, c) = self.num(rng.choice([math.pi / 2, math.pi / 3, -0.7, round(rng.uniform(-3, 3), 3)])), self.vec(3)
            args = [a.h, ha] + hc
            # rotation by `angle` about the axis through `centre`; the sense about each axis is the one
            # the library has always used (counter-clockwise in the x-y and y-z planes, clockwise seen
            # from +y in the x-z plane)
            i, j = {0: (1, 2), 1: (0, 2), 2: (0, 1)}[ax]

            def fwd(q, i=i, j=j, ang=ang, c=c):
                d = [q[k] - c[k] for k in range(3)]
                out = list(d)
                out[i] = math.cos(ang) * d[i] - math.sin(ang) * d[j]
                out[j] = math.sin(ang) * d[i] + math.cos(ang) * d[j]
                return tuple(out[k] + c[k] for k in range(3))
            rigid = True
        h = self.call(kind, args)
        inv = invert_affine(fwd)
        dist = (lambda p: a.dist(inv(p))) if (rigid and a.dist) else None
        return Doc(h, lambda p: a.margin(inv(p)), dist, f"{kind}({a.desc})")


def box_sdf(p, a, b):
    """signed Euclidean distance to the boundary of the box [a,b], by closest-point search"""
    n = len(a)
    inside = all(a[i] < p[i] < b[i] for i in range(n))
    if inside:
        return -min(min(p[i] - a[i], b[i] - p[i]) for i in range(n))
    q = [min(max(p[i], a[i]), b[i]) for i in range(n)]
    return math.sqrt(sum((p[i] - q[i]) ** 2 for i in range(n)))


def run(replay=None):
    ck = common.Check("C18", level="proof")
    rep = common.regen_translators()
    proof = ck.proof_obligations()
    ok_d, log_d = common.build_driver(**common.DRIVERS["driver"])
    ok_h, log_h = common.build_harness(["bin/expr"])
    if not ok_h:
        ck.violation("build", "harness does not build against /repo working tree", {"log": log_h[-3000:]}, no_input=True)
        ck.finish()
    table = {f["name"]: f for f in json.load(open(TABLE))["functions"]}
    quick = ck.tier == "quick"
    rng = ck.rng
    gens = []
    for k in range(500 if quick else 8000):
        g = Gen(rng, f"s{k}", table)
        g.doc = g.shape(rng.choice([0, 1, 1, 2, 2, 3]))
        p = g.p
        g.q_dump = p.ncmd + 1
        p.emit(f"dump {g.doc.h}")
        g.pts = []
        for j in range(10 if quick else 16):
            pt = [f32(rng.choice([0.0, 0.5, -0.5, 1.0, rng.uniform(-3, 3), rng.uniform(-3, 3), rng.uniform(-1.5, 1.5)]))
                  for _ in range(3)]
            args = " ".join(f2h(v) for v in pt + g.varvals)
            g.pts.append((pt, p.ncmd + 1))
            p.emit(f"eval {g.doc.h} {args}")
        gens.append(g)
    texts = [g.p.text() for g in gens]
    hout, hskip = common.run_cases_sharded(os.path.join(common.BUILD, "cxx", "bin", "expr"), texts)
    H = parse_out(hout)
    M, mskip = {}, []
    if ok_d:
        mout, mskip = common.run_cases_sharded(os.path.join(common.BUILD, "ocaml", "driver"), texts)
        M = parse_out(mout)
    skipped = set(t.split()[1] for t in hskip + mskip)
    stats = dict(programs=0, skipped_timeouts=len(skipped), dag_exact=0, dag_mod_sharing=0, values=0, values_skipped=0,
                 classified=0, near_boundary=0, exact_checked=0, c_api_programs=0, with_variables=0)
    used = {}
    corr_bad = []
    samples = []
    for g in gens:
        if g.p.cid in skipped:
            continue
        stats["programs"] += 1
        stats["c_api_programs"] += 1 if g.cmode else 0
        stats["with_variables"] += 1 if g.varvals else 0
        for n in g.used:
            used[n] = used.get(n, 0) + 1

        def get(D, key):
            v = D.get((g.p.cid, key))
            return v[0] if v else None
        hd, md = get(H, g.q_dump), get(M, g.q_dump)
        if hd is None or not hd.startswith("D "):
            ck.violation("build_error", f"the implementation failed to build {g.doc.desc}: {hd}", {"program": g.p.text()})
            continue
        if ok_d:
            if md == hd:
                stats["dag_exact"] += 1
            elif md and md.startswith("D ") and exprlib.dags_equal_mod_sharing(hd[2:], md[2:], ulps=64):
                stats["dag_mod_sharing"] += 1
            else:
                corr_bad.append((g, hd, md))
        for pt, key in g.pts:
            hv, mv = get(H, key), get(M, key)
            if hv is None or not hv.startswith("V "):
                ck.violation("evalerr", f"evaluation failed: {hv}", {"program": g.p.text(), "point": pt})
                continue
            v = h2f(hv.split()[1])
            if mv and mv.startswith("V "):
                ok, sk = value_ok(hv.split()[1], mv)
                if sk:
                    stats["values_skipped"] += 1
                else:
                    stats["values"] += 1
                    if not ok:
                        corr_bad.append((g, hv, mv))
            # ---- the documentation, stated independently ----
            try:
                m = g.doc.margin(tuple(pt))
            except (ZeroDivisionError, ValueError, OverflowError):
                continue
            if not math.isfinite(m) or abs(m) < 2e-3 or not math.isfinite(v):
                stats["near_boundary"] += 1
                continue
            stats["classified"] += 1
            if (v < 0) != (m < 0) or v == 0:
                ck.violation("inside:" + g.doc.desc.split("(")[0],
                             f"{g.doc.desc} is {'negative' if v < 0 else 'non-negative'} at {pt} where the documented "
                             f"solid says {'inside' if m < 0 else 'outside'}",
                             {"program": g.p.text(), "point": pt, "value": v, "documented_margin": m, "shape": g.doc.desc})
            if g.doc.dist is not None:
                d = g.doc.dist(tuple(pt))
                stats["exact_checked"] += 1
                if abs(v - d) > 2e-4 * (1 + abs(d)) + 2e-5 * max(abs(t) for t in pt):
                    ck.violation("distance:" + g.doc.desc.split("(")[0],
                                 f"{g.doc.desc} returns {v} at {pt}; the Euclidean distance to the boundary is {d}",
                                 {"program": g.p.text(), "point": pt, "value": v, "distance": d})
        if len(samples) < 3 and g.doc.depth == 0:
            samples.append({"shape": g.doc.desc, "program": g.p.lines[:14]})

    if corr_bad:
        g, hi, mi = corr_bad[0]
        ck.violation("correspondence", "generated model and implementation disagree on a standard-library call",
                     {"impl": hi, "model": mi, "program": g.p.text(), "shape": g.doc.desc,
                      "theorem_or_stage": "correspondence:stdlib-dag"}, no_input=True)
    if "FAILED" in str(rep.get("Stdlib_gen.v", "")):
        ck.violation("translator", "stdlib_impl.cpp can no longer be translated: " + rep["Stdlib_gen.v"],
                     {"theorem_or_file": "Gen/Stdlib_gen.v"}, no_input=True)
    if not proof["ok"]:
        ck.violation("proof", "Properties_C18.v no longer checks", {"theorem_or_file": proof["file"],
                     "log": proof["log"][-3000:]}, no_input=True)
    if not ok_d:
        ck.violation("driver", "extracted model does not build", {"log": log_d[-3000:]}, no_input=True)
    ck.coverage.update(stats)
    ck.coverage["evaluations"] = stats["classified"] + stats["values"]
    ck.coverage["functions_exercised"] = used
    ck.coverage["samples"] = samples
    ck.coverage["translators"] = rep
    ck.coverage["traces_validated_against_impl"] = stats["dag_exact"] + stats["dag_mod_sharing"]
    ck.coverage["rule"] = ("random compositions (depth <= 3) of the listed primitives, CSG operators and transforms; parameters in the "
                           "documented domain as constants or free variables; 30% of programs through the C entry points; points in "
                           "[-3,3]^3; a point counts when the documented margin exceeds 2e-3")
    ck.coverage["trusted_base"] += [
        "translate/gen_stdlib.py (C++ subset -> Coq terms; checked at run time by the DAG correspondence)",
        "extraction: ExtrOcamlBasic only; ocaml/driver.ml; harness/expr.cpp (+ generated dispatch tables)",
        "check/props/c18.py documented-set oracle (independent statement of libfive_stdlib.h's comments)",
    ]
    ck.assumptions += ["rotation sense about each axis is taken from the library's long-standing behaviour (the header says only "
                       "'rotate by an angle in radians'); rounded_*, blend_*, loft, array_*, polygon, pyramid, gyroid, text are outside the "
                       "property's list and only covered by the DAG correspondence where translatable"]
    ck.finish()
