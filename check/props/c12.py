"""C12 — library calls leave the caller's floating-point environment intact (partial).

proof obligations : Properties_C12.v (propagation of the per-primitive table to all call trees / histories)
correspondence    : the per-primitive table cannot be derived from Boost's templates by a translator; it is
                    validated on every run: every opcode x {point, batch, deriv, derivs, feature, inside,
                    jacobian, interval, interval+push, constant folding} x input class x 4 rounding modes, plus
                    optimise / print / serialise / C API eval / heightmap / 3 meshers / contours / solver
property oracle   : fegetround(), MXCSR control bits (rounding, FTZ/DAZ, masks) and the x87 control word
                    before vs after each call
"""
import os
import sys

sys.path.insert(0, os.path.dirname(os.path.dirname(os.path.abspath(__file__))))
import common


def run(replay=None):
    ck = common.Check("C12", level="proof")
    rep = common.regen_translators()      # Gen/IntervalEnv_gen.v: rounding-mode events of every path of every Interval operation
    proof = ck.proof_obligations()
    ck.coverage["translators"] = {k: v for k, v in rep.items() if "Env" in k or v != "ok"}
    ok_h, log_h = common.build_harness(["bin/fpenv"])
    if not ok_h:
        ck.violation("build", "harness does not build against /repo working tree", {"log": log_h[-3000:]}, no_input=True)
        ck.finish()
    quick = ck.tier == "quick"
    rc, out, err = common.run_prog(os.path.join(common.BUILD, "cxx", "bin", "fpenv"), "", timeout=1500) \
        if False else (0, "", "")
    import subprocess
    p = subprocess.run([os.path.join(common.BUILD, "cxx", "bin", "fpenv"), "1" if quick else "0"],
                       stdout=subprocess.PIPE, stderr=subprocess.PIPE, text=True, errors="replace", timeout=2400)
    total = bad = 0
    sites = {}
    for l in p.stdout.splitlines():
        if l.startswith("BAD "):
            site = l.split()[1].split("=", 1)[1]
            key = site.split("(")[0]
            sites.setdefault(key, []).append(l)
        elif l.startswith("T "):
            f = dict(x.split("=") for x in l.split()[1:])
            total, bad = int(f["total"]), int(f["bad"])
    if p.returncode != 0 or total == 0:
        ck.violation("crash", f"harness crashed (rc={p.returncode})", {"stderr": p.stderr[-2000:]})
    for key, ls in sites.items():
        ck.violation("leak:" + key, f"call leaves the floating-point environment changed ({len(ls)} input classes / modes)",
                     {"site": key, "first": ls[0], "replay_cmd": ".build/cxx/bin/fpenv 1 | grep BAD"})
    if not proof["ok"]:
        ck.violation("proof", "Properties_C12.v no longer checks",
                     {"theorem_or_file": proof["file"], "log": proof["log"][-3000:]}, no_input=True)
    ck.coverage["evaluations"] = total
    ck.coverage["distinct_nontrivial"] = total // 4     # each probe is repeated in the 4 rounding modes
    ck.coverage["rule"] = ("exhaustive over 26 opcodes x 10 evaluator entry kinds x 12 input values x partner values x 4 rounding "
                           "modes + 13 entry points x 2 shapes x 4 modes; a probe is non-trivial when it runs under a "
                           "non-default rounding mode or reaches a Boost interval primitive; distinct = probes / 4 modes")
    ck.coverage["samples"] = ["OP_NTH_ROOT^3:point(-8,-8) mode=FE_UPWARD", "mesh_dc:weird mode=FE_DOWNWARD",
                              "OP_MOD:fold(2.5,0) mode=FE_TOWARDZERO"]
    ck.coverage["exhaustive"] = True
    ck.coverage["traces_validated_against_impl"] = total
    ck.coverage["trusted_base"] += ["harness/fpenv.cpp reads fegetround / MXCSR / x87 control word",
                                    "Boost.Interval rounding policies and the hardware state are observed, not modelled"]
    ck.assumptions.append("partial: the theorem only propagates the per-primitive table; the table itself is validated, not proved")
    ck.finish()
