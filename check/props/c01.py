"""C01 — point evaluation computes the function the expression denotes.

proof obligations : Properties_C01.v (batch_pointwise for every number type; deck / tape
                    correctness; composition with C07)
correspondence    : deck layout exact *given the implementation's own optimised DAG*
                    (so the stage is independent of address order); values within the
                    rounding tolerance of the model's binary32 pipeline
property oracle   : ArrayEvaluator::value against the reference denotation (doubles, on the
                    un-optimised flattened tree) at stable points; the same point in every
                    slot of batch sizes 1..256 must give the bit-identical value
"""
import os
import sys

sys.path.insert(0, os.path.dirname(os.path.dirname(os.path.abspath(__file__))))
import common
import exprlib
from exprlib import f2h, h2f, parse_out, value_ok


def gen_cases(ck, n, lo, hi):
    progs = []
    for k in range(n):
        safe = ck.rng.random() < 0.85
        p = exprlib.gen_program(ck.rng, f"e{k}", ck.rng.randint(lo, hi), safe=safe, remap_p=0.10, apply_p=0.08, var_p=0.10)
        root = p.root
        p.safe = safe
        p.q = {"deck": p.ncmd + 1}
        p.emit(f"deck {root}")
        p.pts = []
        for j in range(6):
            pt = [ck.rng.choice([0.0, 1.0, -1.0, 0.5, ck.rng.uniform(-2, 2), ck.rng.uniform(-3, 3)]) for _ in range(3)]
            vv = [ck.rng.uniform(-2, 2) for _ in range(p.nvars)]
            p.pts.append((pt, vv, p.ncmd + 1))
            p.emit(f"eval {root} " + " ".join(f2h(v) for v in pt + vv))
        progs.append(p)
    return progs


def run(replay=None):
    ck = common.Check("C01", level="proof")
    rep = common.regen_translators()
    proof = ck.proof_obligations()
    ok_d, log_d = common.build_driver(**common.DRIVERS["driver"])
    ok_h, log_h = common.build_harness(["bin/expr"])
    if not ok_h:
        ck.violation("build", "harness does not build against /repo working tree", {"log": log_h[-3000:]}, no_input=True)
        ck.finish()
    quick = ck.tier == "quick"
    progs = gen_cases(ck, 500 if quick else 8000, 4, 40 if quick else 70)
    exe_h = os.path.join(common.BUILD, "cxx", "bin", "expr")
    exe_m = os.path.join(common.BUILD, "ocaml", "driver")
    texts = [p.text() for p in progs]
    hout, hskip = common.run_cases_sharded(exe_h, texts)
    H = parse_out(hout)
    M, mskip = {}, []
    if ok_d:
        mout, mskip = common.run_cases_sharded(exe_m, texts)
        M = parse_out(mout)
    skipped = set(t.split()[1] for t in hskip + mskip)
    progs = [p for p in progs if p.cid not in skipped]

    # stage 2: the model's deck from the implementation's own optimised DAG
    stage2 = []
    for p in progs:
        for line in H.get((p.cid, p.q["deck"]), []):
            if line.startswith("OD "):
                stage2.append(f"case {p.cid}\ndeckof {line[3:]}\nend\n")
    M2 = {}
    if ok_d and stage2:
        m2out, _ = common.run_cases_sharded(exe_m, stage2)
        M2 = parse_out(m2out)

    stats = dict(programs=len(progs), skipped_timeouts=len(skipped), deck_exact=0, values=0,
                 values_skipped=0, batch_points=0, model_f32_close=0)
    corr_bad = []
    nontrivial = set()
    samples = []
    for p in progs:
        hk = [l for l in H.get((p.cid, p.q["deck"]), []) if l.startswith("K ")]
        mk = [l for l in M2.get((p.cid, 1), []) if l.startswith("K ")]
        od = [l for l in H.get((p.cid, p.q["deck"]), []) if l.startswith("OD ")]
        if hk and mk and hk[0] == mk[0]:
            stats["deck_exact"] += 1
        else:
            corr_bad.append((p, "deck", hk[:1], mk[:1]))
        for pt, vv, cmd in p.pts:
            hv = H.get((p.cid, cmd), [None])[0]
            mv = M.get((p.cid, cmd), [None])[0]
            if hv is None or not hv.startswith("V "):
                ck.violation("evalerr", f"evaluation failed: {hv}", {"program": p.text()})
                continue
            f = hv.split()
            bb = int(f[2].split("=")[1])
            stats["batch_points"] += 30
            if bb:
                ck.violation("batch", "a point evaluates differently depending on batch size / slot",
                             {"program": p.text(), "point": pt, "vars": vv, "detail": hv})
            if mv is None or not mv.startswith("V "):
                continue
            ok, sk = value_ok(f[1], mv)
            if sk:
                stats["values_skipped"] += 1
                continue
            stats["values"] += 1
            if common.ulp_diff32(f[1], mv.split()[1]) <= 64:
                stats["model_f32_close"] += 1
            if not ok:
                ck.violation("value", "ArrayEvaluator::value differs from the reference denotation at a stable point",
                             {"program": p.text(), "point": pt, "vars": vv, "impl": f[1], "model": mv})
        if od:
            n, ops = exprlib.dump_stats(od[0][3:])
            if n >= 5 and len(ops) >= 2:
                nontrivial.add(exprlib.ac_normal(od[0][3:]))
        if len(samples) < 3 and hk:
            samples.append({"program": p.lines[:10], "deck": hk[0][:300]})

    if corr_bad:
        p, nm, hi, mi = corr_bad[0]
        ck.violation("correspondence", f"model and implementation disagree at stage {nm}",
                     {"stage": nm, "impl": hi, "model": mi, "program": p.text(),
                      "theorem_or_stage": f"correspondence:{nm}"}, no_input=True)
    if not proof["ok"]:
        ck.violation("proof", "Properties_C01.v no longer checks",
                     {"theorem_or_file": proof["file"], "log": proof["log"][-3000:]}, no_input=True)
    if not ok_d:
        ck.violation("driver", "extracted model does not build", {"log": log_d[-3000:]}, no_input=True)
    stats["corr_mismatch"] = len(corr_bad)
    ck.coverage.update(stats)
    ck.coverage["evaluations"] = stats["values"] + stats["batch_points"] + stats["programs"]
    ck.coverage["distinct_nontrivial"] = len(nontrivial)
    ck.coverage["rule"] = ("seeded random build programs evaluated at 6 points x 10 batch sizes x 3 slot positions; "
                           "non-trivial = optimised DAG has >=5 nodes and >=2 opcodes, distinct by AC-normal hash; "
                           "a point is stable if the reference is finite, intermediates < 1e6 and a 1e-6 perturbation "
                           "moves the reference by < 1e-3")
    ck.coverage["samples"] = samples
    ck.coverage["translators"] = rep
    ck.coverage["traces_validated_against_impl"] = stats["deck_exact"]
    ck.coverage["trusted_base"] += [
        "translate/gen_opcode.py; extraction (ExtrOcamlBasic only); ocaml/driver.ml (binary32 emulation); harness/expr.cpp",
        "modelled, not verified: IEEE rounding of each kernel, Eigen's vectorised transcendental kernels (compared with tolerance)",
    ]
    ck.assumptions += ["single-precision rounding of the rewritten expression vs the original is covered by the tolerance oracle, not by a theorem"]
    ck.finish()
