"""C14 — trees are immutable values that may be shared across threads.

proof obligations : Properties_C14.v (atomic reference counting under ALL interleavings of any number of threads: the
                    counter always equals the number of references held, no operation ever touches a freed node, the
                    node is freed at most once, exactly when the last reference is released, by the last decrement; the
                    non-atomic variant is refuted by a concrete interleaving)
property oracle   : harness/threads.cpp built with -fsanitize=thread: 2..16 threads copy / move / destroy, print,
                    optimise, flatten, remap, serialise shared DAGs and build evaluators from them, half of the scenarios
                    "cold" (no such call before the threads start, so function-local statics and lazy tables are first
                    touched concurrently); every ThreadSanitizer report is a violation, and every thread's answers
                    must equal the sequential answers
partial           : "no data race" over all interleavings is a statement about the C++ memory model and the whole code;
                    the theorem covers the reference count protocol, the absence of other shared mutable state is
                    established by ThreadSanitizer on sampled schedules
"""
import os
import re
import subprocess
import sys

sys.path.insert(0, os.path.dirname(os.path.dirname(os.path.abspath(__file__))))
import common
import cxxbuild

TSAN_FLAGS = ("-std=gnu++17 -O1 -g -fsanitize=thread -DNDEBUG -DLIBFIVE_VERIF -fPIC -w "
              "-DGIT_TAG='\"verif\"' -DGIT_REV='\"verif\"' -DGIT_BRANCH='\"verif\"'")


def run(replay=None):
    ck = common.Check("C14", level="proof")
    rep = common.regen_translators()      # Gen/Statics_gen.v: the inventory of static-storage objects, from the source
    proof = ck.proof_obligations()
    ck.coverage["translators"] = rep
    suspicious = []
    try:
        gen = open(os.path.join(common.COQ, "theories", "Gen", "Statics_gen.v")).read()
        entries = re.findall(r's_file := "([^"]*)"; s_name := "([^"]*)"; s_scope := "([^"]*)"; s_kind := ([^|]*?) \|\}', gen)
        ck.coverage["static_objects_inventoried"] = len(entries)
        ck.coverage["static_objects"] = ["%s:%s (%s) %s" % e for e in entries]
        allow = {("include/libfive/oracle/oracle_clause.hpp", "m"), ("include/libfive/tree/tree.hpp", "ptr")}
        for f, n, sc, k in entries:
            bad = (k.startswith("STable") and k != "STable true true") or (
                k.startswith("SLocalInit") and k != "SLocalInit false true") or k in ("SMutableMember false", "SOther")
            if bad and (f, n) not in allow:
                suspicious.append("%s: %s (%s) is %s" % (f, n, sc, k))
    except OSError:
        pass
    ok_h, log_h, _ = cxxbuild.build_variant("tsan", TSAN_FLAGS, ["bin/threads"])
    if not ok_h:
        ck.violation("build", "thread harness does not build against /repo working tree (ThreadSanitizer variant)",
                     {"log": log_h[-3000:]}, no_input=True)
        ck.finish()
    quick = ck.tier == "quick"
    rng = ck.rng
    exe = os.path.join(common.VERIF, ".build", "cxx-tsan", "bin", "threads")
    scen = []
    for k in range(48 if quick else 1200):
        scen.append((rng.randrange(1 << 20), rng.choice([2, 3, 4, 8, 16]), rng.choice([30, 60, 120])))
    lastref = [(rng.randrange(1 << 20), rng.choice([2, 2, 3, 4, 8]), 150 if quick else 400) for _ in range(16 if quick else 200)]
    stats = dict(scenarios=0, cold=0, operations=0, wrong_answers=0, tsan_reports=0, threads={},
                 lastref_scenarios=0, lastref_trials=0, lastref_nodes_freed=0)
    env = dict(os.environ, TSAN_OPTIONS="halt_on_error=0 exitcode=0 report_signal_unsafe=0")
    from concurrent.futures import ThreadPoolExecutor

    def one(chunk):
        text = "".join((f"coldxyz {c[1]}\n" if c[0] == "coldxyz" else
                        f"{'lastref' if len(c) == 4 else 'scenario'} {c[0]} {c[1]} {c[2]}\n") for c in chunk)
        try:
            p = subprocess.run([exe], input=text, stdout=subprocess.PIPE, stderr=subprocess.PIPE, text=True, errors="replace", timeout=1800, env=env)
            return chunk, p.stdout, p.stderr, p.returncode
        except subprocess.TimeoutExpired:
            return chunk, "", "TIMEOUT", -1
    chunks = [scen[i::8] for i in range(8)] + [[c + ("lastref",) for c in lastref[i::4]] for i in range(4)]
    # cold axis singletons: one fresh process per trial, its first command releases the threads that are the
    # first users of Tree::X() / Y() / Z()
    ncold = 24 if quick else 400
    chunks += [[("coldxyz", rng.choice([2, 4, 8, 16]))] for _ in range(ncold)]
    stats["coldxyz_processes"] = 0
    with ThreadPoolExecutor(max_workers=6) as ex:
        results = list(ex.map(one, chunks))
    seen = set()
    for chunk, out, err, rc in results:
        if err == "TIMEOUT" or rc != 0:
            ck.violation("crash", f"thread scenarios crashed or hung (rc={rc})", {"scenarios": chunk, "stderr": err[-3000:]})
            continue
        for line in out.splitlines():
            m = re.match(r"CX threads=(\d+) bad=(\d+)", line)
            if m:
                stats["coldxyz_processes"] += 1
                if int(m.group(2)):
                    ck.violation("coldxyz", f"{m.group(1)} threads that are the first users of Tree::X() / Y() / Z() in the process do not "
                                 "all get the same axis nodes / correctly bound evaluators",
                                 {"scenario": f"coldxyz {m.group(1)} (first command of a fresh process)", "detail": line})
                continue
            m = re.match(r"LR seed=(\d+) threads=(\d+) trials=(\d+) freed=(\d+) bad=(\d+)", line)
            if m:
                stats["lastref_scenarios"] += 1
                stats["lastref_trials"] += int(m.group(3))
                stats["lastref_nodes_freed"] += int(m.group(4))
                if int(m.group(5)):
                    ck.violation("lastref:count", f"after {m.group(2)} threads together released the last references of a shared "
                                 f"sub-expression, the number of live nodes differs from the baseline in {m.group(5)} of {m.group(3)} trials "
                                 "(a node was freed twice or never)",
                                 {"scenario": f"lastref {m.group(1)} {m.group(2)} {m.group(3)}", "detail": line})
                continue
            m = re.match(r"TH seed=(\d+) threads=(\d+) ok=(\d+) bad=(\d+)", line)
            if not m:
                continue
            stats["scenarios"] += 1
            stats["cold"] += int(m.group(1)) & 1
            stats["operations"] += int(m.group(3))
            stats["threads"][m.group(2)] = stats["threads"].get(m.group(2), 0) + 1
            if int(m.group(4)):
                stats["wrong_answers"] += int(m.group(4))
                ck.violation("answer", "a thread observed a different result than the sequential run",
                             {"scenario": f"scenario {m.group(1)} {m.group(2)} <ops>", "detail": line})
        for rep in err.split("=================="):
            if "WARNING: ThreadSanitizer" not in rep:
                continue
            stats["tsan_reports"] += 1
            frames = re.findall(r"#\d+ (\S+) (/[^ :]+):(\d+)", rep)
            top = next((f for f in frames if "/repo/" in f[1] or "libfive" in f[1]), frames[0] if frames else ("?", "?", "0"))
            key = "race:" + os.path.basename(top[1]) + ":" + top[0][:40]
            if key in seen:
                continue
            seen.add(key)
            ck.violation(key, "ThreadSanitizer reports a data race between threads operating on shared trees",
                         {"scenarios": chunk, "report": rep[:3000]})
    if not proof["ok"]:
        ck.violation("proof", "Properties_C14.v no longer checks" + (
                         ": the static-object inventory regenerated from the source has objects outside the proved sharing "
                         "disciplines (C14_static_state_disciplined): " + "; ".join(suspicious) if suspicious else ""),
                     {"theorem_or_file": proof["file"], "objects_outside_policy": suspicious,
                      "log": proof["log"][-3000:]}, no_input=True)
    ck.coverage.update(stats)
    ck.coverage["evaluations"] = stats["operations"]
    ck.coverage["rule"] = ("random shared DAGs (12..31 nodes with sharing and remaps); threads {2,3,4,8,16}; 30..120 operations per thread "
                           "drawn from copy/move/destroy, print, optimized, flatten, remap+flatten, serialise+deserialise, ArrayEvaluator, "
                           "IntervalEvaluator; odd seeds are cold starts; last-reference scenarios: 2..8 threads released from a spin barrier "
                           "each destroy one parent of a shared sub-DAG whose only owners are those parents (live-node counter must return to baseline)")
    ck.coverage["trusted_base"] += ["ThreadSanitizer (g++ 12) on sampled schedules; harness/threads.cpp"]
    ck.assumptions += ["the C API's Opcode::fromScmString / toString tables are lazily initialised without synchronisation "
                       "(opcode.cpp); they are not among the operations this property lists and are not exercised here"]
    ck.finish()
