"""C10 — 2D contours are closed loops that bound the slice.

proof obligations : Properties_C10.v (Contours::collect: the consecutive pairs of the returned polylines are a
                    permutation of the input segments for every soup; on a disjoint union of directed cycles every
                    polyline is closed, in every emission order; tightness of the hypothesis)
correspondence    : Contours::collect of the implementation vs the extracted model on random segment soups (cycles in
                    shuffled order, open paths, branching / non-manifold soups, self-loops): identical polylines
property oracle   : Contours::render of random 2D solids and slices of 3D solids strictly inside the region x workers x
                    resolutions: every contour closed, polygon winding number 0 where the field is positive and one
                    common value (+1 or -1) where negative (points further than 1.5 feature sizes from the surface),
                    every contour vertex inside the region and within 2 feature sizes of the zero level set
"""
import math
import os
import sys

sys.path.insert(0, os.path.dirname(os.path.dirname(os.path.abspath(__file__))))
import common
import meshgen
from exprlib import Prog, f2h, parse_out


def soup(rng):
    """a segment soup: mostly disjoint directed cycles in shuffled order, sometimes open paths / branching"""
    segs, v = [], 1
    kind = rng.random()
    for _ in range(rng.randint(1, 5)):
        n = rng.randint(1, 9) if rng.random() < 0.9 else rng.randint(10, 40)
        ids = list(range(v, v + n)); v += n
        cyc = [(ids[i], ids[(i + 1) % n]) for i in range(n)]
        if kind > 0.75 and rng.random() < 0.5 and n > 1:
            cyc.pop(rng.randrange(len(cyc)))               # an open path
        segs += cyc
    if kind > 0.9 and v > 3:
        for _ in range(rng.randint(1, 3)):                 # branching / non-manifold extras
            segs.append((rng.randrange(1, v), rng.randrange(1, v)))
    rng.shuffle(segs)
    return v - 1, segs, kind <= 0.75


def shape2d(rng, cid):
    """a 2D solid (independent of z) or a 3D solid to be sliced"""
    if rng.random() < 0.4:
        p = meshgen.closed_solid(rng, cid)
        p.slice = rng.uniform(-0.3, 0.3)
        return p
    p = Prog(cid)
    for c in ("x", "y", "z"):
        p.emit(c, "axis")

    def const(v):
        return p.emit(f"const {f2h(v)}", "const")

    def prim():
        cx, cy = rng.uniform(-0.5, 0.5), rng.uniform(-0.5, 0.5)
        dx = p.emit(f"bin OP_SUB 0 {const(cx)}", "tree"); dy = p.emit(f"bin OP_SUB 1 {const(cy)}", "tree")
        if rng.random() < 0.4:
            ang = rng.uniform(0, math.pi)
            c, s = const(math.cos(ang)), const(math.sin(ang))
            a = p.emit(f"bin OP_MUL {c} {dx}", "tree"); b = p.emit(f"bin OP_MUL {s} {dy}", "tree")
            e = p.emit(f"bin OP_MUL {c} {dy}", "tree"); f = p.emit(f"bin OP_MUL {s} {dx}", "tree")
            dx, dy = p.emit(f"bin OP_ADD {a} {b}", "tree"), p.emit(f"bin OP_SUB {e} {f}", "tree")
        if rng.random() < 0.5:
            s2 = p.emit(f"bin OP_ADD {p.emit(f'un OP_SQUARE {dx}', 'tree')} {p.emit(f'un OP_SQUARE {dy}', 'tree')}", "tree")
            return p.emit(f"bin OP_SUB {p.emit(f'un OP_SQRT {s2}', 'tree')} {const(rng.uniform(0.3, 0.7))}", "tree")
        mx = p.emit(f"bin OP_SUB {p.emit(f'un OP_ABS {dx}', 'tree')} {const(rng.uniform(0.25, 0.6))}", "tree")
        my = p.emit(f"bin OP_SUB {p.emit(f'un OP_ABS {dy}', 'tree')} {const(rng.uniform(0.25, 0.6))}", "tree")
        return p.emit(f"bin OP_MAX {mx} {my}", "tree")
    cur = prim()
    for _ in range(rng.randint(0, 2)):
        o = prim()
        op = rng.choice(["OP_MIN", "OP_MIN", "OP_MAX"])
        if op == "OP_MAX" and rng.random() < 0.5:
            o = p.emit(f"un OP_NEG {o}", "tree")
        cur = p.emit(f"bin {op} {cur} {o}", "tree")
    p.root = cur
    p.slice = rng.choice([0.0, 0.3])
    return p


def run(replay=None):
    ck = common.Check("C10", level="proof")
    proof = ck.proof_obligations()
    ok_d, log_d = common.build_driver(**common.DRIVERS["cdriver"])
    ok_h, log_h = common.build_harness(["bin/expr"])
    if not ok_h:
        ck.violation("build", "harness does not build against /repo working tree", {"log": log_h[-3000:]}, no_input=True)
        ck.finish()
    quick = ck.tier == "quick"
    rng = ck.rng
    exe_h = os.path.join(common.BUILD, "cxx", "bin", "expr")
    # ---- welding correspondence ----
    cases, meta = [], []
    for k in range(1500 if quick else 40000):
        nv, segs, cyc = soup(rng)
        cases.append(f"case s{k}\ncollect {nv} " + " ".join(f"{a} {b}" for a, b in segs) + "\nend\n")
        meta.append((nv, segs, cyc))
    hout, hskip = common.run_cases_sharded(exe_h, cases, timeout=600)
    H = parse_out(hout)
    M = {}
    if ok_d:
        mout, _ = common.run_cases_sharded(os.path.join(common.BUILD, "ocaml", "cdriver"), cases, timeout=900)
        M = parse_out(mout)
    stats = dict(soups=0, soups_equal=0, cyclic_soups=0, open_polylines_on_cycles=0, segments=0, renders=0, contours=0,
                 winding_points=0, slices_of_3d=0)
    corr_bad = []
    for k, (nv, segs, cyc) in enumerate(meta):
        h = (H.get((f"s{k}", 1)) or [None])[0]
        m = (M.get((f"s{k}", 1)) or [None])[0]
        if h is None or not h.startswith("CC"):
            ck.violation("collect_error", f"Contours::collect raised / no answer: {h}", {"case": cases[k]})
            continue
        stats["soups"] += 1
        stats["segments"] += len(segs)
        if ok_d:
            if h == m:
                stats["soups_equal"] += 1
            else:
                corr_bad.append((cases[k], h, m))
        polys = [[int(t) for t in part.split()] for part in h[2:].split("|") if part.strip()]
        got = sorted((a, b) for l in polys for a, b in zip(l, l[1:]))
        if got != sorted(segs):
            ck.violation("segments", "the welded polylines do not consist of exactly the input segments",
                         {"case": cases[k], "answer": h})
        if cyc:
            stats["cyclic_soups"] += 1
            for l in polys:
                if len(l) < 2 or l[0] != l[-1]:
                    stats["open_polylines_on_cycles"] += 1
                    ck.violation("dangling", "a soup of closed cycles was welded into an open polyline",
                                 {"case": cases[k], "answer": h})
    # ---- rendered contours ----
    progs = []
    for k in range(60 if quick else 1500):
        p = shape2d(rng, f"k{k}")
        p.qs = []
        for _ in range(2):
            workers = rng.choice([1, 2, 4, 8, 16])
            mf = rng.choice([0.1, 0.05, 0.2, 0.15])
            p.qs.append((workers, mf, p.ncmd + 1))
            p.emit(f"contour {p.root} {workers} {f2h(mf)} " + " ".join(f2h(v) for v in (-1.6, -1.6, 1.6, 1.6)) +
                   f" {f2h(p.slice)} {rng.randrange(1 << 30)}")
        progs.append(p)
    hout2, hskip2 = common.run_cases_sharded(exe_h, [p.text() for p in progs], shards=8, timeout=1800, single_timeout=600)
    for t in hskip2:
        ck.violation("hang", "a contour render did not terminate within the watchdog", {"program": t[:3000]})
    H2 = parse_out(hout2)
    samples = []
    for p in progs:
        for workers, mf, cmd in p.qs:
            out = [l for l in H2.get((p.cid, cmd), []) if l.startswith("CA ")]
            if not out or out[0] == "CA null":
                if p.cid not in set(t.split()[1] for t in hskip2):
                    ck.violation("no_contours", f"contour render returned nothing / raised: {H2.get((p.cid, cmd), [])[:1]}",
                                 {"program": p.text(), "command": p.lines[cmd - 1]})
                continue
            f = dict(x.split("=", 1) for x in out[0].split(" info=")[0].split()[1:])
            stats["renders"] += 1
            stats["contours"] += int(f["contours"])
            stats["winding_points"] += int(f["wind_pts"])
            if len(p.lines) > 40:
                stats["slices_of_3d"] += 1
            for key, what in (("open", "a returned contour is not a closed polyline"),
                              ("wind_bad", "the contours do not wind around the solid like the expression (polygon winding number)"),
                              ("outside", "a contour vertex lies outside the region")):
                if int(f[key]):
                    ck.violation(key, what, {"program": p.text(), "command": p.lines[cmd - 1], "detail": out[0]})
            if float(f["maxfield"]) > 2.0:
                ck.violation("offsurface:dc", f"a contour vertex is {f['maxfield']} feature sizes from the zero level set",
                             {"program": p.text(), "command": p.lines[cmd - 1], "detail": out[0]})
            if len(samples) < 3:
                samples.append({"command": p.lines[cmd - 1], "answer": out[0]})
    # the recorded finding (2D analogue of C04's unbounded dual-contouring vertices)
    corpus = os.path.join(common.VERIF, "check", "corpus", "c10_contour_vertex_offsurface.txt")
    rc, cout, _ = common.run_prog(exe_h, open(corpus).read(), timeout=300)
    for l in cout.splitlines():
        if " CA " in l:
            mf = float(l.split("maxfield=")[1].split()[0])
            if mf > 2.0:
                ck.violation("offsurface:dc", f"a contour vertex is {mf} feature sizes from the zero level set on the recorded input",
                             {"program": open(corpus).read(), "detail": l})
    # ---- uniform-grid emission: the implementation's contours against Render/DCGrid2.v + Contours.v ----
    ok_g, log_g = common.build_driver(**common.DRIVERS["gdriver"])
    gprogs = []
    for k in range(40 if quick else 800):
        p = shape2d(rng, f"e{k}")
        p.q = p.ncmd + 1
        p.emit(f"contourgrid {p.root} {rng.choice([3, 4, 4, 5])} " + " ".join(f2h(v) for v in (-1.6, -1.6, 1.6, 1.6)) +
               f" {f2h(p.slice)} {rng.choice([1, 4])}")
        gprogs.append(p)
    gout, _ = common.run_cases_sharded(exe_h, [p.text() for p in gprogs], shards=8, timeout=900, single_timeout=300)
    G = parse_out(gout)
    mcases, mexp = [], []
    for p in gprogs:
        l = [x for x in G.get((p.cid, p.q), []) if x.startswith("CG ")]
        if not l:
            continue
        head, pts = l[0].split(" filled=")
        f = dict(x.split("=", 1) for x in head.split()[1:])
        if int(f["zero"]) or not pts.strip():
            continue
        mcases.append(f"case {p.cid}\ncontourgrid{pts}\nend\n")
        mexp.append((p, int(f["segs"]), int(f["contours"]), int(f["open"]), l[0][:200]))
    stats["grid_cases"] = len(mcases); stats["grid_equal"] = 0
    if ok_g and mcases:
        mout, _ = common.run_cases_sharded(os.path.join(common.BUILD, "ocaml", "gdriver"), mcases, timeout=1800, single_timeout=600)
        M2 = parse_out(mout)
        for p, segs, ncont, nopen, detail in mexp:
            m = (M2.get((p.cid, 1)) or [""])[0]
            mf = dict(x.split("=", 1) for x in m.split()[1:]) if m.startswith("GC ") else {}
            if mf and int(mf["segs"]) == segs and int(mf["contours"]) == ncont and int(mf["open"]) == nopen:
                stats["grid_equal"] += 1
            elif mf:
                corr_bad.append((p.text(), detail, m))
    # ---- adaptive quadtrees: collectChildren (collapse) + the recursive dual walk against Render/QuadTree.v ----
    import re as _re
    ok_q, log_q = common.build_driver(**common.DRIVERS["qtdriver"])
    qprogs = []
    for k in range(60 if quick else 6000):
        p = shape2d(rng, f"q{k}")
        p.q = p.ncmd + 1
        # max_err: the default 1e-8 rarely collapses anything; larger values collapse whatever the topology tests allow
        me = rng.choice([1e-8, 1e-3, 1e-2, 0.05, 0.2, 1.0, 1e9])
        p.emit(f"quadtree {p.root} {rng.choice([3, 4, 4, 5, 5, 6])} " + " ".join(f2h(v) for v in (-1.6, -1.6, 1.6, 1.6)) +
               f" {f2h(p.slice)} {f2h(me)}")
        qprogs.append(p)
    qout, qskip = common.run_cases_sharded(exe_h, [p.text() for p in qprogs], shards=8, timeout=900, single_timeout=300)
    Q = parse_out(qout)
    qcases, qmeta = [], []
    for p in qprogs:
        l = [x for x in Q.get((p.cid, p.q), []) if x.startswith("QT ")]
        if not l:
            continue
        m = _re.search(r"level=(\d+) pre=(.*) post=(.*) segs=(.*)", l[0])
        if not m or " U" in l[0]:
            ck.violation("quadtree:dump", "the quadtree dump is malformed (an ambiguous cell without a leaf?)",
                         {"program": p.text(), "detail": l[0][:500]})
            continue
        segs = [tuple(int(v) for v in sg.split(">")) for sg in m.group(4).split()]
        qcases.append(f"case {p.cid}\nquadtree {m.group(1)} pre {m.group(2).strip()} post {m.group(3).strip()} segs {m.group(4).strip()}\nend\n")
        qmeta.append((p, segs, l[0]))
    stats.update(quadtrees=len(qcases), quadtree_collect_equal=0, quadtree_walk_equal=0, quadtree_hyp_hold=0,
                 quadtree_collapsed_leaves=0, quadtree_mixed_level_segments=0, quadtree_hyp_failed=0, quadtree_segments=0)
    if ok_q and qcases:
        mq, _ = common.run_cases_sharded(os.path.join(common.BUILD, "ocaml", "qtdriver"), qcases, timeout=1800, single_timeout=600)
        MQ = parse_out(mq)
        for p, segs, detail in qmeta:
            m = (MQ.get((p.cid, 1)) or [""])[0]
            if not m.startswith("QM "):
                corr_bad.append((p.text(), detail[:300], m))
                continue
            f = dict(x.split("=", 1) for x in m.split()[1:])
            # the property itself on exactly this tree: every vertex entered as often as left, at most once
            deg_out, deg_in = {}, {}
            for a, b in segs:
                deg_out[a] = deg_out.get(a, 0) + 1; deg_in[b] = deg_in.get(b, 0) + 1
            balanced = all(deg_out.get(v, 0) == deg_in.get(v, 0) == 1 for v in set(deg_out) | set(deg_in))
            hyp = f["cons_pre"] == "true" and f["cons_post"] == "true" and f["bclear"] == "true" and f["conflicts"] == "0"
            stats["quadtree_segments"] += len(segs)
            stats["quadtree_collapsed_leaves"] += int(f["collapsed"])
            stats["quadtree_mixed_level_segments"] += int(f["mixed"])
            if hyp:
                stats["quadtree_hyp_hold"] += 1
            else:
                stats["quadtree_hyp_failed"] += 1
            if f["bclear"] == "true" and not balanced:
                ck.violation("open:adaptive", "the dual walk over a quadtree with cells of different levels leaves a contour vertex "
                             "with unequal in / out degree (an open or branching contour)",
                             {"program": p.text(), "command": p.lines[p.q - 1], "detail": detail[:2000], "model": m})
            if f["collect_equal"] == "true":
                stats["quadtree_collect_equal"] += 1
            else:
                corr_bad.append((p.text(), "collectChildren: " + detail[:1500], m))
            if f["walk_equal"] == "true":
                stats["quadtree_walk_equal"] += 1
            else:
                corr_bad.append((p.text(), "Dual<2>::walk / DCContourer::load: " + detail[:1500], m))
            if hyp and f["bclear"] == "true" and not balanced:
                pass    # reported above; with the hypotheses holding this would contradict C10_adaptive_walk_balanced
    if not ok_q:
        ck.violation("driver", "extracted quadtree model does not build", {"log": log_q[-3000:]}, no_input=True)
    if not ok_g:
        ck.violation("driver", "extracted grid model does not build", {"log": log_g[-3000:]}, no_input=True)
    if corr_bad:
        c, h, m = corr_bad[0]
        ck.violation("correspondence", f"model and implementation weld a segment soup differently ({len(corr_bad)} cases)",
                     {"case": c, "impl": h, "model": m, "theorem_or_stage": "correspondence:collect"}, no_input=True)
    if not proof["ok"]:
        ck.violation("proof", "Properties_C10.v no longer checks", {"theorem_or_file": proof["file"],
                     "log": proof["log"][-3000:]}, no_input=True)
    if not ok_d:
        ck.violation("driver", "extracted model does not build", {"log": log_d[-3000:]}, no_input=True)
    stats["corr_mismatch"] = len(corr_bad)
    ck.coverage.update(stats)
    ck.coverage["evaluations"] = stats["soups"] + stats["renders"]
    ck.coverage["traces_validated_against_impl"] = (stats["soups_equal"] + stats.get("grid_equal", 0) +
                                                     stats.get("quadtree_walk_equal", 0) + stats.get("quadtree_collect_equal", 0))
    ck.coverage["samples"] = samples
    ck.coverage["rule"] = ("soups: 1..5 directed cycles of 1..40 vertices in shuffled order (75%), with open paths (15%) or with extra "
                           "branching segments (10%); renders: rotated circles / rectangles / CSG in 2D and slices of 3D solids, "
                           "2 x (workers, min_feature) each, 80 winding samples")
    ck.coverage["trusted_base"] += ["extraction: ExtrOcamlBasic only; ocaml/cdriver.ml; harness/expr.cpp (collect / contour commands)"]
    ck.assumptions += ["that the marching-squares pass emits a union of directed cycles for a solid strictly inside the region is tested, not proved"]
    ck.finish()
