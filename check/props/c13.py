"""C13 — tree handles are memory-safe and leak-free under any call sequence.

proof obligations : Properties_C13.v (reference-count invariant of the alloc / copy / work-list
                    destructor mechanism for arbitrary operation sequences; no use-after-free; leak-free)
correspondence    : after every call of generated sequences through the C API and the C++ value type, the
                    reference count of every live handle's node and the number of live TreeData objects
                    (LIBFIVE_VERIF hook) must equal the specification computed by the extracted model
                    (reachability from handles + statics over the model's arena)
property oracle   : live-node counter returns to the baseline when every handle is deleted once; no exception /
                    crash; 2*10^5-node (thorough: 10^6) chains, fans and remap chains destroyed on a 256 KB stack
"""
import os
import resource
import subprocess
import sys

sys.path.insert(0, os.path.dirname(os.path.dirname(os.path.abspath(__file__))))
import common
import exprlib
from exprlib import f2h, parse_out

UN = exprlib.UNARY
BIN = exprlib.BINARY


def gen_seq(rng, cid, n):
    # the optimiser sorts operands by address, so the *shape* it returns (hence refcounts and
    # node counts afterwards) is one of several allowed outcomes: sequences that call it are
    # checked for leaks / exceptions only, the others are compared count by count
    with_opt = rng.random() < 0.2
    lines = ["capi"]
    nh = 0
    alive = []
    vars_ = []
    sizes = []
    mc = []          # may this handle be a constant?  (inexact kernels are never folded: their
                     # last-bit differences between Eigen and libm would change later simplifications)
    INEXACT = {"OP_SQRT", "OP_SIN", "OP_COS", "OP_TAN", "OP_ASIN", "OP_ACOS", "OP_ATAN", "OP_EXP", "OP_LOG",
               "OP_ATAN2", "OP_POW", "OP_NTH_ROOT", "OP_MOD"}

    def emit(l, creates=True, size=1, maybe_const=False):
        nonlocal nh
        lines.append(l)
        if creates:
            alive.append(nh)
            sizes.append(size)
            mc.append(maybe_const)
            nh += 1
            return nh - 1

    def pick():
        if not alive or rng.random() < 0.03:
            return rng.randrange(max(nh, 1)) if nh else 0    # possibly a deleted handle
        return rng.choice(alive)

    for kind in ("x", "y", "z"):
        emit(kind)
    for _ in range(n):
        r = rng.random()
        if r < 0.08:
            emit(f"const {f2h(rng.choice(exprlib.CONST_POOL))}", maybe_const=True)
        elif r < 0.14:
            h = emit("var"); vars_.append(h)
        elif r < 0.17:
            emit("nullary " + rng.choice(["VAR_X", "VAR_Y", "VAR_Z", "VAR_FREE", "OP_ADD", "BADOP", "INVALID"]), maybe_const=True)
        elif r < 0.32:
            a = pick()
            op = rng.choice(UN + ['OP_ADD', 'BADOP'])
            if op in INEXACT and mc[a]:
                continue
            emit(f"un {op} {a}", size=1 + sizes[a], maybe_const=mc[a])
        elif r < 0.55:
            a = pick(); b = a if rng.random() < 0.2 else pick()
            if sizes[a] + sizes[b] > 400:
                continue
            op = rng.choice(BIN + ["OP_NEG", "BADOP"])
            if op in INEXACT and mc[a]:
                continue
            if op in ("OP_POW", "OP_NTH_ROOT"):
                b = emit(f"const {f2h(float(rng.choice([1, 2, 3])))}", maybe_const=True)
            emit(f"bin {op} {a} {b}", size=1 + sizes[a] + sizes[b],
                 maybe_const=(mc[a] and mc[b]) or (op == "OP_MUL" and (mc[a] or mc[b])))
        elif r < 0.62:
            t, a, b, c = pick(), pick(), pick(), pick()
            sz = sizes[t] * max(1, sizes[a] + sizes[b] + sizes[c])
            if sz > 400:
                continue
            emit(f"remap {t} {a} {b} {c}", size=sz, maybe_const=True)
        elif r < 0.66 and vars_:
            t, e = pick(), pick()
            sz = sizes[t] * max(1, sizes[e])
            if sz > 400:
                continue
            emit(f"apply {t} {rng.choice(vars_ + [pick()])} {e}", size=sz, maybe_const=True)
        elif r < 0.72:
            if not with_opt:
                continue
            a = pick(); emit(f"opt {a}", size=sizes[a], maybe_const=True)
        elif r < 0.75:
            a = pick(); emit(f"flatten {a}", size=sizes[a], maybe_const=True)
        elif r < 0.80:
            a = pick(); emit(f"copy {a}", size=sizes[a], maybe_const=mc[a])
        elif r < 0.83:
            # the C++ idiom `t = t->lhs()`: the handle (possibly the last owner of its node) is copy-assigned from a
            # reference into the expression it owns; the old handle is consumed
            if alive:
                a = rng.choice(alive)
                emit(f"descend {a} {rng.randrange(4)}", size=sizes[a], maybe_const=True)
                alive.remove(a)
        elif r < 0.85:
            emit(f"print {pick()}", creates=False)
        elif r < 0.87:
            emit(f"eval {pick()}", creates=False)
        elif r < 0.89:
            a = pick(); emit(f"saveload {a}", size=sizes[a], maybe_const=True)
        elif r < 0.97:
            if alive:
                a = rng.choice(alive) if rng.random() < 0.9 else pick()
                emit(f"delete {a}", creates=False)
                if a in alive:
                    alive.remove(a)
        else:
            emit("check", creates=False)
    emit("check", creates=False)
    return f"case {cid}\n" + "\n".join(lines) + "\nend\n", lines


def run(replay=None):
    ck = common.Check("C13", level="proof")
    rep = common.regen_translators()
    proof = ck.proof_obligations()
    ok_d, log_d = common.build_driver(**common.DRIVERS["driver"])
    ok_h, log_h = common.build_harness(["bin/handles"])
    if not ok_h:
        ck.violation("build", "harness does not build against /repo working tree", {"log": log_h[-3000:]}, no_input=True)
        ck.finish()
    quick = ck.tier == "quick"
    nseq = 600 if quick else 20000
    seqs = [gen_seq(ck.rng, f"h{k}", ck.rng.randint(5, 60)) for k in range(nseq)]
    exe_h = os.path.join(common.BUILD, "cxx", "bin", "handles")
    exe_m = os.path.join(common.BUILD, "ocaml", "driver")
    texts = [s[0] for s in seqs]
    hout, hskip = common.run_cases_sharded(exe_h, texts)
    H = parse_out(hout)
    M = {}
    if ok_d:
        mout, mskip = common.run_cases_sharded(exe_m, texts)
        M = parse_out(mout)
        hskip = hskip + mskip
    skipped = set(t.split()[1] for t in hskip)
    stats = dict(sequences=len(seqs) - len(skipped), calls=0, checks=0, checks_equal=0, leak_free=0,
                 skipped_timeouts=len(skipped))
    corr_bad = []
    nontriv = 0
    samples = []
    for (text, lines) in seqs:
        cid = text.split()[1]
        if cid in skipped:
            continue
        stats["calls"] += len(lines)
        shared = False
        for k, l in enumerate(lines):
            if l == "check":
                stats["checks"] += 1
                hv = H.get((cid, k + 1), [None])[0]
                mv = M.get((cid, k + 1), [None])[0]
                if any(x.startswith("opt ") for x in lines[:k]):
                    stats["checks_after_opt"] = stats.get("checks_after_opt", 0) + 1
                elif hv is not None and hv == mv:
                    stats["checks_equal"] += 1
                else:
                    corr_bad.append((text, k + 1, hv, mv))
                if hv and any(x.isdigit() and int(x) >= 2 for x in hv.split()[1:hv.split().index("L")]):
                    shared = True
        for key, vals in H.items():
            if key[0] == cid:
                for v in vals:
                    if v.startswith("ERR"):
                        ck.violation("exception", "a call raised: " + v, {"sequence": text})
        endl = [v for (c, k), vs in H.items() if c == cid for v in vs if v.startswith("END")]
        if endl and endl[0] == "END live=0":
            stats["leak_free"] += 1
        else:
            ck.violation("leak", f"live TreeData objects remain after every handle was deleted: {endl}",
                         {"sequence": text})
        dels = [int(l.split()[1]) for l in lines if l.startswith("delete")]
        if shared and dels != sorted(dels):
            nontriv += 1
        if len(samples) < 2:
            samples.append({"sequence": lines[:25]})

    # the same call sequences under AddressSanitizer: a use after free or a double free is reported at the access
    # itself, whether or not the counters notice
    import cxxbuild
    ASAN_FLAGS = ("-std=gnu++17 -O1 -g -fsanitize=address -fno-omit-frame-pointer -DNDEBUG -DLIBFIVE_VERIF -fPIC -w "
                  "-DGIT_TAG='\"verif\"' -DGIT_REV='\"verif\"' -DGIT_BRANCH='\"verif\"'")
    ok_a, log_a, _ = cxxbuild.build_variant("asan", ASAN_FLAGS, ["bin/handles"])
    stats["asan_sequences"] = 0
    if not ok_a:
        ck.violation("build", "harness does not build against /repo working tree (AddressSanitizer variant)",
                     {"log": log_a[-3000:]}, no_input=True)
    else:
        exe_a = os.path.join(common.VERIF, ".build", "cxx-asan", "bin", "handles")
        env = dict(os.environ, ASAN_OPTIONS="detect_leaks=0:halt_on_error=1:exitcode=99:alloc_dealloc_mismatch=0")
        sub = texts[:(300 if quick else 6000)]
        from concurrent.futures import ThreadPoolExecutor

        def one(chunk):
            r = subprocess.run([exe_a], input="".join(chunk), stdout=subprocess.PIPE, stderr=subprocess.PIPE, text=True,
                               errors="replace", timeout=1800, env=env)
            return chunk, r.returncode, r.stderr
        with ThreadPoolExecutor(max_workers=8) as ex:
            for chunk, rc, err in ex.map(one, [sub[i::8] for i in range(8)]):
                stats["asan_sequences"] += len(chunk)
                if "ERROR: AddressSanitizer" in err:
                    import re as _re
                    kind = (_re.search(r"ERROR: AddressSanitizer: (\S+)", err) or [None, "?"])[1]
                    # find the offending sequence by re-running one by one
                    culprit = None
                    for c in chunk:
                        r1 = subprocess.run([exe_a], input=c, stdout=subprocess.PIPE, stderr=subprocess.PIPE, text=True,
                                            errors="replace", timeout=600, env=env)
                        if "ERROR: AddressSanitizer" in r1.stderr:
                            culprit = c
                            break
                    ck.violation("asan:" + kind, "AddressSanitizer reports a memory error in a sequence of handle operations",
                                 {"sequence": culprit or "".join(chunk)[:3000],
                                  "report": err[err.find("ERROR: AddressSanitizer"):][:3000]})
                elif rc != 0:
                    ck.violation("crash", f"the handle harness crashed under AddressSanitizer (rc={rc})",
                                 {"stderr": err[-2000:]})
    # deep / wide destruction on a small stack
    deep_n = 200000 if quick else 1000000
    deep = "case deep\n" + "\n".join(f"deepchain {deep_n} {k}" for k in range(8)) + "\nend\n"

    def small_stack():
        resource.setrlimit(resource.RLIMIT_STACK, (256 * 1024, 256 * 1024))
    try:
        p = subprocess.run([exe_h], input=deep, stdout=subprocess.PIPE, stderr=subprocess.PIPE, text=True, errors="replace",
                           timeout=900, preexec_fn=small_stack)
        dl = [l for l in p.stdout.splitlines() if " DEEP " in l]
        stats["deep_chains"] = len(dl)
        if p.returncode != 0 or len(dl) != 8 or any(not l.endswith("live=0") for l in dl):
            ck.violation("deep", f"destroying a {deep_n}-node chain on a 256 KB stack failed (rc={p.returncode})",
                         {"stdin": deep, "stdout": p.stdout[-500:], "stderr": p.stderr[-500:]})
    except subprocess.TimeoutExpired:
        ck.violation("deep", "deep chain destruction timed out", {"stdin": deep})

    if corr_bad:
        text, k, hv, mv = corr_bad[0]
        ck.violation("correspondence", f"reference counts / live count differ from the model's specification ({len(corr_bad)} checks)",
                     {"sequence": text, "at_command": k, "impl": hv, "model": mv,
                      "theorem_or_stage": "correspondence:refcounts"}, no_input=True)
    if not proof["ok"]:
        ck.violation("proof", "Properties_C13.v no longer checks",
                     {"theorem_or_file": proof["file"], "log": proof["log"][-3000:]}, no_input=True)
    if not ok_d:
        ck.violation("driver", "extracted model does not build", {"log": log_d[-3000:]}, no_input=True)
    stats["corr_mismatch"] = len(corr_bad)
    ck.coverage.update(stats)
    ck.coverage["evaluations"] = stats["calls"]
    ck.coverage["distinct_nontrivial"] = nontriv
    ck.coverage["rule"] = ("random call sequences (5..60 calls) over a pool of handles through the C API and the C++ value type: "
                           "const/var/nullary/unary/binary (incl. invalid opcodes, aliasing one handle as several arguments, "
                           "deleted handles), remap, apply, optimized, flatten, copy/move/assign chains, print, eval, save+load, "
                           "delete in random order; non-trivial = some node had refcount >= 2 and handles were deleted in an "
                           "order different from creation")
    ck.coverage["samples"] = samples
    ck.coverage["traces_validated_against_impl"] = stats["checks_equal"]
    ck.coverage["trusted_base"] += [
        "LIBFIVE_VERIF live-node counter hook in TreeData (commit a30cf9a)",
        "extraction; ocaml/driver.ml; harness/handles.cpp",
        "C++ object lifetime rules (each Tree member / temporary is one alloc/copy/drop step of the mechanism model): assumed",
        "stack depth and allocator behaviour are observed (256 KB stack run), not modelled",
    ]
    ck.finish()
