"""C09 — the height-map equals a brute-force scan of the voxel grid.

proof obligations : Properties_C09.v (View::split partitions the voxels exactly; Heightmap::recurse equals the
                    brute-force column scan for every sound classification oracle and every way the views get
                    split; the XY pre-partition among workers is disjoint and covering, so the result does not
                    depend on worker count or order)
correspondence    : chains of Voxels::View::split<A> on generated grids vs the extracted model (corner and size
                    of both halves exact)
property oracle   : Heightmap::render with 1, 3 and 8 workers vs a brute-force loop over every voxel centre
                    (same optimised tree, same evaluator type), every pixel; grid construction covers the
                    requested bounds with the requested resolution; every view's bounds contain its voxel centres
"""
import math
import os
import sys

sys.path.insert(0, os.path.dirname(os.path.dirname(os.path.abspath(__file__))))
import common
import exprlib
from exprlib import f2h, parse_out
from props.c05 import gen_csg


def run(replay=None):
    ck = common.Check("C09", level="proof")
    rep = common.regen_translators()      # Gen/HeightmapRecurse_gen.v: Heightmap::recurse's control skeleton, from the source
    proof = ck.proof_obligations()
    ck.coverage["translators"] = {k: v for k, v in rep.items() if "Heightmap" in k or v != "ok"}
    ok_d, log_d = common.build_driver(**common.DRIVERS["vdriver"])
    ok_h, log_h = common.build_harness(["bin/expr"])
    if not ok_h:
        ck.violation("build", "harness does not build against /repo working tree", {"log": log_h[-3000:]}, no_input=True)
        ck.finish()
    quick = ck.tier == "quick"
    progs = []
    nsplit = 400 if quick else 20000
    nrender = 120 if quick else 4000
    for k in range(nsplit):
        p = exprlib.Prog(f"v{k}")
        lo = [ck.rng.uniform(-3, 1) for _ in range(3)]
        hi = [l + ck.rng.choice([0.0, 0.1, 1.0, ck.rng.uniform(0.01, 4)]) for l in lo]
        res = [ck.rng.choice([0.0, 1.0, 3.0, 7.5, ck.rng.uniform(0.3, 12)]) for _ in range(3)]
        steps = []
        for _ in range(ck.rng.randint(1, 9)):
            steps += [ck.rng.choice([7, 7, 7, 3, 4, 1, 2, 5, 6]), ck.rng.randint(0, 1)]
        p.steps = steps
        p.q = p.ncmd + 1
        p.emit("vsplit " + " ".join(f2h(v) for v in lo + hi + res) + f" {len(steps) // 2} " + " ".join(str(s) for s in steps))
        p.kind = "split"
        progs.append(p)
    for k in range(nrender):
        r = ck.rng.random()
        terrain = False
        if r < 0.2:
            # a large block that interval arithmetic proves filled (a slab) below small features that raise
            # only some pixels of its footprint: fill() must keep the higher pixels
            p = exprlib.Prog(f"r{k}")
            for c in ("x", "y", "z"):
                p.emit(c, "axis")
            cz = ck.rng.choice([0.01, -0.2, 0.13, ck.rng.uniform(-0.5, 0.3)])
            cur = p.emit(f"bin OP_SUB 2 {p.emit('const ' + f2h(cz), 'const')}", "tree")
            for _ in range(ck.rng.randint(1, 3)):
                cx_, cy_ = ck.rng.uniform(-0.8, 0.8), ck.rng.uniform(-0.8, 0.8)
                rad = ck.rng.uniform(0.1, 0.35)
                czb = cz + ck.rng.uniform(0.0, 0.5)
                dx = p.emit(f"bin OP_SUB 0 {p.emit('const ' + f2h(cx_), 'const')}", "tree")
                dy = p.emit(f"bin OP_SUB 1 {p.emit('const ' + f2h(cy_), 'const')}", "tree")
                dz = p.emit(f"bin OP_SUB 2 {p.emit('const ' + f2h(czb), 'const')}", "tree")
                s2 = p.emit(f"bin OP_ADD {p.emit(f'un OP_SQUARE {dx}', 'tree')} {p.emit(f'un OP_SQUARE {dy}', 'tree')}", "tree")
                s3 = p.emit(f"bin OP_ADD {s2} {p.emit(f'un OP_SQUARE {dz}', 'tree')}", "tree")
                ball = p.emit(f"bin OP_SUB {p.emit(f'un OP_SQRT {s3}', 'tree')} {p.emit('const ' + f2h(rad), 'const')}", "tree")
                cur = p.emit(f"bin OP_MIN {cur} {ball}", "tree")
            p.root = cur
            terrain = True
        elif r < 0.6:
            p = gen_csg(ck.rng, f"r{k}", ck.rng.randint(1, 5))
        elif r < 0.8:
            p = exprlib.gen_program(ck.rng, f"r{k}", ck.rng.randint(5, 25), safe=True, var_p=0.0, apply_p=0.0)
        else:
            p = exprlib.gen_program(ck.rng, f"r{k}", ck.rng.randint(5, 25), safe=False, var_p=0.0, apply_p=0.0)
        two_d = ck.rng.random() < 0.3
        lo = [ck.rng.uniform(-2.5, -0.5) for _ in range(3)]
        hi = [ck.rng.uniform(0.5, 2.5) for _ in range(3)]
        if two_d:
            lo[2] = hi[2] = ck.rng.choice([0.0, 0.3])
        res = ck.rng.choice([3.0, 5.0, 7.0, 8.5, 11.0, 16.0] if quick else [3.0, 7.0, 11.0, 16.0, 23.0, 32.0])
        if terrain:
            two_d = False
            lo = [-1.0, -1.0, -1.0] if ck.rng.random() < 0.5 else [ck.rng.uniform(-1.5, -0.8) for _ in range(3)]
            hi = [1.0, 1.0, 1.0] if lo == [-1.0, -1.0, -1.0] else [ck.rng.uniform(0.8, 1.5) for _ in range(3)]
            res = ck.rng.choice([11.0, 16.0, 16.0, 13.5])
        p.q = p.ncmd + 1
        p.emit(f"hmap {p.root} " + " ".join(f2h(v) for v in lo + hi) + " " + f2h(res))
        p.kind = "render"
        progs.append(p)
    exe_h = os.path.join(common.BUILD, "cxx", "bin", "expr")
    hout, hskip = common.run_cases_sharded(exe_h, [p.text() for p in progs], timeout=600, single_timeout=120)
    H = parse_out(hout)
    skipped = set(t.split()[1] for t in hskip)
    for t in hskip:
        ck.violation("hang", "render / split did not finish within the watchdog", {"program": t})
    mlines = []
    for p in progs:
        if p.kind == "split" and p.cid not in skipped:
            vg = [l for l in H.get((p.cid, p.q), []) if l.startswith("VG ")]
            if vg:
                f = vg[0].split()
                mlines.append(f"{p.cid} {f[1]} {f[2]} {f[3]} " + " ".join(str(s) for s in p.steps))
    M = {}
    if ok_d:
        rc, mout, merr = common.run_prog(os.path.join(common.BUILD, "ocaml", "vdriver"), "\n".join(mlines) + "\n")
        for l in mout.splitlines():
            f = l.split(" ", 3)
            M.setdefault(f[0], []).append(f[3])
    stats = dict(split_chains=0, splits_equal=0, renders=0, pixels=0, filled_pixels=0, odd_sizes=0, unit_axes=0)
    corr_bad = []
    nontriv = set()
    samples = []
    for p in progs:
        if p.cid in skipped:
            continue
        out = H.get((p.cid, p.q), [])
        errs = [l for l in out if l.startswith("ERR")]
        if errs:
            ck.violation("exception", errs[0], {"program": p.text()})
            continue
        if p.kind == "split":
            stats["split_chains"] += 1
            vg = [l for l in out if l.startswith("VG ")]
            if vg:
                f = vg[0].split()
                flags = dict(x.split("=") for x in f[4:])
                if any(int(f[i]) % 2 for i in (1, 2, 3)):
                    stats["odd_sizes"] += 1
                if any(int(f[i]) == 1 for i in (1, 2, 3)):
                    stats["unit_axes"] += 1
                for key, what in (("cover", "voxel grid does not cover the requested bounds / centres outside the grid"),
                                  ("mono", "voxel centres are not strictly increasing"),
                                  ("spacing", "voxel grid does not have the requested resolution")):
                    if flags[key] != "1":
                        ck.violation("grid:" + key, what, {"query": p.lines[p.q - 1], "answer": vg[0]})
            hs = [l for l in out if l.startswith("VS ")]
            ms = M.get(p.cid, [])
            for k, l in enumerate(hs):
                body = " ".join(l.split()[1:3])
                if "sep=0" in l:
                    ck.violation("split:bounds", "a split view's bounds do not contain its own voxel centres",
                                 {"query": p.lines[p.q - 1], "answer": l})
                if k < len(ms) and ms[k] == body:
                    stats["splits_equal"] += 1
                else:
                    corr_bad.append((p, k, l, ms[k] if k < len(ms) else None))
        else:
            hm = [l for l in out if l.startswith("HM ")]
            if not hm:
                ck.violation("noanswer", "no render answer", {"program": p.text()})
                continue
            stats["renders"] += 1
            f = hm[0].split()
            dims = [int(x) for x in f[1].split("x")]
            stats["pixels"] += dims[0] * dims[1] * 3
            filled = int(f[2].split("=")[1])
            stats["filled_pixels"] += filled
            for tok in f[3:]:
                if tok.startswith("w") and "bad=" in tok and not tok.endswith("bad=0"):
                    ck.violation("pixel", f"height-map differs from the brute-force scan ({tok})",
                                 {"program": p.text(), "answer": hm[0]})
            if 0 < filled < dims[0] * dims[1] and dims[0] * dims[1] * dims[2] > 256:
                nontriv.add(p.cid)
            if len(samples) < 2:
                samples.append({"query": p.lines[p.q - 1], "answer": hm[0][:120]})
    if corr_bad:
        p, k, l, m = corr_bad[0]
        ck.violation("correspondence", f"View::split differs from the model ({len(corr_bad)} splits)",
                     {"query": p.lines[p.q - 1], "step": k, "impl": l, "model": m,
                      "theorem_or_stage": "correspondence:View::split"}, no_input=True)
    if not proof["ok"]:
        ck.violation("proof", "Properties_C09.v no longer checks",
                     {"theorem_or_file": proof["file"], "log": proof["log"][-3000:]}, no_input=True)
    if not ok_d:
        ck.violation("driver", "extracted model does not build", {"log": log_d[-3000:]}, no_input=True)
    stats["corr_mismatch"] = len(corr_bad)
    ck.coverage.update(stats)
    ck.coverage["evaluations"] = stats["split_chains"] + stats["renders"] * 3
    ck.coverage["distinct_nontrivial"] = len(nontriv)
    ck.coverage["rule"] = ("random grids (zero-size and unit axes, zero / fractional resolutions) with chains of 1..9 splits under "
                           "random axis masks; CSG and random 2-D / 3-D expressions rendered at resolutions 3..16 (thorough: 32) "
                           "with 1, 3, 8 workers; non-trivial render = partially filled image on a grid of more than 256 voxels "
                           "(so blocks are skipped, filled and split)")
    ck.coverage["samples"] = samples
    ck.coverage["traces_validated_against_impl"] = stats["splits_equal"]
    ck.coverage["trusted_base"] += ["the interval / specialisation premises of recurse_eq_brute are C02 and C05",
                                    "float bounds of split views are checked to contain their voxel centres, not modelled",
                                    "extraction; ocaml/vdriver.ml; harness/expr.cpp"]
    ck.finish()
