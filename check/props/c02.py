"""C02 — interval evaluation soundly encloses every point value in the box.

proof obligations : Properties_C02.v (per-opcode flag / case-split soundness over extended reals,
                    composition over tapes, classification corollary, refutations)
correspondence    : Interval::<op> on generated operand intervals vs the extracted model:
                    may-be-NaN flag and state exact; bounds within a few ulp for the operations
                    whose bounds libfive computes itself or that are IEEE-exact; evaluator dispatch
                    (IntervalEvaluator on op(X,Y)) identical to the direct call
property oracle   : the statement itself, on the implementation: sampled points of the operand
                    intervals / of the box must evaluate (ArrayEvaluator) to non-NaN values inside
                    the reported bounds whenever the result is unflagged
"""
import math
import os
import struct
import sys

sys.path.insert(0, os.path.dirname(os.path.dirname(os.path.abspath(__file__))))
import common
import exprlib
from exprlib import f2h, h2f, parse_out

UN = ["OP_SQUARE", "OP_SQRT", "OP_NEG", "OP_SIN", "OP_COS", "OP_TAN", "OP_ASIN", "OP_ACOS", "OP_ATAN",
      "OP_EXP", "OP_ABS", "OP_LOG", "OP_RECIP", "CONST_VAR"]
BIN = ["OP_ADD", "OP_MUL", "OP_MIN", "OP_MAX", "OP_SUB", "OP_DIV", "OP_ATAN2", "OP_POW", "OP_NTH_ROOT",
       "OP_MOD", "OP_NANFILL", "OP_COMPARE"]
BOUNDS_TIE = {"OP_ADD", "OP_SUB", "OP_MUL", "OP_DIV", "OP_MIN", "OP_MAX", "OP_NEG", "OP_ABS", "OP_SQUARE",
              "OP_SQRT", "OP_COMPARE", "OP_NANFILL", "OP_ATAN2", "OP_RECIP", "CONST_VAR"}
POOL = [0.0, -0.0, 1.0, -1.0, 0.5, -0.5, 2.0, -2.0, 3.0, -3.0, 4.0, -4.0, math.pi / 2, -math.pi / 2, math.pi, -math.pi,
        1e-30, -1e-30, 1e30, -1e30, float("inf"), float("-inf"), 0.25, 8.0, -8.0]


def r32(x):
    return struct.unpack("<f", struct.pack("<f", x))[0]


def gen_interval(rng, allow_inf=True):
    r = rng.random()
    if r < 0.15:
        v = rng.choice(POOL) if rng.random() < 0.6 else rng.uniform(-5, 5)
        lo = hi = v
    elif r < 0.55:
        a, b = rng.choice(POOL), rng.choice(POOL)
        lo, hi = min(a, b), max(a, b)
    elif r < 0.7:
        c = rng.choice(POOL) if rng.random() < 0.5 else rng.uniform(-3, 3)
        if math.isinf(c):
            c = 1.0
        w = 10 ** rng.uniform(-6, 0)
        lo, hi = c - w, c + w
    else:
        a, b = rng.uniform(-6, 6), rng.uniform(-6, 6)
        lo, hi = min(a, b), max(a, b)
    if not allow_inf:
        lo = min(max(lo, -1e30), 1e30); hi = max(min(hi, 1e30), -1e30)
    lo, hi = r32(lo), r32(hi)
    if lo > hi:
        lo, hi = hi, lo
    if lo == 0.0 and hi == 0.0 and math.copysign(1, lo) > math.copysign(1, hi):
        lo, hi = hi, lo
    return lo, hi


def run(replay=None):
    ck = common.Check("C02", level="proof")
    rep = common.regen_translators()
    proof = ck.proof_obligations()
    ok_d, log_d = common.build_driver(**common.DRIVERS["idriver"])
    ok_h, log_h = common.build_harness(["bin/interval", "bin/expr"])
    if not ok_h:
        ck.violation("build", "harness does not build against /repo working tree", {"log": log_h[-3000:]}, no_input=True)
        ck.finish()
    quick = ck.tier == "quick"
    per_op = 250 if quick else 8000
    lines, meta = [], {}
    k = 0
    for op in UN + BIN:
        for _ in range(per_op):
            k += 1
            cid = f"q{k}"
            infstage = ck.rng.random() < 0.3
            alo, ahi = gen_interval(ck.rng, infstage)
            an = 1 if ck.rng.random() < 0.08 else 0
            if op in UN:
                lines.append(f"{cid} un {op} {f2h(alo)} {f2h(ahi)} {an}")
                meta[cid] = (op, (alo, ahi, an), None)
            else:
                if op in ("OP_POW", "OP_NTH_ROOT"):
                    n = float(ck.rng.choice([1, 2, 3, 4, 5, 6, 7, -1, -2, 0] if op == "OP_POW" else [1, 2, 3, 4, 5, 6, 7]))
                    blo = bhi = n
                    bn = 0
                else:
                    blo, bhi = gen_interval(ck.rng, infstage)
                    bn = 1 if ck.rng.random() < 0.08 else 0
                lines.append(f"{cid} bin {op} {f2h(alo)} {f2h(ahi)} {an} {f2h(blo)} {f2h(bhi)} {bn}")
                meta[cid] = (op, (alo, ahi, an), (blo, bhi, bn))
    text = "\n".join(lines) + "\n"
    rc, hout, herr = common.run_prog(os.path.join(common.BUILD, "cxx", "bin", "interval"), text)
    mout = ""
    if ok_d:
        rc2, mout, merr = common.run_prog(os.path.join(common.BUILD, "ocaml", "idriver"), text)
    H, M = {}, {}
    for l in hout.splitlines():
        f = l.split()
        H.setdefault(f[0], {})[f[1]] = f[2:]
    for l in mout.splitlines():
        f = l.split()
        M.setdefault(f[0], {})[f[1]] = f[2:]

    stats = dict(op_cases=len(lines), flags_exact=0, bounds_close=0, dispatch_same=0, op_points=0,
                 unflagged_cases=0, critical_cases=0)
    corr_bad = []
    nontriv = set()
    byop_viol = {}
    for cid, (op, a, b) in meta.items():
        h = H.get(cid, {})
        m = M.get(cid, {})
        if "I" not in h:
            ck.violation("err", f"harness produced no answer for {cid}", {"input": [op, a, b]})
            continue
        hl, hh, hn, hs = h["I"]
        if "I" in m:
            ml, mh, mn, ms = m["I"]
            if hn == mn and (hs == ms or op not in BOUNDS_TIE):
                stats["flags_exact"] += 1
            else:
                corr_bad.append((op, a, b, h["I"], m["I"], "flag/state"))
            if op in BOUNDS_TIE and hn == "0":
                if common.ulp_diff32(hl, ml) <= 8 and common.ulp_diff32(hh, mh) <= 8:
                    stats["bounds_close"] += 1
                else:
                    corr_bad.append((op, a, b, h["I"], m["I"], "bounds"))
        if "D" in h:
            if h["D"][0] == "1":
                stats["dispatch_same"] += 1
            else:
                ck.violation("dispatch", f"IntervalEvaluator dispatch of {op} differs from Interval::{op}",
                             {"op": op, "a": [f2h(a[0]), f2h(a[1]), a[2]], "b": b and [f2h(b[0]), f2h(b[1]), b[2]],
                              "direct": h["I"], "evaluator": h["D"]})
        if "S" in h:
            f = dict(x.split("=") for x in h["S"][:2])
            stats["op_points"] += int(f["pts"])
            if hn == "0":
                stats["unflagged_cases"] += 1
                crit = (a[0] <= 0 <= a[1]) or (b is not None and b[0] <= 0 <= b[1]) or (a[0] <= 1 <= a[1]) or (a[0] <= -1 <= a[1])
                if a[0] < a[1] and crit:
                    stats["critical_cases"] += 1
                    nontriv.add((op, a, b))
            if int(f["bad"]):
                # key identifies the defect class (opcode + what kind of operands), so that a
                # different violation of the same property is still reported
                kind = "inf" if any(math.isinf(v) for v in (a[0], a[1]) + ((b[0], b[1]) if b else ())) else "finite"
                # what kind of failure: NaN value / value outside by <= 2 ulp / clearly outside;
                # whether it needs a NaN-flagged operand or an infinite / zero sample point
                sm = dict(x.split("=") for x in h["S"][2:])
                v = sm.get("v", "0")
                vn = (int(v, 16) & 0x7f800000) == 0x7f800000 and (int(v, 16) & 0x7fffff) != 0
                if vn:
                    fk = "nan"
                elif min(common.ulp_diff32(v, hl), common.ulp_diff32(v, hh)) <= 2:
                    fk = "ulp"
                else:
                    fk = "outside"
                opnd = "nanopnd" if (a[2] or (b and b[2])) else "safeopnd"
                key = f"op:{op}:{kind}:{fk}:{opnd}"
                byop_viol.setdefault(key, []).append((op, a, b, h["I"], h["S"]))
    for key, lst in byop_viol.items():
        op, a, b, res, s = lst[0]
        ck.violation(key, f"Interval::{op} unflagged result does not enclose a sampled point value ({len(lst)} cases)",
                     {"op": op, "a": [f2h(a[0]), f2h(a[1]), a[2]], "b": b and [f2h(b[0]), f2h(b[1]), b[2]],
                      "result": res, "sample": s,
                      "replay_cmd": "printf 'r %s %s ...' | .build/cxx/bin/interval" % ("bin" if b else "un", op)})

    # ---- whole expressions x boxes ----
    nexpr = 300 if quick else 6000
    progs = []
    for j in range(nexpr):
        exact = ck.rng.random() < 0.5
        if exact:
            p = exprlib.gen_program(ck.rng, f"x{j}", ck.rng.randint(4, 30), safe=True,
                                    ops_un=["OP_SQUARE", "OP_NEG", "OP_ABS", "OP_RECIP"],
                                    ops_bin=["OP_ADD", "OP_MUL", "OP_MIN", "OP_MAX", "OP_SUB", "OP_DIV", "OP_COMPARE", "OP_NANFILL"])
        else:
            # a third of these with several free variables (the updateVars stage of ivcheck needs them to matter)
            p = exprlib.gen_program(ck.rng, f"x{j}", ck.rng.randint(4, 30), safe=False,
                                    var_p=(0.25 if ck.rng.random() < 0.33 else 0.08))
        p.exact = exact
        p.q = []
        for _ in range(4):
            lo, hi = [], []
            for a in range(3):
                l, h = gen_interval(ck.rng, allow_inf=False)
                # moderate magnitudes: overflow / underflow / 2^31 quotients belong to the per-op stage
                l = min(max(l, -10.0), 10.0); h = max(min(h, 10.0), -10.0)
                if 0 < abs(l) < 1e-3:
                    l = 0.0
                if 0 < abs(h) < 1e-3:
                    h = 0.0
                if l > h:
                    l, h = h, l
                lo.append(l); hi.append(h)
            p.q.append(p.ncmd + 1)
            p.emit(f"ivcheck {p.root} " + " ".join(f2h(v) for v in lo + hi) + (" 1" if exact else " 0"))
        progs.append(p)
    hout2, hskip = common.run_cases_sharded(os.path.join(common.BUILD, "cxx", "bin", "expr"), [p.text() for p in progs])
    H2 = parse_out(hout2)
    stats["expr_boxes"] = 0
    stats["expr_points"] = 0
    stats["expr_unflagged"] = 0
    expr_viol = []
    for p in progs:
        for cmd in p.q:
            out = H2.get((p.cid, cmd), [])
            ivl = [l for l in out if l.startswith("IV ")]
            isl = [l for l in out if l.startswith("IS ")]
            if not ivl or not isl:
                continue
            stats["expr_boxes"] += 1
            f = dict(x.split("=") for x in isl[0].split()[1:3])
            stats["expr_points"] += int(f["pts"])
            if "illcond=" in isl[0]:
                stats["expr_points_illconditioned"] = stats.get("expr_points_illconditioned", 0) + int(isl[0].split("illcond=")[1].split()[0])
            if ivl[0].split()[3] == "0":
                stats["expr_unflagged"] += 1
            if int(f["bad"]):
                expr_viol.append((p, cmd, ivl[0], isl[0]))
    # classify whole-expression violations by the opcodes involved in known per-op defects
    for p, cmd, ivl, isl in expr_viol[:20]:
        txt = p.text()
        # localise: the same box on every handle of the program; the first failing handle names
        # the operation whose interval is unsound for operands that are themselves enclosed
        build = [l for l in p.lines if not l.startswith("ivcheck")]
        q = p.lines[cmd - 1].split()
        dis = "case d\n" + "\n".join(build + [f"ivcheck {h} " + " ".join(q[2:]) for h in range(len(p.kinds))]) + "\nend\n"
        rc, dout, _ = common.run_prog(os.path.join(common.BUILD, "cxx", "bin", "expr"), dis, timeout=60)
        first = None
        handle_cmds = [l for l in build]
        hidx = -1
        res = [l.split(" ", 2)[2] for l in dout.splitlines() if " IS " in l]
        for h, r in enumerate(res):
            if "bad=0" not in r:
                first = h
                break
        opname = "?"
        if first is not None:
            # the first-th handle-creating line
            hl = [l for l in build if l.split()[0] in ("x", "y", "z", "const", "var", "un", "bin", "remap", "apply", "flatten", "opt")]
            if first < len(hl):
                f = hl[first].split()
                opname = f[1] if f[0] in ("un", "bin") else f[0]
        ck.violation(f"expr:{opname}", "interval result of an expression does not enclose a sampled point value",
                     {"program": txt, "query": p.lines[cmd - 1], "interval": ivl, "sample": isl,
                      "first_unsound_handle": first, "operation": opname})

    if corr_bad:
        op, a, b, hi_, mi_, what = corr_bad[0]
        ck.violation("correspondence", f"model and implementation disagree on Interval::{op} ({what}); {len(corr_bad)} cases",
                     {"op": op, "a": [f2h(a[0]), f2h(a[1]), a[2]], "b": b and [f2h(b[0]), f2h(b[1]), b[2]],
                      "impl": hi_, "model": mi_, "theorem_or_stage": f"correspondence:Interval::{op}"}, no_input=True)
    if not proof["ok"]:
        ck.violation("proof", "Properties_C02.v no longer checks",
                     {"theorem_or_file": proof["file"], "log": proof["log"][-3000:]}, no_input=True)
    if not ok_d:
        ck.violation("driver", "extracted interval model does not build", {"log": log_d[-3000:]}, no_input=True)
    stats["corr_mismatch"] = len(corr_bad)
    ck.coverage.update(stats)
    ck.coverage["evaluations"] = stats["op_points"] + stats["expr_points"]
    ck.coverage["distinct_nontrivial"] = len(nontriv)
    ck.coverage["rule"] = ("26 opcodes x operand intervals from a pool aimed at the case splits (degenerate, tiny, huge, +-0 endpoints, "
                           "straddling 0 / +-1 / poles, infinite bounds in 30%, NaN-flagged operands in 8%); non-trivial = "
                           "non-degenerate operand, unflagged result, and a zero / +-1 inside an operand interval; "
                           "plus random expressions x 4 boxes x 48 points")
    ck.coverage["samples"] = lines[:3] + [progs[0].lines[-1]] if progs else lines[:3]
    ck.coverage["traces_validated_against_impl"] = stats["flags_exact"]
    ck.coverage["trusted_base"] += [
        "Boost.Interval's directed-rounding primitives (assumed to enclose the exact image; sampled)",
        "extraction (ExtrOcamlBasic only); ocaml/idriver.ml (binary32 iops, re-implemented outward-rounded primitives, diagnostic)",
        "harness/interval.cpp, harness/expr.cpp (sampling through ArrayEvaluator's own kernels)",
    ]
    ck.finish()
