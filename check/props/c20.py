"""C20 — progress reports are monotone and complete.

proof obligations : Properties_C20.v (build-phase credit = announced total for every shape of pruned / collapsed /
                    ambiguous cells and every schedule, never overshooting; exactly one child arrival completes an
                    ambiguous cell; walk-phase ticks = live cells; block striding of ObjectPool::reset covers every
                    block exactly once for every worker count, nested pools included; the reported fraction lies in
                    [0,1] and is monotone; finish() is idempotent; the two repaired defects as refutations of the old code)
correspondence    : the announced totals of the implementation == the model's (T(3, level) for the build phase; the
                    live-cell count of the implementation's own tree for the walk phase), final counters == totals
property oracle   : Mesh::render with a recording handler over random CSG shapes x 3 algorithms x worker counts x
                    resolutions (including regions smaller than the minimum feature and shapes whose cells are pruned at
                    every depth): every phase complete, callback values in [0,1] and non-decreasing, last value 1 when
                    every phase announced work; finish twice, destroy before / during a phase under a watchdog
"""
import os
import sys

sys.path.insert(0, os.path.dirname(os.path.dirname(os.path.abspath(__file__))))
import common
import exprlib
from exprlib import f2h, parse_out
from props.c05 import gen_csg


def run(replay=None):
    ck = common.Check("C20", level="proof")
    rep = common.regen_translators()      # Gen/ProgressFinish_gen.v: ProgressHandler::finish, from the source
    proof = ck.proof_obligations()
    ck.coverage["translators"] = {k: v for k, v in rep.items() if "Progress" in k or v != "ok"}
    ok_d, log_d = common.build_driver(**common.DRIVERS["pdriver"])
    ok_h, log_h = common.build_harness(["bin/expr"])
    if not ok_h:
        ck.violation("build", "harness does not build against /repo working tree", {"log": log_h[-3000:]}, no_input=True)
        ck.finish()
    quick = ck.tier == "quick"
    rng = ck.rng
    progs = []
    for k in range(90 if quick else 1500):
        r = rng.random()
        if r < 0.7:
            p = gen_csg(rng, f"g{k}", rng.randint(1, 5))
        elif r < 0.85:
            p = exprlib.gen_program(rng, f"g{k}", rng.randint(4, 20), safe=True, var_p=0.0, apply_p=0.0)
        else:
            # planes / axis-aligned slabs: whole sub-trees pruned at every depth, surface on cell boundaries
            p = exprlib.Prog(f"g{k}")
            for c in ("x", "y", "z"):
                p.emit(c, "axis")
            a = rng.randrange(3)
            cur = p.emit(f"bin OP_SUB {a} {p.emit('const ' + f2h(rng.choice([0.0, 0.5, -0.25, 0.3])), 'const')}", "tree")
            if rng.random() < 0.5:
                b = (a + 1) % 3
                cur = p.emit(f"bin OP_MAX {cur} {p.emit(f'un OP_NEG {b}', 'tree')}", "tree")
            p.root = cur
        p.qs = []
        lo = [rng.choice([-1.0, -2.0, rng.uniform(-2.5, -0.5)]) for _ in range(3)]
        hi = [rng.choice([1.0, 2.0, rng.uniform(0.5, 2.5)]) for _ in range(3)]
        for _ in range(2):
            alg = rng.randrange(3)
            workers = rng.choice([1, 2, 3, 4, 8, 16])
            mf = rng.choice([0.3, 0.5, 0.26, 1.0, 5.0, 0.2 if alg == 0 else 0.4])
            args = f"{p.root} {alg} {workers} {f2h(mf)} " + " ".join(f2h(v) for v in lo + hi)
            p.qs.append(("staged", alg, workers, mf, p.ncmd + 1)); p.emit("progress_staged " + args)
            p.qs.append(("render", alg, workers, mf, p.ncmd + 1)); p.emit("progress " + args + " 0")
        if k % 10 == 0:
            for sc in (1, 2, 3):
                p.qs.append(("scenario", sc, 0, 0, p.ncmd + 1)); p.emit(f"progress {p.root} 0 2 {f2h(0.5)} " + " ".join(f2h(v) for v in lo + hi) + f" {sc}")
        progs.append(p)
    # deep octrees: a small solid in a huge region, so that whole sub-trees are pruned at levels 8..13
    # (the credit for a pruned sub-tree is a 64-bit quantity there)
    for k in range(6 if quick else 60):
        p = exprlib.Prog(f"d{k}")
        for c in ("x", "y", "z"):
            p.emit(c, "axis")
        cx = [rng.uniform(1.0, 6.0) for _ in range(3)]
        d = [p.emit(f"bin OP_SUB {a} {p.emit('const ' + f2h(v), 'const')}", "tree") for a, v in zip((0, 1, 2), cx)]
        s2 = p.emit(f"bin OP_ADD {p.emit(f'un OP_SQUARE {d[0]}', 'tree')} {p.emit(f'un OP_SQUARE {d[1]}', 'tree')}", "tree")
        s3 = p.emit(f"bin OP_ADD {s2} {p.emit(f'un OP_SQUARE {d[2]}', 'tree')}", "tree")
        p.root = p.emit(f"bin OP_SUB {p.emit(f'un OP_SQRT {s3}', 'tree')} {p.emit('const ' + f2h(rng.uniform(1.5, 3.0)), 'const')}", "tree")
        size = rng.choice([300.0, 1000.0, 3000.0, 9000.0])
        lo = [-rng.uniform(0.0, 2.0) for _ in range(3)]
        hi = [l + size for l in lo]
        p.qs = []
        for alg in (0, rng.choice([1, 2])):
            workers = rng.choice([1, 4, 8])
            args = f"{p.root} {alg} {workers} {f2h(1.0)} " + " ".join(f2h(v) for v in lo + hi)
            p.qs.append(("render", alg, workers, 1.0, p.ncmd + 1)); p.emit("progress " + args + " 0")
        progs.append(p)
    exe_h = os.path.join(common.BUILD, "cxx", "bin", "expr")
    hout, hskip = common.run_cases_sharded(exe_h, [p.text() for p in progs], shards=8, timeout=900, single_timeout=240)
    H = parse_out(hout)
    for t in hskip:
        ck.violation("hang", "a progress-tracked render (or a finish / destroy scenario) did not return within the watchdog",
                     {"program": t})
    skipped = set(t.split()[1] for t in hskip)
    stats = dict(renders=0, staged=0, scenarios=0, phases_complete=0, callbacks=0, reached_one=0, levels={}, pruned_shapes=0,
                 model_build_equal=0, model_walk_equal=0, singletons=0, root_leaf_renders=0)
    mcases, mexpect = [], []
    samples = []
    for p in progs:
        if p.cid in skipped:
            continue
        for kind, alg, workers, mf, cmd in p.qs:
            out = H.get((p.cid, cmd), [])
            err = [l for l in out if l.startswith("ERR")]
            if err:
                ck.violation("exception", f"render raised: {err[0]}", {"program": p.text(), "command": p.lines[cmd - 1]})
                continue
            if kind == "scenario":
                stats["scenarios"] += 1
                if not any(l.startswith("PD done") for l in out):
                    ck.violation("scenario", "finish / destroy scenario did not complete", {"program": p.text(), "command": p.lines[cmd - 1]})
                continue
            if kind == "render":
                pg = [l for l in out if l.startswith("PG ")]
                if not pg or not any(l.startswith("PD done") for l in out):
                    ck.violation("render", "no answer from a progress-tracked render", {"program": p.text(), "command": p.lines[cmd - 1]})
                    continue
                f = dict(x.split("=", 1) for x in pg[0].split()[1:])
                stats["renders"] += 1
                stats["callbacks"] += int(f["cb"])
                lvl = int(f["level"]); stats["levels"][lvl] = stats["levels"].get(lvl, 0) + 1
                if lvl == 0:
                    stats["root_leaf_renders"] += 1
                phases = [tuple(int(v) for v in ph.split(":")) for ph in f["phases"].split(",")]
                for i, (tot, cnt) in enumerate(phases):
                    if tot != cnt:
                        ck.violation(f"incomplete:phase{i}", f"phase {i} announced {tot} ticks and received {cnt}",
                                     {"program": p.text(), "command": p.lines[cmd - 1], "detail": pg[0]})
                    else:
                        stats["phases_complete"] += 1
                if f["mono"] != "1":
                    ck.violation("monotone", "reported progress decreased", {"program": p.text(), "command": p.lines[cmd - 1], "detail": pg[0]})
                if f["range"] != "1":
                    ck.violation("range", "reported progress left [0,1]", {"program": p.text(), "command": p.lines[cmd - 1], "detail": pg[0]})
                if f["valid_after_finish"] != "0":
                    ck.violation("double_unlock", "after finish() the handler's future is still valid: the destructor's finish() unlocks the "
                                 "timed mutex a second time", {"program": p.text(), "command": p.lines[cmd - 1], "detail": pg[0]})
                if all(tot > 0 for tot, _ in phases) and float(f["last"]) == 1.0:
                    stats["reached_one"] += 1
                continue
            ps = [l for l in out if l.startswith("PS ")]
            if not ps:
                ck.violation("render", "no answer from the staged render", {"program": p.text(), "command": p.lines[cmd - 1]})
                continue
            f = dict(x.split("=", 1) for x in ps[0].split()[1:])
            stats["staged"] += 1
            shape = f["shape"]
            stats["singletons"] += shape.count("S")
            if "S" in shape or ("L" in shape and shape.count("B") < (8 ** int(f["level"]) - 1) // 7):
                stats["pruned_shapes"] += 1
            final = [tuple(int(v) for v in ph.split(":")) for ph in f["reset"].split(",")]
            after_build = [tuple(int(v) for v in ph.split(":")) for ph in f["build"].split(",")]
            after_walk = [tuple(int(v) for v in ph.split(":")) for ph in f["walk"].split(",")]
            if after_build[0][0] != after_build[0][1] or after_walk[1][0] != after_walk[1][1] or final[2][0] != final[2][1]:
                ck.violation("incomplete:staged", "a phase ended with counter != announced total",
                             {"program": p.text(), "command": p.lines[cmd - 1], "detail": ps[0][:300]})
            mcases.append(f"case {p.cid}.{cmd}\nbuild 3 {f['level']}\nwalk 3 {shape}\nend\n")
            mexpect.append((p, cmd, after_build[0][0], after_walk[1][0], ps[0][:200]))
            if len(samples) < 3:
                samples.append({"command": p.lines[cmd - 1], "answer": ps[0][:240]})
    corr_bad = []
    if ok_d and mcases:
        exe_m = os.path.join(common.BUILD, "ocaml", "pdriver")
        mout, _ = common.run_cases_sharded(exe_m, mcases, timeout=600)
        M = {}
        for line in mout.splitlines():
            parts = line.split(" ", 2)
            M.setdefault((parts[0], int(parts[1])), []).append(parts[2])
        for p, cmd, btot, wtot, detail in mexpect:
            pb = (M.get((f"{p.cid}.{cmd}", 1)) or [""])[0].split()
            pw = (M.get((f"{p.cid}.{cmd}", 2)) or [""])[0].split()
            if len(pb) == 3 and int(pb[1]) == btot and int(pb[2]) == btot:
                stats["model_build_equal"] += 1
            else:
                corr_bad.append((p, cmd, "build total", btot, pb))
            if len(pw) == 3 and int(pw[1]) == wtot and int(pw[2]) == wtot:
                stats["model_walk_equal"] += 1
            else:
                corr_bad.append((p, cmd, "walk total", wtot, pw))
    if corr_bad:
        p, cmd, what, impl, model = corr_bad[0]
        ck.violation("correspondence", f"model and implementation disagree on the {what} ({len(corr_bad)} cases)",
                     {"program": p.text(), "command": p.lines[cmd - 1], "impl": impl, "model": model,
                      "theorem_or_stage": "correspondence:" + what.replace(" ", "-")}, no_input=True)
    if not proof["ok"]:
        ck.violation("proof", "Properties_C20.v no longer checks", {"theorem_or_file": proof["file"],
                     "log": proof["log"][-3000:]}, no_input=True)
    if not ok_d:
        ck.violation("driver", "extracted model does not build", {"log": log_d[-3000:]}, no_input=True)
    stats["corr_mismatch"] = len(corr_bad)
    stats["levels"] = {str(k): v for k, v in sorted(stats["levels"].items())}
    ck.coverage.update(stats)
    ck.coverage["evaluations"] = stats["renders"] + stats["staged"] + stats["scenarios"]
    ck.coverage["traces_validated_against_impl"] = stats["model_build_equal"] + stats["model_walk_equal"]
    ck.coverage["samples"] = samples
    ck.coverage["rule"] = ("CSG / random / axis-aligned shapes x {DC, simplex, hybrid} x workers {1,2,3,4,8,16} x min_feature from finer than "
                           "the region to coarser than it (root-is-a-leaf renders); staged renders dump the tree shape between phases")
    ck.coverage["trusted_base"] += [
        "harness/expr.cpp RecHandler (reads the protected phase table through a subclass)",
        "extraction: ExtrOcamlBasic only; ocaml/pdriver.ml",
        "schedules: the theorems quantify over all orders of tick events; the runs only sample OS schedules",
    ]
    ck.assumptions += ["tick() and nextPhase() race on current_phase by design of the library (C14's concern); the accounting theorems "
                       "are about the multiset of tick calls, which no interleaving changes"]
    ck.finish()
