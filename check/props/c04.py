"""C04 — the mesh is the boundary of the solid, to within the resolution.

proof obligations : Properties_C04.v (pruning is sound: a cell whose interval result excludes zero contains no point of
                    the zero set and every point of it is classified like its interval; vertices of bounded QEF solves
                    stay in their cell (from C19); consequences for where surface can be)
property oracle   : Mesh::render of random closed 1-Lipschitz solids x 3 algorithms x workers x resolutions, with and
                    without an acceleration volume tree: generalised winding number (solid-angle sum) at random points
                    whose field magnitude exceeds 1.5 x the feature size is 1 inside and 0 outside; every vertex inside
                    the region; |field| at every referenced vertex <= 3 x feature size (DC, hybrid), <= 0.02 x (simplex)
partial           : the winding-number statement itself is established by the oracle, not by a theorem
"""
import os
import sys

sys.path.insert(0, os.path.dirname(os.path.dirname(os.path.abspath(__file__))))
import common
import meshgen
from exprlib import f2h, parse_out


def run(replay=None):
    ck = common.Check("C04", level="proof")
    proof = ck.proof_obligations()
    ok_h, log_h = common.build_harness(["bin/expr"])
    if not ok_h:
        ck.violation("build", "harness does not build against /repo working tree", {"log": log_h[-3000:]}, no_input=True)
        ck.finish()
    quick = ck.tier == "quick"
    rng = ck.rng
    box = " ".join(f2h(v) for v in meshgen.BOX3)
    progs = []
    for k in range(40 if quick else 800):
        # (every eighth shape is an angular one: atan2 in the field, surface in all four quadrants of its arguments)
        p = meshgen.gear_solid(rng, f"w{k}") if k % 8 == 7 else meshgen.closed_solid(rng, f"w{k}")
        p.qs = []
        for alg in (0, 0, 1, 2):
            for _ in range(1 if quick else 2):
                workers = rng.choice([1, 2, 4, 8, 16])
                mf = rng.choice([0.3, 0.22, 0.4, 0.18] if alg == 0 else [0.45, 0.35, 0.6])
                # the volume tree only accelerates dual contouring; resolutions: same as the mesh, x2, x4
                vol = rng.choice([0, 1, 2, 3, 1, 2]) if alg == 0 else rng.choice([0, 0, 2])
                probes = 60
                if k % 8 == 7:
                    # angular shapes: finer, with many more winding probes (a pruning error of the interval
                    # arithmetic in one quadrant moves the winding number at a few deep points only)
                    mf, probes = rng.choice([0.1, 0.08, 0.12]), 500
                p.qs.append((alg, workers, mf, vol, p.ncmd + 1))
                p.emit(f"mesh {p.root} {alg} {workers} {f2h(mf)} {box} {f2h(1e-8)} {rng.randrange(1 << 30)} {vol} {probes}")
        progs.append(p)
    exe_h = os.path.join(common.BUILD, "cxx", "bin", "expr")
    hout, hskip = common.run_cases_sharded(exe_h, [p.text() for p in progs], shards=8, timeout=1800, single_timeout=600)
    for t in hskip:
        ck.violation("hang", "a render did not terminate within the watchdog", {"program": t[:3000]})
    H = parse_out(hout)
    skipped = set(t.split()[1] for t in hskip)
    stats = dict(renders=0, winding_points=0, vertices=0, with_vol_tree=0, max_field_ratio={"dc": 0.0, "simplex": 0.0, "hybrid": 0.0})
    samples = []
    for p in progs:
        if p.cid in skipped:
            continue
        for alg, workers, mf, vol, cmd in p.qs:
            out = [l for l in H.get((p.cid, cmd), []) if l.startswith("MA ")]
            if not out or out[0] == "MA null":
                ck.violation("no_mesh", f"render returned no mesh / raised: {H.get((p.cid, cmd), [])[:1]}",
                             {"program": p.text(), "command": p.lines[cmd - 1]})
                continue
            f = dict(x.split("=", 1) for x in out[0].split(" info=")[0].split()[1:])
            name = ["dc", "simplex", "hybrid"][alg]
            stats["renders"] += 1
            stats["with_vol_tree"] += 1 if vol else 0
            stats["winding_points"] += int(f["wind_pts"])
            stats["vertices"] += int(f["verts"])
            ratio = float(f["maxfield"])
            stats["max_field_ratio"][name] = max(stats["max_field_ratio"][name], ratio)
            if int(f["wind_bad"]) and alg == 0 and ratio > 1.0:
                # a dual-contouring vertex more than one feature size off the surface (the recorded finding: its
                # QEF solve is unbounded) drags the surface across probes 1.5 feature sizes away
                ck.violation("offsurface:dc", f"a dual-contouring vertex {ratio:.3g} feature sizes from the zero level set "
                             "puts a probe on the wrong side of the mesh",
                             {"program": p.text(), "command": p.lines[cmd - 1], "detail": out[0]})
            elif int(f["wind_bad"]):
                ck.violation(f"winding:{name}" + (":vol" if vol else ""),
                             "the mesh does not separate inside from outside like the expression (winding number) at a point far from the surface",
                             {"program": p.text(), "command": p.lines[cmd - 1], "detail": out[0]})
            if int(f["unbalanced"]):
                # (simplex + cell collapsing - always on here - is the finding recorded under C03)
                ck.violation("hole:simplex:collapse" if alg == 1 else f"hole:{name}" + (":vol" if vol else ""),
                             "the mesh has unpaired edges (a hole): it cannot separate inside from outside",
                             {"program": p.text(), "command": p.lines[cmd - 1], "detail": out[0]})
            if int(f["outside"]):
                ck.violation(f"outside:{name}", "a mesh vertex lies outside the render region",
                             {"program": p.text(), "command": p.lines[cmd - 1], "detail": out[0]})
            bound = 0.02 if alg == 1 else 3.0
            if ratio > bound:
                ck.violation(f"offsurface:{name}", f"a mesh vertex is {ratio:.3g} feature sizes from the zero level set (bound {bound})",
                             {"program": p.text(), "command": p.lines[cmd - 1], "detail": out[0]})
            if len(samples) < 3:
                samples.append({"command": p.lines[cmd - 1], "answer": out[0]})
    # ---- tie for the lattice-boundary theorems (C04_dc_quads_are_boundary_edges): on a uniform grid the
    # implementation's dual-contouring mesh has two triangles per lattice edge joining a filled to an empty point
    gprogs = []
    for k in range(10 if quick else 200):
        p = meshgen.closed_solid(rng, f"b{k}", rotate=rng.random() < 0.5)
        level = rng.choice([2, 3, 3, 4])
        p.q = p.ncmd + 1
        p.emit(f"dcgrid {p.root} {level} {box} {rng.choice([1, 4, 8])}")
        gprogs.append((p, level))
    gout, _ = common.run_cases_sharded(exe_h, [p.text() for p, _ in gprogs], shards=8, timeout=900, single_timeout=300)
    G = parse_out(gout)
    stats["grid_cases"] = 0; stats["grid_boundary_edges"] = 0
    for p, level in gprogs:
        l = [x for x in G.get((p.cid, p.q), []) if x.startswith("DG ")]
        if not l:
            continue
        head, pts = l[0].split(" filled=")
        f = dict(x.split("=", 1) for x in head.split()[1:])
        if int(f["zero"]) or not pts.strip():
            continue
        S = set(tuple(int(c) for c in t.split(",")) for t in pts.split())
        edges = sum(1 for (i, j, k2) in S for d in ((1, 0, 0), (0, 1, 0), (0, 0, 1), (-1, 0, 0), (0, -1, 0), (0, 0, -1))
                    if (i + d[0], j + d[1], k2 + d[2]) not in S)
        stats["grid_cases"] += 1; stats["grid_boundary_edges"] += edges
        if int(f["tris"]) != 2 * edges or f["closed"] != "1":
            ck.violation("correspondence", "uniform-grid dual contouring: the mesh is not two triangles per filled-empty lattice edge "
                         f"({f['tris']} triangles, {edges} boundary edges, closed={f['closed']})",
                         {"program": p.text(), "detail": l[0][:300], "theorem_or_stage": "correspondence:dc-boundary-edges"}, no_input=True)
    # the recorded finding: dual contouring places QEF vertices without bounds
    corpus = os.path.join(common.VERIF, "check", "corpus", "c04_dc_vertex_outside_region.txt")
    rc, cout, _ = common.run_prog(exe_h, open(corpus).read(), timeout=300)
    for l in cout.splitlines():
        if " MA " in l and " outside=0 " not in l:
            ck.violation("outside:dc", "a dual-contouring vertex lies outside the render region on the recorded input",
                         {"program": open(corpus).read(), "detail": l})
    if not proof["ok"]:
        ck.violation("proof", "Properties_C04.v no longer checks", {"theorem_or_file": proof["file"],
                     "log": proof["log"][-3000:]}, no_input=True)
    ck.coverage.update(stats)
    ck.coverage["evaluations"] = stats["renders"] + stats["winding_points"]
    ck.coverage["samples"] = samples
    ck.coverage["rule"] = ("closed 1-Lipschitz CSG solids x 3 algorithms x workers x min_feature x {no vol tree, vol tree at half resolution}; "
                           "60 random points per mesh, counted when |field| > 1.5 min_feature")
    ck.coverage["trusted_base"] += ["harness/expr.cpp audit_mesh (van Oosterom-Strackee solid angles in doubles)"]
    ck.assumptions += ["the separation statement is tested, not proved; the theorems concern pruning soundness and vertex containment"]
    ck.finish()
