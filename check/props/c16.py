"""C16 — black-box oracles behave exactly like the expressions they wrap.

proof obligations : Properties_C16.v (deck + ORACLE clauses; the per-coordinate evaluator tower of TransformedOracle
                    computes the composition; wrapping; Jacobian chain rule; interval composition with NaN flags;
                    context preservation; the free-variable defect as a refutation)
correspondence    : flatten / deck of trees containing oracle nodes (TransformedOracleClause placement, ORACLE
                    clauses, d_oracles order) == the model's, exactly; point values through the harness' ExprOracle
                    (an Oracle answering every interface method with a private Evaluator of the wrapped tree) against
                    the extracted [evaluator] / [oracle_obj] tower
property oracle   : the same random context built over the oracle and over the plain expression: values (both against
                    the model's reference denotation), gradients at unambiguous points, feature sets, interval soundness
                    on the oracle tree's own samples (NaN values need the flag), nested specialisation (pushed tapes and
                    oracle contexts) bit-identical to the unspecialised answer
meshes            : closed solids wrapped in an oracle (optionally under a remap) rendered by the three meshers next to the
                    plain solid: every audit the plain mesh passes (closed, manifold, winding, vertices near the surface)
                    the oracle's mesh must pass too
not covered here  : user oracles that break the Oracle interface contract
"""
import os
import sys

sys.path.insert(0, os.path.dirname(os.path.dirname(os.path.abspath(__file__))))
import common
import exprlib
from exprlib import f2h, h2f, parse_out, value_ok

# abs is left out: its kink at 0 is not reported as an ambiguity by either path, and the two paths
# legitimately pick different one-sided gradients there (the property speaks of differentiable points
# and of min/max ties)
UN = ["OP_NEG", "OP_SQUARE", "OP_SIN", "OP_COS", "OP_ATAN"]
BIN = ["OP_ADD", "OP_SUB", "OP_MUL", "OP_MIN", "OP_MAX", "OP_MIN", "OP_MAX"]


def gen_case(rng, cid):
    p = exprlib.gen_program(rng, cid, rng.randint(3, 14), safe=True, remap_p=0.04, apply_p=0.0, var_p=0.0,
                            ops_un=["OP_SQUARE", "OP_NEG", "OP_SIN", "OP_COS", "OP_ATAN", "OP_EXP"],
                            ops_bin=["OP_ADD", "OP_SUB", "OP_MUL", "OP_MIN", "OP_MAX"])
    e = p.root
    if p.kinds[e] in ("const",):
        e = 0
    emit = p.emit2
    o = emit(f"oracle {e}", "tree")
    ax = [0, 1, 2]

    def const(v):
        return emit(f"const {f2h(v)}", "const")

    def coord(k):
        """a coordinate tree over x y z (no free variables)"""
        r = rng.random()
        a = ax[k]
        if r < 0.25:
            return a
        if r < 0.40:
            return ax[rng.randrange(3)]
        if r < 0.60:
            return emit(f"bin OP_ADD {a} {const(rng.choice([0.5, -1.0, 0.25, 2.0]))}", "tree")
        if r < 0.75:
            return emit(f"bin OP_MUL {a} {const(rng.choice([2.0, -1.0, 0.5, 1.5]))}", "tree")
        if r < 0.85:
            b = ax[(k + 1) % 3]
            t1 = emit(f"bin OP_MUL {a} {const(0.8)}", "tree")
            t2 = emit(f"bin OP_MUL {b} {const(0.6)}", "tree")
            return emit(f"bin OP_ADD {t1} {t2}", "tree")
        if r < 0.93:
            return emit(f"un {rng.choice(['OP_SIN', 'OP_NEG', 'OP_ATAN'])} {a}", "tree")
        return emit(f"bin {rng.choice(['OP_MIN', 'OP_MAX'])} {a} {ax[(k + 2) % 3]}", "tree")   # piecewise coordinate

    # the context, as a list of steps applied to the hole
    steps = []
    nrem = 0
    for _ in range(rng.randint(1, 5)):
        r = rng.random()
        if nrem >= 1 and rng.random() < 0.22:
            # the SAME oracle node at two nesting depths of one tree: the current term combined with an earlier
            # stage of itself (the bare oracle, or the oracle under fewer remaps), in either operand order
            steps.append(("bin2", rng.choice(BIN), rng.randrange(4), rng.random() < 0.5))
            continue
        if r < 0.5:
            steps.append(("remap", coord(0), coord(1), coord(2)))
            nrem += 1
            if rng.random() < 0.35:
                # materialise the transformed oracle before the next remap (TransformedOracleClause::remap)
                steps.append((rng.choice(["flatten", "opt"]),))
        elif r < 0.8:
            aux = rng.choice([0, 1, 2, const(rng.choice([0.5, 1.0, -0.25])),
                              emit(f"bin OP_SUB {ax[rng.randrange(3)]} {const(rng.choice([0.5, 1.0]))}", "tree")])
            steps.append(("bin", rng.choice(BIN), aux, rng.random() < 0.5))
        else:
            steps.append(("un", rng.choice(UN)))
    if nrem == 0:
        steps.insert(0, ("remap", coord(0), coord(1), coord(2)))

    return finish_case(p, rng, emit, o, e, steps)


def finish_case(p, rng, emit, o, e, steps, crease_axis=None):
    """builds the context over the oracle and over the plain expression and emits the comparison commands"""
    def build(hole):
        cur = hole
        vals = [hole]
        for st in steps:
            if st[0] == "bin2":
                other = vals[st[2] % len(vals)]
                cur = emit(f"bin {st[1]} {other if st[3] else cur} {cur if st[3] else other}", "tree")
                vals.append(cur)
                continue
            vals.append(cur)
            if st[0] == "remap":
                cur = emit(f"remap {cur} {st[1]} {st[2]} {st[3]}", "tree")
            elif st[0] == "bin":
                cur = emit(f"bin {st[1]} {st[2] if st[3] else cur} {cur if st[3] else st[2]}", "tree")
            elif st[0] in ("flatten", "opt"):
                cur = emit(f"{st[0]} {cur}", "tree")
            else:
                cur = emit(f"un {st[1]} {cur}", "tree")
        return cur
    ro, re_ = build(o), build(e)
    p.ro, p.re, p.steps = ro, re_, steps
    p.q = {}
    hf = emit(f"flatten {ro}", "tree")
    p.q["dumpf"] = p.ncmd + 1; p.emit(f"dump {hf}")
    p.q["deck"] = p.ncmd + 1; p.emit(f"deck {ro}")
    p.pts = []
    for j in range(6):
        pt = [rng.choice([0.0, 1.0, -1.0, 0.5, rng.uniform(-2, 2), rng.uniform(-2, 2)]) for _ in range(3)]
        args = " ".join(f2h(v) for v in pt)
        p.pts.append((pt, p.ncmd + 1, p.ncmd + 2))
        p.emit(f"eval {ro} {args}")
        p.emit(f"eval {re_} {args}")
    boxes = []
    lo = [rng.uniform(-2, 0) for _ in range(3)]
    hi = [l + rng.uniform(0.5, 2.5) for l in lo]
    if crease_axis is not None:
        lo[crease_axis] = rng.uniform(-1.5, -0.5); hi[crease_axis] = rng.uniform(0.5, 1.5)
    for _ in range(rng.randint(1, 3)):
        boxes.append((list(lo), list(hi)))
        for a in range(3):
            w = hi[a] - lo[a]
            l2 = lo[a] + rng.uniform(0, 0.5) * w
            h2 = l2 + rng.uniform(0.3, 0.5) * w
            if a == crease_axis and not (l2 < 0.0 < h2):
                continue                               # keep the crease inside every nested box
            hi[a] = h2
            lo[a] = l2
    p.q["cmp"] = p.ncmd + 1
    p.emit(f"oraclecmp {ro} {re_} {len(boxes)} " + " ".join(f2h(v) for (l, h) in boxes for v in l + h))
    return p




def gen_crease(rng, cid):
    """ONE crease in a coordinate map above ONE crease of the wrapped expression, at the same place: the oracle
    max(a, -2a) (or min(a, 3a) + b) under the map a' = max(a, -a); on the crease a = 0 only the branches compatible
    with a' >= 0 are realisable, and the oracle tree must report exactly those"""
    p = exprlib.Prog(cid)
    for c in ("x", "y", "z"):
        p.emit(c, "axis")
    p.emit2 = lambda l, k="tree": p.emit(l, k)
    emit = p.emit2
    k = rng.randrange(3)
    a = k

    def const(v):
        return emit(f"const {f2h(v)}", "const")
    if rng.random() < 0.5:
        e = emit(f"bin OP_MAX {a} {emit(f'bin OP_MUL {a} {const(-2.0)}', 'tree')}", "tree")
    else:
        m = emit(f"bin OP_MIN {a} {emit(f'bin OP_MUL {a} {const(3.0)}', 'tree')}", "tree")
        e = emit(f"bin OP_ADD {m} {(k + 1) % 3}", "tree")
    o = emit(f"oracle {e}", "tree")
    fold = emit(f"bin {rng.choice(['OP_MAX', 'OP_MAX', 'OP_MIN'])} {a} {emit(f'un OP_NEG {a}', 'tree')}", "tree")
    coords = [0, 1, 2]
    coords[k] = fold
    for j in range(3):
        if j != k and rng.random() < 0.4:
            coords[j] = emit(f"bin OP_ADD {j} {const(rng.choice([0.5, -1.0, 0.25]))}", "tree")
    steps = [("remap", coords[0], coords[1], coords[2])]
    if rng.random() < 0.3:
        steps.append((rng.choice(["flatten", "opt"]),))
    if rng.random() < 0.4:
        steps.append(("bin", "OP_ADD", (k + 2) % 3, True))
    q = finish_case(p, rng, emit, o, e, steps, crease_axis=k)
    q.simple_crease = True
    return q

def known_case():
    """the recorded finding: a free variable in a coordinate tree above an oracle"""
    p = exprlib.Prog("kf")
    for c in ("x", "y", "z"):
        p.emit(c, "axis")
    sq = p.emit("bin OP_MUL 0 0", "tree")
    e = p.emit(f"bin OP_ADD {sq} 1", "tree")
    o = p.emit(f"oracle {e}", "tree")
    v = p.emit("var", "var")
    xv = p.emit(f"bin OP_ADD 0 {v}", "tree")
    p.ro = p.emit(f"remap {o} {xv} 1 2", "tree")
    p.re = p.emit(f"remap {e} {xv} 1 2", "tree")
    args = " ".join(f2h(t) for t in (1.0, 2.0, 0.0, 3.0))
    p.q = {"o": p.ncmd + 1, "e": p.ncmd + 2}
    p.emit(f"eval {p.ro} {args}")
    p.emit(f"eval {p.re} {args}")
    return p


def run(replay=None):
    ck = common.Check("C16", level="proof")
    common.regen_translators()            # Gen/TransformedInterval_gen.v: TransformedOracle::evalInterval, from the source
    proof = ck.proof_obligations()
    ok_d, log_d = common.build_driver(**common.DRIVERS["driver"])
    ok_h, log_h = common.build_harness(["bin/expr"])
    if not ok_h:
        ck.violation("build", "harness does not build against /repo working tree", {"log": log_h[-3000:]}, no_input=True)
        ck.finish()
    quick = ck.tier == "quick"
    progs = [gen_case(ck.rng, f"o{k}") for k in range(300 if quick else 6000)]
    progs += [gen_crease(ck.rng, f"c{k}") for k in range(40 if quick else 800)]
    kf = known_case()
    texts = [p.text() for p in progs] + [kf.text()]
    exe_h = os.path.join(common.BUILD, "cxx", "bin", "expr")
    exe_m = os.path.join(common.BUILD, "ocaml", "driver")
    hout, hskip = common.run_cases_sharded(exe_h, texts)
    H = parse_out(hout)
    M, mskip = {}, []
    if ok_d:
        mout, mskip = common.run_cases_sharded(exe_m, [p.text() for p in progs], timeout=300)
        M = parse_out(mout)
    skipped = set(t.split()[1] for t in hskip + mskip)
    stats = dict(programs=0, skipped_timeouts=len(skipped), flatten_exact=0, deck_exact=0, values=0, values_skipped=0,
                 grad_points=0, feature_points=0, interval_points=0, push_points=0, remap_steps=0, transformed_nodes=0,
                 shortened_contexts=0)
    corr_bad = []
    samples = []
    oof_cids = set(cid_ for (cid_, _), ls in M.items() if "OOF" in ls)
    for p in progs:
        if p.cid in skipped:
            continue
        stats["programs"] += 1
        if p.cid in oof_cids:
            ck.violation("correspondence", "the model's optimiser ran out of level fuel (Tree/Optimize.v optimized_full)",
                         {"program": p.text(), "theorem_or_stage": "correspondence:level-fuel"}, no_input=True)
        stats["remap_steps"] += sum(1 for s in p.steps if s[0] == "remap")

        def get(D, key):
            v = D.get((p.cid, key))
            return v[0] if v else None
        hf, mf = get(H, p.q["dumpf"]), get(M, p.q["dumpf"])
        if hf and hf.startswith("D "):
            stats["transformed_nodes"] += hf.count(" T.")
        if ok_d:
            if hf is not None and (hf == mf or (mf and exprlib.dags_equal_mod_sharing(hf[2:], mf[2:]))):
                stats["flatten_exact"] += 1
            elif any(st[0] == "opt" for st in p.steps) and hf and mf and exprlib.ac_equal_tol(hf[2:], mf[2:], ulps=64):
                # an optimise step in the chain: TransformedOracleClause::optimized flattens and optimises the
                # coordinate trees (Tree/Optimize.v's NOracleT case, level-fuelled), and the optimiser orders
                # commutative operands by address - compared modulo associativity / commutativity
                stats["flatten_ac_equal"] = stats.get("flatten_ac_equal", 0) + 1
            else:
                corr_bad.append((p, "flatten", hf, mf))
            hk = [l for l in H.get((p.cid, p.q["deck"]), []) if l.startswith("K ")]
            mk = [l for l in M.get((p.cid, p.q["deck"]), []) if l.startswith("K ")]
            hod = [l for l in H.get((p.cid, p.q["deck"]), []) if l.startswith("OD ")]
            # the optimiser orders commutative operands by address: the deck is compared only when the
            # optimised DAGs coincide
            if hk and mk and hk[0] == mk[0]:
                stats["deck_exact"] += 1
        for pt, ko, ke in p.pts:
            ho, he, mo, me = get(H, ko), get(H, ke), get(M, ko), get(M, ke)
            if ho is None or not ho.startswith("V ") or he is None or not he.startswith("V "):
                ck.violation("evalerr", f"evaluation failed: {ho} / {he}", {"program": p.text(), "point": pt})
                continue
            if "batchbad=0" not in ho:
                ck.violation("batch", "an oracle tree evaluates differently depending on batch size / slot",
                             {"program": p.text(), "point": pt, "detail": ho})
            if mo and mo.startswith("V ") and me and me.startswith("V "):
                ok1, sk1 = value_ok(ho.split()[1], mo)
                ok2, sk2 = value_ok(he.split()[1], me)
                ok3, sk3 = value_ok(ho.split()[1], me)          # oracle tree against the PLAIN tree's denotation
                if sk1 or sk2 or sk3:
                    stats["values_skipped"] += 1
                    continue
                stats["values"] += 1
                if not ok3 or not ok1:
                    ck.violation("value", "a tree over an oracle evaluates differently from the same tree over the wrapped expression",
                                 {"program": p.text(), "point": pt, "oracle_tree": ho, "plain_tree": he, "model": me})
        oc = [l for l in H.get((p.cid, p.q["cmp"]), []) if l.startswith("OC ")]
        oi = [l for l in H.get((p.cid, p.q["cmp"]), []) if l.startswith("OI ")]
        err = [l for l in H.get((p.cid, p.q["cmp"]), []) if l.startswith("ERR")]
        if err or not oc:
            ck.violation("cmperr", f"oracle comparison failed: {err[:1]}", {"program": p.text()})
            continue
        f = dict(x.split("=") for x in oc[0].split()[1:] if "=" in x)
        stats["grad_points"] += int(f["gpts"]); stats["feature_points"] += int(f["fpts"])
        stats["interval_points"] += int(f["pts"]); stats["push_points"] += int(f["ppts"])
        stats["batch_points"] = stats.get("batch_points", 0) + int(f.get("bpts", 0))
        stats["value_mismatch_skipped"] = stats.get("value_mismatch_skipped", 0) + int(f.get("vskip", 0))
        for l in oi:
            if "pushed_len=" in l:
                a, b = l.split("pushed_len=")[1].split(" base_len=")
                if int(a) < int(b):
                    stats["shortened_contexts"] += 1
        if int(f["fmiss"]):
            ck.violation("features:missing", "the oracle tree misses a feature (tied-branch gradient) the plain tree reports",
                         {"program": p.text(), "detail": oc[0]})
        elif int(f["fbad"]):
            # (the recorded finding concerns SEVERAL coinciding nested ties; the single-crease family has its own key)
            ck.violation("features:spurious" + (":single-crease" if getattr(p, "simple_crease", False) else ""), "the oracle tree reports a gradient that neither the plain tree's feature set nor any nearby point realises",
                         {"program": p.text(), "detail": oc[0]})
        for key, what in (("gbad", "gradient of the oracle tree differs from the plain tree's at an unambiguous point"),
                          ("ibad", "interval result of the oracle tree does not enclose its own point value (or misses a NaN)"),
                          ("pbad", "a specialised tape / oracle context changes the answer inside its region"),
                          ("abad", "the oracle tree reports no ambiguity where the plain tree has several distinct gradients"),
                          ("bbad", "a batch over an oracle tree answers differently from single-point queries, or a second "
                                   "evaluation of the same stored points differs from the first")):
            if int(f[key]):
                ck.violation(key, what, {"program": p.text(), "detail": oc[0], "intervals": oi})
        if len(samples) < 3:
            samples.append({"program": p.lines[-12:], "flattened": hf, "comparison": oc[0]})

    # ---- meshes: "meshes rendered from either satisfy the same guarantees" ----
    # a closed solid wrapped in an oracle (optionally under a translation remap) and the plain solid, rendered with the
    # same settings by the three meshers: whenever the plain mesh passes an audit (closed, no repeated vertex, indices,
    # edge-manifold for simplex / hybrid, winding number inside / outside, vertices near the surface), so must the
    # oracle's.  (Simplex meshes are rendered without cell collapsing: its holes are a recorded C03 finding.)
    import meshgen
    mbox = " ".join(f2h(v) for v in meshgen.BOX3)
    mprogs = []
    for k in range(10 if quick else 150):
        p = meshgen.closed_solid(ck.rng, f"mo{k}", rotate=ck.rng.random() < 0.5, sharp=ck.rng.random() < 0.5)
        plain = p.root
        orc = p.emit(f"oracle {plain}", "tree")
        if ck.rng.random() < 0.5:
            dx = p.emit(f"bin OP_ADD 0 {p.emit('const ' + f2h(ck.rng.uniform(-0.15, 0.15)), 'const')}", "tree")
            plain = p.emit(f"remap {plain} {dx} 1 2", "tree")
            orc = p.emit(f"remap {orc} {dx} 1 2", "tree")
        p.qs = []
        for alg in range(3):
            workers = ck.rng.choice([1, 2, 4])
            mf = ck.rng.choice([0.3, 0.4]) if alg == 0 else ck.rng.choice([0.5, 0.6])
            maxerr = -1.0 if alg == 1 else 1e-8
            sd = ck.rng.randrange(1 << 30)
            a = p.ncmd + 1
            p.emit(f"mesh {plain} {alg} {workers} {f2h(mf)} {mbox} {f2h(maxerr)} {sd}")
            b = p.ncmd + 1
            p.emit(f"mesh {orc} {alg} {workers} {f2h(mf)} {mbox} {f2h(maxerr)} {sd}")
            p.qs.append((alg, a, b))
        mprogs.append(p)
    mout, mskip = common.run_cases_sharded(exe_h, [p.text() for p in mprogs], shards=8, timeout=1800, single_timeout=600)
    for t in mskip:
        ck.violation("mesh:hang", "a render over an oracle tree did not terminate within the watchdog", {"program": t[:3000]})
    MH = parse_out(mout)
    stats["mesh_pairs"] = 0
    for p in mprogs:
        if any(t.split()[1] == p.cid for t in mskip):
            continue
        for alg, a, b in p.qs:
            la = [l for l in MH.get((p.cid, a), []) if l.startswith("MA ")]
            lb = [l for l in MH.get((p.cid, b), []) if l.startswith("MA ")]
            if not la or la[0] == "MA null":
                continue                                   # the plain render itself failed: C03 / C04's business
            if not lb or lb[0] == "MA null":
                ck.violation("mesh:none", f"the oracle tree renders no mesh where the plain tree does: {MH.get((p.cid, b), [])[:1]}",
                             {"program": p.text(), "command": p.lines[b - 1]})
                continue
            fa = dict(x.split("=", 1) for x in la[0].split(" info=")[0].split()[1:])
            fb = dict(x.split("=", 1) for x in lb[0].split(" info=")[0].split()[1:])
            stats["mesh_pairs"] += 1
            name = ["dc", "simplex", "hybrid"][alg]
            keys = ["unbalanced", "degenerate", "bad_index", "unreferenced", "wind_bad"] + (["nonmanifold"] if alg else [])
            for key in keys:
                if int(fa[key]) == 0 and int(fb[key]) != 0:
                    ck.violation(f"mesh:{key}:{name}", f"the mesh of the oracle tree fails an audit ({key}) that the mesh of the plain tree passes",
                                 {"program": p.text(), "plain": la[0], "oracle": lb[0]})
            # (the SIZE of the two meshes is not compared: with cell collapsing a box comes out with 12 triangles or with 104
            #  depending on last-bit differences in the QEF error test, and both are valid meshes)
            if float(fb["maxfield"]) > max(2.0 * float(fa["maxfield"]), 1.0):
                ck.violation(f"mesh:offsurface:{name}", "a vertex of the oracle tree's mesh is much further from the surface than any of the plain tree's",
                             {"program": p.text(), "plain": la[0], "oracle": lb[0]})
    # the recorded finding
    ko = (H.get(("kf", kf.q["o"])) or [""])[0]
    ke = (H.get(("kf", kf.q["e"])) or [""])[0]
    if ko.startswith("V ") and ke.startswith("V "):
        vo, ve = h2f(ko.split()[1]), h2f(ke.split()[1])
        if abs(vo - ve) > 1e-3:
            ck.violation("oracle:var-in-remap",
                         f"oracle(x*x+y).remap(x+v,y,z) with v=3 at (1,2,0) evaluates to {vo}; the plain expression gives {ve}",
                         {"program": kf.text(), "oracle_tree": ko, "plain_tree": ke})
    # the recorded spurious-feature input
    corpus = os.path.join(common.VERIF, "check", "corpus", "c16_spurious_features.txt")
    rc, cout, _ = common.run_prog(exe_h, open(corpus).read(), timeout=120)
    for l in cout.splitlines():
        if " OC " in l and "fbad=0" not in l and "fmiss=0" in l:
            ck.violation("features:spurious", "TransformedOracle::evalFeatures reports an unrealisable gradient on the recorded input",
                         {"program": open(corpus).read(), "detail": l})
    if corr_bad:
        p, nm, hi, mi = corr_bad[0]
        ck.violation("correspondence", f"model and implementation disagree at stage {nm} ({len(corr_bad)} cases)",
                     {"stage": nm, "impl": hi, "model": mi, "program": p.text(),
                      "theorem_or_stage": f"correspondence:{nm}"}, no_input=True)
    if not proof["ok"]:
        ck.violation("proof", "Properties_C16.v no longer checks", {"theorem_or_file": proof["file"],
                     "log": proof["log"][-3000:]}, no_input=True)
    if not ok_d:
        ck.violation("driver", "extracted model does not build", {"log": log_d[-3000:]}, no_input=True)
    stats["corr_mismatch"] = len(corr_bad)
    ck.coverage.update(stats)
    ck.coverage["evaluations"] = stats["values"] + stats["grad_points"] + stats["feature_points"] + stats["interval_points"] + stats["push_points"]
    ck.coverage["traces_validated_against_impl"] = stats["flatten_exact"]
    ck.coverage["samples"] = samples
    ck.coverage["rule"] = ("random wrapped expressions (safe opcodes, remaps inside) under random contexts of 1..5 steps (remap with "
                           "affine / swapped / abs / sin / min-max coordinate trees, binary and unary operations), built once over "
                           "the oracle and once over the expression; 6 points, 1..3 nested boxes x 40 samples")
    ck.coverage["trusted_base"] += [
        "harness/expr.cpp ExprOracle (an Oracle delegating every method to libfive's own Evaluator of the wrapped tree)",
        "extraction: ExtrOcamlBasic only; ocaml/driver.ml (osem = the wrapped expression's value through its own pipeline)",
        "user oracles are assumed to meet the Oracle interface contract (interval soundness, NaN convention, context protocol)",
    ]
    ck.assumptions += ["free variables in coordinate trees above an oracle: known finding oracle:var-in-remap"]
    ck.finish()
