"""C17 — the root finder reports what it actually reached.

proof obligations : Properties_C17.v (residual consistency, masked / absent variables, iteration bound,
                    termination of the line search) about the control-flow model of Solver::findRoot
correspondence    : the trace of evaluator calls recorded by the LIBFIVE_VERIF hook is replayed through the
                    extracted model (the model's value / gradient oracles answer with the implementation's own
                    answers); the model must issue the same setVar arguments, consume the whole trace and
                    return the same residual and assignment
property oracle   : the four clauses of the statement on the implementation, under a watchdog: residual ==
                    expression at the returned assignment, masked variables not returned, variables absent from
                    the expression unchanged, at most gas-1 gradient evaluations, the call returns
"""
import os
import sys

sys.path.insert(0, os.path.dirname(os.path.dirname(os.path.abspath(__file__))))
import common
import exprlib
from exprlib import f2h, parse_out


def gen_problem(rng, cid):
    p = exprlib.Prog(cid)
    x = p.emit("x", "axis"); y = p.emit("y", "axis"); z = p.emit("z", "axis")
    nv = rng.randint(1, 4)
    vs = [p.emit("var", "var") for _ in range(nv)]
    p.nvars = nv
    used = [v for v in vs if rng.random() < 0.8] or [vs[0]]

    def const(c):
        return p.emit(f"const {f2h(c)}", "const")

    def un(op, a):
        return p.emit(f"un {op} {a}", "tree")

    def bin_(op, a, b):
        return p.emit(f"bin {op} {a} {b}", "tree")
    kind = rng.random()
    terms = []
    for v in used:
        k = rng.random()
        t = bin_("OP_SUB", v, const(rng.choice([0.0, 1.0, -2.0, 0.5, rng.uniform(-3, 3)])))
        if k < 0.3:
            terms.append(un("OP_SQUARE", t))
        elif k < 0.5:
            terms.append(bin_("OP_MUL", t, const(rng.uniform(-3, 3))))
        elif k < 0.6:
            terms.append(un("OP_SIN", t))
        elif k < 0.68:
            terms.append(bin_("OP_MUL", v, un("OP_SQRT", v)))          # NaN gradient at 0
        elif k < 0.76:
            terms.append(un("OP_RECIP", v))                           # infinite residual at 0
        elif k < 0.80:
            terms.append(un("OP_ABS", t))
        elif k < 0.84:
            # sensitive to the SIGN of a zero: atan2 across its branch cut (the variable itself, or an odd power of it,
            # whose partial derivative vanishes at 0 so that a step leaves a zero of the other sign behind)
            w = v if rng.random() < 0.5 else bin_("OP_MUL", bin_("OP_MUL", v, v), v)
            terms.append(bin_("OP_ATAN2", w, const(-1.0)))
        elif k < 0.92:
            terms.append(bin_("OP_MUL", t, bin_("OP_ADD", x, const(1.0))))
        else:
            terms.append(un("OP_EXP", t))
    root = terms[0]
    for t in terms[1:]:
        root = bin_(rng.choice(["OP_ADD", "OP_ADD", "OP_SUB", "OP_MUL", "OP_MIN", "OP_MAX"]), root, t)
    root = bin_("OP_ADD", root, const(rng.choice([0.0, 1.0, -1.0, rng.uniform(-2, 2)])))
    p.root = root
    p.q = []
    for _ in range(3):
        gas = rng.choice([0, 1, 2, 3, 10, 100, 2000])
        pos = [rng.choice([0.0, 1.0, -1.0, rng.uniform(-2, 2)]) for _ in range(3)]
        mask = [v for v in vs if rng.random() < 0.25]
        if rng.random() < 0.15:
            mask = list(vs) if rng.random() < 0.5 else list(used)        # every variable (of the expression) masked
        init = [rng.choice([0.0, 0.0, -0.0, 1.0, -1.0, rng.uniform(-3, 3)]) for _ in vs]
        p.q.append((p.ncmd + 1, gas, mask, init, used))
        # "Z": the long-lived evaluator holds, for a variable given +-0, the zero of the other sign
        p.emit(f"solve {root} {gas} " + " ".join(f2h(v) for v in pos) + f" {len(mask)} " + " ".join(str(m) for m in mask)
               + (" " if mask else "") + " ".join(f2h(v) for v in init) + (" Z" if rng.random() < 0.4 else ""))
    return p


def run(replay=None):
    ck = common.Check("C17", level="proof")
    proof = ck.proof_obligations()
    ok_d, log_d = common.build_driver(**common.DRIVERS["sdriver"])
    ok_h, log_h = common.build_harness(["bin/expr"])
    if not ok_h:
        ck.violation("build", "harness does not build against /repo working tree", {"log": log_h[-3000:]}, no_input=True)
        ck.finish()
    quick = ck.tier == "quick"
    progs = [gen_problem(ck.rng, f"s{k}") for k in range(700 if quick else 30000)]
    exe_h = os.path.join(common.BUILD, "cxx", "bin", "expr")
    exe_m = os.path.join(common.BUILD, "ocaml", "sdriver")
    hout, hskip = common.run_cases_sharded(exe_h, [p.text() for p in progs], timeout=60, single_timeout=10)
    for t in hskip:
        ck.violation("hang", "Solver::findRoot did not return within the watchdog (10 s)", {"program": t})
    skipped = set(t.split()[1] for t in hskip)
    H = parse_out(hout)
    mlines = []
    for p in progs:
        if p.cid in skipped:
            continue
        for (cmd, gas, mask, init, used) in p.q:
            for l in H.get((p.cid, cmd), []):
                if l.startswith("SI "):
                    f = l.split()
                    mlines.append(f"{p.cid}/{cmd} solve {f[1]} " + " ".join(f[2:]))
    M = {}
    if ok_d:
        rc, mout, merr = common.run_prog(exe_m, "\n".join(mlines) + "\n", timeout=1200)
        for l in mout.splitlines():
            k, rest = l.split(" ", 1)
            M[k] = rest
    stats = dict(problems=0, replay_equal=0, grad_calls=0, backtracks=0, gaveup_or_early=0, skipped_timeouts=len(skipped))
    corr_bad = []
    nontriv = set()
    samples = []
    for p in progs:
        if p.cid in skipped:
            continue
        for (cmd, gas, mask, init, used) in p.q:
            out = H.get((p.cid, cmd), [])
            sr = [l for l in out if l.startswith("SR ")]
            so = [l for l in out if l.startswith("SO ")]
            si = [l for l in out if l.startswith("SI ")]
            err = [l for l in out if l.startswith("ERR")]
            if err or not sr or not so:
                ck.violation("exception", f"findRoot raised / no answer: {err[:1]}", {"program": p.text(), "cmd": cmd})
                continue
            stats["problems"] += 1
            f = dict(x.split("=") for x in so[0].split()[1:])
            gc = int(f["gradcalls"])
            stats["grad_calls"] += gc
            st = [l for l in out if l.startswith("ST ")]
            if st:
                g = dict(x.split("=") for x in st[0].split()[1:])
                # (the residual of this overload is recomputed on ANOTHER deck - operand order, hence the sign of a zero
                #  reaching atan2 or 1/v, differs between decks - so it is reported in the answer but not judged here; the
                #  evaluator overload, which this one calls, is judged on its own deck above)
                for key, what in (("masked", "a masked variable was returned by the Tree overload of findRoot"),
                                  ("absent", "the Tree overload of findRoot modified a variable absent from the expression")):
                    if g[key] != "1":
                        ck.violation(key + ":tree", what, {"program": p.text(), "query": p.lines[cmd - 1], "oracle": st[0]})
            if f["residual"] != "1":
                ck.violation("residual", "returned residual is not the expression at the returned assignment",
                             {"program": p.text(), "query": p.lines[cmd - 1], "result": sr[0], "oracle": so[0]})
            if f["masked"] != "1":
                ck.violation("masked", "a masked variable was returned", {"program": p.text(), "query": p.lines[cmd - 1], "result": sr[0]})
            if f["absent"] != "1":
                ck.violation("absent", "a variable absent from the expression was modified",
                             {"program": p.text(), "query": p.lines[cmd - 1], "result": sr[0]})
            if gc > max(gas - 1, 0):
                ck.violation("budget", f"{gc} gradient evaluations with gas={gas}",
                             {"program": p.text(), "query": p.lines[cmd - 1]})
            m = M.get(f"{p.cid}/{cmd}")
            if m is not None:
                ms = m.split(" grads=")[0]

                def close(a, b):
                    fa, fb = a.split(), b.split()
                    if len(fa) != 3 or len(fb) != 3 or fa[1] != fb[1]:
                        return False
                    va, vb = fa[2][5:].split(","), fb[2][5:].split(",")
                    if len(va) != len(vb):
                        return False
                    for x, y in zip(va, vb):
                        if not x and not y:
                            continue
                        (ix, hx), (iy, hy) = x.split(":"), y.split(":")
                        if ix != iy or (common.ulp_diff32(hx, hy) > 64 and
                                        abs(exprlib.h2f(hx) - exprlib.h2f(hy)) > 1e-5 * abs(exprlib.h2f(hx)) + 2e-6):
                            return False
                    return True
                if (ms == sr[0] or close(ms, sr[0])) and m.endswith("left=0"):
                    stats["replay_equal"] += 1
                else:
                    corr_bad.append((p, cmd, sr[0], m))
            tr = si[0].split(" T", 1)[1].split() if si and " T" in si[0] else []
            nV = sum(1 for e in tr if e[0] == "V")
            if nV - 1 > gc:
                stats["backtracks"] += 1
                nontriv.add((p.cid, cmd))
            elif gc and gc < max(gas - 1, 0):
                stats["gaveup_or_early"] += 1
                nontriv.add((p.cid, cmd))
            if len(samples) < 2 and tr:
                samples.append({"query": p.lines[cmd - 1], "trace": tr[:12], "result": sr[0]})
    if corr_bad:
        p, cmd, hv, mv = corr_bad[0]
        ck.violation("correspondence", f"replaying the recorded trace through the model gives a different run ({len(corr_bad)} cases)",
                     {"program": p.text(), "query": p.lines[cmd - 1], "impl": hv, "model": mv,
                      "theorem_or_stage": "correspondence:findRoot"}, no_input=True)
    if not proof["ok"]:
        ck.violation("proof", "Properties_C17.v no longer checks",
                     {"theorem_or_file": proof["file"], "log": proof["log"][-3000:]}, no_input=True)
    if not ok_d:
        ck.violation("driver", "extracted model does not build", {"log": log_d[-3000:]}, no_input=True)
    stats["corr_mismatch"] = len(corr_bad)
    ck.coverage.update(stats)
    ck.coverage["evaluations"] = stats["problems"]
    ck.coverage["distinct_nontrivial"] = len(nontriv)
    ck.coverage["rule"] = ("random expressions over 1..4 variables (squares, products, sin, exp, abs, v*sqrt(v) [NaN gradient at 0], 1/v "
                           "[infinite residual at 0], min/max) x 3 queries with gas in {0,1,2,3,10,100,2000}, random masks, initial "
                           "values incl. 0, variables absent from the expression; non-trivial = at least one line-search backtrack "
                           "or an early exit (zero gradient / give-up / convergence before the budget)")
    ck.coverage["samples"] = samples
    ck.coverage["traces_validated_against_impl"] = stats["replay_equal"]
    ck.coverage["trusted_base"] += ["LIBFIVE_VERIF trace hook in solver.cpp (commit 89599d9)", "extraction; ocaml/sdriver.ml (binary32 arithmetic, "
                                    "fma-or-not rounding of v - step*d chosen to match the trace); harness/expr.cpp"]
    ck.finish()
