"""C05 — specialised tapes agree with the full expression on their region.

proof obligations : Properties_C05.v (push_preserves & corollaries, parametric in the number type)
correspondence    : for every push the implementation performs, the model's Tape::push is run
                    *on the interval bounds / point values the C++ evaluator computed* and must
                    produce the identical tape (clauses, rewritten arguments, root, terminal flag)
property oracle   : bit-identical values of base tape, pushed tape and getBase(p) tape at 27 points
                    of every box of every nested push; valueAndPush at its own point
"""
import os
import sys

sys.path.insert(0, os.path.dirname(os.path.dirname(os.path.abspath(__file__))))
import common
import exprlib
from exprlib import f2h, parse_out


def gen_csg(rng, cid, nprims, arith_p=0.3):
    """CSG-like programs: many min/max over translated primitives."""
    p = exprlib.Prog(cid)
    x = p.emit("x", "axis"); y = p.emit("y", "axis"); z = p.emit("z", "axis")

    def const(v):
        return p.emit(f"const {f2h(v)}", "const")

    def bin_(op, a, b):
        return p.emit(f"bin {op} {a} {b}", "tree")

    def un(op, a):
        return p.emit(f"un {op} {a}", "tree")

    prims = []
    for _ in range(nprims):
        k = rng.random()
        cx, cy, cz = (rng.uniform(-1.5, 1.5) for _ in range(3))
        dx = bin_("OP_SUB", x, const(cx)); dy = bin_("OP_SUB", y, const(cy)); dz = bin_("OP_SUB", z, const(cz))
        if k < 0.4:     # sphere
            s = bin_("OP_ADD", bin_("OP_ADD", un("OP_SQUARE", dx), un("OP_SQUARE", dy)), un("OP_SQUARE", dz))
            prims.append(bin_("OP_SUB", un("OP_SQRT", s), const(rng.uniform(0.2, 1.2))))
        elif k < 0.7:   # box: max of abs - half
            hx, hy, hz = (rng.uniform(0.2, 1.0) for _ in range(3))
            a = bin_("OP_SUB", un("OP_ABS", dx), const(hx))
            b = bin_("OP_SUB", un("OP_ABS", dy), const(hy))
            c = bin_("OP_SUB", un("OP_ABS", dz), const(hz))
            prims.append(bin_("OP_MAX", bin_("OP_MAX", a, b), c))
        elif k < 0.85:  # half space
            prims.append(bin_("OP_ADD", bin_("OP_MUL", dx, const(rng.uniform(-1, 1))),
                              bin_("OP_MUL", dy, const(rng.uniform(-1, 1)))))
        else:           # cylinder
            s = bin_("OP_ADD", un("OP_SQUARE", dx), un("OP_SQUARE", dy))
            prims.append(bin_("OP_MAX", bin_("OP_SUB", un("OP_SQRT", s), const(rng.uniform(0.2, 0.8))),
                              bin_("OP_SUB", un("OP_ABS", dz), const(rng.uniform(0.3, 1.0)))))
    while len(prims) > 1:
        a = prims.pop(rng.randrange(len(prims)))
        b = prims.pop(rng.randrange(len(prims)))
        r = rng.random()
        if r < 0.4:
            c = bin_("OP_MIN", a, b)
        elif r < 0.7:
            c = bin_("OP_MAX", a, b)
        elif r < 0.85:
            c = bin_("OP_MAX", a, un("OP_NEG", b))
        else:
            c = bin_(rng.choice(["OP_ADD", "OP_MUL", "OP_SUB"]), a, b) if rng.random() < arith_p else bin_("OP_MIN", a, a if rng.random() < 0.3 else b)
        prims.append(c)
    p.root = prims[0]
    return p


def f_sq(p, a, b):
    """emits a*a + b*b and returns the command text of the sum"""
    return f"bin OP_ADD {p.emit(f'un OP_SQUARE {a}', 'tree')} {p.emit(f'un OP_SQUARE {b}', 'tree')}"


def nested_boxes(rng, depth):
    lo = [-2.0, -2.0, -2.0]; hi = [2.0, 2.0, 2.0]
    out = []
    for _ in range(depth):
        out.append((list(lo), list(hi)))
        ax = rng.randrange(3)
        for a in range(3):
            if a == ax or rng.random() < 0.5:
                m = lo[a] + (hi[a] - lo[a]) * rng.choice([0.5, 0.5, 0.25, 0.75, rng.random()])
                if rng.random() < 0.5:
                    hi[a] = m
                else:
                    lo[a] = m
    return out


def run(replay=None):
    ck = common.Check("C05", level="proof")
    rep = common.regen_translators()
    proof = ck.proof_obligations()
    ok_d, log_d = common.build_driver(**common.DRIVERS["driver"])
    ok_h, log_h = common.build_harness(["bin/expr"])
    if not ok_h:
        ck.violation("build", "harness does not build against /repo working tree", {"log": log_h[-3000:]}, no_input=True)
        ck.finish()
    quick = ck.tier == "quick"
    n = 300 if quick else 5000
    progs = []
    for k in range(n):
        if ck.rng.random() < 0.75:
            p = gen_csg(ck.rng, f"s{k}", ck.rng.randint(2, 7))
        else:
            p = exprlib.gen_program(ck.rng, f"s{k}", ck.rng.randint(8, 35), safe=True,
                                    ops_bin=["OP_MIN", "OP_MAX", "OP_MIN", "OP_MAX", "OP_ADD", "OP_SUB", "OP_MUL"],
                                    remap_p=0.03, apply_p=0.0, var_p=0.0)
        depth = ck.rng.randint(2, 5 if quick else 10)
        boxes = nested_boxes(ck.rng, depth)
        p.boxes = boxes
        p.qpush = p.ncmd + 1
        p.emit(f"pushseq {p.root} {depth} " + " ".join(f2h(v) for (lo, hi) in boxes for v in lo + hi))
        p.ppts = []
        for j in range(3):
            pt = [ck.rng.uniform(-2, 2) for _ in range(3)]
            p.ppts.append((pt, p.ncmd + 1))
            p.emit(f"pushpt {p.root} " + " ".join(f2h(v) for v in pt))
        progs.append(p)
    # free variables under min / max: the interval evaluator keeps its own copy of every variable's value, so after
    # Evaluator::updateVars (or the C API's libfive_evaluator_update_vars) a push must specialise for the NEW value:
    # slabs max(-z, z - v), max(x - v, ...) with v changed between pushes; the reference is a freshly built evaluator
    vprogs = []
    for k in range(40 if quick else 800):
        p = exprlib.Prog(f"v{k}")
        ax = [p.emit("x", "axis"), p.emit("y", "axis"), p.emit("z", "axis")]
        nv = ck.rng.randint(1, 3)
        vs = [p.emit("var", "var") for _ in range(nv)]
        terms = []
        for v in vs:
            a = ax[ck.rng.randrange(3)]
            lo = p.emit(f"un OP_NEG {a}", "tree")
            hi = p.emit(f"bin OP_SUB {a} {v}", "tree")
            terms.append(p.emit(f"bin OP_MAX {lo} {hi}", "tree"))          # the slab 0 < a < v
        sq = p.emit(f_sq(p, ax[0], ax[1]), "tree")
        cyl = p.emit(f"bin OP_SUB {p.emit(f'un OP_SQRT {sq}', 'tree')} {p.emit('const 3f800000', 'const')}", "tree")
        root = cyl
        for t in terms:
            root = p.emit(f"bin {ck.rng.choice(['OP_MAX', 'OP_MAX', 'OP_MIN'])} {root} {t}", "tree")
        hist = []
        for _ in range(ck.rng.randint(3, 8)):
            kk = ck.rng.randrange(nv)
            hist.append(f"{ck.rng.choice(['SV', 'UV 1'])} {kk} {f2h(ck.rng.choice([0.5, 1.0, 2.0, 3.0, ck.rng.uniform(0.2, 3.0)]))}")
            for _ in range(ck.rng.randint(1, 2)):
                c = [ck.rng.uniform(-0.5, 2.5) for _ in range(3)]
                h = ck.rng.choice([0.1, 0.25, 0.5])
                lo_ = [x - h for x in c]; hi_ = [x + h for x in c]
                hist.append("P " + " ".join(f2h(x) for x in lo_ + hi_ + c))
        init = " ".join(f2h(ck.rng.choice([0.5, 1.0, 2.0])) for _ in range(nv))
        p.q = p.ncmd + 1
        p.emit(f"history {root} {nv} {init} " + " | ".join(hist))
        vprogs.append(p)
    vout, _ = common.run_cases_sharded(os.path.join(common.BUILD, "cxx", "bin", "expr"), [p.text() for p in vprogs], timeout=300)
    VH = parse_out(vout)
    nvar_pushes = 0
    for p in vprogs:
        hi_l = [l for l in VH.get((p.cid, p.q), []) if l.startswith("HI ")]
        if not hi_l:
            continue
        f = hi_l[0].split()
        nvar_pushes += int(f[1].split("=")[1])
        if int(f[2].split("=")[1]):
            ck.violation("value:vars", "after a variable update a specialised tape answers differently from a tape specialised by an "
                         "evaluator built with the new value", {"program": p.text(), "detail": hi_l[0]})
    exe_h = os.path.join(common.BUILD, "cxx", "bin", "expr")
    exe_m = os.path.join(common.BUILD, "ocaml", "driver")
    hout, hskip = common.run_cases_sharded(exe_h, [p.text() for p in progs])
    H = parse_out(hout)
    skipped = set(t.split()[1] for t in hskip)
    progs = [p for p in progs if p.cid not in skipped]

    # stage 2: replay every push through the model on the implementation's own numbers
    stage2, expect = [], {}
    for p in progs:
        lines = []
        exp = []
        for cmd in [p.qpush] + [c for _, c in p.ppts]:
            out = H.get((p.cid, cmd), [])
            i = 0
            while i < len(out):
                if out[i].startswith("PI ") and i + 1 < len(out):
                    lines.append("pushiv " + out[i][3:]); exp.append(out[i + 1]); i += 2
                elif out[i].startswith("PP ") and i + 1 < len(out):
                    lines.append("pushpt " + out[i][3:]); exp.append(out[i + 1]); i += 2
                else:
                    i += 1
        stage2.append(f"case {p.cid}\n" + "\n".join(lines) + "\nend\n")
        expect[p.cid] = (lines, exp)
    M2 = {}
    if ok_d:
        m2out, _ = common.run_cases_sharded(exe_m, stage2)
        M2 = parse_out(m2out)

    stats = dict(programs=len(progs), getbase_points=0, getbase_queries=0, pushes=0, pushes_exact=0, shortened=0, kept_both=0,
                 oracle_points=0, skipped_timeouts=len(skipped))
    corr_bad = []
    nontrivial = set()
    samples = []
    for p in progs:
        lines, exp = expect[p.cid]
        dropped = False
        for k, e in enumerate(exp):
            stats["pushes"] += 1
            m = M2.get((p.cid, k + 1), [None])[0]
            if m == e:
                stats["pushes_exact"] += 1
            else:
                corr_bad.append((p, lines[k], e, m))
            nin = int(lines[k].split()[4])
            nout = len(e[e.index("tape=[") + 6:-1].split())
            if nout < nin:
                stats["shortened"] += 1
                dropped = True
            if "term=0" in e:
                stats["kept_both"] += 1
        for cmd in [p.qpush] + [c for _, c in p.ppts]:
            for l in H.get((p.cid, cmd), []):
                if l.startswith("GV "):
                    f = dict(x.split("=") for x in l.split()[1:3])
                    stats["getbase_points"] += int(f["pts"])
                    if int(f["bad"]):
                        ck.violation("getbase", "the tape returned by Tape::getBase disagrees with the full expression at the query",
                                     {"program": p.text(), "detail": l})
                if l.startswith("PV "):
                    f = dict(x.split("=") for x in l.split()[1:3])
                    stats["oracle_points"] += int(f["pts"])
                    if int(f["bad"]):
                        ck.violation("value", "specialised tape disagrees with the base tape inside its region",
                                     {"program": p.text(), "detail": l})
                if l.startswith("ERR"):
                    ck.violation("err", "harness error " + l, {"program": p.text()})
        if dropped and any("term=0" in e for e in exp):
            nontrivial.add(p.cid)
        if len(samples) < 2 and exp:
            samples.append({"program": p.lines[-4:], "push_input": lines[0][:200], "push_result": exp[0][:200]})

    # stage 2b: Tape::getBase against Eval/GetBase.v on the implementation's own chain
    gb_cases, gb_expect = [], {}
    for p in progs:
        out = H.get((p.cid, p.qpush), [])
        gl = [l for l in out if l.startswith("GL ")]
        gp = [l for l in out if l.startswith("GP")]
        gr = [l for l in out if l.startswith("GR")]
        if not (gl and gp and gr):
            continue
        pts = [x.split(":") for x in gp[0].split()[1:]]
        rgs = [x.split(":") for x in gr[0].split()[1:]]
        gb_cases.append(f"case {p.cid}\ngetbase {gl[0][3:]} P " + " ".join(a for a, _ in pts) + " R " + " ".join(a for a, _ in rgs) + "\nend\n")
        gb_expect[p.cid] = "GB P " + " ".join(i for _, i in pts) + " R " + " ".join(i for _, i in rgs)
    if ok_d and gb_cases:
        gout, _ = common.run_cases_sharded(exe_m, gb_cases)
        G = parse_out(gout)
        byid = {p.cid: p for p in progs}
        for cid, want in gb_expect.items():
            got = (G.get((cid, 1)) or [None])[0]
            stats["getbase_queries"] += len(want.split()) - 3
            if got != want:
                corr_bad.append((byid[cid], "getbase", want, got))
    # at scale: decks with far more than 2^16 clause ids (index types of the push machinery)
    bigs = [(12000, ck.rng.randrange(1 << 20)), (ck.rng.choice([5000, 20000, 40000]), ck.rng.randrange(1 << 20))]
    if not quick:
        bigs += [(ck.rng.choice([9000, 30000, 70000]), ck.rng.randrange(1 << 20)) for _ in range(6)]
    rcb, bout, berr = common.run_prog(exe_h, "case big\n" + "".join(f"bigpush {n} {sd}\n" for n, sd in bigs) + "end\n", timeout=1800)
    stats["big_decks"] = 0; stats["big_clauses_max"] = 0
    for l in bout.splitlines():
        if " BP " in l:
            f = dict(x.split("=", 1) for x in l.split(" BP ")[1].split()[:3])
            stats["big_decks"] += 1
            stats["big_clauses_max"] = max(stats["big_clauses_max"], int(f["clauses"]))
            stats["oracle_points"] += int(f["pts"])
            if int(f["bad"]):
                ck.violation("value:big", "a specialised tape of a large deck (more than 2^16 clauses) disagrees with the base tape inside its region",
                             {"stdin": "case big\nbigpush " + " ".join(str(x) for x in bigs[0]) + "\nend\n", "detail": l})
    if rcb != 0 or stats["big_decks"] != len(bigs):
        ck.violation("crash", f"the large-deck push scenario crashed or gave no answer (rc={rcb})", {"stderr": berr[-1500:]})
    if corr_bad:
        p, inp, e, m = corr_bad[0]
        ck.violation("correspondence", "model Tape::push and implementation produce different tapes",
                     {"input": inp, "impl": e, "model": m, "program": p.text(),
                      "theorem_or_stage": "correspondence:push"}, no_input=True)
    if not proof["ok"]:
        ck.violation("proof", "Properties_C05.v no longer checks",
                     {"theorem_or_file": proof["file"], "log": proof["log"][-3000:]}, no_input=True)
    if not ok_d:
        ck.violation("driver", "extracted model does not build", {"log": log_d[-3000:]}, no_input=True)
    stats["corr_mismatch"] = len(corr_bad)
    ck.coverage.update(stats)
    ck.coverage["evaluations"] = stats["pushes"] + stats["oracle_points"]
    ck.coverage["distinct_nontrivial"] = len(nontrivial)
    ck.coverage["variable_pushes"] = nvar_pushes
    ck.coverage["rule"] = ("CSG programs (min/max over spheres, boxes, half-spaces, cylinders) and random programs; nested "
                           "shrinking boxes of depth 2..5 (10 thorough) plus 3 point pushes; non-trivial = at least one clause "
                           "dropped and at least one min/max kept both sides somewhere in the chain (one count per program)")
    ck.coverage["samples"] = samples
    ck.coverage["traces_validated_against_impl"] = stats["pushes_exact"]
    ck.coverage["trusted_base"] += [
        "extraction (ExtrOcamlBasic only); ocaml/driver.ml; harness/expr.cpp (reads protected evaluator state through subclasses)",
        "the interval premise of interval_push is C02's soundness theorem",
    ]
    ck.finish()
