"""C19 — bounded QEF solutions stay in their cell and report their true error.

proof obligations : Properties_C19.v (error = sum of squares >= 0, permutation invariance over R; the
                    descending-dimension search returns a position inside the box whenever the corner
                    candidates have comparable errors; returns one of the candidates)
correspondence    : for every generated sample set and box the 3^N candidates produced by the
                    implementation's solveConstrained<i> are fed to the extracted search model, which must
                    select the very candidate solveBounded returns (position and error bit for bit)
property oracle   : position inside the (shrunk) box, constrained axes exactly on their face, error >= 0 and
                    equal to QEF::error(position, value), an unconstrained optimum inside the box is returned
                    unchanged, accumulation order does not matter (up to rounding)
"""
import math
import os
import struct
import sys

sys.path.insert(0, os.path.dirname(os.path.dirname(os.path.abspath(__file__))))
import common


def d2h(x):
    return "%016x" % struct.unpack("<Q", struct.pack("<d", x))[0]


def gen_nearly_parallel(rng, cid):
    """normals that are ALMOST parallel (1e-8 .. 3e-6 apart), values that disagree, sample points near the origin and the
    box far away along the nearly free direction: one eigenvalue of AtA is non-zero but below the solver's relative cut-off,
    so the returned position keeps the box centre's component along it and does NOT satisfy the normal equations -
    the reported error must still be the QEF at the returned position (and non-negative)"""
    n = rng.choice([2, 3])
    ns = rng.choice([2, 2, 3, 4])
    nrm0 = [rng.gauss(0, 1) for _ in range(n)]
    if rng.random() < 0.5:
        nrm0 = [0.0] * n; nrm0[rng.randrange(n)] = 1.0
    norm = math.sqrt(sum(x * x for x in nrm0)) or 1.0
    nrm0 = [x / norm for x in nrm0]
    # a direction perpendicular to nrm0
    t = [rng.gauss(0, 1) for _ in range(n)]
    d = sum(a * b for a, b in zip(t, nrm0))
    t = [a - d * b for a, b in zip(t, nrm0)]
    tn = math.sqrt(sum(x * x for x in t)) or 1.0
    t = [x / tn for x in t]
    far = 10 ** rng.uniform(1, 6.5) * rng.choice([1, -1])
    centre = [far * x + rng.uniform(-1, 1) for x in t]
    half = rng.choice([1.0, 2.0, 0.5, rng.uniform(0.1, 4)])
    lo = [c - half for c in centre]
    hi = [c + half for c in centre]
    eps = 10 ** rng.uniform(-8, -5.5)
    vs = 10 ** rng.uniform(-4, 0)
    toks = [cid, str(n), str(ns)]
    for s_ in range(ns):
        p = [rng.choice([0.0, rng.uniform(-1, 1)]) for _ in range(n)]
        nrm = [a + (eps * rng.gauss(0, 1) if s_ else 0.0) for a in nrm0]
        if rng.random() < 0.5:
            nn = math.sqrt(sum(x * x for x in nrm))
            nrm = [x / nn for x in nrm]
        v = rng.choice([0.0, rng.uniform(-1, 1) * vs]) if s_ == 0 else rng.uniform(-1, 1) * vs
        toks += [d2h(x) for x in p] + [d2h(x) for x in nrm] + [d2h(v)]
    toks += [d2h(x) for x in lo] + [d2h(x) for x in hi]
    return " ".join(toks)


def gen_case(rng, cid):
    if rng.random() < 0.15:
        return gen_nearly_parallel(rng, cid)
    n = rng.choice([1, 2, 3])
    kind = rng.random()
    ns = rng.choice([0, 1, 1, 2, 3, 4, 6, 10])
    lo = [rng.choice([0.0, 1.0, -1.0, rng.uniform(-3, 3)]) for _ in range(n)]
    size = [rng.choice([1.0, 0.5, 2.0, rng.uniform(0.01, 3)]) for _ in range(n)]
    hi = [a + b for a, b in zip(lo, size)]
    # a plane / corner / random configuration, surface point inside or outside the box
    base = [rng.uniform(l - 1.0 * (h - l), h + 1.0 * (h - l)) for l, h in zip(lo, hi)]
    near = rng.random() < 0.2
    if near:
        # planted optimum a hair (1e-11 .. 1e-6) inside or outside a face / edge / corner, full-rank
        # exact planes: the dimension search must then notice an escape of a few 1e-9
        if rng.random() < 0.3:
            size = [10 ** rng.uniform(-8, -5)] * n
            hi = [a + b for a, b in zip(lo, size)]
        base = []
        for l, h in zip(lo, hi):
            d = 10 ** rng.uniform(-11, -6)
            base.append(rng.choice([rng.uniform(l, h), l - d, h + d, l + d, h - d, h + d, l - d]))
        kind = 0.9
        ns = max(ns, n + rng.randint(0, 2))
    nrm0 = [rng.gauss(0, 1) for _ in range(n)]
    toks = [cid, str(n), str(ns)]
    for s in range(ns):
        p = [rng.uniform(l, h) for l, h in zip(lo, hi)]
        if kind < 0.25:      # all normals parallel (rank deficient)
            nrm = list(nrm0)
        elif kind < 0.4:     # axis aligned normals
            nrm = [0.0] * n; nrm[rng.randrange(n)] = rng.choice([1.0, -1.0])
        elif kind < 0.5:     # degenerate / non-finite normals
            nrm = [rng.choice([0.0, float("inf"), float("nan"), 1.0]) for _ in range(n)]
        else:
            nrm = [rng.gauss(0, 1) for _ in range(n)]
        norm = math.sqrt(sum(x * x for x in nrm if math.isfinite(x))) or 1.0
        if all(math.isfinite(x) for x in nrm):
            nrm = [x / norm for x in nrm]
        v = sum(a * (b - c) for a, b, c in zip(nrm, p, base) if math.isfinite(a)) + (0.0 if near else rng.choice([0.0, 0.0, rng.gauss(0, 0.01)]))
        toks += [d2h(x) for x in p] + [d2h(x) for x in nrm] + [d2h(v)]
    toks += [d2h(x) for x in lo] + [d2h(x) for x in hi]
    return " ".join(toks)


def run(replay=None):
    ck = common.Check("C19", level="proof")
    proof = ck.proof_obligations()
    ok_d, log_d = common.build_driver(**common.DRIVERS["qdriver"])
    ok_h, log_h = common.build_harness(["bin/qef"])
    if not ok_h:
        ck.violation("build", "harness does not build against /repo working tree", {"log": log_h[-3000:]}, no_input=True)
        ck.finish()
    quick = ck.tier == "quick"
    lines = [gen_case(ck.rng, f"q{k}") for k in range(4000 if quick else 200000)]
    rc, hout, herr = common.run_prog(os.path.join(common.BUILD, "cxx", "bin", "qef"), "\n".join(lines) + "\n", timeout=2400)
    if rc != 0:
        ck.violation("crash", f"harness crashed rc={rc}", {"stderr": herr[-1500:]})
    mout = ""
    if ok_d:
        rc2, mout, merr = common.run_prog(os.path.join(common.BUILD, "ocaml", "qdriver"), hout, timeout=2400)
    H = {}
    for l in hout.splitlines():
        f = l.split()
        H.setdefault(f[0], {}).setdefault(f[1], []).append(f[2:])
    M = {}
    for l in mout.splitlines():
        f = l.split()
        M[f[0]] = f[2:]
    stats = dict(cases=len(lines), search_equal=0, descended=0, unconstrained=0, zero_samples=0)
    corr_bad = []
    nontriv = set()
    for l in lines:
        cid = l.split()[0]
        h = H.get(cid, {})
        if "B" not in h or "O" not in h:
            ck.violation("noanswer", "no answer for case", {"input": l})
            continue
        b = h["B"][0]
        n = int(l.split()[1])
        o = dict(x.split("=") for x in h["O"][0])
        if int(l.split()[2]) == 0:
            stats["zero_samples"] += 1
        for key, what in (("inbox", "returned position is outside the box"),
                          ("onface", "a constrained axis is not on its face"),
                          ("nonneg", "reported error is negative"),
                          ("trueerr", "reported error differs from QEF::error at the returned position"),
                          ("ukept", "an unconstrained optimum inside the box was not returned unchanged"),
                          ("perm", "result depends on the order in which samples were accumulated"),
                          ("finite", "returned position is not finite")):
            if o[key] != "1":
                ck.violation(key, what, {"input": l, "bounded": b, "oracle": h["O"][0]})
        m = M.get(cid)
        if m is not None:
            if m[:n + 1] == b[:n + 1]:
                stats["search_equal"] += 1
                if m[-1] == "tag=U":
                    stats["unconstrained"] += 1
                else:
                    stats["descended"] += 1
                    nontriv.add(cid)
            else:
                corr_bad.append((l, b, m))
    if corr_bad:
        l, b, m = corr_bad[0]
        ck.violation("correspondence", f"the model's search selects a different candidate than solveBounded ({len(corr_bad)} cases)",
                     {"input": l, "impl": b, "model": m, "theorem_or_stage": "correspondence:solveBounded"}, no_input=True)
    if not proof["ok"]:
        ck.violation("proof", "Properties_C19.v no longer checks",
                     {"theorem_or_file": proof["file"], "log": proof["log"][-3000:]}, no_input=True)
    if not ok_d:
        ck.violation("driver", "extracted model does not build", {"log": log_d[-3000:]}, no_input=True)
    stats["corr_mismatch"] = len(corr_bad)
    ck.coverage.update(stats)
    ck.coverage["evaluations"] = stats["cases"]
    ck.coverage["distinct_nontrivial"] = len(nontriv)
    ck.coverage["rule"] = ("sample sets of 0..10 samples in N = 1, 2, 3 (parallel, axis-aligned, degenerate / non-finite, random normals; "
                           "surface point inside or outside the box; a fifth of the cases plant the optimum 1e-11..1e-6 inside / outside a face, edge or "
                           "corner, some in cells of size 1e-8..1e-5; 15 % have nearly parallel normals (1e-8..3e-6 apart) with disagreeing values, samples near "
                           "the origin and the box 10..3e6 away along the nearly free direction) x random boxes; non-trivial = the unconstrained optimum lies "
                           "outside the box so the dimension search runs")
    ck.coverage["samples"] = lines[:2]
    ck.coverage["traces_validated_against_impl"] = stats["search_equal"]
    ck.coverage["trusted_base"] += ["Eigen's SelfAdjointEigenSolver (the constrained least-squares solve is an oracle of the model)",
                                    "extraction; ocaml/qdriver.ml; harness/qef.cpp"]
    ck.finish()
