"""C07 — tree rewriting never changes the function.

proof obligations : coq/theories/Props/Properties_C07.v (+ OpcodeTable_gen agreement)
correspondence    : built / flattened DAG exact, optimised DAG modulo AC-normal form,
                    Tree::eq verdicts, against the extracted model
property oracle   : value of original vs flattened vs optimised tree on the
                    implementation against the model's reference denotation
"""
import os
import random
import zlib
import sys

sys.path.insert(0, os.path.dirname(os.path.dirname(os.path.abspath(__file__))))
import common
import exprlib
from exprlib import f2h, h2f, h2d


def gen_cases(ck, n_progs, size_lo, size_hi):
    progs = []
    for k in range(n_progs):
        safe = ck.rng.random() < 0.8
        p = exprlib.gen_program(ck.rng, f"p{k}", ck.rng.randint(size_lo, size_hi), safe=safe,
                                remap_p=0.10, apply_p=0.06)
        root = p.root
        p.q = {}
        p.safe = safe
        p.q["dump"] = (p.ncmd + 1, ); p.emit(f"dump {root}")
        hf = p.emit(f"flatten {root}", "tree")
        p.q["dumpf"] = (p.ncmd + 1, ); p.emit(f"dump {hf}")
        ho = p.emit(f"opt {root}", "tree")
        p.q["dumpo"] = (p.ncmd + 1, ); p.emit(f"dump {ho}")
        hoo = p.emit(f"opt {ho}", "tree")
        p.q["dumpoo"] = (p.ncmd + 1, ); p.emit(f"dump {hoo}")
        # a structurally re-built twin is not available generically; eq root/opt and root/other
        other = ck.rng.randrange(0, root + 1)
        p.q["eq_self"] = (p.ncmd + 1, ); p.emit(f"eq {root} {ho}")
        p.q["eq_other"] = (p.ncmd + 1, other); p.emit(f"eq {root} {other}")
        p.pts = []
        for j in range(4):
            pt = [ck.rng.choice([0.0, 1.0, -1.0, 0.5, ck.rng.uniform(-2, 2), ck.rng.uniform(-2, 2)]) for _ in range(3)]
            vv = [ck.rng.uniform(-2, 2) for _ in range(p.nvars)]
            args = " ".join(f2h(v) for v in pt + vv)
            e = {}
            for nm, h in (("r", root), ("f", hf), ("o", ho), ("x", other)):
                e[nm] = p.ncmd + 1
                p.emit(f"eval {h} {args}")
            p.pts.append((pt, vv, e))
        progs.append(p)
    return progs


parse_out = exprlib.parse_out
value_ok = exprlib.value_ok


def run(replay=None):
    ck = common.Check("C07", level="proof")
    rep = common.regen_translators()
    proof = ck.proof_obligations()
    ok_d, log_d = common.build_driver(**common.DRIVERS["driver"])
    ok_h, log_h = common.build_harness(["bin/expr"])
    if not ok_h:
        ck.violation("build", "harness does not build against /repo working tree", {"log": log_h[-3000:]}, no_input=True)
        ck.finish()
    quick = ck.tier == "quick"
    progs = gen_cases(ck, 400 if quick else 6000, 4, 40 if quick else 70)
    texts = [p.text() for p in progs]
    hout, hskip = common.run_cases_sharded(os.path.join(common.BUILD, "cxx", "bin", "expr"), texts)
    H = parse_out(hout)
    M = {}
    mskip = []
    if ok_d:
        mout, mskip = common.run_cases_sharded(os.path.join(common.BUILD, "ocaml", "driver"), texts)
        M = parse_out(mout)
    skipped_ids = set(t.split()[1] for t in hskip + mskip)
    progs = [p for p in progs if p.cid not in skipped_ids]

    stats = dict(programs=len(progs), skipped_timeouts=len(skipped_ids), built_exact=0, built_tol=0, flat_exact=0, opt_ac_equal=0,
                 opt_ident=0, eq_agree=0, values=0, values_skipped=0, corr_mismatch=0)
    nontrivial = set()
    ophist = {}
    samples = []
    corr_bad = []
    oof_cids = set(cid_ for (cid_, _), ls in M.items() if "OOF" in ls)
    for p in progs:
        def g(D, key):
            v = D.get((p.cid, key))
            return v[0] if v else None
        # --- correspondence ---
        if p.cid in oof_cids:
            ck.violation("correspondence", "the model's optimiser ran out of level fuel (Tree/Optimize.v optimized_full)",
                         {"program": p.text(), "theorem_or_stage": "correspondence:level-fuel"}, no_input=True)
        # fragile structure: one of the model's shadow builds (doubles, one-ulp noise, +0 only) folds its
        # constants to something else than the main build (a NaN, pi instead of -pi, a cancelled difference)
        def fragile(nm):
            ls = M.get((p.cid, p.q[nm][0])) or []
            main = [l for l in ls if l.startswith("D ")]
            return bool(main) and any(not exprlib.dags_equal_mod_sharing(main[0][2:], l[3:], ulps=64)
                                      for l in ls if l.startswith("DS "))
        frag = fragile("dump") or fragile("dumpf") or fragile("dumpo")
        if frag:
            stats["fragile_fold_skipped"] = stats.get("fragile_fold_skipped", 0) + 1
        for nm, stat in (("dump", "built"), ("dumpf", "flat")):
            hi, mi = g(H, p.q[nm][0]), g(M, p.q[nm][0])
            if frag:
                continue
            if hi is None or mi is None:
                corr_bad.append((p, nm, hi, mi)); continue
            if hi == mi:
                stats["built_exact" if stat == "built" else "flat_exact"] += 1
            elif exprlib.dumps_equal_tol(hi[2:], mi[2:]):
                stats["built_tol"] += 1
            elif any(t[0] == "c" and len(t) == 9 and (int(t[1:], 16) & 0x7f800000) == 0x7f800000 for t in (hi + " " + mi).split()):
                # a constant folded through an infinity or a NaN (Eigen's pow(-inf, 3) is +inf, libm's -inf):
                # outside the property's domain, nothing canonical to compare
                stats["nonfinite_const_skipped"] = stats.get("nonfinite_const_skipped", 0) + 1
            else:
                corr_bad.append((p, nm, hi, mi))
        ho, mo = g(H, p.q["dumpo"][0]), g(M, p.q["dumpo"][0])
        if frag:
            pass
        elif ho and mo and ho.startswith("D ") and mo.startswith("D "):
            if exprlib.ac_normal(ho[2:]) == exprlib.ac_normal(mo[2:]):
                stats["opt_ac_equal"] += 1
            elif any(t[0] == "c" and len(t) == 9 and (int(t[1:], 16) & 0x7f800000) == 0x7f800000 for t in (ho + " " + mo).split()):
                # a NaN constant inside a commutative chain: min / max with NaN depend on the operand order, which
                # the optimiser takes from pointer order (folding min(2, NaN) or not) - no canonical form to compare
                stats["opt_nan_skipped"] = stats.get("opt_nan_skipped", 0) + 1
            elif exprlib.dags_equal_mod_sharing(ho[2:], mo[2:], ulps=64) or exprlib.ac_equal_tol(ho[2:], mo[2:], ulps=64):
                # same structure, folded transcendental constants a few ulps apart (libm vs Eigen)
                stats["opt_ac_equal"] += 1
            elif exprlib.dumps_numerically_equal(ho[2:], mo[2:], random.Random(zlib.crc32(p.cid.encode()))):
                # structure differs (e.g. a 1e-7 residue left in an affine constant term by fused
                # multiply-add accumulation) but the two optimiser outputs are the same function
                stats["opt_numeric_equal"] = stats.get("opt_numeric_equal", 0) + 1
            else:
                corr_bad.append((p, "dumpo", ho, mo))
        else:
            corr_bad.append((p, "dumpo", ho, mo))
        hoo = g(H, p.q["dumpoo"][0])
        # optimising an optimised tree changes nothing (statement of the property)
        if ho is not None and hoo is not None:
            if ho == hoo:
                stats["opt_ident"] += 1
            else:
                ck.violation("reopt", "optimising an already-optimised tree changed it",
                             {"program": p.text(), "first": ho, "second": hoo})
        # Tree::eq verdicts depend on allocation order (pointer-sorted operands), so the
        # model's verdict is one allowed behaviour, not the only one: verdicts are only
        # counted; soundness of every "equal" verdict is checked by the oracle below.
        for nm in ("eq_self", "eq_other"):
            he, me = g(H, p.q[nm][0]), g(M, p.q[nm][0])
            if he == me:
                stats["eq_agree"] += 1
        # --- property oracle on the implementation ---
        he_other = g(H, p.q["eq_other"][0])
        for pt, vv, e in p.pts:
            mr = g(M, e["r"])
            if mr is None or not mr.startswith("V "):
                continue
            vals = {}
            for nm in ("r", "f", "o", "x"):
                hv = g(H, e[nm])
                vals[nm] = hv.split()[1] if hv and hv.startswith("V ") else None
            for nm in ("r", "f", "o"):
                if vals[nm] is None:
                    ck.violation("evalerr", f"evaluation of {nm} failed: {g(H, e[nm])}", {"program": p.text()})
                    continue
                ok, skipped = value_ok(vals[nm], mr)
                if skipped:
                    stats["values_skipped"] += 1
                    continue
                stats["values"] += 1
                if not ok:
                    what = {"r": "built tree", "f": "flattened tree", "o": "optimised tree"}[nm]
                    ck.violation("value", f"{what} does not denote the expression at a stable point",
                                 {"program": p.text(), "point": pt, "vars": vv, "impl": vals[nm], "model": mr})
            if he_other == "EQ 1" and vals["x"] and vals["r"]:
                mx = g(M, e["x"])
                if mx and mx.startswith("V "):
                    ok1, sk1 = value_ok(vals["r"], mx)
                    # (both expressions must be in their domain at the point: max(NaN, 0) folds to NaN or to 0
                    #  depending on the pointer order, and Tree::eq then compares a NaN-valued tree with 0)
                    _, sk0 = value_ok(vals["r"], mr)
                    if not sk1 and not sk0 and not ok1:
                        ck.violation("eq_sound", "Tree::eq says equal but the functions differ",
                                     {"program": p.text(), "point": pt, "vars": vv})
        # non-triviality: >= 5 nodes, >= 2 opcodes, optimised differs from built or a remap was flattened
        hb = g(H, p.q["dump"][0])
        if hb and ho:
            n, ops = exprlib.dump_stats(hb[2:])
            for o in ops:
                ophist[o] = ophist.get(o, 0) + 1
            if n >= 5 and len(ops) >= 2 and (ho != hb or "R." in hb or "A." in hb):
                nontrivial.add(exprlib.ac_normal(hb[2:]))
        if len(samples) < 3:
            samples.append({"program": p.lines[:12], "built": hb, "optimised": ho})

    # correspondence failures: search for a failing input among them first
    if corr_bad:
        stats["corr_mismatch"] = len(corr_bad)
        p, nm, hi, mi = corr_bad[0]
        ck.violation("correspondence", f"model and implementation disagree at stage {nm}",
                     {"stage": nm, "impl": hi, "model": mi, "program": p.text(),
                      "theorem_or_stage": f"correspondence:{nm}"}, no_input=True)
    if not proof["ok"]:
        ck.violation("proof", "Properties_C07.v no longer checks", {"theorem_or_file": proof["file"],
                     "log": proof["log"][-3000:]}, no_input=True)
    if not ok_d:
        ck.violation("driver", "extracted model does not build", {"log": log_d[-3000:]}, no_input=True)

    ck.coverage.update(stats)
    ck.coverage["evaluations"] = stats["values"] + stats["programs"] * 6
    ck.coverage["distinct_nontrivial"] = len(nontrivial)
    ck.coverage["rule"] = ("seeded random build programs (sharing, remap/apply, constants 0/1/-1, equal operands); "
                           "non-trivial = >=5 nodes, >=2 opcodes, optimised DAG differs from built DAG or a remap/apply "
                           "was flattened; distinct by AC-normal hash of the built DAG")
    ck.coverage["samples"] = samples
    ck.coverage["opcode_histogram"] = ophist
    ck.coverage["translators"] = rep
    ck.coverage["traces_validated_against_impl"] = stats["built_exact"] + stats["flat_exact"] + stats["opt_ac_equal"]
    ck.coverage["trusted_base"] += [
        "translate/gen_opcode.py (opcode table reader)",
        "extraction: ExtrOcamlBasic only (bool, option, unit, list, prod, sumbool, sumor; andb/orb inlined); no Extract Constant",
        "ocaml/driver.ml (binary32 emulation on doubles, case parser), harness/expr.cpp, check/exprlib.py (AC-normaliser)",
        "modelled, not verified: IEEE rounding; std::sort / unordered_map order (abstracted: compared modulo AC)",
    ]
    ck.assumptions += ["theorems are over any number type satisfying BuildSem.laws (the reals do: C07_reals_instance)",
                       "optimize_sem is not yet a theorem: the optimiser is tied by correspondence + value oracle only"]
    ck.finish()
