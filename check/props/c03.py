"""C03 — rendered meshes are closed, consistently oriented surfaces.

proof obligations : Properties_C03.v (marching tetrahedra with the table read from simplex_mesher.cpp, over any closed
                    consistently oriented tetrahedral complex and any inside/outside assignment, gives a mesh in which
                    every directed edge is used as often as its reverse; table sanity by exhaustive computation)
translator        : translate/gen_tables.py regenerates Gen/TetTable_gen.v (tet_table, tet_vertices, cell_vertices)
                    from the source on every run
property oracle   : Mesh::render of random closed solids (rotated / translated spheres, boxes, tori, cylinders, CSG) x 3
                    algorithms x workers 1..16 x resolutions x cell merging on/off: every undirected edge used equally
                    in both directions, no repeated vertex in a triangle, indices valid, every vertex referenced,
                    edge-manifold for simplex / hybrid
partial           : the dual-contouring mesher (per-cell patch tables, minimal-edge rule across octree levels) and the
                    conformity of libfive's own tetrahedral complex across octree levels are covered by the oracle only
correspondence    : uniform-grid dual contouring (max_err = -1): triangle and vertex counts of the implementation's mesh ==
                    those of Render/DCGrid.v's mesh on the implementation's own lattice signs
"""
import os
import sys

sys.path.insert(0, os.path.dirname(os.path.dirname(os.path.abspath(__file__))))
import common
import meshgen
from exprlib import f2h, parse_out


def run(replay=None):
    ck = common.Check("C03", level="proof")
    rep = common.regen_translators()
    proof = ck.proof_obligations()
    ok_h, log_h = common.build_harness(["bin/expr"])
    if not ok_h:
        ck.violation("build", "harness does not build against /repo working tree", {"log": log_h[-3000:]}, no_input=True)
        ck.finish()
    quick = ck.tier == "quick"
    rng = ck.rng
    box = " ".join(f2h(v) for v in meshgen.BOX3)
    progs = []
    for k in range(40 if quick else 800):
        p = meshgen.closed_solid(rng, f"m{k}")
        p.qs = []
        for alg in range(3):
            for _ in range(1 if quick else 2):
                workers = rng.choice([1, 2, 3, 4, 8, 16])
                mf = rng.choice([0.35, 0.25, 0.5, 0.2] if alg == 0 else [0.5, 0.4, 0.7])
                maxerr = rng.choice([1e-8, 1e-8, -1.0, 1e-3])
                p.qs.append((alg, workers, mf, maxerr, p.ncmd + 1))
                p.emit(f"mesh {p.root} {alg} {workers} {f2h(mf)} {box} {f2h(maxerr)} {rng.randrange(1 << 30)}")
        progs.append(p)
    # fine renders of flat-faced CSG: the octree collapses unevenly, so small leaves meet leaves several
    # levels larger at corners / edges / faces (neighbour look-ups that climb more than two levels)
    for k in range(10 if quick else 150):
        p = meshgen.closed_solid(rng, f"f{k}", rotate=rng.random() < 0.5, sharp=True)
        p.qs = []
        for alg in ([1, 2, 0] if k % 2 == 0 else [1, 2]):
            workers = rng.choice([1, 2, 3, 4, 8, 16])
            mf = rng.choice([0.06, 0.045, 0.03] if alg else [0.08, 0.05])
            maxerr = rng.choice([1e-8, -1.0, -1.0, 1e-3])
            p.qs.append((alg, workers, mf, maxerr, p.ncmd + 1))
            p.emit(f"mesh {p.root} {alg} {workers} {f2h(mf)} {box} {f2h(maxerr)} {rng.randrange(1 << 30)}")
        progs.append(p)
    exe_h = os.path.join(common.BUILD, "cxx", "bin", "expr")
    hout, hskip = common.run_cases_sharded(exe_h, [p.text() for p in progs], shards=8, timeout=1800, single_timeout=600)
    for t in hskip:
        ck.violation("hang", "a render did not terminate within the watchdog", {"program": t[:3000]})
    H = parse_out(hout)
    skipped = set(t.split()[1] for t in hskip)
    stats = dict(renders=0, triangles=0, by_alg={"dc": 0, "simplex": 0, "hybrid": 0}, merging_off=0, workers={})
    samples = []
    for p in progs:
        if p.cid in skipped:
            continue
        for alg, workers, mf, maxerr, cmd in p.qs:
            out = [l for l in H.get((p.cid, cmd), []) if l.startswith("MA ")]
            if not out or out[0] == "MA null":
                ck.violation("no_mesh", f"render returned no mesh / raised: {H.get((p.cid, cmd), [])[:1]}",
                             {"program": p.text(), "command": p.lines[cmd - 1]})
                continue
            f = dict(x.split("=", 1) for x in out[0].split(" info=")[0].split()[1:])
            stats["renders"] += 1
            stats["triangles"] += int(f["tris"])
            stats["by_alg"][["dc", "simplex", "hybrid"][alg]] += 1
            stats["workers"][str(workers)] = stats["workers"].get(str(workers), 0) + 1
            if maxerr < 0:
                stats["merging_off"] += 1
            name = ["dc", "simplex", "hybrid"][alg]
            for key, what in (("unbalanced", "an edge is not used equally often in both directions (not watertight / not consistently oriented)"),
                              ("degenerate", "a triangle repeats a vertex"),
                              ("bad_index", "a triangle index does not refer to a vertex"),
                              ("unreferenced", "a vertex is referenced by no triangle")):
                if int(f[key]):
                    # the simplex mesher with cell collapsing enabled (max_err >= 0) is a recorded finding
                    # (known_findings.txt, corpus c03_simplex_collapse_hole.txt): its own key, so that holes of the
                    # simplex mesher WITHOUT collapsing, and of the other meshers, are still reported
                    k2 = f"{key}:{name}" + (":collapse" if key == "unbalanced" and alg == 1 and maxerr >= 0 else "")
                    ck.violation(k2, what, {"program": p.text(), "command": p.lines[cmd - 1], "detail": out[0]})
            if alg != 0 and int(f["nonmanifold"]):
                ck.violation(f"nonmanifold:{name}", "an edge is used more than once in one direction (simplex / hybrid must be edge-manifold)",
                             {"program": p.text(), "command": p.lines[cmd - 1], "detail": out[0]})
            if len(samples) < 3:
                samples.append({"command": p.lines[cmd - 1], "answer": out[0]})
    # the recorded finding: the simplex mesher leaves holes when it collapses cells (and none when it does not)
    corpus = os.path.join(common.VERIF, "check", "corpus", "c03_simplex_collapse_hole.txt")
    rc, cout, _ = common.run_prog(exe_h, open(corpus).read(), timeout=300)
    cl = [l for l in cout.splitlines() if " MA " in l]
    if len(cl) == 2:
        if " unbalanced=0 " not in cl[0]:
            ck.violation("unbalanced:simplex:collapse", "the simplex mesher with cell collapsing leaves unpaired edges on the recorded input",
                         {"program": open(corpus).read(), "detail": cl[0]})
        if " unbalanced=0 " not in cl[1]:
            ck.violation("unbalanced:simplex", "the simplex mesher WITHOUT cell collapsing leaves unpaired edges on the recorded input",
                         {"program": open(corpus).read(), "detail": cl[1]})
    # ---- uniform-grid dual contouring: the implementation's mesh against Render/DCGrid.v ----
    ok_g, log_g = common.build_driver(**common.DRIVERS["gdriver"])
    gprogs = []
    for k in range(14 if quick else 300):
        p = meshgen.closed_solid(rng, f"g{k}", rotate=True)
        if rng.random() < 0.5:
            # two small balls at diagonally opposite lattice corners: ambiguous faces, cells with two patches
            p = meshgen.closed_solid(rng, f"g{k}", rotate=False)
        level = rng.choice([2, 3, 3, 4])
        p.q = p.ncmd + 1
        p.emit(f"dcgrid {p.root} {level} {box} {rng.choice([1, 4, 8])}")
        gprogs.append(p)
    gout, gskip = common.run_cases_sharded(exe_h, [p.text() for p in gprogs], shards=8, timeout=900, single_timeout=300)
    G = parse_out(gout)
    mcases, mexp = [], []
    for p in gprogs:
        l = [x for x in G.get((p.cid, p.q), []) if x.startswith("DG ")]
        if not l:
            continue
        head, pts = l[0].split(" filled=")
        f = dict(x.split("=", 1) for x in head.split()[1:])
        if int(f["zero"]) or not pts.strip():
            continue                                   # a lattice point exactly on the surface: sign is a convention
        mcases.append(f"case {p.cid}\ndcgrid{pts}\nend\n")
        mexp.append((p, int(f["tris"]), int(f["verts"]), f["closed"], l[0][:200]))
    stats["grid_cases"] = len(mcases); stats["grid_equal"] = 0; stats["grid_two_patch_cells"] = 0
    grid_bad = []
    if ok_g and mcases:
        mout, _ = common.run_cases_sharded(os.path.join(common.BUILD, "ocaml", "gdriver"), mcases, timeout=1800, single_timeout=600)
        M = parse_out(mout)
        for p, tris, verts, closed, detail in mexp:
            m = (M.get((p.cid, 1)) or [""])[0]
            if m == f"GM tris={tris} verts={verts}":
                stats["grid_equal"] += 1
            elif m.startswith("GM "):
                grid_bad.append((p, detail, m))
            if closed != "1":
                ck.violation("unbalanced:dc:grid", "dual contouring of a uniform grid (no merging) is not closed",
                             {"program": p.text(), "detail": detail})
    if grid_bad:
        p, detail, m = grid_bad[0]
        ck.violation("correspondence", f"uniform-grid dual contouring: triangle / vertex counts differ from Render/DCGrid.v ({len(grid_bad)} cases)",
                     {"program": p.text(), "impl": detail, "model": m, "theorem_or_stage": "correspondence:dcgrid"}, no_input=True)
    # ---- uniform-grid simplex meshing: the implementation's mesh against Render/SimplexGrid.v ----
    # (the tet complex whose closedness is C03_simplex_uniform_grid_complex_closed): the model is run on the
    # implementation's own subspace-vertex signs and must emit the same number of triangles
    ok_s, log_s = common.build_driver(**common.DRIVERS["sgdriver"])
    sprogs = []
    for k in range(6 if quick else 60):
        p = meshgen.closed_solid(rng, f"x{k}", rotate=rng.random() < 0.5, sharp=rng.random() < 0.3)
        p.q = p.ncmd + 1
        p.emit(f"sxgrid {p.root} 3 {box} {rng.choice([1, 4, 8])}")
        sprogs.append(p)
    sout, _ = common.run_cases_sharded(exe_h, [p.text() for p in sprogs], shards=8, timeout=900, single_timeout=300)
    SG = parse_out(sout)
    scases, sexp = [], []
    stats["sxgrid_cases"] = 0; stats["sxgrid_equal"] = 0; stats["sxgrid_skipped_boundary"] = 0
    for p in sprogs:
        l = [x for x in SG.get((p.cid, p.q), []) if x.startswith("SG ")]
        if not l:
            continue
        head, pts = l[0].split(" inside=")
        f = dict(x.split("=", 1) for x in head.split()[1:])
        n = int(f["n"])
        P = [tuple(int(c) for c in t.split(",")) for t in pts.split()]
        # (an empty mesh - a solid thinner than the grid - is vacuously closed; the harness flag is 0 for it)
        if f["closed"] != "1" and int(f["tris"]) > 0:
            ck.violation("unbalanced:simplex", "the simplex mesher on a uniform grid without collapsing is not closed / edge-manifold",
                         {"program": p.text(), "detail": head})
        # the model covers lattice edges whose four cells lie in the box: comparable when the outermost cell
        # layer is empty (the theorem's hypothesis clear_boundary) and every ambiguous leaf is at the finest level
        if not P or int(f["uneven"]) or any(c <= 1 or c >= 2 * n - 1 for q in P for c in q):
            stats["sxgrid_skipped_boundary"] += 1
            continue
        scases.append(f"case {p.cid}\nsxgrid {n}{pts.rstrip()}\nend\n")
        sexp.append((p, int(f["tris"]), head))
    stats["sxgrid_cases"] = len(scases)
    if ok_s and scases:
        mout, mskipped = common.run_cases_sharded(os.path.join(common.BUILD, "ocaml", "sgdriver"), scases, shards=8, timeout=1800, single_timeout=600)
        SM = parse_out(mout)
        stats["sxgrid_model_skipped"] = len(mskipped)
        if os.environ.get("VERIF_DEBUG"):
            open("/tmp/sx_mout.txt", "w").write(mout)
            open("/tmp/sx_cases.txt", "w").write("".join(scases))
        sbad = []
        for p, tris, head in sexp:
            m = (SM.get((p.cid, 1)) or [""])[0]
            if m == f"SM tris={tris}":
                stats["sxgrid_equal"] += 1
            else:
                sbad.append((p, head, m))
        if sbad:
            p, head, m = sbad[0]
            ck.violation("correspondence", f"uniform-grid simplex meshing: triangle count differs from Render/SimplexGrid.v ({len(sbad)} cases)",
                         {"program": p.text(), "impl": head, "model": m, "theorem_or_stage": "correspondence:sxgrid"}, no_input=True)
    if not ok_s:
        ck.violation("driver", "extracted simplex-grid model does not build", {"log": log_s[-3000:]}, no_input=True)
    if not ok_g:
        ck.violation("driver", "extracted grid model does not build", {"log": log_g[-3000:]}, no_input=True)
    if "FAILED" in str(rep.get("TetTable_gen.v", "")):
        ck.violation("translator", "the marching-tetrahedra table can no longer be read: " + rep["TetTable_gen.v"],
                     {"theorem_or_file": "Gen/TetTable_gen.v"}, no_input=True)
    # ---- adaptive octrees: collectChildren (collapse) + the recursive dual walk (cell / face / edge procedures,
    #      DCMesher::load with the minimum-level rule) against Render/OctTree.v on the implementation's own trees ----
    import re as _re
    ok_o, log_o = common.build_driver(**common.DRIVERS["otdriver"])
    oprogs = []
    for k in range(24 if quick else 1500):
        p = meshgen.closed_solid(rng, f"o{k}", rotate=rng.random() < 0.6, sharp=rng.random() < 0.6)
        p.q = p.ncmd + 1
        me = rng.choice([1e-8, 1e-3, 1e-2, 0.05, 0.2, 1.0, 1e9])
        p.emit(f"octree {p.root} {rng.choice([3, 4, 4, 5])} {box} {f2h(me)} {rng.choice([1, 2, 4, 8])}")
        oprogs.append(p)
    oout, oskip = common.run_cases_sharded(os.path.join(common.BUILD, "cxx", "bin", "expr"), [p.text() for p in oprogs],
                                          shards=8, timeout=900, single_timeout=300)
    OQ = parse_out(oout)
    ocases, ometa = [], []
    for p in oprogs:
        l = [x for x in OQ.get((p.cid, p.q), []) if x.startswith("OT ")]
        if not l:
            continue
        m = _re.search(r"level=(\d+) pre=(.*) post=(.*) tris=(.*)", l[0])
        if not m or " U" in l[0]:
            ck.violation("octree:dump", "the octree dump is malformed (an ambiguous cell without a leaf?)",
                         {"program": p.text(), "detail": l[0][:500]})
            continue
        tris = [tuple(int(v) for v in tr.split(">")) for tr in m.group(4).split()]
        ocases.append(f"case {p.cid}\noctree {m.group(1)} pre {m.group(2).strip()} post {m.group(3).strip()} tris {m.group(4).strip()}\nend\n")
        ometa.append((p, tris, l[0]))
    stats.update(octrees=len(ocases), octree_collect_equal=0, octree_walk_equal=0, octree_hyp_hold=0, octree_hyp_failed=0,
                 octree_collapsed_leaves=0, octree_mixed_level_triangles=0, octree_triangles=0)
    if ok_o and ocases:
        mo, moskip = common.run_cases_sharded(os.path.join(common.BUILD, "ocaml", "otdriver"), ocases, timeout=1800, single_timeout=900)
        MO = parse_out(mo)
        for p, tris, detail in ometa:
            m = (MO.get((p.cid, 1)) or [""])[0]
            if not m.startswith("OM "):
                if not any(t.split()[1] == p.cid for t in moskip):
                    ck.violation("correspondence", "the octree model gave no answer: " + m[:200],
                                 {"program": p.text(), "theorem_or_stage": "correspondence:octree"}, no_input=True)
                continue
            f = dict(x.split("=", 1) for x in m.split()[1:])
            # the property itself on exactly this tree: every directed edge as often as its reverse, no repeated vertex
            cnt = {}
            degenerate = 0
            for a, b, c in tris:
                if a == b or b == c or a == c:
                    degenerate += 1
                for e in ((a, b), (b, c), (c, a)):
                    cnt[e] = cnt.get(e, 0) + 1
            balanced = all(cnt.get((b, a), 0) == n for (a, b), n in cnt.items())
            hyp = f["cons_pre"] == "true" and f["cons_post"] == "true" and f["bclear"] == "true" and f["conflicts"] == "0"
            stats["octree_triangles"] += len(tris)
            stats["octree_collapsed_leaves"] += int(f["collapsed"])
            stats["octree_mixed_level_triangles"] += int(f["mixed"])
            stats["octree_hyp_hold" if hyp else "octree_hyp_failed"] += 1
            if f["bclear"] == "true" and (not balanced or degenerate):
                ck.violation("unbalanced:dc:adaptive", "dual contouring over an octree with cells of different levels leaves an unpaired "
                             "edge or a triangle with a repeated vertex", {"program": p.text(), "command": p.lines[p.q - 1], "model": m})
            if f["collect_equal"] == "true":
                stats["octree_collect_equal"] += 1
            else:
                ck.violation("correspondence", "DCTree<3>::collectChildren: the model's collapse gives a different octree",
                             {"program": p.text(), "command": p.lines[p.q - 1], "model": m,
                              "theorem_or_stage": "correspondence:octree-collect"}, no_input=True)
            if f["walk_equal"] == "true":
                stats["octree_walk_equal"] += 1
            else:
                ck.violation("correspondence", "Dual<3>::walk / DCMesher::load: the model emits different triangles on the implementation's octree",
                             {"program": p.text(), "command": p.lines[p.q - 1], "model": m,
                              "theorem_or_stage": "correspondence:octree-walk"}, no_input=True)
    if not ok_o:
        ck.violation("driver", "extracted octree model does not build", {"log": log_o[-3000:]}, no_input=True)
    if not proof["ok"]:
        ck.violation("proof", "Properties_C03.v no longer checks", {"theorem_or_file": proof["file"],
                     "log": proof["log"][-3000:]}, no_input=True)
    ck.coverage.update(stats)
    ck.coverage["evaluations"] = stats["renders"] + stats.get("grid_cases", 0)
    ck.coverage["traces_validated_against_impl"] = (stats.get("grid_equal", 0) + stats.get("sxgrid_equal", 0) +
                                                     stats.get("octree_walk_equal", 0) + stats.get("octree_collect_equal", 0))
    ck.coverage["translators"] = rep
    ck.coverage["samples"] = samples
    ck.coverage["rule"] = "closed CSG solids (60% of primitives rotated) x 3 algorithms x workers {1,2,3,4,8,16} x min_feature x max_err {1e-8, 1e-3, -1 = no merging}"
    ck.coverage["trusted_base"] += ["translate/gen_tables.py", "harness/expr.cpp audit_mesh",
                                    "thread interleavings are sampled by the OS (the marching-tetrahedra theorem is schedule-free)"]
    ck.assumptions += ["dual contouring's closedness and the conformity of the simplex complex across octree levels are not theorems here"]
    ck.finish()
