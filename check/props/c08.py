"""C08 — saved shapes load back as the same shapes; opcode numbering frozen.

proof obligations : Properties_C08.v (regenerated opcode table = frozen table, codes are distinct
                    bytes != END_OF_ITEM; string / word / variable-section / tree round-trip theorems)
correspondence    : bytes written by Archive::serialize equal the model's bytes exactly; the reloaded
                    DAGs, names, docstrings and variable bindings equal the model's
property oracle   : reloaded shapes evaluate like the originals (same named-variable values), names /
                    docs / variable names survive, for archives with several shapes, shared
                    sub-trees, transformed (remap/apply) shapes and awkward strings
"""
import os
import re
import sys

sys.path.insert(0, os.path.dirname(os.path.dirname(os.path.abspath(__file__))))
import common
import exprlib
from exprlib import parse_out, f2h

STRINGS = [b"", b"a", b"name", b'"', b"\\", b'a"b', b"\\\\", b'\\"', b"\xff", b"\xfe\xff", b"\x00", b"\x00a\x00",
           "héllo".encode(), b"x" * 40, b'"' * 5, b"tab\there", b"nl\nhere", b" "]


def hexs(b):
    return b.hex() if b else "-"


def gen_cases(ck, n):
    progs = []
    for k in range(n):
        with_remap = ck.rng.random() < 0.5
        p = exprlib.gen_program(ck.rng, f"a{k}", ck.rng.randint(4, 30), safe=ck.rng.random() < 0.7,
                                remap_p=0.1 if with_remap else 0.0, apply_p=0.05 if with_remap else 0.0, var_p=0.15)
        trees = [h for h, kd in enumerate(p.kinds) if kd in ("tree", "axis", "var", "const")]
        varh = [h for h, kd in enumerate(p.kinds) if kd == "var"]
        nshapes = ck.rng.choice([1, 1, 2, 3, 4])
        spec = []
        names_used = set()
        args = [str(nshapes)]
        for s in range(nshapes):
            h = p.root if s == 0 else ck.rng.choice(trees)
            name = ck.rng.choice(STRINGS) if ck.rng.random() < 0.7 else bytes(ck.rng.randrange(256) for _ in range(ck.rng.randint(0, 12)))
            doc = ck.rng.choice(STRINGS)
            vs = []
            for v in varh:
                if ck.rng.random() < 0.6:
                    while True:
                        nm = b"v%d_" % v + ck.rng.choice(STRINGS)
                        if nm not in names_used:
                            names_used.add(nm)
                            break
                    vs.append((v, nm))
            spec.append((h, name, doc, vs))
            args += [str(h), hexs(name), hexs(doc), str(len(vs))]
            for v, nm in vs:
                args += [str(v), hexs(nm)]
        p.spec = spec
        p.qa = p.ncmd + 1
        p.emit("archive " + " ".join(args))
        progs.append(p)
    return progs


def gen_oracle_archives(ck, n):
    """archives whose shapes contain a serialisable oracle (the harness registers VerifBallClause), plain, remapped
    (a TransformedOracleClause with dependencies after flattening), as an operand and as a shape root, shared between
    shapes; the codec model does not cover oracle clauses, so these go through the round-trip oracle only"""
    rng = ck.rng
    progs = []
    for k in range(n):
        p = exprlib.Prog(f"r{k}")
        ax = [p.emit("x", "axis"), p.emit("y", "axis"), p.emit("z", "axis")]

        def const(v):
            return p.emit(f"const {f2h(v)}", "const")

        def moved(t):
            m = []
            for a in ax:
                r = rng.random()
                if r < 0.4:
                    m.append(p.emit(f"bin OP_SUB {a} {const(rng.choice([0.5, -0.75, 1.25, 2.0]))}", "tree"))
                elif r < 0.6:
                    m.append(p.emit(f"bin OP_MUL {a} {const(rng.choice([2.0, 0.5, -1.0]))}", "tree"))
                elif r < 0.7:
                    m.append(ax[rng.randrange(3)])
                else:
                    m.append(a)
            return p.emit(f"remap {t} {m[0]} {m[1]} {m[2]}", "tree")
        o = p.emit("soracle", "tree")
        pool = [o]
        for _ in range(rng.randint(1, 5)):
            t = rng.choice(pool)
            r = rng.random()
            if r < 0.45:
                pool.append(moved(t))
            elif r < 0.6:
                pool.append(p.emit(f"un OP_NEG {t}", "tree"))
            elif r < 0.8:
                pool.append(p.emit(f"bin {rng.choice(['OP_MIN', 'OP_MAX', 'OP_ADD'])} {t} {rng.choice(pool)}", "tree"))
            else:
                pool.append(p.emit(f"bin OP_SUB {t} {const(rng.choice([0.25, 1.0]))}", "tree"))
        nshapes = rng.choice([1, 2, 3])
        spec, args = [], [str(nshapes)]
        for s2 in range(nshapes):
            h = pool[-1] if s2 == 0 else rng.choice(pool)
            name, doc = rng.choice(STRINGS), rng.choice(STRINGS)
            spec.append((h, name, doc, []))
            args += [str(h), hexs(name), hexs(doc), "0"]
        p.spec = spec
        p.qa = p.ncmd + 1
        p.emit("archive " + " ".join(args))
        p.oracle_only = True
        progs.append(p)
    return progs


def run(replay=None):
    ck = common.Check("C08", level="proof")
    rep = common.regen_translators()
    proof = ck.proof_obligations()
    ok_d, log_d = common.build_driver(**common.DRIVERS["driver"])
    ok_h, log_h = common.build_harness(["bin/expr"])
    if not ok_h:
        ck.violation("build", "harness does not build against /repo working tree", {"log": log_h[-3000:]}, no_input=True)
        ck.finish()
    quick = ck.tier == "quick"
    progs = gen_cases(ck, 400 if quick else 8000) + gen_oracle_archives(ck, 60 if quick else 1500)
    exe_h = os.path.join(common.BUILD, "cxx", "bin", "expr")
    exe_m = os.path.join(common.BUILD, "ocaml", "driver")
    hout, hskip = common.run_cases_sharded(exe_h, [p.text() for p in progs])
    H = parse_out(hout)
    skipped = set(t.split()[1] for t in hskip)
    progs = [p for p in progs if p.cid not in skipped]
    # the model serialises variables in the order the implementation's std::map (pointer order) did
    mtexts = []
    for p in progs:
        if getattr(p, "oracle_only", False):
            continue
        out = H.get((p.cid, p.qa), [])
        vo = [l[3:].split() for l in out if l.startswith("VO")]
        lines = list(p.lines)
        args = [str(len(p.spec))]
        for s, (h, name, doc, vs) in enumerate(p.spec):
            order = [int(x) for x in vo[s]] if s < len(vo) else []
            # vo gives creation indices of the variables (k-th 'var' command)
            varhandles = [hh for hh, kd in enumerate(p.kinds) if kd == "var"]
            byh = dict(vs)
            ordered = [(varhandles[i], byh[varhandles[i]]) for i in order if 0 <= i < len(varhandles) and varhandles[i] in byh]
            args += [str(h), hexs(name), hexs(doc), str(len(ordered))]
            for v, nm in ordered:
                args += [str(v), hexs(nm)]
        lines[p.qa - 1] = "archive " + " ".join(args)
        mtexts.append(f"case {p.cid}\n" + "\n".join(lines) + "\nend\n")
    M = {}
    if ok_d:
        mout, mskip = common.run_cases_sharded(exe_m, mtexts)
        M = parse_out(mout)

    stats = dict(archives=len(progs), bytes_exact=0, shapes=0, reload_equal=0, eval_points=0, total_bytes=0,
                 named_vars=0, escapes=0)
    corr_bad = []
    nontriv = set()
    samples = []
    for p in progs:
        vw = [l[3:].strip() for l in H.get((p.cid, p.qa), []) if l.startswith("VW ")]
        ho = [l for l in H.get((p.cid, p.qa), []) if not l.startswith("VO") and not l.startswith("VW ")]
        mo = M.get((p.cid, p.qa), [])
        hb = [l for l in ho if l.startswith("B ")]
        mb = [l for l in mo if l.startswith("B ")]
        errs = [l for l in ho if l.startswith("ERR")]
        if errs:
            ck.violation("exception", "serialise / deserialise raised: " + errs[0], {"program": p.text()})
            continue
        oracle_only = getattr(p, "oracle_only", False)
        if oracle_only:
            stats["oracle_archives"] = stats.get("oracle_archives", 0) + 1
        # fragile constant folds: a shadow build of the model (doubles / one-ulp noise / +0 only) folds a
        # shape's constants to something else than the main build (cos(exp(6)): 1000 ulps per ulp of exp)
        msh = [l.split("dump=")[1] for l in mo if l.startswith("S ") and "dump=" in l]
        fragile = False
        for l in mo:
            if l.startswith("DS "):
                k, dd = l[3:].split(" ", 1)
                if int(k) < len(msh) and not exprlib.dags_equal_mod_sharing(
                        re.sub(r"\bv-?\d+\b", "v0", msh[int(k)]), re.sub(r"\bv-?\d+\b", "v0", dd), ulps=64):
                    fragile = True
        mo = [l for l in mo if not l.startswith("DS ")]
        if oracle_only:
            pass                                   # no codec model for oracle clauses: round-trip oracle only
        elif hb and mb and hb[0] == mb[0]:
            stats["bytes_exact"] += 1
            stats["total_bytes"] += (len(hb[0]) - 2) // 2
        elif fragile:
            stats["fragile_fold_skipped"] = stats.get("fragile_fold_skipped", 0) + 1
            continue
        elif hb and mb and len(hb[0]) == len(mb[0]) and [l for l in ho if l.startswith("S ")] and \
                len(ho) == len(mo) + len([l for l in ho if l.startswith("E ")]) and \
                all(exprlib.dumps_equal_tol(a.split("dump=")[1], b.split("dump=")[1])
                    for a, b in zip([l for l in ho if l.startswith("S ")], [l for l in mo if l.startswith("S ")])):
            # same length and the reloaded DAGs agree up to a few ulp in folded transcendental constants
            stats["bytes_exact"] += 1
            stats["bytes_tol"] = stats.get("bytes_tol", 0) + 1
        else:
            corr_bad.append((p, "bytes", hb[:1], mb[:1]))
        hs = [l for l in ho if l.startswith("S ") or l.startswith("N ")]
        ms = [l for l in mo if l.startswith("S ") or l.startswith("N ")]
        if oracle_only:
            pass
        elif hs == ms:
            stats["reload_equal"] += 1
        elif all(exprlib.dumps_equal_tol(a.split("dump=")[1], b.split("dump=")[1]) and a.split("dump=")[0] == b.split("dump=")[0]
                 for a, b in zip(hs[1:], ms[1:])) and len(hs) == len(ms):
            stats["reload_equal"] += 1
        else:
            corr_bad.append((p, "reload", hs, ms))
        # ---- property oracle on the implementation's own answers ----
        nl = [l for l in ho if l.startswith("N ")]
        if not nl or int(nl[0].split()[1]) != len(p.spec):
            ck.violation("count", "number of reloaded shapes differs from the number saved",
                         {"program": p.text(), "got": nl})
            continue
        sl = [l for l in ho if l.startswith("S ")]
        el = [l for l in ho if l.startswith("E ")]
        for s, (h, name, doc, vs) in enumerate(p.spec):
            stats["shapes"] += 1
            f = dict(x.split("=", 1) for x in sl[s].split(" ")[1:4])
            want_vars = ",".join(sorted(hexs(nm) for _, nm in vs)) or "-"
            # a variable can only be bound if it occurs in the (flattened) expression
            got_vars = f["vars"]
            if f["name"] != hexs(name) or f["doc"] != hexs(doc):
                ck.violation("meta", "name or docstring changed by save/load",
                             {"program": p.text(), "shape": s, "got": sl[s][:200]})
            got_set = set(got_vars.split(",")) if got_vars != "-" else set()
            want_set = set(want_vars.split(",")) if want_vars != "-" else set()
            if not got_set <= want_set:
                ck.violation("vars", "reloaded shape has a variable name that was not saved",
                             {"program": p.text(), "shape": s, "got": got_vars, "want": want_vars})
            if s < len(vw):
                occ_set = set(vw[s].split(",")) if vw[s] != "-" else set()
                if not occ_set <= got_set:
                    ck.violation("vars_lost", "a named variable that occurs in the saved expression came back without its name",
                                 {"program": p.text(), "shape": s, "got": got_vars, "saved_and_occurring": vw[s]})
            stats["named_vars"] += len(got_set)
            if s < len(el):
                e = dict(x.split("=") for x in el[s].split()[1:3])
                stats["eval_points"] += int(e["pts"])
                if int(e["bad"]):
                    ck.violation("value", "reloaded shape does not denote the saved function",
                                 {"program": p.text(), "shape": s, "detail": el[s]})
            if any(c in name + doc for c in b'"\\'):
                stats["escapes"] += 1
        if (len(p.spec) >= 2 or any(vs for _, _, _, vs in p.spec)) and any(any(c in nm + d for c in b'"\\') for _, nm, d, _ in p.spec):
            nontriv.add(hb[0] if hb else p.cid)
        if len(samples) < 2 and hb:
            samples.append({"archive_cmd": p.lines[p.qa - 1][:200], "bytes": hb[0][:160]})
    # were variables that occur in the expression lost?  (every saved variable occurring in the
    # flattened tree must come back): checked through the model equality above + eval with named values
    if corr_bad:
        p, nm, hi, mi = corr_bad[0]
        ck.violation("correspondence", f"model codec and implementation disagree at stage {nm} ({len(corr_bad)} cases)",
                     {"stage": nm, "impl": str(hi)[:1500], "model": str(mi)[:1500], "program": p.text(),
                      "theorem_or_stage": f"correspondence:{nm}"}, no_input=True)
    # ---- golden archives: files written by the pinned version must keep loading as the same expressions ----
    gold = [l.rstrip("\n").split(" ", 2) for l in open(os.path.join(common.VERIF, "check", "corpus", "c08_golden.txt"))
            if l.strip() and not l.startswith("#")]
    gtxt = "".join(f"case {cid}\nloadbytes {hx}\nend\n" for cid, hx, _ in gold)
    rc_g, gout_, _ = common.run_prog(os.path.join(common.BUILD, "cxx", "bin", "expr"), gtxt, timeout=300)
    GH = parse_out(gout_)
    ngold = 0
    for cid, hx, want in gold:
        got = (GH.get((cid, 1)) or [""])[0]
        if got == f"LB n=1 dump={want}":
            ngold += 1
        else:
            ck.violation("golden", "an archive written by the pinned version no longer loads as the expression it held",
                         {"archive_hex": hx, "expected_dump": want, "loaded": got, "case": cid})
    ck.coverage["golden_archives_loaded"] = ngold
    if not proof["ok"]:
        ck.violation("proof", "Properties_C08.v no longer checks (opcode table changed or codec theorem broken)",
                     {"theorem_or_file": proof["file"], "log": proof["log"][-3000:], "translators": rep}, no_input=True)
    if not ok_d:
        ck.violation("driver", "extracted model does not build", {"log": log_d[-3000:]}, no_input=True)
    stats["corr_mismatch"] = len(corr_bad)
    ck.coverage.update(stats)
    ck.coverage["evaluations"] = stats["archives"] + stats["eval_points"]
    ck.coverage["distinct_nontrivial"] = len(nontriv)
    ck.coverage["rule"] = ("random archives of 1..4 shapes over random build programs (half with remap/apply nodes), names/docs from a "
                           "pool with quotes, backslashes, NUL, 0xFF, UTF-8, random bytes; any subset of variables named; "
                           "non-trivial = >=2 shapes or >=1 named variable, and >=1 string needing an escape; distinct by byte stream")
    ck.coverage["samples"] = samples
    ck.coverage["translators"] = rep
    ck.coverage["traces_validated_against_impl"] = stats["bytes_exact"]
    ck.coverage["trusted_base"] += [
        "translate/gen_opcode.py (opcode X-macro reader)",
        "extraction (ExtrOcamlBasic only; bytes are N, strings are lists of N); ocaml/driver.ml; harness/expr.cpp",
        "oracle nodes are outside the codec model",
    ]
    ck.finish()
