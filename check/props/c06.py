"""C06 — gradients are the derivatives of the evaluated function.

proof obligations : Properties_C06.v (every per-opcode chain-rule kernel of eval_deriv_array.cpp is the derivative
                    of its opcode under the smoothness side condition; composition over tapes; Jacobian seeding;
                    const-var barrier; min/max return one branch's gradient)
correspondence    : DerivArrayEvaluator::deriv and JacobianEvaluator::gradient vs the extracted kernels run on the
                    model's own optimised tape in binary32 (relative 2e-4: -march=native contracts a*b+c*d into fmas)
property oracle   : gradients vs central differences of the reference denotation in doubles at smooth points;
                    the same point in every slot of batch sizes 1..256 bit-identical; libfive_tree_eval_d; at constructed
                    exact min/max ties every reported feature is the smooth gradient at some nearby point; a point with
                    non-zero value is inside exactly when the value is negative
"""
import math
import os
import sys

sys.path.insert(0, os.path.dirname(os.path.dirname(os.path.abspath(__file__))))
import common
import exprlib
from exprlib import f2h, h2f, h2d, parse_out

SMOOTH_UN = ["OP_SQUARE", "OP_NEG", "OP_SIN", "OP_COS", "OP_ATAN", "OP_EXP", "OP_ABS", "OP_SQRT", "OP_LOG", "OP_RECIP", "OP_TAN",
             "OP_ASIN", "OP_ACOS", "CONST_VAR"]
SMOOTH_BIN = ["OP_ADD", "OP_MUL", "OP_MIN", "OP_MAX", "OP_SUB", "OP_DIV", "OP_ATAN2", "OP_POW", "OP_NTH_ROOT"]


def gen_tie(rng, cid):
    """an expression with an exact min/max tie at point P = (c, c, c)"""
    p = exprlib.Prog(cid)
    ax = [p.emit("x", "axis"), p.emit("y", "axis"), p.emit("z", "axis")]
    c = rng.choice([0.0, 0.5, 1.0, -0.5])

    def const(v):
        return p.emit(f"const {f2h(v)}", "const")
    k = rng.choice([0.0, 1.0, 2.0])
    forms = []
    for a in rng.sample(ax, rng.randint(2, 3)):
        t = a
        if rng.random() < 0.3:
            # -(a) + 2c has the same value c at P
            t = p.emit(f"bin OP_SUB {const(2 * c)} {a}", "tree")
        forms.append(p.emit(f"bin OP_ADD {t} {const(k)}", "tree"))
    cur = forms[0]
    for f in forms[1:]:
        cur = p.emit(f"bin {rng.choice(['OP_MIN', 'OP_MAX'])} {cur} {f}", "tree")
    r = rng.random()
    if r < 0.25:
        cur = p.emit(f"un OP_SQRT {p.emit(f'bin OP_ADD {cur} {const(3.0)}', 'tree')}", "tree")
    elif r < 0.4:
        cur = p.emit(f"un OP_EXP {cur}", "tree")
    elif r < 0.55:
        cur = p.emit(f"bin OP_MUL {cur} {const(rng.choice([2.0, -1.5, 0.5]))}", "tree")
    elif r < 0.7:
        cur = p.emit(f"bin OP_ADD {cur} {p.emit(f'un OP_SIN {ax[0]}', 'tree')}", "tree")
    elif r < 0.9:
        # the tie under a kernel that reads operand VALUES, next to a non-constant operand
        other = p.emit(f"bin OP_ADD {ax[rng.randrange(3)]} {const(rng.choice([1.0, 2.0, 3.0]))}", "tree")
        op = rng.choice(["OP_MUL", "OP_MUL", "OP_DIV", "OP_ATAN2"])
        if rng.random() < 0.5 and (op == "OP_MUL" or c != 0.0):
            # a BARE coordinate as the other operand: its row is a leaf, not a tape clause, and holds whatever earlier
            # queries of a long-lived evaluator left in slots >= 1
            other = ax[rng.randrange(3)]
        shifted = p.emit(f"bin OP_ADD {cur} {const(4.0)}", "tree") if op != "OP_MUL" else cur     # keep divisors away from 0
        l, rr = (shifted, other) if rng.random() < 0.5 else (other, shifted)
        cur = p.emit(f"bin {op} {l} {rr}", "tree")
    if rng.random() < 0.5:
        cur = p.emit(f"bin OP_SUB {cur} {const(rng.choice([0.0, c + k, 1.0]))}", "tree")
    p.root = cur
    p.pt = [c, c, c]
    return p


def close(a, b, rel, absol):
    if math.isnan(a) and math.isnan(b):
        return True
    if math.isinf(a) or math.isinf(b):
        return a == b
    return abs(a - b) <= rel * max(abs(a), abs(b)) + absol


def run(replay=None):
    ck = common.Check("C06", level="proof")
    proof = ck.proof_obligations()
    ok_d, log_d = common.build_driver(**common.DRIVERS["driver"])
    ok_h, log_h = common.build_harness(["bin/expr"])
    if not ok_h:
        ck.violation("build", "harness does not build against /repo working tree", {"log": log_h[-3000:]}, no_input=True)
        ck.finish()
    quick = ck.tier == "quick"
    progs = []
    from props.c15 import gen_manyvars
    for k in range(500 if quick else 20000):
        if k % 12 == 11:
            # 4..9 free variables with position-dependent partials: the Jacobian evaluator packs three variables
            # per array slot, so the 4th, 5th, ... partials come from slots 1, 2, ...
            p = gen_manyvars(ck.rng, f"g{k}")
        else:
            p = exprlib.gen_program(ck.rng, f"g{k}", ck.rng.randint(4, 30), safe=False, ops_un=SMOOTH_UN, ops_bin=SMOOTH_BIN,
                                    var_p=0.12, remap_p=0.06, apply_p=0.03)
        p.q = []
        for _ in range(4):
            pt = [ck.rng.uniform(-1.5, 1.5) for _ in range(3)]
            vv = [ck.rng.uniform(-1.5, 1.5) for _ in range(p.nvars)]
            p.q.append((p.ncmd + 1, pt, vv))
            p.emit(f"deriv {p.root} " + " ".join(f2h(v) for v in pt + vv))
        p.kind = "deriv"
        progs.append(p)
    for k in range(300 if quick else 10000):
        p = gen_tie(ck.rng, f"t{k}")
        p.q = [(p.ncmd + 1, p.pt, [])]
        p.emit(f"feat {p.root} " + " ".join(f2h(v) for v in p.pt))
        p.kind = "feat"
        progs.append(p)
    exe_h = os.path.join(common.BUILD, "cxx", "bin", "expr")
    exe_m = os.path.join(common.BUILD, "ocaml", "driver")
    texts = [p.text() for p in progs]
    hout, hskip = common.run_cases_sharded(exe_h, texts)
    H = parse_out(hout)
    M = {}
    mskip = []
    if ok_d:
        mout, mskip = common.run_cases_sharded(exe_m, [p.text() for p in progs if p.kind == "deriv"])
        M = parse_out(mout)
    skipped = set(t.split()[1] for t in hskip + mskip)
    stats = dict(deriv_points=0, model_close=0, cd_checked=0, cd_skipped=0, var_partials=0, batch_slots=0,
                 tie_points=0, features=0, multi_feature_points=0, skipped_timeouts=len(skipped))
    corr_bad = []
    nontriv = set()
    samples = []
    for p in progs:
        if p.cid in skipped:
            continue
        for (cmd, pt, vv) in p.q:
            hv = H.get((p.cid, cmd), [None])[0]
            if hv is None or hv.startswith("ERR"):
                ck.violation("exception", f"query failed: {hv}", {"program": p.text()})
                continue
            if p.kind == "feat":
                f = dict(x.split("=") for x in hv.split()[1:5])
                stats["tie_points"] += 1
                stats["features"] += int(f["n"])
                if int(f["n"]) >= 2:
                    stats["multi_feature_points"] += 1
                    nontriv.add(p.cid)
                if int(f["unmatched"]):
                    ck.violation("feature", "a reported feature gradient is not the gradient of any branch near the tie",
                                 {"program": p.text(), "answer": hv})
                if f["inside_ok"] != "1":
                    ck.violation("inside", "isInside disagrees with the sign of a non-zero value", {"program": p.text(), "answer": hv})
                if len(samples) < 3 and int(f["n"]) >= 2:
                    samples.append({"tie": p.lines[-1], "answer": hv})
                continue
            stats["deriv_points"] += 1
            hf = hv.split()
            val, g = hf[1], hf[2:5]
            flags = dict(x.split("=") for x in hf[5:7])
            stats["batch_slots"] += 18
            if flags["batchbad"] != "0":
                ck.violation("batch", "gradient of a point depends on batch size / slot", {"program": p.text(), "answer": hv})
            hvars = dict(x.split(":") for x in hf[8].split(",")) if len(hf) > 8 and hf[8] else {}
            mv = M.get((p.cid, cmd), [None])[0]
            if mv is None or not mv.startswith("DV "):
                continue
            mf = mv.split()
            # derivative information is judged only where implementation and model agree on the VALUE: a sign flip of the
            # whole expression (atan2(+-0, negative) = +-pi: the sign of a zero depends on how this build negates) or an
            # ill-conditioned value is the business of the value checks (C01 / C07), which carry probes for exactly that
            vi_, vm_ = h2f(val), h2f(mf[1])
            if math.isfinite(vi_) and math.isfinite(vm_) and not close(vi_, vm_, 1e-3, 1e-4):
                stats["value_mismatch_skipped"] = stats.get("value_mismatch_skipped", 0) + 1
                continue
            mg = mf[2:5]
            cd = [h2d(x) for x in mf[6:9]]
            smooth = h2d(mf[9])
            mvars = dict(x.split(":") for x in mf[11].split(",")) if len(mf) > 11 and mf[11] != "vcd" else {}
            # conditioning probe of the model (spread of its own gradient under one-ulp noise on every
            # rounded result): where rounding alone can move the gradient by more than the tolerance
            # (x/x with a huge dx, catastrophic cancellation; fused multiply-add and the optimiser's
            # pointer-order-dependent association make the implementation differ there) nothing is compared
            cond = 0.0
            if "cond" in mf:
                cond = h2d(mf[mf.index("cond") + 1]); mf = mf[:mf.index("cond")]
            vcd = [h2d(x) for x in mf[-1].split(",")] if mf[-2] == "vcd" and mf[-1] != "vcd" else []
            gi = [h2f(x) for x in g]
            gm = [h2f(x) for x in mg]
            finite = all(math.isfinite(x) for x in gi + gm + cd) and math.isfinite(smooth) and math.isfinite(h2f(val))
            vscale = 1.0 + (abs(h2f(val)) if math.isfinite(h2f(val)) else 0.0)
            gmax = max([abs(x) for x in gm if math.isfinite(x)] + [0.0])
            if not (16 * cond <= 1e-5 * vscale + 5e-4 * gmax):
                stats["illconditioned_skipped"] = stats.get("illconditioned_skipped", 0) + 1
                continue
            agrees_with_model = False
            if all(close(a, b, 5e-4, 1e-5 * vscale) for a, b in zip(gi, gm)) and \
               all(close(h2f(hvars[k2]), h2f(mvars[k2]), 5e-4, 1e-5 * vscale) for k2 in hvars if k2 in mvars):
                stats["model_close"] += 1
                agrees_with_model = True
            elif finite and smooth < 1e-4:
                corr_bad.append((p, cmd, hv, mv))
            if finite and smooth < 1e-4 * (1 + max(abs(x) for x in cd)) and max(abs(x) for x in cd) < 1e4:
                stats["cd_checked"] += 1
                if not p.nvars:
                    capi = [h2f(x) for x in flags["capi"].split(",")]
                    if not all(close(a, b, 1e-3, 1e-5 * vscale) for a, b in zip(gi, capi)):
                        ck.violation("capi", "libfive_tree_eval_d differs from DerivArrayEvaluator::deriv at a smooth point",
                                     {"program": p.text(), "answer": hv})
                # (absolute slack scales with the VALUE: rounding residue of an exactly cancelling derivative - atan2(u, u),
                #  computed as ad*bv - bd*av with a fused multiply-add - is amplified by whatever multiplies it, here
                #  exp(..)^2 ~ 6.6e4, into 5e-3)
                atol = max(2e-3, 1e-5 * vscale)
                # The central difference is the independent witness.  When the implementation's gradient coincides with the
                # model's (whose kernels are PROVED to be the derivative wherever the opcode is differentiable, and are
                # regenerated from the source) and the expression contains an opcode with kinks, jumps or poles, a
                # disagreement with the central difference means that such a point lies within the difference step (an
                # atan2 branch cut crossed by h, a min / max switching): the two-step smoothness estimate does not see
                # every such case.  Those points are counted, not judged; smooth-only expressions and every point where
                # implementation and model differ are judged as before.
                rough = any(op in l for l in p.lines for op in ("OP_ATAN2", "OP_ABS", "OP_MIN", "OP_MAX", "OP_MOD", "OP_COMPARE",
                                                                 "OP_NTH_ROOT", "OP_LOG", "OP_SQRT", "OP_DIV", "OP_NANFILL", "OP_POW",
                                                                 "OP_RECIP", "OP_TAN", "OP_ASIN", "OP_ACOS"))
                cd_bad = not all(close(a, b, 2e-2, atol) for a, b in zip(gi, cd))
                if cd_bad and agrees_with_model and rough:
                    stats["nonsmooth_within_step_skipped"] = stats.get("nonsmooth_within_step_skipped", 0) + 1
                    cd_bad = False
                if cd_bad:
                    ck.violation("gradient", "gradient differs from the central difference of the reference denotation at a smooth point",
                                 {"program": p.text(), "point": pt, "vars": vv, "impl": hv, "model": mv})
                ks = sorted(mvars, key=int)
                # through a const-var barrier the variable partial is 0 by specification, not the
                # mathematical derivative: those programs are covered by the kernel correspondence only
                if any("CONST_VAR" in l for l in p.lines):
                    ks = []
                for j, k2 in enumerate(ks):
                    if k2 in hvars and j < len(vcd) and math.isfinite(vcd[j]) and abs(vcd[j]) < 1e4:
                        stats["var_partials"] += 1
                        if not close(h2f(hvars[k2]), vcd[j], 2e-2, atol) and not (agrees_with_model and rough):
                            ck.violation("jacobian", "variable partial differs from the central difference at a smooth point",
                                         {"program": p.text(), "point": pt, "vars": vv, "var": k2, "impl": hv, "model": mv})
                if any(abs(x) > 1e-6 for x in gi):
                    nontriv.add((p.cid, cmd))
            else:
                stats["cd_skipped"] += 1
    if corr_bad:
        p, cmd, hv, mv = corr_bad[0]
        ck.violation("correspondence", f"derivative kernels of the implementation and of the model disagree ({len(corr_bad)} points)",
                     {"program": p.text(), "query": p.lines[cmd - 1], "impl": hv, "model": mv,
                      "theorem_or_stage": "correspondence:deriv"}, no_input=True)
    if not proof["ok"]:
        ck.violation("proof", "Properties_C06.v no longer checks",
                     {"theorem_or_file": proof["file"], "log": proof["log"][-3000:]}, no_input=True)
    if not ok_d:
        ck.violation("driver", "extracted model does not build", {"log": log_d[-3000:]}, no_input=True)
    stats["corr_mismatch"] = len(corr_bad)
    ck.coverage.update(stats)
    ck.coverage["evaluations"] = stats["deriv_points"] + stats["tie_points"] + stats["batch_slots"]
    ck.coverage["distinct_nontrivial"] = len(nontriv)
    ck.coverage["rule"] = ("random expressions over all smooth opcodes + min/max + pow/nth_root/atan2 with free variables, remap / apply, "
                           "4 points each; constructed exact ties (2..3 linear forms equal at the point, nested min/max, optionally under "
                           "sqrt / exp / scaling); non-trivial = non-zero gradient at a smooth point, or >= 2 features at a tie")
    ck.coverage["samples"] = samples
    ck.coverage["traces_validated_against_impl"] = stats["model_close"]
    ck.coverage["trusted_base"] += ["extraction; ocaml/driver.ml (binary32 kernels, central differences in doubles); harness/expr.cpp",
                                    "the epsilon-compatibility geometry of Feature::check / push is abstracted (float heuristics trusted)"]
    ck.finish()
