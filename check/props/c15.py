"""C15 — evaluator answers do not depend on what was asked before.

proof obligations : Properties_C15.v (batched value + derivative passes are position-wise functions of the leaf
                    rows; FeatureEvaluator's array-wise run is a function of slot-0 values and the incoming
                    features; a long-lived evaluator after setVar is leaf-equivalent to a fresh one)
correspondence    : the scratch-state model is an abstraction (rows = total functions, stale = arbitrary); its
                    assumptions on tapes are the deck / push invariants tied in C01 and C05
property oracle   : the statement itself on the implementation: after every prefix of a generated history (mixed
                    value / batch / deriv / derivs / features / isInside / interval / intervalAndPush / valueAndPush /
                    gradient / getAmbiguous queries, batch sizes around SIMD block edges, variable updates) the same
                    query on a freshly constructed evaluator with the same variable values must give a bit-identical
                    answer (features as sets); updateVars reports whether a value changed
"""
import os
import sys

sys.path.insert(0, os.path.dirname(os.path.dirname(os.path.abspath(__file__))))
import common
import exprlib
from exprlib import f2h, parse_out
from props.c05 import gen_csg

SIZES = [1, 2, 3, 15, 16, 17, 31, 32, 33, 64, 255, 256]


def gen_tie_product(rng, cid):
    """op(tied min/max, bare axis): kernels whose derivative reads operand VALUES (mul, div, atan2) next to a
    feature-replicating tie -- the slot-replication state of X / Y / Z rows must be refreshed per query"""
    p = exprlib.Prog(cid)
    ax = [p.emit("x", "axis"), p.emit("y", "axis"), p.emit("z", "axis")]
    p.usize = [1, 1, 1]; p.mentions = [set(), set(), set()]
    a = rng.randrange(3)
    b = rng.choice([k for k in range(3) if k != a])
    kind = rng.random()
    if kind < 0.5:
        na = p.emit(f"un OP_NEG {ax[a]}", "tree")
        tie = p.emit(f"bin {rng.choice(['OP_MAX', 'OP_MIN'])} {ax[a]} {na}", "tree")       # ties on axis a = 0
        p.tie_gen = lambda: [0.0 if k == a else rng.choice([1.0, -1.0, 3.0, 0.5, rng.uniform(-3, 3)]) for k in range(3)]
    else:
        c = [k for k in range(3) if k not in (a, b)][0]
        tie = p.emit(f"bin {rng.choice(['OP_MAX', 'OP_MIN'])} {ax[a]} {ax[c]}", "tree")    # ties on a = c
        def tg():
            v = rng.choice([0.0, 1.0, -0.5, rng.uniform(-2, 2)])
            q = [0.0, 0.0, 0.0]
            q[a] = v; q[c] = v; q[b] = rng.choice([1.0, -1.0, 3.0, 0.5, rng.uniform(-3, 3)])
            return q
        p.tie_gen = tg
    other = ax[b]
    if rng.random() < 0.3:
        other = p.emit(f"bin OP_ADD {ax[b]} {p.emit('const 3f000000', 'const')}", "tree")
    op = rng.choice(["OP_MUL", "OP_MUL", "OP_DIV", "OP_ATAN2"])
    l, r = (tie, other) if rng.random() < 0.5 else (other, tie)
    root = p.emit(f"bin {op} {l} {r}", "tree")
    if rng.random() < 0.4:
        root = p.emit(f"bin {rng.choice(['OP_ADD', 'OP_SUB', 'OP_MIN'])} {root} {ax[rng.randrange(3)]}", "tree")
    p.root = root
    p.nvars = 0
    return p


def gen_manyvars(rng, cid):
    """sum of v_i * g_i(x, y, z) over 4..9 free variables: the Jacobian evaluator packs three variables per
    array slot, so the gradient of the 4th, 5th, ... variable lives in slots 1, 2, ... whose X / Y / Z rows
    must hold the query point, not what an earlier batch left there"""
    p = exprlib.Prog(cid)
    ax = [p.emit("x", "axis"), p.emit("y", "axis"), p.emit("z", "axis")]
    n = rng.randint(4, 9)
    vs = []
    for _ in range(n):
        vs.append(p.emit("var", "var")); p.nvars += 1
    total = None
    for i, v in enumerate(vs):
        g = ax[rng.randrange(3)]
        for _ in range(rng.randint(0, 2)):
            c = p.emit(f"const {f2h(rng.choice([1.0, 2.0, 0.5, -1.0, 3.0, float(i + 1)]))}", "const")
            g = p.emit(f"bin {rng.choice(['OP_ADD', 'OP_MUL', 'OP_SUB'])} {p.emit(f'bin OP_MUL {c} {ax[rng.randrange(3)]}', 'tree')} {g}", "tree")
        if rng.random() < 0.3:
            g = p.emit(f"un {rng.choice(['OP_SIN', 'OP_COS', 'OP_SQUARE'])} {g}", "tree")
        t = p.emit(f"bin OP_MUL {v} {g}", "tree")
        total = t if total is None else p.emit(f"bin OP_ADD {total} {t}", "tree")
    if rng.random() < 0.3:
        total = p.emit(f"bin {rng.choice(['OP_MIN', 'OP_MAX'])} {total} {ax[rng.randrange(3)]}", "tree")
    p.root = total
    return p


def gen_nanop(rng, cid):
    """every opcode next to an operand that is NaN on part of the space (sqrt / log / acos / nth_root / 0/0 of an
    axis): a kernel that writes nothing for a NaN operand (or for an out-of-domain one) leaves whatever an earlier
    query stored in that slot"""
    p = exprlib.Prog(cid)
    ax = [p.emit("x", "axis"), p.emit("y", "axis"), p.emit("z", "axis")]
    a = rng.randrange(3)
    b = rng.choice([k for k in range(3) if k != a])
    k = rng.randrange(5)
    if k == 0:
        src = p.emit(f"un OP_SQRT {ax[a]}", "tree")
    elif k == 1:
        src = p.emit(f"un OP_LOG {ax[a]}", "tree")
    elif k == 2:
        two = p.emit("const 40000000", "const")
        src = p.emit(f"un {rng.choice(['OP_ACOS', 'OP_ASIN'])} {p.emit(f'bin OP_MUL {ax[a]} {two}', 'tree')}", "tree")
    elif k == 3:
        src = p.emit(f"bin OP_NTH_ROOT {ax[a]} {p.emit('const 40000000', 'const')}", "tree")
    else:
        m = p.emit(f"bin OP_MAX {ax[a]} {p.emit('const 00000000', 'const')}", "tree")      # 0 for x <= 0
        src = p.emit(f"bin OP_DIV {m} {m}", "tree")                                        # 0/0 there
    other = ax[b]
    if rng.random() < 0.3:
        other = p.emit(f"const {f2h(rng.choice([0.0, 1.0, -1.0, 0.5, 2.0]))}", "const")
    op = rng.choice(exprlib.UNARY + exprlib.BINARY + exprlib.BINARY)
    if op in exprlib.UNARY:
        root = p.emit(f"un {op} {src}", "tree")
    elif op in ("OP_POW", "OP_NTH_ROOT"):
        root = p.emit(f"bin {op} {src} {p.emit('const ' + f2h(float(rng.choice([1, 2, 3]))), 'const')}", "tree")
    else:
        l, r = (src, other) if rng.random() < 0.5 else (other, src)
        root = p.emit(f"bin {op} {l} {r}", "tree")
    for _ in range(rng.randint(0, 2)):
        o2 = rng.choice(["OP_ADD", "OP_MUL", "OP_MIN", "OP_MAX", "OP_SUB", "OP_COMPARE", "OP_NANFILL", "OP_ATAN2", "OP_MOD"])
        q = ax[rng.randrange(3)]
        l, r = (root, q) if rng.random() < 0.5 else (q, root)
        root = p.emit(f"bin {o2} {l} {r}", "tree")
    p.root = root
    p.nvars = 0
    return p


def gen_zerosign(rng, cid):
    """free variables under operations that tell +0 from -0 (atan2 across its branch cut, 1 / v): an update that only
    flips the sign of a zero must reach every evaluator"""
    p = exprlib.Prog(cid)
    ax = [p.emit("x", "axis"), p.emit("y", "axis"), p.emit("z", "axis")]
    nv = rng.randint(1, 3)
    vs = []
    for _ in range(nv):
        vs.append(p.emit("var", "var")); p.nvars += 1
    four = p.emit("const 40800000", "const")
    root = ax[0]
    for v in vs:
        k = rng.random()
        if k < 0.6:
            t = p.emit(f"bin OP_ATAN2 {v} {p.emit(f'bin OP_SUB {ax[rng.randrange(3)]} {four}', 'tree')}", "tree")
        elif k < 0.8:
            t = p.emit(f"un OP_RECIP {v}", "tree")
        else:
            t = p.emit(f"bin OP_DIV {ax[rng.randrange(3)]} {v}", "tree")
        root = p.emit(f"bin {rng.choice(['OP_ADD', 'OP_ADD', 'OP_MIN', 'OP_MAX'])} {root} {t}", "tree")
    p.root = root
    p.zero_values = True
    return p


def gen_history(rng, p, nq):
    toks = []
    kinds = set()
    tie_pts = [[0.0, 0.0, 0.0], [1.0, 1.0, 0.0], [0.5, 0.5, 0.5], [-1.0, 1.0, 0.0]]
    tie_gen = getattr(p, "tie_gen", None)

    def pt():
        if tie_gen is not None and rng.random() < 0.6:
            return tie_gen()
        if rng.random() < 0.35:
            return rng.choice(tie_pts)
        return [rng.choice([0.0, 1.0, -1.0, 0.5, rng.uniform(-2, 2)]) for _ in range(3)]
    for _ in range(nq):
        r = rng.random()
        if r < 0.12:
            q = "V " + " ".join(f2h(v) for v in pt())
        elif r < 0.24:
            q = f"B {rng.choice(SIZES)} {rng.randrange(1 << 30)}"
        elif r < 0.32:
            q = "D " + " ".join(f2h(v) for v in pt())
        elif r < 0.42:
            q = f"DS {rng.choice(SIZES)} {rng.randrange(1 << 30)}"
        elif r < 0.56:
            q = "F " + " ".join(f2h(v) for v in pt())
        elif r < 0.63:
            q = "I " + " ".join(f2h(v) for v in pt())
        elif r < 0.69:
            a, b = pt(), pt()
            lo = [min(x, y) for x, y in zip(a, b)]; hi = [max(x, y) for x, y in zip(a, b)]
            q = "R " + " ".join(f2h(v) for v in lo + hi)
        elif r < 0.76:
            a, b = pt(), pt()
            lo = [min(x, y) for x, y in zip(a, b)]; hi = [max(x, y) for x, y in zip(a, b)]
            c = [l + (h - l) * rng.random() for l, h in zip(lo, hi)]
            q = "P " + " ".join(f2h(v) for v in lo + hi + c)
        elif r < 0.81:
            q = "VP " + " ".join(f2h(v) for v in pt())
        elif r < 0.87 and p.nvars:
            q = "G " + " ".join(f2h(v) for v in pt())
        elif r < 0.93 and p.nvars:
            vals = [0.0, -0.0, 0.0, -0.0, 1.0] if getattr(p, "zero_values", False) else [0.0, 1.0, -0.0, rng.uniform(-2, 2)]
            q = f"SV {rng.randrange(p.nvars)} {f2h(rng.choice(vals))}"
        elif r < 0.96 and p.nvars:
            n = rng.randint(1, p.nvars)
            q = f"UV {n} " + " ".join(f"{rng.randrange(p.nvars)} {f2h(rng.choice([0.0, 1.0, rng.uniform(-2, 2)]))}" for _ in range(n))
        elif r < 0.98:
            q = f"A {rng.choice(SIZES)} {rng.randrange(1 << 30)}"
        else:
            q = f"AD {rng.choice(SIZES)} {rng.randrange(1 << 30)}"
        kinds.add(q.split()[0])
        toks.append(q)
    return " | ".join(toks), kinds


def run(replay=None):
    ck = common.Check("C15", level="proof")
    rep = common.regen_translators()      # Gen/SetVar_gen.v: the two setVar functions, accepted by parsed shape
    proof = ck.proof_obligations()
    ck.coverage["translators"] = {k: v for k, v in rep.items() if "SetVar" in k or v != "ok"}
    ok_h, log_h = common.build_harness(["bin/expr"])
    if not ok_h:
        ck.violation("build", "harness does not build against /repo working tree", {"log": log_h[-3000:]}, no_input=True)
        ck.finish()
    quick = ck.tier == "quick"
    progs = []
    for k in range(500 if quick else 6000):
        r = ck.rng.random()
        if r < 0.08:
            p = gen_manyvars(ck.rng, f"h{k}") if ck.rng.random() < 0.6 else gen_zerosign(ck.rng, f"h{k}")
        elif r < 0.2:
            p = gen_nanop(ck.rng, f"h{k}")
        elif r < 0.26:
            # every opcode, domain errors and all (answers are compared bit for bit, NaN included)
            p = exprlib.gen_program(ck.rng, f"h{k}", ck.rng.randint(4, 14), safe=False, var_p=0.05, apply_p=0.0)
        elif r < 0.36:
            p = gen_tie_product(ck.rng, f"h{k}")
        elif r < 0.62:
            p = gen_csg(ck.rng, f"h{k}", ck.rng.randint(2, 6))
            # wrap some CSG results in sqrt / abs / square to reach kernels that read their own result row
            if ck.rng.random() < 0.5:
                one = p.emit("const 3f800000", "const")
                s = p.emit(f"bin OP_ADD {p.root} {p.emit('const 40400000', 'const')}", "tree")
                p.root = p.emit(f"bin OP_SUB {p.emit(f'un OP_SQRT {s}', 'tree')} {one}", "tree")
            p.nvars = 0
        else:
            p = exprlib.gen_program(ck.rng, f"h{k}", ck.rng.randint(6, 30), safe=ck.rng.random() < 0.7,
                                    ops_bin=exprlib.ARITH_BIN + ["OP_MIN", "OP_MAX", "OP_MIN", "OP_MAX", "OP_DIV"],
                                    ops_un=exprlib.SMOOTH_UN + ["OP_SQRT", "OP_ABS"], var_p=0.12, apply_p=0.0)
        nq = ck.rng.randint(5, 30 if quick else 120)
        hist, kinds = gen_history(ck.rng, p, nq)
        p.kinds_used = kinds
        p.q = p.ncmd + 1
        init = " ".join(f2h(ck.rng.uniform(-1, 1)) for _ in range(p.nvars))
        p.emit(f"history {p.root} {p.nvars} {init} {hist}".replace("  ", " "))
        progs.append(p)
    hout, hskip = common.run_cases_sharded(os.path.join(common.BUILD, "cxx", "bin", "expr"), [p.text() for p in progs],
                                          timeout=45 if quick else 1500, single_timeout=15)
    H = parse_out(hout)
    skipped = set(t.split()[1] for t in hskip)
    stats = dict(histories=0, queries=0, skipped_timeouts=len(skipped))
    nontriv = 0
    samples = []
    for p in progs:
        if p.cid in skipped:
            continue
        out = H.get((p.cid, p.q), [])
        hi = [l for l in out if l.startswith("HI ")]
        err = [l for l in out if l.startswith("ERR")]
        if err or not hi:
            ck.violation("exception", f"history raised / no answer: {err[:1]}", {"program": p.text()})
            continue
        stats["histories"] += 1
        f = hi[0].split()
        nq = int(f[1].split("=")[1]); bad = int(f[2].split("=")[1])
        stats["queries"] += nq
        if bad:
            detail = " ".join(f[3:])
            kind = detail.split(":")[1].split()[0] if ":" in detail else "?"
            ck.violation("history:" + kind, "a long-lived evaluator answers differently from a freshly constructed one",
                         {"program": p.text(), "detail": hi[0]})
        if len(p.kinds_used) >= 3 and (p.kinds_used & {"P", "VP", "SV", "UV"}):
            nontriv += 1
        if len(samples) < 2:
            samples.append({"history": p.lines[p.q - 1][:300], "answer": hi[0]})
    if not proof["ok"]:
        ck.violation("proof", "Properties_C15.v no longer checks",
                     {"theorem_or_file": proof["file"], "log": proof["log"][-3000:]}, no_input=True)
    ck.coverage.update(stats)
    ck.coverage["evaluations"] = stats["queries"]
    ck.coverage["distinct_nontrivial"] = nontriv
    ck.coverage["rule"] = ("CSG (optionally wrapped in sqrt), tie x axis products, every opcode beside a partly-NaN operand, all-opcode random expressions, sums of variable x position terms over 4..9 variables, and random "
                           "expressions with free variables x histories of 5..30 (thorough: 120) "
                           "queries; batch sizes {1,2,3,15,16,17,31,32,33,64,255,256}; points incl. exact min/max ties; "
                           "non-trivial = >= 3 kinds of query and at least one push or variable update in the history")
    ck.coverage["samples"] = samples
    ck.coverage["traces_validated_against_impl"] = stats["queries"]
    ck.coverage["trusted_base"] += ["harness/expr.cpp (fresh-vs-long-lived comparison, same optimised tree so that min/max operand order is identical)"]
    ck.finish()
