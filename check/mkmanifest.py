#!/usr/bin/env python3
"""Writes MANIFEST.json from the table below (kept in one place so that the
manifest stays valid while properties are added)."""
import json, os
HERE = os.path.dirname(os.path.dirname(os.path.abspath(__file__)))
CLAIMED = {}
NOT_YET = {}

def claim(pid, category, text, note, technique, design_ref):
    CLAIMED[pid] = dict(category=category, text=text, note=note, technique=technique, design_ref=design_ref)

exec(open(os.path.join(HERE, "check", "claims.py")).read())

props = [json.loads(l)["id"] for l in open(os.path.join(HERE, "properties.jsonl"))]
checks = []
for pid in props:
    if pid in CLAIMED:
        c = CLAIMED[pid]
        checks.append({
            "property_id": pid,
            "quick_cmd": f"python3 check/run.py {pid} --tier quick",
            "thorough_cmd": f"python3 check/run.py {pid} --tier thorough",
            "evidence_file": f"evidence/{pid}.json",
            "replay_cmd_template": f"python3 check/run.py {pid} --replay {{path}}",
            "engine": "coq+correspondence",
            "level_claimed": {"category": c["category"], "text": c["text"], "design_ref": c["design_ref"]},
            "level_note": c["note"],
            "technique": c["technique"],
        })
na = [{"property_id": pid, "reason": NOT_YET.get(pid, "no check registered yet in this revision of the framework (model and tie not built); see DESIGN.md section 6 for the plan")}
      for pid in props if pid not in CLAIMED]
m = {
    "version": 1,
    "setup_cmd": "python3 check/run.py --setup",
    "hooks": {
        "guard": "LIBFIVE_VERIF",
        "enable": "check/cxxbuild.py compiles every libfive source from /repo's working tree with -DLIBFIVE_VERIF into /verif/.build/cxx",
        "baseline_off_cmd": "cmake --build /repo/_build && ctest --test-dir /repo/_build -j8 --timeout 900",
        "source_commits": HOOK_COMMITS,
        "add_only": True,
    },
    "engines": [{"name": "coq+correspondence", "path": "check/run.py",
                 "serves_properties": sorted(CLAIMED),
                 "kind_free_text": "Coq 8.16.1 development (coq/), re-checked on every run; models tied to /repo by regenerated tables (translate/) and by extraction-based stage-wise correspondence against a C++ harness built from /repo's working tree (harness/, ocaml/)"}],
    "checks": checks,
    "not_applicable": na,
    "notes": "See DESIGN.md. Every check re-runs the translators, rebuilds the proof obligations of its Properties_<id>.v with coqc, rebuilds the harness from /repo's working tree, runs the correspondence and the property oracle.",
}
json.dump(m, open(os.path.join(HERE, "MANIFEST.json"), "w"), indent=1)
print("claimed:", sorted(CLAIMED), "not claimed:", [n["property_id"] for n in na])
