"""Mutation test of translate/gen_interval.py + coq/theories/Interval/IntervalAgree.v.
For each single edit of interval.hpp: regenerate Gen/IntervalOps_gen.v from the edited copy (/tmp/ivlwork/mut), compile
it and IntervalAgree.v; the edit is DETECTED when the generator raises or one of the two files fails to compile."""
import os
import re
import subprocess
import sys

sys.path.insert(0, "/tmp/ivlwork/translate")
import gen_interval  # noqa: E402

ORIG = "/repo/libfive/include/libfive/eval/interval.hpp"
MUT = "/tmp/ivlwork/mut"
COQ = "/tmp/ivlwork/coq"
GEN = COQ + "/theories/Gen/IntervalOps_gen.v"
src = open(ORIG).read()


def after(anchor, old, new):
    def f(s):
        i = s.index(anchor)
        j = s.index(old, i)
        return s[:j] + new + s[j + len(old):]
    return f


MUTS = [
    ("acos flag: a.upper() > 1.0f -> a.lower() > 1.0f",
     after("static Interval acos", "a.upper() > 1.0f", "a.lower() > 1.0f")),
    ("atan2 3rd quadrant: first corner y.upper() -> y.lower()",
     after("// 3rd quadrant", "::atan2(y.upper(), x.lower())", "::atan2(y.lower(), x.lower())")),
    ("atan2 3rd quadrant: the two corners swapped",
     after("// 3rd quadrant", "::atan2(y.upper(), x.lower()),\n                                ::atan2(y.lower(), x.upper())",
           "::atan2(y.lower(), x.upper()),\n                                ::atan2(y.upper(), x.lower())")),
    ("mod flag: std::isinf(b.upper()) dropped",
     after("static Interval mod", "std::isinf(b.lower()) || std::isinf(b.upper()) ||", "std::isinf(b.lower()) ||")),
    ("operator- flag: b.lower() == -INFINITY -> b.upper() == -INFINITY",
     after("inline Interval operator-(", "b.lower() == -INFINITY", "b.upper() == -INFINITY")),
    ("max returns b.maybe_nan",
     after("static Interval max", "return Interval(i, a.maybe_nan);", "return Interval(i, b.maybe_nan);")),
    ("recip without the zero test",
     after("static Interval recip", "(a.lower() <= 0.0f && a.upper() >= 0.0f)\n            ? I(-INFINITY, INFINITY)\n            : (1.0f / a.i)",
           "(1.0f / a.i)")),
    ("nth_root parity: bPt & 1 -> bPt & 2", after("static Interval nth_root", "bPt & 1", "bPt & 2")),
    ("LIBFIVE_USES_STD_MIN_AND_MAX false (fmin/fmax convention branch)",
     after("static Interval min", "#define LIBFIVE_USES_STD_MIN_AND_MAX true", "#define LIBFIVE_USES_STD_MIN_AND_MAX false")),
    ("mod switch: break after `usedA *= -1` (fallthrough removed)",
     after("static Interval mod", "case 2: usedA *= -1;", "case 2: usedA *= -1; break;")),
    ("mod switch: labels case 3 / case 0 exchanged",
     lambda s: s.replace("case 3:", "case X:").replace("case 0:", "case 3:").replace("case X:", "case 0:")),
    ("mod position: b.upper() >= 0.0f -> b.upper() > 0.0f",
     after("auto position", "b.upper() >= 0.0f", "b.upper() > 0.0f")),
    ("mod: quotients.upper() -> quotients.lower() in the equality test",
     after("if (quotientInt ==", "quotients.upper()", "quotients.lower()")),
    ("nth_root: an unknown statement added", after("static Interval nth_root", "std::fesetround(rounding_mode);",
                                                    "std::fesetround(rounding_mode); std::feclearexcept(FE_ALL_EXCEPT);")),
    ("atan: isinf(lower) || isinf(upper) -> &&",
     after("static Interval atan(", "std::isinf(a.lower()) || std::isinf(a.upper())", "std::isinf(a.lower()) && std::isinf(a.upper())")),
    ("compare: a.upper() < b.lower() -> a.lower() < b.lower()",
     after("static Interval compare", "a.upper() < b.lower()", "a.lower() < b.lower()")),
    ("log: rescued lower bound -INFINITY -> INFINITY",
     after("static Interval log", "? -INFINITY : i.lower()", "? INFINITY : i.lower()")),
    ("operator/ : zero test of the divisor uses a instead of b",
     after("inline Interval operator/(", "auto i = (b.lower() <= 0.0f", "auto i = (a.lower() <= 0.0f")),
    ("operator* flag: b.upper() >= 0.0f -> b.upper() > 0.0f",
     after("inline Interval operator*(", "b.upper() >= 0.0f", "b.upper() > 0.0f")),
    ("operator+ flag: && -> ||", after("inline Interval operator+(", "-INFINITY && b.upper()", "-INFINITY || b.upper()")),
    ("pow: bPt < 0 dropped from the bound's zero test",
     after("static Interval pow", "(bPt < 0 && a.lower() <= 0.0f", "(a.lower() <= 0.0f")),
    ("nanfill: returns b.maybe_nan -> a.maybe_nan",
     after("static Interval nanfill", "b.maybe_nan);", "a.maybe_nan);")),
    ("sqrt flag: a.lower() < 0.0f -> a.lower() <= 0.0f",
     after("static Interval sqrt", "a.lower() < 0.0f", "a.lower() <= 0.0f")),
    ("isEmpty: i.lower() > 0 -> i.upper() > 0", after("isEmpty()", "i.lower() > 0", "i.upper() > 0")),
    ("protected constructor: swap test > -> <", after("Interval(const I& i, bool maybe_nan)", "i.lower() > i.upper()", "i.lower() < i.upper()")),
]


def coqc(path):
    r = subprocess.run(["timeout", "300", "coqc", "-Q", "theories", "LF", path], cwd=COQ, capture_output=True, text=True)
    msg = [l for l in (r.stdout + r.stderr).split("\n") if l.startswith("File ") or l.startswith("Error")]
    return r.returncode, " ".join(msg[:2])


def trial(text):
    os.makedirs(MUT + "/libfive/include/libfive/eval", exist_ok=True)
    open(MUT + "/libfive/include/libfive/eval/interval.hpp", "w").write(text)
    try:
        out = gen_interval.generate(MUT)
    except Exception as e:
        return "DETECTED (generator raises: %s)" % e
    open(GEN, "w").write(out)
    rc, msg = coqc("theories/Gen/IntervalOps_gen.v")
    if rc:
        return "DETECTED (IntervalOps_gen.v does not compile: %s)" % msg
    rc, msg = coqc("theories/Interval/IntervalAgree.v")
    if rc:
        lemma = ""
        m = re.search(r"line (\d+)", msg)
        if m:
            ls = open(COQ + "/theories/Interval/IntervalAgree.v").read().split("\n")
            for k in range(int(m.group(1)) - 1, -1, -1):
                mm = re.match(r"\s*(?:Lemma|Theorem)\s+(\w+)", ls[k])
                if mm:
                    lemma = mm.group(1)
                    break
        return "DETECTED (IntervalAgree.v fails in %s: %s)" % (lemma, msg)
    return "NOT DETECTED"


lines = ["Mutation test of translate/gen_interval.py + coq/theories/Interval/IntervalAgree.v  (rerun: python3 /tmp/ivlwork/mutate.py)",
         "Each line: one edit of a copy of interval.hpp (/tmp/ivlwork/mut/libfive/include/libfive/eval/interval.hpp), then",
         "gen_interval.generate('/tmp/ivlwork/mut') -> Gen/IntervalOps_gen.v, coqc of it and of Interval/IntervalAgree.v.",
         "DETECTED = the generator raised or a file failed to compile (the failing lemma is named).", "",
         "unmodified source: " + ("PASS (generator ok, IntervalOps_gen.v and IntervalAgree.v compile)"
                                  if trial(src) == "NOT DETECTED" else "FAIL " + trial(src)), ""]
nd = 0
for name, f in MUTS:
    m = f(src)
    assert m != src, name
    res = trial(m)
    nd += res == "NOT DETECTED"
    lines.append("%-75s %s" % (name, res))
    print(lines[-1], flush=True)
lines.append("")
lines.append("%d mutants, %d detected, %d not detected" % (len(MUTS), len(MUTS) - nd, nd))
final = trial(src)
lines.append("restored unmodified source: " + ("PASS" if final == "NOT DETECTED" else "FAIL " + final))
open("/tmp/ivlwork/MUTATION.txt", "w").write("\n".join(lines) + "\n")
print("\n".join(lines[-3:]))
