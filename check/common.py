#!/usr/bin/env python3
"""Shared machinery for the per-property checks: Coq build + Print Assumptions
capture, extraction + OCaml driver build, C++ harness build from /repo's working
tree, evidence files, VIOLATION / KNOWN-FINDING protocol."""
import glob
import hashlib
import json
import os
import random
import re
import subprocess
import sys
import time

VERIF = os.path.dirname(os.path.dirname(os.path.abspath(__file__)))
REPO = os.environ.get("VERIF_REPO", "/repo")
BUILD = os.path.join(VERIF, ".build")
COQ = os.path.join(VERIF, "coq")
sys.path.insert(0, os.path.join(VERIF, "check"))
sys.path.insert(0, os.path.join(VERIF, "translate"))
import cxxbuild  # noqa: E402


def sh(cmd, cwd=None, timeout=3600, env=None, input=None):
    p = subprocess.run(cmd, cwd=cwd, shell=isinstance(cmd, str), stdout=subprocess.PIPE,
                       stderr=subprocess.STDOUT, text=True, errors="replace", timeout=timeout, env=env, input=input)
    return p.returncode, p.stdout


def write_if_changed(path, content):
    os.makedirs(os.path.dirname(path), exist_ok=True)
    if os.path.exists(path) and open(path).read() == content:
        return False
    with open(path, "w") as f:
        f.write(content)
    return True


# --------------------------------------------------------------------------
# Coq
# --------------------------------------------------------------------------
FORBIDDEN = re.compile(r"\b(Admitted|admit|Axiom|Parameter|Conjecture|Admit Obligations|"
                       r"Unset Guard Checking|bypass_check|Unset Universe Checking|"
                       r"Unset Positivity Checking)\b")


def coq_hygiene():
    """No Admitted/admit/Axiom/... anywhere in the development (comments excluded)."""
    bad = []
    for f in glob.glob(os.path.join(COQ, "theories", "**", "*.v"), recursive=True):
        src = open(f).read()
        src = re.sub(r"\(\*.*?\*\)", "", src, flags=re.S)
        for m in FORBIDDEN.finditer(src):
            bad.append(f"{os.path.relpath(f, VERIF)}: {m.group(0)}")
    return bad


def regen_translators():
    """Re-run every source->Coq translator against /repo (T1 tie)."""
    import gen_all
    return gen_all.run(REPO, os.path.join(COQ, "theories", "Gen"))


def coq_make(targets=None, timeout=3000):
    """Full .vo build (never -vos) of the given targets (default: everything)."""
    vfiles = sorted(glob.glob(os.path.join(COQ, "theories", "**", "*.v"), recursive=True))
    rel = [os.path.relpath(v, COQ) for v in vfiles]
    rc, out = sh(["coq_makefile", "-f", "_CoqProject", "-o", "Makefile"] + rel, cwd=COQ)
    if rc != 0:
        return False, out
    cmd = ["make", "-k", "-j16"] + (targets or [])
    rc, out = sh(cmd, cwd=COQ, timeout=timeout)
    return rc == 0, out


def coq_check_props(prop_id, timeout=1200):
    """Builds the dependencies of Properties_<id>.v, then re-checks that file with
    coqc, capturing the Print Assumptions output under each theorem.
    Returns dict(ok, theorems=[names], assumptions={name: [axioms]}, log)."""
    t0 = time.time()
    pv = f"theories/Props/Properties_{prop_id}.v"
    res = {"ok": False, "theorems": [], "assumptions": {}, "log": "", "file": pv}
    if not os.path.exists(os.path.join(COQ, pv)):
        res["log"] = f"{pv} missing"
        return res
    src = open(os.path.join(COQ, pv)).read()
    src_nc = re.sub(r"\(\*.*?\*\)", "", src, flags=re.S)
    res["theorems"] = re.findall(r"^\s*(?:Theorem|Corollary)\s+(\w+)", src_nc, flags=re.M)
    ok, out = coq_make([pv + "o"], timeout=timeout)
    res["log"] = out[-6000:]
    if not ok:
        return res
    # re-run coqc on the property file alone to capture Print Assumptions
    vo = os.path.join(COQ, pv + "o")
    try:
        os.remove(vo)
    except OSError:
        pass
    rc, out = sh(["make", pv + "o"], cwd=COQ, timeout=timeout)
    res["log"] = out[-6000:]
    if rc != 0:
        return res
    cur = None
    # coqc prints, per Print Assumptions: "Closed under the global context" or
    # "Axioms:" followed by indented "name : type" lines
    printed = []
    block = None
    for line in out.splitlines():
        if line.startswith("Closed under the global context"):
            printed.append([])
            block = None
        elif line.startswith("Axioms:"):
            block = []
            printed.append(block)
        elif block is not None and re.match(r"^[A-Za-z_][\w.']*\s*(:.*)?$", line):
            block.append(line.split(":")[0].strip())
        elif block is not None and line.startswith(" "):
            continue
        elif block is not None:
            block = None
    # (qualified names - theorems stated inside a Module of the property file - count under their last component)
    pa_names = [n.split(".")[-1] for n in
                re.findall(r"^\s*Print Assumptions\s+([\w.]*\w)\s*\.\s*$", src_nc, flags=re.M)]
    for name, ax in zip(pa_names, printed):
        res["assumptions"][name] = ax
    missing = [t for t in res["theorems"] if t not in pa_names]
    res["ok"] = (len(printed) == len(pa_names) and not missing and len(res["theorems"]) > 0)
    if missing:
        res["log"] += f"\n[common] theorems without Print Assumptions: {missing}"
    if not res["ok"]:
        res["log"] += f"\n[common] {len(res['theorems'])} theorems but {len(printed)} Print Assumptions blocks"
    res["wall_s"] = time.time() - t0
    return res


# --------------------------------------------------------------------------
# extraction + OCaml driver
# --------------------------------------------------------------------------
def build_driver(name="driver", extract_v="theories/Extract/Extract.v", modname="model", timeout=1200):
    """Extracts the model (coqc in .build/ocaml so model.ml lands there) and builds
    ocaml/<name>.ml against it.  Rebuilds only when inputs changed."""
    od = os.path.join(BUILD, "ocaml")
    os.makedirs(od, exist_ok=True)
    ok, out = coq_make([extract_v + "o"], timeout=timeout)
    if not ok:
        return False, out
    stamp = os.path.join(od, f".{name}.stamp")
    deps = [os.path.join(COQ, extract_v + "o"), os.path.join(VERIF, "ocaml", f"{name}.ml")]
    h = hashlib.sha256()
    for d in deps:
        h.update(open(d, "rb").read())
    sig = h.hexdigest()
    exe = os.path.join(od, name)
    if os.path.exists(exe) and os.path.exists(stamp) and open(stamp).read() == sig:
        return True, "cached"
    rc, out = sh(["coqc", "-Q", os.path.join(COQ, "theories"), "LF", "-o", os.path.join(od, os.path.basename(extract_v) + "o"),
                  os.path.join(COQ, extract_v)], cwd=od, timeout=timeout)
    if rc != 0:
        return False, out
    sh(["cp", os.path.join(VERIF, "ocaml", f"{name}.ml"), od])
    rc, out2 = sh(["ocamlfind", "ocamlopt", "-w", "-a", "-o", name,
                   f"{modname}.mli", f"{modname}.ml", f"{name}.ml"], cwd=od, timeout=timeout)
    if rc != 0:
        return False, out + out2
    with open(stamp, "w") as f:
        f.write(sig)
    return True, out + out2


def build_harness(targets, timeout=2400):
    regen_translators()      # harness/gen_stdlib_dispatch.inc follows /repo's stdlib
    ok, log, dt = cxxbuild.build(targets, timeout=timeout)
    return ok, log


def run_cases_sharded(exe, case_texts, shards=16, timeout=120, single_timeout=20, max_offenders=None):
    """Runs [exe] over case texts split into shards in parallel.  A shard that
    times out is re-run case by case; offenders are skipped and returned.  With [max_offenders], once that many
    single cases have timed out the remaining cases of timed-out shards are returned as skipped without being run
    (a change that makes every case hang must not make the check itself run for hours)."""
    from concurrent.futures import ThreadPoolExecutor
    chunks = [case_texts[i::shards] for i in range(shards)]

    def one(chunk, to):
        try:
            p = subprocess.run([exe], input="".join(chunk), stdout=subprocess.PIPE, stderr=subprocess.PIPE,
                               text=True, errors="replace", timeout=to)
            if p.returncode < 0 and len(chunk) > 1:
                # killed by a signal (out of memory, crash): the rest of the shard would be lost silently
                return None, chunk
            return p.stdout, []
        except subprocess.TimeoutExpired:
            return None, chunk

    outs, skipped = [], []
    with ThreadPoolExecutor(max_workers=shards) as ex:
        for (o, bad) in ex.map(lambda c: one(c, timeout), chunks):
            if o is not None:
                outs.append(o)
            else:
                for c in bad:
                    if max_offenders is not None and len(skipped) >= max_offenders:
                        skipped.append(c)
                        continue
                    o1, b1 = one([c], single_timeout)
                    if o1 is not None:
                        outs.append(o1)
                    else:
                        skipped.append(c)
    return "".join(outs), skipped


def run_prog(exe, stdin_text, timeout=1800, env=None):
    p = subprocess.run([exe], input=stdin_text, stdout=subprocess.PIPE, stderr=subprocess.PIPE,
                       text=True, errors="replace", timeout=timeout, env=env)
    return p.returncode, p.stdout, p.stderr


# --------------------------------------------------------------------------
# known findings, violations, evidence
# --------------------------------------------------------------------------
def known_findings(prop_id):
    """Lines 'finding: property=<id> key=<key> <text>' of known_findings.txt."""
    path = os.path.join(VERIF, "known_findings.txt")
    out = {}
    if os.path.exists(path):
        for line in open(path):
            m = re.match(r"finding:\s+property=(\w+)\s+key=(\S+)\s+(.*)", line.strip())
            if m and m.group(1) == prop_id:
                out[m.group(2)] = m.group(3)
    return out


class Check:
    def __init__(self, prop_id, level="proof"):
        self.prop = prop_id
        self.level = level
        self.tier = os.environ.get("VERIF_TIER", "quick")
        if self.tier not in ("quick", "thorough"):
            self.tier = "quick"
        self.seed = int(os.environ.get("VERIF_SEED", "1") or 1)
        self.rng = random.Random(self.seed * 1000003 + int(prop_id[1:]))
        self.t0 = time.time()
        self.coverage = {"samples": []}
        self.assumptions = []
        self.violations = []      # (key, text, replay_payload)
        self.known_hit = []
        self.known = known_findings(prop_id)
        self.replay_dir = os.path.join(BUILD, "replay")
        os.makedirs(self.replay_dir, exist_ok=True)
        for old in glob.glob(os.path.join(self.replay_dir, f"{prop_id}_*.json")):
            os.remove(old)
        os.makedirs(os.path.join(VERIF, "evidence"), exist_ok=True)

    def log(self, *a):
        print(f"[{self.prop}]", *a, flush=True)

    def violation(self, key, text, payload, no_input=False):
        """Registers a violation; suppressed (printed as KNOWN-FINDING) only if its
        key is listed in known_findings.txt."""
        if key in self.known:
            if key not in self.known_hit:
                self.known_hit.append(key)
                print(f"KNOWN-FINDING: property={self.prop} {self.known[key]}", flush=True)
            return
        n = len(self.violations)
        path = os.path.join(self.replay_dir, f"{self.prop}_{n}.json")
        with open(path, "w") as f:
            json.dump({"property": self.prop, "key": key, "what": text, "replay": payload,
                       "seed": self.seed, "tier": self.tier}, f, indent=1)
        self.violations.append((key, text, path, no_input))

    def proof_obligations(self, extra_ok=True, extra_names=()):
        """Re-checks Properties_<id>.v.  Returns the result dict; on failure a
        violation is registered later by the caller after the failing-input search."""
        bad = coq_hygiene()
        res = coq_check_props(self.prop)
        names = list(res["theorems"]) + list(extra_names)
        discharged = len(names) if (res["ok"] and extra_ok and not bad) else 0
        self.coverage["obligations"] = len(names)
        self.coverage["discharged"] = discharged
        self.coverage["theorems"] = names
        self.coverage["checker_cmd"] = (f"cd coq && coq_makefile -f _CoqProject -o Makefile <all .v> && "
                                        f"make -k -j16 {res['file']}o   (coqc 8.16.1, full .vo build)")
        axioms = sorted({a for v in res["assumptions"].values() for a in v})
        self.coverage["axioms_per_theorem"] = res["assumptions"]
        self.coverage["trusted_base"] = [
            "Coq 8.16.1 kernel (coqc, vm_compute for finite sweeps; no native_compute)",
            "axioms reported by Print Assumptions: " + (", ".join(axioms) if axioms else "none (closed under the global context)"),
        ]
        if bad:
            res["ok"] = False
            res["log"] += "\nforbidden constructs: " + "; ".join(bad)
        self.proof = res
        return res

    def finish(self):
        wall = time.time() - self.t0
        ev = {
            "property_id": self.prop, "tier": self.tier, "seed": self.seed, "level": self.level,
            "coverage": self.coverage, "assumptions": self.assumptions, "wall_s": round(wall, 2),
            "violations": len(self.violations),
        }
        ev["coverage"]["known_findings_hit"] = self.known_hit
        # VERIF_EVIDENCE_DIR: experiments (seeded patches, thorough sweeps) write their evidence elsewhere so
        # that the committed evidence/ always holds records of runs on the unchanged tree
        evdir = os.environ.get("VERIF_EVIDENCE_DIR") or os.path.join(VERIF, "evidence")
        os.makedirs(evdir, exist_ok=True)
        with open(os.path.join(evdir, f"{self.prop}.json"), "w") as f:
            json.dump(ev, f, indent=1, default=str)
        if self.violations:
            for key, text, path, no_input in self.violations[:5]:
                self.log(f"violation {key}: {text}")
            key, text, path, no_input = self.violations[0]
            # prefer a violation with a concrete input for the VIOLATION line
            for v in self.violations:
                if not v[3]:
                    key, text, path, no_input = v
                    break
            print(f"VIOLATION property={self.prop} replay={path}" + (" no-failing-input-found" if no_input else ""),
                  flush=True)
            sys.exit(1)
        self.log(f"ok ({wall:.1f}s)")
        sys.exit(0)


def ulp_diff32(a_hex, b_hex):
    """distance in units of last place between two binary32 bit patterns"""
    def key(h):
        u = int(h, 16)
        return (0x80000000 - u) if u & 0x80000000 else u
    ua, ub = int(a_hex, 16), int(b_hex, 16)
    nan = lambda u: (u & 0x7f800000) == 0x7f800000 and (u & 0x7fffff) != 0
    if nan(ua) or nan(ub):
        return 0 if (nan(ua) and nan(ub)) else 1 << 31
    return abs(key(a_hex) - key(b_hex))


DRIVERS = {
    "driver": dict(name="driver", extract_v="theories/Extract/Extract.v", modname="model"),
    "idriver": dict(name="idriver", extract_v="theories/Extract/ExtractInterval.v", modname="imodel"),
    "sdriver": dict(name="sdriver", extract_v="theories/Extract/ExtractSolver.v", modname="smodel"),
    "qdriver": dict(name="qdriver", extract_v="theories/Extract/ExtractQef.v", modname="qmodel"),
    "vdriver": dict(name="vdriver", extract_v="theories/Extract/ExtractHeightmap.v", modname="vmodel"),
    "pdriver": dict(name="pdriver", extract_v="theories/Extract/ExtractProgress.v", modname="pmodel"),
    "cdriver": dict(name="cdriver", extract_v="theories/Extract/ExtractContours.v", modname="cmodel"),
    "gdriver": dict(name="gdriver", extract_v="theories/Extract/ExtractGrid.v", modname="gmodel"),
    "sgdriver": dict(name="sgdriver", extract_v="theories/Extract/ExtractSimplexGrid.v", modname="sgmodel"),
    "qtdriver": dict(name="qtdriver", extract_v="theories/Extract/ExtractQuadTree.v", modname="qtmodel"),
    "otdriver": dict(name="otdriver", extract_v="theories/Extract/ExtractOctTree.v", modname="otmodel"),
}


def all_harness_bins():
    return ["bin/" + name for name, _, _ in cxxbuild.harness_programs()]
