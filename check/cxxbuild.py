#!/usr/bin/env python3
"""Builds libfive from /repo's *current working tree* (hooks on) into
/verif/.build/cxx as two static libraries plus the harness executables.

  lf_core   = tree + eval + oracle + solve + stdlib
  lf_render = render/** + libfive.cpp (C API)

Incremental (make + -MMD dependency files); sources are globbed from /repo on
every call so added/removed files are picked up."""
import os, sys, glob, subprocess, time

VERIF = os.path.dirname(os.path.dirname(os.path.abspath(__file__)))
REPO = os.environ.get("VERIF_REPO", "/repo")
BUILD = os.path.join(VERIF, ".build", "cxx")
FLAGS = ("-std=gnu++17 -O2 -march=native -DNDEBUG -DLIBFIVE_VERIF -fPIC -w "
         "-DGIT_TAG='\"verif\"' -DGIT_REV='\"verif\"' -DGIT_BRANCH='\"verif\"'")
INC = f"-I{REPO}/libfive/include -I{REPO}/libfive/stdlib -isystem /usr/include/eigen3 -I{VERIF}/harness"


def sources():
    src = sorted(glob.glob(f"{REPO}/libfive/src/**/*.cpp", recursive=True))
    core, render = [], []
    for s in src:
        rel = os.path.relpath(s, f"{REPO}/libfive/src")
        if rel.startswith("render/") or rel == "libfive.cpp":
            render.append(s)
        else:
            core.append(s)
    for s in ("stdlib.cpp", "stdlib_impl.cpp"):
        p = f"{REPO}/libfive/stdlib/{s}"
        if os.path.exists(p):
            core.append(p)
    return core, render


def obj_of(s):
    rel = os.path.relpath(s, f"{REPO}/libfive")
    return "obj/" + rel.replace("/", "__")[:-4] + ".o"


def harness_programs():
    progs = []
    for h in sorted(glob.glob(f"{VERIF}/harness/*.cpp")):
        name = os.path.basename(h)[:-4]
        libs = ["core"]
        with open(h) as f:
            first = f.readline()
        if first.startswith("// LIBS:"):
            libs = first[len("// LIBS:"):].split()
        progs.append((name, h, libs))
    return progs


def write_makefile(variant_flags=""):
    os.makedirs(os.path.join(BUILD, "obj"), exist_ok=True)
    os.makedirs(os.path.join(BUILD, "bin"), exist_ok=True)
    core, render = sources()
    lines = [f"CXX=g++", f"FLAGS={FLAGS} {variant_flags}", f"INC={INC}", ""]
    lines.append(".PHONY: all core render")
    lines.append("core: liblf_core.a")
    lines.append("render: liblf_render.a")
    for lib, srcs in (("core", core), ("render", render)):
        objs = [obj_of(s) for s in srcs]
        lines.append(f"liblf_{lib}.a: {' '.join(objs)}")
        lines.append(f"\t@rm -f $@; ar rcs $@ $^")
        for s, o in zip(srcs, objs):
            lines.append(f"{o}: {s}")
            lines.append(f"\t$(CXX) $(FLAGS) $(INC) -MMD -MP -c $< -o $@")
    for name, h, libs in harness_programs():
        deps = " ".join(f"liblf_{l}.a" for l in libs)
        # render depends on core; link order matters
        link = " ".join(f"-llf_{l}" for l in (["render"] if "render" in libs else []) + ["core"])
        lines.append(f"bin/{name}: {h} {deps}")
        lines.append(f"\t$(CXX) $(FLAGS) $(INC) -MMD -MP -MF obj/h_{name}.d $< -o $@ -L. {link} -lpthread -lpng")
    lines.append("-include obj/*.d")
    mk = "\n".join(lines) + "\n"
    path = os.path.join(BUILD, "Makefile")
    old = open(path).read() if os.path.exists(path) else None
    if old != mk:
        with open(path, "w") as f:
            f.write(mk)


def build(targets, jobs=16, timeout=1500):
    """targets: list like ['core', 'bin/expr']. Returns (ok, log)."""
    write_makefile()
    t0 = time.time()
    p = subprocess.run(["make", "-C", BUILD, f"-j{jobs}", "-k"] + list(targets),
                       stdout=subprocess.PIPE, stderr=subprocess.STDOUT,
                       text=True, errors="replace", timeout=timeout)
    return p.returncode == 0, p.stdout, time.time() - t0


def build_variant(name, extra_flags, targets, jobs=16, timeout=2400):
    """A second build tree (.build/cxx-<name>) with different flags, e.g. ThreadSanitizer."""
    global BUILD, FLAGS
    old_build, old_flags = BUILD, FLAGS
    BUILD = os.path.join(VERIF, ".build", "cxx-" + name)
    FLAGS = extra_flags
    try:
        return build(targets, jobs=jobs, timeout=timeout)
    finally:
        BUILD, FLAGS = old_build, old_flags


if __name__ == "__main__":
    ok, log, dt = build(sys.argv[1:] or ["core", "render"])
    sys.stdout.write(log[-4000:])
    print(f"build {'ok' if ok else 'FAILED'} in {dt:.1f}s")
    sys.exit(0 if ok else 1)
