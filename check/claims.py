# Per-property claims (read by check/mkmanifest.py).
HOOK_COMMITS = []

claim("C07", "proof",
      "Machine-checked theorems (Coq) that every construction-time simplification, remap, apply and flatten "
      "yields a node denoting the mathematical definition, for all arenas / opcodes / rule branches and every number "
      "type satisfying the stated algebraic laws (the reals do); the models are tied to the code on every run by "
      "stage-wise correspondence (built / flattened DAG exact, optimised DAG modulo AC) of the extracted model against "
      "the C++ harness, and the property's statement is evaluated on the implementation (values of original vs "
      "flattened vs optimised vs re-optimised tree, soundness of Tree::eq verdicts).",
      "Trusted: Coq kernel; translators; ExtrOcamlBasic extraction; OCaml driver's binary32 emulation; harness; "
      "AC-normaliser.  The optimiser's semantic theorem is not yet proved (model tied by correspondence + oracle only); "
      "flatten_sem excludes re-flattening of already-transformed oracles.",
      "Coq proof (induction over arena / fuel) + extraction-based differential correspondence",
      "DESIGN.md section 6, C07")
