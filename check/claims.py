# Per-property claims (read by check/mkmanifest.py).
HOOK_COMMITS = []

claim("C07", "proof",
      "Translator tie: the rule ladders of Tree::unary / Tree::binary (tree.cpp) are re-read on every run into a rule table "
      "(Gen/BuildRules_gen.v) which, run by the interpreter of Tree/BuildRules.v, is proved equal to the model's mk_unary / "
      "mk_binary for every opcode, fuel, arena and number type (C07_build_rules_from_source; 9 of 11 source mutations break it, "
      "the other two are behaviour-preserving).  "
      "Machine-checked theorems (Coq) that every construction-time simplification, remap, apply and flatten "
      "yields a node denoting the mathematical definition, for all arenas / opcodes / rule branches and every number "
      "type satisfying the stated algebraic laws (the reals do); that Tree::optimized (affine collection, commutative "
      "re-balancing, deduplication against the canonical map, optimisation of the components of transformed oracles with "
      "the shared map) preserves the denotation over the reals, for oracle-free sources (C07_optimized_sem) and for sources "
      "with oracles anywhere, lazy remaps inside oracle coordinates included (C07_flatten_sem_oracles, "
      "C07_optimized_sem_oracles, under `good`: transformed oracles below an apply have variable-independent components, "
      "which is what the C++ needs too); Tree::eq verdicts 'equal' are sound (C07_eq_sound, C07_eq_sound_oracles).  The "
      "models are tied to the code on every run by stage-wise correspondence (built / flattened DAG exact, optimised DAG "
      "modulo AC) of the extracted model against the C++ harness, and the property's statement is evaluated on the "
      "implementation (values of original vs flattened vs optimised vs re-optimised tree, soundness of Tree::eq verdicts).",
      "Trusted: Coq kernel + classical real axioms for the optimiser theorems; translators; ExtrOcamlBasic extraction; OCaml "
      "driver's binary32 emulation and stability probes; harness; AC-normaliser.  Floating-point re-association by the "
      "optimiser is outside the theorems (reals) and bounded by the value oracle's tolerance at stable points.",
      "Coq proof (induction over arena / fuel; level-fuelled optimiser) + extraction-based differential correspondence",
      "DESIGN.md section 6, C07")

claim("C01", "proof",
      "Translator tie: ArrayEvaluator::operator() (eval_array.cpp) is re-read on every run into Gen/ArrayKernels_gen.v and "
      "proved equal, opcode by opcode, to the real-number kernels the semantic theorems use (C01_value_kernels_from_source).  "
      "Coq theorem batch_pointwise (every number type, hence binary32: a batch position depends only on that position "
      "of the inputs, for every batch size, SIMD-rounded count and stale content) plus the deck/tape and rewriting "
      "theorems shared with C07; tie: the model's Deck::Deck is run on the implementation's own optimised DAG and must "
      "give the identical slot layout and tape; oracle: ArrayEvaluator::value vs the model's reference denotation in "
      "doubles at stable points, and bit-identity of one point across 10 batch sizes x 3 slot positions.",
      "Trusted: Coq kernel, translators, extraction, OCaml binary32 emulation, harness.  IEEE rounding of the rewritten "
      "expression is covered by a tolerance oracle, not a theorem; Eigen's SIMD kernels are assumed slot-wise.",
      "Coq proof (fold induction over the tape) + extraction-based differential correspondence",
      "DESIGN.md section 6, C01")

claim("C03", "proof",
      "PARTIAL.  Translator + Coq theorems for the simplex / hybrid path: translate/gen_tables.py re-reads tet_table from "
      "simplex_mesher.cpp on every run; for that table, marching tetrahedra over ANY tetrahedral complex whose surface-carrying "
      "faces are matched by exactly one oppositely oriented copy, and ANY inside/outside assignment, gives a mesh in which every "
      "directed edge is used as often as its reverse (watertight, consistently oriented); if no two tets share their vertex "
      "set it is edge-manifold; the local boundary lemma holds for every tet without hypotheses; non-vacuity (boundary of the "
      "4-simplex) and necessity of the extra hypothesis are kernel-checked.  Dual contouring: with the patch tables libfive "
      "builds at start-up (dumped from the implementation on every run into Gen/MarchTables_gen.v), Dual<3>::walk + "
      "DCMesher::load on a UNIFORM grid gives a watertight, consistently oriented mesh for every filled/empty assignment of "
      "the lattice points and every choice of quad diagonals (a 3 x 4096 face-configuration sweep over the real tables + a "
      "local-support regrouping), with every triangle corner a real patch vertex.  Simplex mesher on a UNIFORM grid: the "
      "executable model of SimplexMesher::load<A> (11 subspace vertices per lattice edge, cell_vertices / tet_vertices as read "
      "from the C++, 16 tets per edge, 48 per cell, vertices as points of the doubled lattice) builds a complex in which every "
      "tet is a flag corner < edge < face < cell, no two tets share their vertices, and every surface-carrying face occurs "
      "once with each orientation (orientation sweep over the real tables + translation invariance), so the marching-tets "
      "hypothesis is DISCHARGED there: the mesh is watertight, consistently oriented and edge-manifold for every inside / "
      "outside assignment that keeps the outermost cell layer empty (hypothesis shown necessary).  Dual contouring on ADAPTIVE "
      "octrees (Render/OctTree.v + OctTreeGeom / Collect / Net / Face / Sem.v, 2600 lines, no axioms): the model covers the "
      "topological part of DCTree<3>::collectChildren (merging, the 256-entry cornersAreManifold table read from dc_tree3.cpp "
      "by the translator and proved to mean 'filled and empty corners are each connected along cube edges', isManifold of "
      "every child, leafsAreManifold with its 12 edge / 6 face / 1 centre tests, collapse into a leaf of level region.level; "
      "the numerical tests are an arbitrary oracle), the recursive walk Dual<3>::work / call_face3 / face3 / call_edge3 / "
      "edge3 and DCMesher::load (minimum-level rule, patch lookup for finest leaves, vertex 0 for collapsed ones, "
      "push_triangle dropping triangles with a repeated vertex; the normal-dependent diagonal an arbitrary oracle); theorems: "
      "collapsing preserves the lattice-sign invariant; on EVERY consistent tree - leaves of any mix of levels, pruned cells "
      "of any size - and for every choice of diagonals the triangle soup is watertight and consistently oriented "
      "(C03_dc_adaptive_closed), no triangle repeats a vertex, every corner is a real patch vertex, every triangle stems "
      "from one load call on the four cells around a minimal edge; the whole pipeline prune + subdivide + collapse + walk is "
      "closed for every lattice sign function with a clear region boundary; necessity of the clear boundary by a "
      "kernel-checked counter-example.  Tie: for 24 (thorough 1500) random CSG solids the harness dumps the implementation's "
      "octree before and after collapsing (max_err from 1e-8 to 1e9, walk with 1..8 workers) with the triangles of its walk; "
      "the extracted ocollect must rebuild the collapsed tree exactly, the extracted walk must emit the implementation's "
      "triangles (as a multiset, each quad with either diagonal), and the extracted checkers decide the theorem's hypotheses "
      "on those trees.  NOT proved: the simplex and hybrid meshers on grids with cells of different levels (the simplex "
      "mesher's minimum-level vertex selection, collapsed cells - see the recorded finding).  Those are decided by the oracle: "
      "Mesh::render of random closed CSG solids (rotated primitives, sharp and smooth) x 3 algorithms x workers 1..16 x "
      "resolutions x merging on/off: edge balance, no repeated vertex, valid indices, no unreferenced vertex, edge-manifold "
      "for simplex / hybrid.  Ties for the grid models: uniform-grid renders (max_err = -1) of the implementation against the "
      "extracted models on the implementation's own lattice / subspace-vertex signs (triangle and vertex counts for dual "
      "contouring, triangle counts for the simplex mesher).  Known finding: holes of the simplex mesher when cells collapse.",
      "Trusted: Coq kernel (no axioms); translate/gen_tables.py; harness audit_mesh and octree dump; ocaml/otdriver.ml (reads the "
      "lattice signs off the uncollapsed tree); OS-sampled interleavings (no schedule perturbation hook was added for this property).",
      "source-to-Coq table translation + Coq proof (finite sweep over the table + face-pairing argument); runtime mesh audit",
      "DESIGN.md section 6, C03")

claim("C04", "proof",
      "PARTIAL.  Adaptive octrees (module AdaptiveDCSep, Render/OctTreeSep*.v): besides 'no holes' and 'triangles only at sign "
      "changes', the converse is proved for the minimal edges on the central line of a branching cell (the edge recursion "
      "reaches every quadruple of leaves around a minimal edge; a sign change forces four ambiguous leaves and yields the "
      "explicit quad, in the mesh), with the winding decided by the inside end and crossing parity along paths of minimal "
      "edges; the face recursion and the whole walk are complete too (module AdaptiveDCSep5: C04_walk3_reaches_every_quadruple, "
      "the full C04_adaptive_sign_changes_give_triangles and C04_adaptive_mesh_separates for EVERY minimal edge between leaves of "
      "a consistent tree; remaining hypothesis distinct3).  Vertex positions and the simplex / hybrid meshers on adaptive "
      "grids stay with the oracle.  Coq theorems: (a) pruning - under sound interval evaluation (C02) a cell classified EMPTY / FILLED contains no "
      "zero of the field and every point of it has the classified sign, so all surface lies in AMBIGUOUS cells (also through a "
      "volume tree); (b) dual contouring on a uniform grid (the executable model of Dual<3>::walk + DCMesher::load over the "
      "run-time patch tables): the mesh is exactly the boundary of the inside lattice set - two triangles per lattice edge whose "
      "ends differ, over one vertex of each of the four cells around it; every lattice path from an inside to an outside point "
      "crosses an odd number of quads, every path between points on one side an even number; quads are wound so that normals "
      "point from the inside to the outside lattice point; (c) over R^3 with grid spacing h: a sign-changing edge of a field "
      "continuous along it carries a zero lying in the four cells around it, so a quad vertex that lies in its own cell (C19 "
      "for simplex / hybrid; an explicit hypothesis, NOT guaranteed by dual contouring - see the finding) is within sqrt(3) h of "
      "the zero set; (d) a feature thinner than the grid is invisible to corner signs (refutation of the converse); (e) on "
      "ADAPTIVE octrees (Render/OctTree.v, shared with C03, tied to the implementation's own collapsed trees and triangles): "
      "the dual-contouring mesh of any consistent tree has no boundary edge - no hole to leak through - for every verdict of "
      "the collapse tests and every choice of diagonals, and every triangle stems from a lattice edge whose surrounding cells are "
      "ambiguous leaves and whose smallest cell sees a sign change (pruned cells carry no surface).  The "
      "separation statement for real renders on adaptive octrees (winding number 1 inside / 0 outside away from the surface; "
      "vertices in the region and near the zero set) is decided by the oracle on the implementation: generalised winding numbers "
      "(solid-angle sums) at random points further than 1.5 feature sizes from the surface, vertex containment and |field| at "
      "vertices, over random closed 1-Lipschitz solids x 3 algorithms x workers x resolutions, with and without an acceleration "
      "volume tree.  Tie for (b): uniform-grid renders of the implementation have exactly two triangles per filled-empty lattice "
      "edge of its own lattice signs and are closed (and C03's grid stage compares triangle / vertex counts with the extracted model).",
      "Trusted: Coq kernel + classical reals; harness audit_mesh (solid angles in doubles); the oracle's thresholds (1.5 / 3 / "
      "0.02 feature sizes).  Known findings: unbounded dual-contouring vertices (outside:dc, offsurface:dc); holes of the simplex "
      "mesher when cells collapse (hole:simplex:collapse).",
      "Coq proof (pruning soundness; lattice boundary, parity of crossings, orientation; IVT over the reals) + winding-number oracle",
      "DESIGN.md section 6, C04")

claim("C10", "proof",
      "Coq theorems for Contours::collect (the welding of emitted segments into polylines, modelled with the code's two map "
      "tables, chain growth and welding walk): for EVERY segment soup and emission order the consecutive pairs of the output "
      "are a permutation of the input (nothing lost, duplicated or invented); every polyline has a segment and follows input "
      "segments; on a disjoint union of directed cycles every polyline is closed; the hypothesis is shown tight.  Tie: the "
      "extracted model and the implementation weld 1500+ random soups (cycles, open paths, branching, self-loops) "
      "identically.  Emission: for the 2D patch tables libfive builds at start-up (dumped from the implementation on every run "
      "into Gen/MarchTables_gen.v) Dual<2>::walk + DCContourer::load on a UNIFORM grid emits, for every filled / empty "
      "assignment of the lattice points, a disjoint union of directed cycles; composed with the welding theorem every returned "
      "contour is closed.  The loops BOUND the slice on uniform grids (Render/DCBoundary2.v): exactly one segment per lattice "
      "edge whose ends differ, between the vertices of the two cells beside it; every lattice path from an inside to an outside "
      "point crosses an odd number of segments (closed paths an even number); every segment has the inside lattice point on its "
      "LEFT (integer cross products), i.e. filled regions are wound counter-clockwise and holes clockwise; over the reals a "
      "sign-changing edge carries a zero of a continuous field, so a contour vertex lying in its own cell (explicit hypothesis; "
      "see the finding) is within sqrt(2) h of the curve.  ADAPTIVE quadtrees (Render/QuadTree.v, QuadTreeSem.v): the model "
      "covers the topological part of DCTree<2>::collectChildren (merging of uniform children, cornersAreManifold, isManifold "
      "of every child, leafsAreManifold, collapse into a leaf of level region.level; the numerical tests are an arbitrary "
      "oracle), the recursive walk Dual<2>::work / edge2 and DCContourer::load with its minimum-level rule; theorems: collapsing "
      "preserves the lattice-sign invariant (no filled, empty, filled pattern along a side of a collapsed leaf follows from the "
      "code's tests), the soup of EVERY consistent tree - leaves of any mix of levels, pruned cells of any size - is a disjoint "
      "union of directed cycles, and prune + collapse + walk + weld returns closed polylines for every lattice sign function "
      "with a clear region boundary, every depth and every verdict of the numerical tests; necessity of the collapse tests and "
      "of the clear boundary by kernel-checked counter-examples.  Adaptive contours BOUND the slice too (Render/QuadTreeSep.v): "
      "the segments of the soup of every consistent tree correspond one to one to the minimal edges of the leaf subdivision "
      "(a whole side of the smaller of two facing leaves) whose end points differ in sign - soundness, completeness, "
      "injectivity, no duplicates - both leaves are ambiguous, the inside end point lies on the LEFT of the segment, and a "
      "path along minimal edges crosses an odd number of segments iff its ends differ in sign.  "
      "Tie: for 60 (thorough 6000) random shapes the harness dumps "
      "the implementation's quadtree before and after collapsing (max_err from 1e-8 to 1e9) with the raw directed segments of "
      "its walk; the extracted collect must rebuild the collapsed tree exactly, the extracted walk must emit exactly the "
      "implementation's segments, and the extracted checkers decide the theorem's hypotheses on those trees.  Oracle (not "
      "proved: vertex positions): Contours::render of "
      "random 2D solids and slices of 3D solids: contours closed, polygon winding number exactly +1 inside (the proved "
      "orientation) and 0 outside, vertices in the region and within 2 feature sizes of the zero set.",
      "Trusted: Coq kernel (no axioms for the combinatorial theorems; the standard real-number axioms for the distance bound); "
      "extraction; harness collect / contour / quadtree commands; ocaml/qtdriver.ml (reads the lattice signs off the uncollapsed tree).",
      "Coq proof (map/chain invariants, pigeonhole on the welding walk; lattice boundary, parity, orientation, IVT; telescoping "
      "potential over the recursive walk of adaptive quadtrees) + extraction-based correspondence",
      "DESIGN.md section 6, C10")

claim("C05", "proof",
      "Translator tie: the keep functions that IntervalEvaluator::push and ArrayEvaluator::valueAndPush hand to Tape::push are "
      "re-read from eval_interval.cpp / eval_array.cpp on every run (Gen/KeepFns_gen.v) and proved equal to the model's "
      "keep_interval / keep_point (C05_keep_functions_from_source).  "
      "Coq theorems about the line-by-line model of Tape::push (parametric in the number type, so bit-identity holds "
      "for binary32); tie: every push the implementation performs (nested interval pushes, point pushes) is replayed "
      "through the extracted model on the implementation's own interval bounds / slot values and must yield the identical "
      "tape; oracle: bit-identical values of base / pushed / getBase tapes at 27 points of every box.",
      "Trusted: Coq kernel, extraction, harness.  The interval premise (bounds enclose point values) is property C02.",
      "Coq proof (invariants over the two passes of push) + replay correspondence",
      "DESIGN.md section 6, C05")

claim("C02", "proof",
      "Translator tie: IntervalEvaluator::operator() (eval_interval.cpp) is re-read on every run into "
      "Gen/IntervalDispatch_gen.v and proved equal to the model's dispatch (C02_dispatch_from_source); EVERY operation of "
      "the class Interval (interval.hpp: flag formulas, atan2 / mod / pow / nth_root / division case analyses, state, "
      "constructors) is re-read statement by statement into Gen/IntervalOps_gen.v by translate/gen_interval.py and proved "
      "equal to the model's operation for every number type and all operands (C02_interval_ops_from_source; 25 of 25 "
      "single-token mutations of the header break a named lemma or the translator).  "
      "Coq model of every may-be-NaN flag formula and case split of interval.hpp (Boost's primitives abstracted as "
      "bounds functions assumed to enclose the exact image), soundness theorems over extended reals, composition over "
      "tapes and the EMPTY/FILLED classification corollary; tie: Interval::<op> on operand intervals aimed at the case "
      "splits vs the extracted model (flags and states exact, bounds within ulps where libfive computes them), evaluator "
      "dispatch vs direct call; oracle: sampled operand / box points through ArrayEvaluator's own kernels must be "
      "non-NaN and inside unflagged bounds.",
      "Trusted: Coq kernel; Boost.Interval's directed rounding; extraction; OCaml re-implementation of the primitives "
      "(diagnostic); harness.  Point kernels at +-inf (Eigen fast-math) are outside the sampled domain; see DESIGN.md.",
      "Coq proof (case analysis over extended reals, induction over the tape) + differential correspondence",
      "DESIGN.md section 6, C02")

claim("C08", "proof",
      "Coq theorems: the opcode table regenerated from opcode.hpp on every run equals the frozen numbering, codes are "
      "distinct bytes below LAST_OP <= 254 and never END_OF_ITEM; string / word / variable-section / tree round-trip "
      "theorems about a byte-for-byte model of serializer.cpp and deserializer.cpp; tie: the bytes Archive::serialize "
      "writes must equal the model's bytes exactly and the reloaded DAGs, names, docs and variable bindings must equal "
      "the model's; oracle: reloaded shapes evaluate like the originals with the same named-variable values.",
      "Trusted: Coq kernel, opcode translator, extraction, driver, harness.  Oracle clauses are outside the codec model.",
      "Coq proof (reflexivity on the regenerated table; induction over strings / the walk) + byte-exact differential correspondence",
      "DESIGN.md section 6, C08")

claim("C13", "proof",
      "Translator tie: the members of type Tree of every node alternative (data.hpp) and the members Tree::~Tree moves onto its work list (tree.cpp) are re-read on every run (Gen/TreeDtor_gen.v; the destructor's skeleton and the constructor's increment are checked by shape) and the kernel checks that every child is stolen before `delete t` (C13_destructor_steals_every_child), which is what the model's drop_loop assumes.  Coq theorems about a line-by-line model of the intrusive reference counting (allocation holding child handles, "
      "handle copy, the work-list destructor): the count invariant holds in every state reachable by any operation "
      "sequence, the instrumented destructor never touches a dead cell and frees each cell once, arguments are never "
      "invalidated, alive <-> reachable (leak-free), the destructor loop is bounded by the edge count; copy-assignment from a "
      "handle stored inside a node (t = t->lhs()) is safe in libfive's retain-then-release order and refuted for the "
      "destroy-then-copy order, the two agreeing whenever the old node has another owner; tie: after every "
      "call of generated C API / C++ sequences the refcount of each live handle's node and the live-node counter must equal "
      "the specification computed by the extracted model; oracle: counter returns to baseline after all deletes, no "
      "exceptions, 2*10^5..10^6-node chains / fans / remap chains destroyed on a 256 KB stack.",
      "Trusted: Coq kernel, extraction, harness, the LIBFIVE_VERIF live-node counter; C++ lifetime rules map each Tree "
      "member / temporary to one model step (assumed); stack and allocator behaviour observed, not modelled.",
      "Coq proof (counting invariant over arbitrary operation lists, loop invariant of the destructor) + differential refcount correspondence + AddressSanitizer runs",
      "DESIGN.md section 6, C13")
HOOK_COMMITS.append("a30cf9a")

claim("C11", "proof",
      "Translator tie: the phase skeleton of Mesh::render (per algorithm: build, check after build, index assignment, dual walk, final check, return; every `cancel` test and every `return` of the function accounted for) is re-read from mesh.cpp on every run (Gen/RenderSkeleton_gen.v) and, interpreted on a run, proved to be the model's repaired render, hence all-or-nothing (C11_render_skeleton_all_or_nothing; without the final check - the code before 7279a79 - a partial mesh is returned).  Coq theorems over the task-pool model shared by the three worker loops (octree build, index assignment, dual walk): "
      "every processing order any schedule of any number of workers can produce visits each cell once, parents first; while "
      "a cell is unprocessed a task is available (no deadlock); at most |cells| task steps, every run can be completed; the "
      "done flag is raised exactly when every cell has been processed (never early, always at the end); once cancel or done is "
      "set each worker leaves after at most the body it is in; the repaired Mesh::render returns no mesh or a mesh whose "
      "index assignment and walk both completed, for every placement of the flag, with the code before the repair refuted.  "
      "Tie: LIBFIVE_VERIF schedule points: one-worker visit counts equal the model's cell count (1 + 8 x ambiguous cells), one "
      "visit per phase marker.  Oracle: systematic cancellation at the k-th visit of each named site (k swept, every k on small "
      "one-worker runs), 3 algorithms, workers 1..16: returns within the watchdog, null or a mesh equal in size and closedness "
      "to the uncancelled one; uncancelled renders always return a mesh.",
      "Trusted: Coq kernel (no axioms); the schedule-point hook (guarded, add-only); OS interleavings around the injection "
      "point are sampled, the theorems cover all orders; 'bounded time' = at most one loop body per worker + 20 s wall-clock check.",
      "Coq proof (scheduling invariants over all task orders) + hook-based systematic fault injection (also under AddressSanitizer)",
      "DESIGN.md section 6, C11")

claim("C12", "proof",
      "Partial: the floating-point environment lives in hardware state and Boost's rounding policies, which are observed, "
      "not modelled from source - except for the class Interval, where the defects were: translate/gen_fpenv.py re-reads "
      "interval.hpp on every run and lists, for every control-flow path through every operation, the Boost primitive calls, "
      "fegetround saves and fesetround restores in execution order (Gen/IntervalEnv_gen.v); Conc/FpEnvOps.v proves that every "
      "path of every operation returns with the rounding mode it was entered with, for ANY mode a leaky primitive (nth_root, "
      "observed) may leave behind (C12_interval_ops_restore_mode; a return between the call and the restore, or a missing "
      "restore, breaks it: C12_unbracketed_leaks, checked by mutation).  Coq theorem: if every primitive of the table restores the environment then every call "
      "tree (tapes, batches, renders, solver iterations, oracle nesting) and every history does.  The per-primitive table "
      "is validated exhaustively on every run: 26 opcodes x 10 evaluator entry kinds x input classes x 4 rounding modes "
      "and 13 entry points, comparing fegetround / MXCSR control bits / x87 control word before and after.",
      "Trusted: Coq kernel; the harness's reading of the FP environment; the enumeration of primitives (opcodes x kinds) "
      "is complete only w.r.t. the opcode table (regenerated) and the entry points listed.",
      "Coq proof (induction over call trees / histories) + exhaustive per-primitive fault enumeration on the implementation",
      "DESIGN.md section 6, C12")

HOOK_COMMITS.append("89599d9")
HOOK_COMMITS.append("64013ba")   # named schedule points in the mesh render (C11)

claim("C16", "proof",
      "Coq theorems: Deck construction and tape evaluation with ORACLE clauses compute the denotation when every oracle clause "
      "answers with its node's value (generalises C01's deck theorem to oracle leaves); the recursive object structure of "
      "TransformedOracle (one evaluator per coordinate tree, each optimising its tree first as Deck::Deck does, + underlying "
      "oracle, any nesting) computes the composition with the coordinate maps when the coordinate trees depend on x,y,z only "
      "(kernel-checked refutation for free variables) and `opt_ok` holds for the trees involved: that Tree::optimized preserves "
      "the value and yields plain nodes / oracle leaves.  `opt_ok` is now a THEOREM for every source tree built from constants, "
      "axes, operations, lazy remaps, user oracles and transformed oracles (C16_opt_ok_discharged; the optimiser model flattens "
      "and optimises the coordinate trees of a transformed oracle level by level, with a computed level fuel proved sufficient, "
      "C16_level_fuel_sufficient, and the naive fuel refuted, C16_level_index_insufficient), so for variable-free sources the "
      "evaluator theorem has purely syntactic hypotheses (C16_evaluator_correct_syntactic); "
      "wrapping: any context (operations, remap chains) over an oracle that computes e denotes the same function as the context "
      "over e; the Jacobian product of evalDerivs is the gradient of the composite (Coquelicot chain rule in three variables); "
      "interval composition is sound and carries the maybe-NaN flag of the coordinate ranges; running the coordinate evaluators "
      "on pushed tapes (oracle contexts) leaves the answer unchanged (from C05).  Tie: flattened DAG (TransformedOracleClause "
      "placement, also after optimise steps, modulo AC) and deck (ORACLE clauses, oracle order) equal to the model's; the model's "
      "level fuel never runs out on generated programs; point values of an ExprOracle (an Oracle "
      "answering every method with a private Evaluator) against the extracted evaluator tower.  Oracle: the same random context "
      "over the oracle and over the plain expression: values, gradients at unambiguous points, feature sets, interval soundness, "
      "nested specialisation bit-identical; batches over oracle trees (values, gradients, ambiguity flags, repeated on the same "
      "stored points) against single-point queries, through a full oracle and through a minimal one that relies on the library's "
      "default batch / gradient implementations.  Meshes: closed solids wrapped in an oracle (optionally under a remap) rendered by "
      "the three meshers with 1 - 4 workers next to the plain solid; every audit the plain mesh passes (edge balance, repeated "
      "vertices, indices, edge-manifoldness, winding, distance to the surface, comparable size) the oracle's mesh must pass too.",
      "Trusted: Coq kernel + classical real axioms; extraction; harness ExprOracle; user oracles meet the Oracle contract.",
      "Coq proof (deck/oracle induction, Coquelicot filterdiff) + extraction-based correspondence",
      "DESIGN.md section 6, C16")

claim("C17", "proof",
      "Coq theorems about the control flow of Solver::findRoot over an abstract evaluator and abstract arithmetic "
      "(so binary32 is one instance): residual = expression at the final assignment, masked variables never returned, "
      "absent variables unchanged, at most gas-1 gradient evaluations, termination for every value / gradient function under the "
      "single arithmetic hypothesis that halving a finite step reaches zero (the earlier hypothesis 'a small enough step no longer "
      "moves the point' is false for signed zeros: the matching hang in the real code was found and repaired, and the old loop is "
      "refuted in Coq on a sign-magnitude arithmetic); "
      "tie: the trace of evaluator calls recorded by the LIBFIVE_VERIF hook is replayed through the extracted model, which "
      "must issue the same setVar arguments, consume the whole trace and return the same result; oracle: the four clauses "
      "on the implementation under a 10 s watchdog (NaN gradients, infinite residuals, zero gradients, gas 0/1/2, signed zeros, "
      "long-lived evaluators holding stale values or the zero of the other sign), through the evaluator overload and the Tree overload.",
      "Trusted: Coq kernel, extraction, replay driver (adopts the recorded trial point when within 1e-4 relative: last-bit "
      "effects of fma contraction are not control flow), trace hook, harness.",
      "Coq proof (loop invariants over fuel-indexed model) + trace-replay correspondence",
      "DESIGN.md section 6, C17")

claim("C09", "proof",
      "Translator tie: the control skeleton of Heightmap::recurse (order of the tests, fill condition isFilled && isSafe, recursion unless isEmpty, higher half first) is re-read from heightmap.cpp on every run (Gen/HeightmapRecurse_gen.v) and proved equal to the model's recurse (C09_recurse_from_source).  Coq theorems: View::split partitions the voxels exactly for every axis mask; Heightmap::recurse (skip / pixel pass / "
      "fill / split, upper half first) leaves each pixel at the brute-force column maximum for every sound interval oracle; "
      "the XY pre-partition is disjoint and covering, so the image is the same for every worker count and order.  Tie: "
      "chains of View::split<A> on generated grids vs the extracted model (corner, size exact).  Oracle: Heightmap::render "
      "with 1, 3, 8 workers vs a brute-force loop over all voxel centres (same optimised tree), every pixel; grid coverage / "
      "resolution; split bounds contain their voxel centres.",
      "Trusted: Coq kernel, extraction, harness; the soundness premise of the interval oracle is C02 + C05; float bounds of "
      "split views are checked, not modelled; true thread interleavings are reduced to per-region sequentialisation via the "
      "frame lemma (each region reads and writes only its own pixels).",
      "Coq proof (induction on fuel / view splitting, frame lemmas) + differential split correspondence + brute-force oracle",
      "DESIGN.md section 6, C09")

claim("C14", "proof",
      "PARTIAL.  Coq theorems for the reference-count protocol under ALL interleavings of any number of threads (each atomic "
      "read-modify-write is one step; threads only copy / destroy references they hold): no operation ever touches a freed "
      "node, the counter always equals the number of references held (at every prefix of every interleaving), the node is "
      "freed at most once, exactly when everything was released, by the last decrement of the interleaving; the non-atomic "
      "variant (load, then store) and the 'decrement, then read again' destructor are each refuted by a concrete interleaving "
      "(use-after-free / double free).  OTHER shared state: translate/gen_statics.py "
      "regenerates on every run the inventory of every object with static storage duration and every `mutable` member in "
      "src/{tree,eval,oracle} and include/libfive/{tree,eval,oracle} (Gen/Statics_gen.v) and the kernel checks it against the "
      "sharing policy of Conc/Statics.v (const / atomic / initialised exactly once and read-only afterwards / listed by name "
      "with its reason: C14_static_state_disciplined); the init-once discipline (C++11 magic statics, std::call_once) is "
      "modelled with two-step non-atomic accesses and proved race-free, never observed partially initialised, single-writer, "
      "deadlock-free and 'same as alone' under ALL schedules of any number of threads (C14_init_once_race_free, "
      "C14_init_once_same_as_alone), the unguarded check-then-fill refuted by concrete schedules.  What the syntactic inventory "
      "cannot see (heap objects shared through pointers, per-call canonical maps) and 'every thread observes the "
      "sequential result' on the real code are decided by the oracle: harness/threads.cpp under ThreadSanitizer, 2..16 threads copying, moving, "
      "destroying, printing, optimising, flattening, remapping, serialising shared DAGs and building evaluators from them, "
      "half of the scenarios cold (nothing initialised before the threads start), plus last-reference scenarios (threads released "
      "from a spin barrier together drop the last references of a shared sub-DAG; the live-node counter must return to its "
      "baseline); every TSan report is a violation.",
      "Trusted: Coq kernel (no axioms); the C++ memory model reading 'atomic RMW = one indivisible step'; ThreadSanitizer on "
      "OS-sampled schedules; harness/threads.cpp.",
      "Coq proof (invariant over all shuffles) + ThreadSanitizer runs",
      "DESIGN.md section 6, C14")

claim("C15", "proof",
      "Coq theorems about the evaluators' reused scratch state (rows = total functions, stale = arbitrary; any number / "
      "derivative type; any kernel table): batched value + derivative answers at a position are functions of the leaf rows "
      "at that position only, hence equal after any two histories with equal leaf rows; FeatureEvaluator's array-wise run "
      "returns the kernel on slot-0 values and the i-th feature (with a refutation of the code before the repair); setVar "
      "= rebuild.  Oracle (the statement itself): after every prefix of generated histories of 13 query kinds the same query "
      "on a freshly built evaluator must answer bit-identically; updateVars reports changes.",
      "Trusted: Coq kernel; the tape well-formedness premise is the deck / push invariant tied in C01 / C05; the `filled` "
      "high-water bookkeeping and the interval slots are covered by the oracle only; harness.",
      "Coq proof (pointwise frame reasoning over tapes and histories) + fresh-vs-long-lived differential oracle",
      "DESIGN.md section 6, C15")

claim("C06", "proof",
      "Coq theorems (Coquelicot is_derive over R): for EVERY opcode the derivative kernel of eval_deriv_array.cpp is the chain "
      "rule wherever the opcode is differentiable (explicit smooth_at side conditions; pow / nth_root / mod with a locally "
      "constant second argument, shown necessary for mod); lifted by induction over well-formed tapes to every slot; "
      "DerivArrayEvaluator::derivs returns (d/dx, d/dy, d/dz); the Jacobian evaluator returns the partials in free variables; "
      "CONST_VAR yields zero for variables and passes spatial gradients; a min/max kernel returns exactly one branch's "
      "gradient, tie or not.  Translator tie: DerivArrayEvaluator::operator() (eval_deriv_array.cpp) and "
      "ArrayEvaluator::operator() (eval_array.cpp) are re-read on every run into Gen/DerivKernels_gen.v / ArrayKernels_gen.v "
      "(one match arm per C++ case) and proved equal to the model's kernels for every opcode and number type "
      "(C06_kernels_from_source), so the chain-rule theorem is about the formulas the source states today "
      "(C06_kernel_correct_source).  Correspondence: the model kernels (extracted, binary32 emulation) are run on the implementation's own "
      "optimised deck at generated points and compared with DerivArrayEvaluator / JacobianEvaluator / C API gradients; "
      "oracle: central differences of the implementation's own value evaluator at smooth points, FeatureEvaluator output at "
      "constructed min/max ties (every feature is one branch's gradient), isInside on non-zero values.",
      "Trusted: Coq kernel; Coquelicot + classical reals axioms (sig_not_dec, sig_forall_dec, functional_extensionality_dep, classic); "
      "extraction; harness; binary32 rounding modelled by tolerance.",
      "Coq proof (Coquelicot chain rule per opcode, induction over tapes) + extraction-based kernel correspondence",
      "DESIGN.md section 6, C06")

claim("C18", "proof",
      "Translator + Coq theorems: translate/gen_stdlib.py re-states every straight-line function of stdlib_impl.cpp (csg, shapes, "
      "transforms: 56 functions incl. the vector operator overloads) as a Coq function over a term language on every run "
      "(Gen/Stdlib_gen.v); theorems about those generated definitions, over the reals, for parameters given as arbitrary "
      "position-independent terms: construction through the Tree constructors denotes the term (build_denote); union / "
      "intersection / difference / inverse are set operations on inside-ness and outside-ness; move, reflect, symmetric, scale, "
      "rotate carry the solid by the documented point map (rotations are isometries fixing the centre); sphere, circle, "
      "rectangle, boxes, extrusion, cylinder, cone, torus, half-space are negative exactly on their documented open sets; "
      "sphere and box_exact return the signed Euclidean distance (closest-point characterisation, inside and outside).  Tie: "
      "the DAG the C++ functions (and the C entry points of libfive_stdlib.h) build equals, node for node modulo sharing, the DAG "
      "the generated model builds through Tree/Build.v, for random compositions with constant and free-variable parameters; "
      "values against the model's reference denotation.  Oracle: an independent Python statement of the documentation "
      "(documented sets, forward point maps inverted numerically, closest-point distances) against the implementation's "
      "evaluation at points away from the boundary.",
      "Trusted: Coq kernel + classical real axioms; translate/gen_stdlib.py; extraction; harness; the documented-set oracle; the sense "
      "of rotation about each axis is taken from the library's behaviour (the header does not state it).",
      "source-to-Coq translation + Coq proof (real analysis, nra) + DAG-exact correspondence",
      "DESIGN.md section 6, C18")

claim("C19", "proof",
      "Coq theorems: the descending-dimension search of solveBounded returns a position inside the box whenever the corner "
      "candidates have comparable errors (bounds merely ordered), returns a pinned candidate when a face candidate is "
      "comparable, with a refutation showing the comparability premise is necessary; over the reals the QEF error is a "
      "sum of squared residuals (>= 0) for every sample list and accumulation is permutation-invariant (matrices equal).  "
      "Tie: for every generated sample set / box the 3^N candidates produced by the implementation's solveConstrained<i> "
      "are fed to the extracted search model, which must select the candidate solveBounded returns, bit for bit.  Oracle: "
      "in-box, on-face, error >= 0 and == QEF::error(position, value), unconstrained optimum kept, order independence.",
      "Trusted: Coq kernel; Eigen's SelfAdjointEigenSolver (the constrained solve is an oracle of the model); extraction; harness.",
      "Coq proof (search invariants; bilinear algebra over lists) + candidate-replay correspondence",
      "DESIGN.md section 6, C19")

claim("C20", "proof",
      "Translator tie (finish protocol): ProgressHandler::finish, the constructor and the destructor are re-read from progress.cpp on every run (Gen/ProgressFinish_gen.v) and finish is proved to be the model's repaired h_finish (C20_finish_from_source; the code before 1e07ca0 generates the old one).  Coq theorems: the build phase's announced total is the size of the full 2^N-ary tree; for every shape of pruned / "
      "collapsed / ambiguous cells and EVERY order of tick events the counter ends exactly at the total and never overshoots; "
      "exactly one child arrival completes an ambiguous cell; the walk phase ticks exactly the live cells (singletons "
      "excluded, with the all-singleton branch refuted as non-terminating); ObjectPool::reset's block striding is a "
      "permutation of the blocks for every worker count and the (repaired) nested reset ticks num_blocks, with the old code "
      "refuted; the reported fraction is in [0,1], monotone in counters and phases, and exactly 1 on completion; finish() is "
      "idempotent and never unlocks an unlocked mutex, with the old code refuted.  Tie: announced totals of the implementation "
      "== the extracted model's (T(3, level); live cells of the implementation's own tree shape dumped between the phases), "
      "final counters == totals.  Oracle: Mesh::render with a recording handler over random shapes x 3 algorithms x workers "
      "1..16 x resolutions incl. root-is-a-leaf renders; finish twice, destroy before / during a phase under a watchdog.",
      "Trusted: Coq kernel (no axioms); extraction; harness RecHandler; OS schedules are sampled, the theorems cover all tick orders.",
      "Coq proof (tree induction, permutation invariance, Q arithmetic) + extraction-based correspondence",
      "DESIGN.md section 6, C20")
