(* Driver for the extracted interval model.  The iops record is binary32 on
   doubles; the Boost primitives are re-implemented with outward rounding to
   binary32 (diagnostic only: flags are compared exactly, bounds of the
   primitives libfive does not compute itself only loosely). *)
open Imodel

let r32 (x : float) : float = Int32.float_of_bits (Int32.bits_of_float x)
let hex32 (x : float) = Printf.sprintf "%08lx" (Int32.bits_of_float x)
let of_hex32 (s : string) : float = Int32.float_of_bits (Int32.of_string ("0x" ^ s))

(* neighbours in binary32 *)
let succ32 x =
  if Float.is_nan x || x = infinity then x
  else if x = 0.0 then Int32.float_of_bits 1l
  else let b = Int32.bits_of_float x in
    if x > 0.0 then Int32.float_of_bits (Int32.add b 1l) else Int32.float_of_bits (Int32.sub b 1l)
let pred32 x = -. (succ32 (-. x))
let down x = if Float.is_nan x then x else let r = r32 x in if r > x then pred32 r else r
let up x = if Float.is_nan x then x else let r = r32 x in if r < x then succ32 r else r

let rec z_of_int n : z =
  if n = 0 then Z0 else if n > 0 then Zpos (pos_of_int n) else Zneg (pos_of_int (-n))
and pos_of_int n : positive =
  if n = 1 then XH else if n land 1 = 0 then XO (pos_of_int (n / 2)) else XI (pos_of_int (n / 2))
let rec int_of_pos = function XH -> 1 | XO p -> 2 * int_of_pos p | XI p -> 2 * int_of_pos p + 1
let int_of_z = function Z0 -> 0 | Zpos p -> int_of_pos p | Zneg p -> - (int_of_pos p)

let clamp_int (x : float) : int =
  (* C cast of an out-of-range / NaN float to int is INT_MIN on x86 *)
  if Float.is_nan x || x >= 2147483648.0 || x < -2147483648.0 then -2147483648 else int_of_float x

let pi32 = r32 (4.0 *. atan 1.0)
let iops : float iops = {
  i_ltb = (fun a b -> a < b); i_leb = (fun a b -> a <= b); i_eqb = (fun a b -> a = b);
  i_zero = 0.0; i_one = 1.0; i_mone = -1.0; i_pinf = infinity; i_ninf = neg_infinity;
  i_pi = pi32; i_negpi = -. pi32; i_neghalfpi = r32 (-. 2.0 *. atan 1.0); i_halfpi = r32 (2.0 *. atan 1.0);
  i_isnan = Float.is_nan; i_isfinite = Float.is_finite;
  i_trunc = (fun x -> z_of_int (clamp_int x));
  i_floor_int = (fun x -> z_of_int (clamp_int (Float.floor x)));
  i_of_Z = (fun z -> r32 (float_of_int (int_of_z z)));
  i_fmin = (fun a b -> if Float.is_nan a then b else if Float.is_nan b then a else Float.min a b);
  i_fmax = (fun a b -> if Float.is_nan a then b else if Float.is_nan b then a else Float.max a b);
  i_atan2 = (fun a b -> r32 (Float.atan2 a b));
}

let mul4 (al, ah) (bl, bh) =
  let p x y = if (x = 0.0 && Float.is_integer y = false && Float.abs y = infinity) || (y = 0.0 && Float.abs x = infinity) then 0.0 else x *. y in
  let c = [p al bl; p al bh; p ah bl; p ah bh] in
  (down (List.fold_left Float.min infinity c), up (List.fold_left Float.max neg_infinity c))

let mono f (l, h) = (down (f l), up (f h))
let bprims : float bprims = {
  b_add = (fun (al, ah) (bl, bh) -> (down (al +. bl), up (ah +. bh)));
  b_sub = (fun (al, ah) (bl, bh) -> (down (al -. bh), up (ah -. bl)));
  b_mul = mul4;
  b_div = (fun a (bl, bh) -> mul4 a (1.0 /. bh, 1.0 /. bl));
  b_min = (fun (al, ah) (bl, bh) -> (Float.min al bl, Float.min ah bh));
  b_max = (fun (al, ah) (bl, bh) -> (Float.max al bl, Float.max ah bh));
  b_hull = (fun (al, ah) (bl, bh) -> (Float.min al bl, Float.max ah bh));
  b_neg = (fun (l, h) -> (-. h, -. l));
  b_abs = (fun (l, h) -> if l >= 0.0 then (l, h) else if h <= 0.0 then (-. h, -. l) else (0.0, Float.max (-. l) h));
  b_square = (fun (l, h) -> if l >= 0.0 then (down (l *. l), up (h *. h)) else if h <= 0.0 then (down (h *. h), up (l *. l))
               else (0.0, up (Float.max (l *. l) (h *. h))));
  b_sqrt = (fun (l, h) -> (down (sqrt (Float.max l 0.0)), up (sqrt h)));
  b_sin = (fun _ -> (-1.0, 1.0)); b_cos = (fun _ -> (-1.0, 1.0)); b_tan = (fun _ -> (neg_infinity, infinity));
  b_asin = mono asin; b_acos = (fun (l, h) -> (down (acos h), up (acos l))); b_atan = mono atan;
  b_exp = mono exp; b_log = mono log;
  b_recip = (fun (l, h) -> if l <= 0.0 && h >= 0.0 then (neg_infinity, infinity) else (down (1.0 /. h), up (1.0 /. l)));
  b_pow = (fun (l, h) _ -> (neg_infinity, infinity));
  b_nth_root = (fun (l, h) _ -> (neg_infinity, infinity));
  b_scale = (fun (l, h) s -> if s >= 0.0 then (down (l *. s), up (h *. s)) else (down (h *. s), up (l *. s)));
  b_empty = (nan, nan);
}

let opname = function
  | INVALID -> "INVALID" | CONSTANT -> "CONSTANT" | VAR_X -> "VAR_X" | VAR_Y -> "VAR_Y"
  | VAR_Z -> "VAR_Z" | VAR_FREE -> "VAR_FREE" | CONST_VAR -> "CONST_VAR"
  | OP_SQUARE -> "OP_SQUARE" | OP_SQRT -> "OP_SQRT" | OP_NEG -> "OP_NEG" | OP_SIN -> "OP_SIN"
  | OP_COS -> "OP_COS" | OP_TAN -> "OP_TAN" | OP_ASIN -> "OP_ASIN" | OP_ACOS -> "OP_ACOS"
  | OP_ATAN -> "OP_ATAN" | OP_EXP -> "OP_EXP" | OP_ABS -> "OP_ABS" | OP_LOG -> "OP_LOG"
  | OP_RECIP -> "OP_RECIP" | OP_ADD -> "OP_ADD" | OP_MUL -> "OP_MUL" | OP_MIN -> "OP_MIN"
  | OP_MAX -> "OP_MAX" | OP_SUB -> "OP_SUB" | OP_DIV -> "OP_DIV" | OP_ATAN2 -> "OP_ATAN2"
  | OP_POW -> "OP_POW" | OP_NTH_ROOT -> "OP_NTH_ROOT" | OP_MOD -> "OP_MOD"
  | OP_NANFILL -> "OP_NANFILL" | OP_COMPARE -> "OP_COMPARE" | ORACLE -> "ORACLE"
let op_of_name s = List.find (fun o -> opname o = s) all_opcodes

let () =
  try
    while true do
      let line = input_line stdin in
      match List.filter (fun s -> s <> "") (String.split_on_char ' ' (String.trim line)) with
      | [id; "un"; op; al; ah; an] ->
          let a = { iv = (of_hex32 al, of_hex32 ah); nanf = (an = "1") } in
          let r = ieval_un iops bprims (op_of_name op) a in
          Printf.printf "%s I %s %s %d %s\n" id (hex32 (fst r.iv)) (hex32 (snd r.iv)) (if r.nanf then 1 else 0)
            (match state_of iops r with EMPTY -> "E" | FILLED -> "F" | AMBIGUOUS -> "A")
      | [id; "bin"; op; al; ah; an; bl; bh; bn] ->
          let a = { iv = (of_hex32 al, of_hex32 ah); nanf = (an = "1") } in
          let b = { iv = (of_hex32 bl, of_hex32 bh); nanf = (bn = "1") } in
          let r = ieval_bin iops bprims (op_of_name op) a b in
          Printf.printf "%s I %s %s %d %s\n" id (hex32 (fst r.iv)) (hex32 (snd r.iv)) (if r.nanf then 1 else 0)
            (match state_of iops r with EMPTY -> "E" | FILLED -> "F" | AMBIGUOUS -> "A")
      | _ -> ()
    done
  with End_of_file -> ()
