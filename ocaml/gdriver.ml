(* C03 / C10 grid driver:
     dcgrid i,j,k ...        -> GM tris=<n> verts=<distinct vertices>
     contourgrid i,j ...     -> GC segs=<n> verts=<n> contours=<n> open=<n>  *)
open Gmodel
let rec pos_of_int n = if n = 1 then XH else if n land 1 = 0 then XO (pos_of_int (n / 2)) else XI (pos_of_int (n / 2))
let z_of_int n = if n = 0 then Z0 else if n > 0 then Zpos (pos_of_int n) else Zneg (pos_of_int (-n))
let () =
  let case_id = ref "" and cmd = ref 0 in
  try while true do
    let line = input_line stdin in
    let toks = List.filter (fun s -> s <> "") (String.split_on_char ' ' (String.trim line)) in
    (match toks with
     | [] -> ()
     | "case" :: id :: _ -> case_id := id; cmd := 0
     | ["end"] -> ()
     | c :: rest ->
       incr cmd;
       let out s = Printf.printf "%s %d %s\n" !case_id !cmd s in
       (try match c with
         | "dcgrid" ->
             let pts = List.map (fun s -> match String.split_on_char ',' s with
                 | [a; b; c] -> ((z_of_int (int_of_string a), z_of_int (int_of_string b)), z_of_int (int_of_string c))
                 | _ -> failwith "pt") rest in
             let m = dc_mesh (ins_of pts) (fun _ -> true) (edges_of pts) in
             let vs = Hashtbl.create 64 in
             List.iter (fun ((a, b), c) -> Hashtbl.replace vs a (); Hashtbl.replace vs b (); Hashtbl.replace vs c ()) m;
             out (Printf.sprintf "GM tris=%d verts=%d" (List.length m) (Hashtbl.length vs))
         | "contourgrid" ->
             let pts = List.map (fun s -> match String.split_on_char ',' s with
                 | [a; b] -> (z_of_int (int_of_string a), z_of_int (int_of_string b))
                 | _ -> failwith "pt") rest in
             let soup = contour_soup (filled_in pts) (edges_of0 pts) in
             let vs = Hashtbl.create 64 in
             List.iter (fun (a, b) -> Hashtbl.replace vs a (); Hashtbl.replace vs b ()) soup;
             let polys = collect (renum (canon_idx soup) soup) in
             let is_open l = match l with [] -> true | x :: _ -> List.length l < 2 || x <> List.nth l (List.length l - 1) in
             out (Printf.sprintf "GC segs=%d verts=%d contours=%d open=%d" (List.length soup) (Hashtbl.length vs)
                    (List.length polys) (List.length (List.filter is_open polys)))
         | _ -> out ("ERR unknown " ^ c)
       with e -> out ("ERR " ^ Printexc.to_string e)))
  done with End_of_file -> ()
