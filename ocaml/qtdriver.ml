(* C10 adaptive-quadtree driver.  One command per case:
     quadtree <H> pre <tree tokens> post <tree tokens> segs <a>b ...
   tree tokens (preorder): B | E | F | A,<level>,<mask>,<manifold>,<vertex_count>,<index0>,<index1>
   Answer:
     QM collect_equal=<b> walk_equal=<b> cons_pre=<b> cons_post=<b> bclear=<b> conflicts=<n>
        segs=<model segment count> collapsed=<collapsed leaves in post> mixed=<collapsed leaves with a finer ambiguous neighbour>
   - the lattice signs [ins] are read off the UNCOLLAPSED tree (unit leaves give their corners, pruned cells
     all the points they contain); a point that receives both signs is a conflict;
   - collect_equal: Render/QuadTree.collect on the uncollapsed tree, with the numerical oracle read off the
     collapsed tree (a cell passes iff it lies at or below a collapsed leaf of the implementation), gives
     exactly the implementation's collapsed tree;
   - walk_equal: the model's dual walk over the implementation's collapsed tree emits exactly the
     implementation's directed segments (as multisets, vertices named through leaf->index). *)
open Qtmodel
let rec pos_of_int n = if n = 1 then XH else if n land 1 = 0 then XO (pos_of_int (n / 2)) else XI (pos_of_int (n / 2))
let z_of_int n = if n = 0 then Z0 else if n > 0 then Zpos (pos_of_int n) else Zneg (pos_of_int (-n))
let rec int_of_pos = function XH -> 1 | XO p -> 2 * int_of_pos p | XI p -> 2 * int_of_pos p + 1
let int_of_z = function Z0 -> 0 | Zpos p -> int_of_pos p | Zneg p -> - (int_of_pos p)
let rec nat_of_int n = if n <= 0 then O else S (nat_of_int (n - 1))
let rec int_of_nat = function O -> 0 | S n -> 1 + int_of_nat n

(* parse a preorder token list; returns the tree, the (path, index0, index1, level) list of its ambiguous leaves, the rest *)
let rec parse toks path acc =
  match toks with
  | "B" :: r ->
      let (c0, r, acc) = parse r (0 :: path) acc in
      let (c1, r, acc) = parse r (1 :: path) acc in
      let (c2, r, acc) = parse r (2 :: path) acc in
      let (c3, r, acc) = parse r (3 :: path) acc in
      (QB (c0, c1, c2, c3), r, acc)
  | "E" :: r -> (QE, r, acc)
  | "F" :: r -> (QF, r, acc)
  | tok :: r when String.length tok > 2 && tok.[0] = 'A' ->
      (match String.split_on_char ',' tok with
       | [_; lvl; mask; mf; _; i0; i1] ->
           let l = int_of_string lvl in
           (QA (nat_of_int l, z_of_int (int_of_string mask), mf = "1"), r,
            (path, int_of_string i0, int_of_string i1, l) :: acc)
       | _ -> failwith "leaf token")
  | t :: _ -> failwith ("tree token " ^ t)
  | [] -> failwith "tree ends early"

let () =
  let case_id = ref "" and cmd = ref 0 in
  try while true do
    let line = input_line stdin in
    let toks = List.filter (fun s -> s <> "") (String.split_on_char ' ' (String.trim line)) in
    (match toks with
     | [] -> ()
     | "case" :: id :: _ -> case_id := id; cmd := 0
     | ["end"] -> ()
     | c :: rest ->
       incr cmd;
       let out s = Printf.printf "%s %d %s\n" !case_id !cmd s in
       (try match c, rest with
         | "quadtree", h :: "pre" :: r ->
             let hh = int_of_string h in
             let (pre, r, _) = parse r [] [] in
             let r = (match r with "post" :: r -> r | _ -> failwith "post expected") in
             let (post, r, leaves) = parse r [] [] in
             let segs = (match r with "segs" :: r -> r | _ -> failwith "segs expected") in
             let isegs = List.map (fun s -> match String.split_on_char '>' s with
                 | [a; b] -> (int_of_string a, int_of_string b) | _ -> failwith "seg") segs in
             (* lattice signs from the uncollapsed tree *)
             let tbl : (int * int, bool) Hashtbl.t = Hashtbl.create 1024 in
             let conflicts = ref 0 in
             let set p v = (match Hashtbl.find_opt tbl p with
                            | Some w when w <> v -> incr conflicts
                            | _ -> Hashtbl.replace tbl p v) in
             let rec fill t (ox, oy) k =
               let sz = 1 lsl k in
               match t with
               | QE | QF -> for i = 0 to sz do for j = 0 to sz do set (ox + i, oy + j) (t = QF) done done
               | QA (_, m, _) ->
                   let mi = int_of_z m in
                   List.iter (fun c -> set (ox + sz * (c land 1), oy + sz * (c lsr 1)) ((mi lsr c) land 1 = 1)) [0; 1; 2; 3]
               | QB (c0, c1, c2, c3) ->
                   let s2 = sz / 2 in
                   fill c0 (ox, oy) (k - 1); fill c1 (ox + s2, oy) (k - 1);
                   fill c2 (ox, oy + s2) (k - 1); fill c3 (ox + s2, oy + s2) (k - 1) in
             fill pre (0, 0) hh;
             let ins (p : z * z) = (match Hashtbl.find_opt tbl (int_of_z (fst p), int_of_z (snd p)) with Some v -> v | None -> false) in
             let org = (Z0, Z0) in
             let cons_pre = consistentb ins pre org (nat_of_int hh) in
             let cons_post = consistentb ins post org (nat_of_int hh) in
             let bclear = boundary_clearb ins (nat_of_int hh) in
             (* numerical oracle from the collapsed tree *)
             let collapsed = List.filter (fun (_, _, _, l) -> l > 0) leaves in
             let cpaths = List.map (fun (p, _, _, _) -> p) collapsed in
             let rec tails l = l :: (match l with [] -> [] | _ :: r -> tails r) in
             let ok (p : z list) = let ip = List.map int_of_z p in List.exists (fun q -> List.mem q cpaths) (tails ip) in
             let coll = collect ok (nat_of_int hh) [] pre in
             let collect_equal = qtree_eqb coll post in
             (* the walk *)
             let msegs = contour_walk post in
             let idx (p, vi) =
               let ip = List.map int_of_z p in
               (match List.find_opt (fun (q, _, _, _) -> q = ip) leaves with
                | Some (_, i0, i1, _) -> if int_of_z vi = 0 then i0 else if int_of_z vi = 1 then i1 else -1
                | None -> -2) in
             let m2 = List.sort compare (List.map (fun (u, v) -> (idx u, idx v)) msegs) in
             let i2 = List.sort compare isegs in
             (* collapsed leaves with a strictly finer ambiguous neighbour: a segment joining leaves of different levels *)
             let lvl_of (p, _) = let ip = List.map int_of_z p in
               (match List.find_opt (fun (q, _, _, _) -> q = ip) leaves with Some (_, _, _, l) -> l | None -> -1) in
             let mixed = List.length (List.filter (fun (u, v) -> lvl_of u <> lvl_of v) msegs) in
             out (Printf.sprintf "QM collect_equal=%b walk_equal=%b cons_pre=%b cons_post=%b bclear=%b conflicts=%d segs=%d collapsed=%d mixed=%d height=%d"
                    collect_equal (m2 = i2) cons_pre cons_post bclear !conflicts (List.length msegs)
                    (List.length collapsed) mixed (int_of_nat (height post)))
         | _ -> out ("ERR unknown " ^ c)
       with e -> out ("ERR " ^ Printexc.to_string e)))
  done with End_of_file -> ()
