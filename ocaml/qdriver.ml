(* Replays QEF<N>::solveBounded's descending-dimension search through the extracted
   model on the candidates the implementation's solveConstrained<i> produced. *)
open Qmodel
let rec nat_of_int n = if n <= 0 then O else S (nat_of_int (n - 1))
let rec int_of_nat = function O -> 0 | S n -> 1 + int_of_nat n
let of_hex64 s = Int64.float_of_bits (Int64.of_string ("0x" ^ s))
let hex64 x = Printf.sprintf "%016Lx" (Int64.bits_of_float x)
let qops : float qops = { q_zero = 0.0; q_one = 1.0; q_mone = -1.0; q_two = 2.0; q_inf = infinity;
  q_add = ( +. ); q_sub = ( -. ); q_mul = ( *. );
  q_ltb = (fun a b -> a < b); q_leb = (fun a b -> a <= b); q_eqb = (fun a b -> a = b) }

let () =
  let cases = Hashtbl.create 64 in
  let order = ref [] in
  (try while true do
      let line = input_line stdin in
      match List.filter (fun s -> s <> "") (String.split_on_char ' ' (String.trim line)) with
      | id :: rest ->
          if not (Hashtbl.mem cases id) then (Hashtbl.add cases id []; order := id :: !order);
          Hashtbl.replace cases id (rest :: Hashtbl.find cases id)
      | [] -> ()
    done with End_of_file -> ());
  List.iter (fun id ->
      let lines = List.rev (Hashtbl.find cases id) in
      let r = List.find (fun l -> List.hd l = "R") lines in
      let u = List.find (fun l -> List.hd l = "U") lines in
      let cs = List.filter (fun l -> List.hd l = "C") lines in
      let bounds = List.map of_hex64 (List.tl r) in
      let n = List.length bounds / 2 in
      let lo = List.filteri (fun i _ -> i < n) bounds and hi = List.filteri (fun i _ -> i >= n) bounds in
      let tbl = Hashtbl.create 32 in
      List.iter (fun l -> match l with
          | _ :: i :: rest ->
              let v = List.map of_hex64 rest in
              Hashtbl.replace tbl (int_of_string i)
                { c_pos = List.filteri (fun k _ -> k < n) v; c_err = List.nth v n; c_tag = nat_of_int (int_of_string i) }
          | _ -> ()) cs;
      let cands j = try Hashtbl.find tbl (int_of_nat j) with Not_found -> { c_pos = []; c_err = nan; c_tag = j } in
      (match u with
       | _ :: "1" :: rest ->
           let v = List.map of_hex64 rest in
           Printf.printf "%s B %s %s tag=U\n" id
             (String.concat " " (List.map hex64 (List.filteri (fun k _ -> k < n) v))) (hex64 (List.nth v n))
       | _ ->
           let res = bounded_search qops (nat_of_int n) lo hi cands in
           Printf.printf "%s B %s %s tag=%d\n" id (String.concat " " (List.map hex64 res.c_pos)) (hex64 res.c_err)
             (int_of_nat res.c_tag))) (List.rev !order)
