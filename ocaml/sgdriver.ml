(* C03 simplex-grid driver:
     sxgrid <n> x,y,z ...   (inside subspace vertices in doubled lattice coordinates)
        -> SM tris=<number of triangles of Render/SimplexGrid.v's simplex_mesh on the n^3 box>  *)
open Sgmodel
let rec pos_of_int n = if n = 1 then XH else if n land 1 = 0 then XO (pos_of_int (n / 2)) else XI (pos_of_int (n / 2))
let z_of_int n = if n = 0 then Z0 else if n > 0 then Zpos (pos_of_int n) else Zneg (pos_of_int (-n))
let rec nat_of_int n = if n <= 0 then O else S (nat_of_int (n - 1))
let rec int_of_nat = function O -> 0 | S n -> 1 + int_of_nat n
let () =
  let case_id = ref "" and cmd = ref 0 in
  try while true do
    let line = input_line stdin in
    let toks = List.filter (fun s -> s <> "") (String.split_on_char ' ' (String.trim line)) in
    (match toks with
     | [] -> ()
     | "case" :: id :: _ -> case_id := id; cmd := 0
     | ["end"] -> ()
     | c :: rest ->
       incr cmd;
       let out s = Printf.printf "%s %d %s\n" !case_id !cmd s in
       (try match c, rest with
         | "sxgrid", n :: pts ->
             let n = int_of_string n in
             (* the model's [ins] is a function of the ENCODED vertex; membership through a hash table of the
                encodings of the inside points (same function as SimplexGridSem.ins_of, computed faster) *)
             let tbl = Hashtbl.create 1024 in
             let nn = nat_of_int n in
             List.iter (fun s -> match String.split_on_char ',' s with
                 | [a; b; c] ->
                     let p = ((z_of_int (int_of_string a), z_of_int (int_of_string b)), z_of_int (int_of_string c)) in
                     Hashtbl.replace tbl (int_of_nat (enc nn p)) ()
                 | _ -> failwith "pt") pts;
             let ins v = Hashtbl.mem tbl (int_of_nat v) in
             (* simplex_mesh nn ins = mesh ins (flat_map (simplex_tets nn) (all_edges nn)), and mesh is itself a
                flat_map over the tets: its length is the sum over the lattice edges.  Summing edge by edge keeps the
                unary vertex numbers of one edge alive at a time (the whole mesh at once needs gigabytes). *)
             let total = List.fold_left (fun acc (a, p) -> acc + List.length (mesh ins (simplex_tets nn a p))) 0 (all_edges nn) in
             out (Printf.sprintf "SM tris=%d" total)
         | _ -> out ("ERR unknown " ^ c)
       with e -> out ("ERR " ^ Printexc.to_string e)))
  done with End_of_file -> ()
