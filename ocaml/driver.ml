(* Driver for the extracted expression-core model: reads the same case files as
   harness/expr.cpp and prints one answer line per query in the same grammar.
   Numbers: IEEE binary32 emulated on doubles (every + - * / sqrt result is
   rounded to binary32, which is correctly rounded for these operations), or
   plain doubles for the reference denotation.  No Extract Constant anywhere:
   the [ops] record is an ordinary argument of the extracted functions. *)
open Model

let rec nat_of_int n = if n <= 0 then O else S (nat_of_int (n - 1))
let rec int_of_nat = function O -> 0 | S n -> 1 + int_of_nat n

let r32 (x : float) : float = Int32.float_of_bits (Int32.bits_of_float x)
let hex32 (x : float) = Printf.sprintf "%08lx" (Int32.bits_of_float x)
let of_hex32 (s : string) : float = Int32.float_of_bits (Int32.of_string ("0x" ^ s))
let hex64 (x : float) = Printf.sprintf "%016Lx" (Int64.bits_of_float x)

let opname = function
  | INVALID -> "INVALID" | CONSTANT -> "CONSTANT" | VAR_X -> "VAR_X" | VAR_Y -> "VAR_Y"
  | VAR_Z -> "VAR_Z" | VAR_FREE -> "VAR_FREE" | CONST_VAR -> "CONST_VAR"
  | OP_SQUARE -> "OP_SQUARE" | OP_SQRT -> "OP_SQRT" | OP_NEG -> "OP_NEG" | OP_SIN -> "OP_SIN"
  | OP_COS -> "OP_COS" | OP_TAN -> "OP_TAN" | OP_ASIN -> "OP_ASIN" | OP_ACOS -> "OP_ACOS"
  | OP_ATAN -> "OP_ATAN" | OP_EXP -> "OP_EXP" | OP_ABS -> "OP_ABS" | OP_LOG -> "OP_LOG"
  | OP_RECIP -> "OP_RECIP" | OP_ADD -> "OP_ADD" | OP_MUL -> "OP_MUL" | OP_MIN -> "OP_MIN"
  | OP_MAX -> "OP_MAX" | OP_SUB -> "OP_SUB" | OP_DIV -> "OP_DIV" | OP_ATAN2 -> "OP_ATAN2"
  | OP_POW -> "OP_POW" | OP_NTH_ROOT -> "OP_NTH_ROOT" | OP_MOD -> "OP_MOD"
  | OP_NANFILL -> "OP_NANFILL" | OP_COMPARE -> "OP_COMPARE" | ORACLE -> "ORACLE"
let op_of_name s = List.find (fun o -> opname o = s) all_opcodes

(* the kernels of eval_array.cpp on one slot; [rd] rounds every result *)
let mk_ops (rd : float -> float) : float ops =
  let un op a = match op with
    | OP_SQUARE -> rd (a *. a) | OP_SQRT -> rd (sqrt a) | OP_NEG -> -. a
    | OP_SIN -> rd (sin a) | OP_COS -> rd (cos a) | OP_TAN -> rd (tan a)
    | OP_ASIN -> rd (asin a) | OP_ACOS -> rd (acos a) | OP_ATAN -> rd (atan a)
    | OP_EXP -> rd (exp a) | OP_ABS -> Float.abs a | OP_LOG -> rd (log a)
    | OP_RECIP -> rd (1.0 /. a) | CONST_VAR -> a
    | _ -> nan in
  let bin op a b = match op with
    | OP_ADD -> rd (a +. b) | OP_MUL -> rd (a *. b)
    | OP_MIN -> if b < a then b else a       (* cwiseMin: (b < a) ? b : a *)
    | OP_MAX -> if a < b then b else a
    | OP_SUB -> rd (a -. b) | OP_DIV -> rd (a /. b)
    | OP_ATAN2 -> rd (Float.atan2 a b)
    | OP_POW -> rd (Float.pow a b)
    | OP_NTH_ROOT ->
        if a < 0.0 then
          (* Interval::nth_root on a point interval: odd root of a negative base *)
          (let n = Float.to_int b in
           if n land 1 = 1 then rd (-. (Float.pow (-. a) (1.0 /. b))) else nan)
        else rd (Float.pow a (rd (1.0 /. b)))
    | OP_MOD ->
        let d = Float.abs (rd (a /. b)) in
        let d = if (a < 0.0) <> (b < 0.0) then -. (Float.ceil d) else Float.floor d in
        let o = rd (a -. rd (b *. d)) in
        let o = if (b > 0.0 && o > b) || (b < 0.0 && o < b) then b else o in
        if (b > 0.0 && o < 0.0) || (b < 0.0 && o > 0.0) then 0.0 else o
    | OP_NANFILL -> if Float.is_nan a then b else a
    | OP_COMPARE -> if a < b then -1.0 else if a > b then 1.0 else 0.0
    | _ -> nan in
  { o_un = un; o_bin = bin; o_zero = 0.0; o_one = 1.0;
    o_eqb = (fun a b -> a = b); o_ltb = (fun a b -> a < b); o_isnan = Float.is_nan }

let f32 = mk_ops r32
let f64 = mk_ops (fun x -> x)
(* conditioning probe (stochastic arithmetic): binary32 whose every rounded result is moved by
   one ulp up or down, pseudo-randomly but reproducibly; the spread of a result over a few noise
   seeds estimates how much binary32 rounding (libm differences, fused multiply-add) can move it *)
let f32_noisy (seed : int) : float ops =
  let noise_state = ref (seed * 7919 + 1) in
  let bump y =
    noise_state := (!noise_state * 1103515245 + 12345) land 0x3fffffff;
    if Float.is_finite y && y <> 0.0 then
      (if (!noise_state lsr 13) land 1 = 0
       then Int32.float_of_bits (Int32.add (Int32.bits_of_float y) 1l)
       else Int32.float_of_bits (Int32.sub (Int32.bits_of_float y) 1l))
    else y in
  let base = mk_ops (fun x ->
    let y = r32 x in
    if y <> x then bump y else (noise_state := (!noise_state * 1103515245 + 12345) land 0x3fffffff; y)) in   (* only results that were actually rounded *)
  (* ... except for the kernels the implementation does not round correctly (Eigen's vectorised pow gives
     pow(-5.5, 4) = 915.0627 where the exact 915.0625 is representable): those are always moved *)
  let plain = mk_ops r32 in
  let inexact_un = [OP_SIN; OP_COS; OP_TAN; OP_ASIN; OP_ACOS; OP_ATAN; OP_EXP; OP_LOG] in
  let inexact_bin = [OP_POW; OP_NTH_ROOT; OP_ATAN2] in
  { base with
    o_un = (fun op a -> if List.mem op inexact_un then bump (plain.o_un op a) else base.o_un op a);
    o_bin = (fun op x y -> if List.mem op inexact_bin then bump (plain.o_bin op x y) else base.o_bin op x y) }

(* sign-of-zero probe: binary32 in which every zero result is +0 (Eigen's AVX-512 negation is 0 - a,
   so -(+0) is +0 there and -0 elsewhere; atan2(+-0, negative) is +-pi) *)
let f32_poszero : float ops =
  let b = mk_ops r32 in
  let z v = if v = 0.0 then 0.0 else v in
  { b with o_un = (fun op a -> z (b.o_un op a)); o_bin = (fun op x y -> z (b.o_bin op x y)) }

(* ... and the mirror image, every zero result -0: atan2(+0, -0) = pi but atan2(+0, +0) = 0 *)
let f32_negzero : float ops =
  let b = mk_ops r32 in
  let z v = if v = 0.0 then (-0.0) else v in
  { b with o_un = (fun op a -> z (b.o_un op a)); o_bin = (fun op x y -> z (b.o_bin op x y)) }

(* shadow arenas: the same build commands replayed with other arithmetics (plain doubles, noisy
   binary32), so that constants FOLDED AT BUILD TIME (Tree::unary / Tree::binary on constants) are
   covered by the stability probe too: tan(exp(64)) feeding acos, mod of folded constants, ... *)
type shadow = { so : float ops; sa : float arena ref; shh : int array ref;
                sv : (int, int) Hashtbl.t; mutable sok : bool }
let new_shadows () =
  List.map (fun o -> { so = o; sa = ref (init_arena o); shh = ref [||]; sv = Hashtbl.create 8; sok = true })
    [mk_ops (fun x -> x); f32_noisy 101; f32_noisy 102; f32_noisy 103; f32_poszero; f32_negzero]

(* ---- canonical DAG dump (identical grammar in harness/expr.cpp) ---- *)
let dump_dag (a : float arena) (root : int) (var_index : int -> int) : string =
  let arr = Array.of_list a in
  let num = Hashtbl.create 64 in
  let buf = Buffer.create 256 in
  let next = ref 0 in
  let rec go i =
    match Hashtbl.find_opt num i with
    | Some k -> k
    | None ->
      let s = match arr.(i) with
        | NConst c -> "c" ^ hex32 c
        | NNullary VAR_X -> "X" | NNullary VAR_Y -> "Y" | NNullary VAR_Z -> "Z"
        | NNullary VAR_FREE -> Printf.sprintf "v%d" (var_index i)
        | NNullary op -> "n." ^ opname op
        | NUnary (op, x) -> let kx = go (int_of_nat x) in Printf.sprintf "u.%s.%d" (opname op) kx
        | NBinary (op, x, y) ->
            let kx = go (int_of_nat x) in let ky = go (int_of_nat y) in
            Printf.sprintf "b.%s.%d.%d" (opname op) kx ky
        | NOracle k -> Printf.sprintf "o%d" (int_of_nat k)
        | NOracleT (x, y, z, u) ->
            let ku = go (int_of_nat u) in let kx = go (int_of_nat x) in
            let ky = go (int_of_nat y) in let kz = go (int_of_nat z) in
            Printf.sprintf "T.%d.%d.%d.%d" ku kx ky kz
        | NRemap (x, y, z, t) ->
            let kx = go (int_of_nat x) in let ky = go (int_of_nat y) in
            let kz = go (int_of_nat z) in let kt = go (int_of_nat t) in
            Printf.sprintf "R.%d.%d.%d.%d" kx ky kz kt
        | NApply (v, e, t) ->
            let kv = go (int_of_nat v) in let ke = go (int_of_nat e) in
            let kt = go (int_of_nat t) in
            Printf.sprintf "A.%d.%d.%d" kv ke kt
        | NInvalid -> "I" in
      let k = !next in incr next; Hashtbl.add num i k;
      if Buffer.length buf > 0 then Buffer.add_char buf ' ';
      Buffer.add_string buf s; k in
  ignore (go root); Buffer.contents buf

(* load a dump back into an arena (for stage-wise checks that start from the
   implementation's own artefact) *)
let load_dag (o : float ops) (toks : string list) : float arena * int * (int, int) Hashtbl.t =
  let a = ref (init_arena o) in
  let ids = ref [||] in
  let vars = Hashtbl.create 8 in
  let push n = let i = List.length !a in a := !a @ [n]; i in
  let tbl = Hashtbl.create 64 in
  let k = ref 0 in
  List.iter (fun tok ->
    let get j = Hashtbl.find tbl (int_of_string j) in
    let id =
      if tok = "X" then 0 else if tok = "Y" then 1 else if tok = "Z" then 2
      else if tok = "I" then 3
      else match tok.[0] with
        | 'c' -> push (NConst (of_hex32 (String.sub tok 1 8)))
        | 'v' -> let vi = int_of_string (String.sub tok 1 (String.length tok - 1)) in
                 let i = push (NNullary VAR_FREE) in Hashtbl.replace vars i vi; i
        | 'o' -> push (NOracle (nat_of_int (int_of_string (String.sub tok 1 (String.length tok - 1)))))
        | _ ->
          (match String.split_on_char '.' tok with
           | ["u"; op; x] -> push (NUnary (op_of_name op, nat_of_int (get x)))
           | ["b"; op; x; y] -> push (NBinary (op_of_name op, nat_of_int (get x), nat_of_int (get y)))
           | ["T"; u; x; y; z] -> push (NOracleT (nat_of_int (get x), nat_of_int (get y), nat_of_int (get z), nat_of_int (get u)))
           | ["R"; x; y; z; t] -> push (NRemap (nat_of_int (get x), nat_of_int (get y), nat_of_int (get z), nat_of_int (get t)))
           | ["A"; v; e; t] -> push (NApply (nat_of_int (get v), nat_of_int (get e), nat_of_int (get t)))
           | ["n"; op] -> push (NNullary (op_of_name op))
           | _ -> failwith ("bad token " ^ tok)) in
    Hashtbl.add tbl !k id; incr k; ids := Array.append !ids [|id|]) toks;
  (!a, !ids.(Array.length !ids - 1), vars)

let dump_deck (d : float deck) (var_index : int -> int) : string =
  let cl c = Printf.sprintf "%s:%d:%d:%d" (opname c.c_op) (int_of_nat c.c_id) (int_of_nat c.c_a) (int_of_nat c.c_b) in
  Printf.sprintf "num=%d root=%d X=%d Y=%d Z=%d tape=[%s] consts=[%s] vars=[%s]"
    (int_of_nat d.d_num) (int_of_nat d.d_root) (int_of_nat d.d_X) (int_of_nat d.d_Y) (int_of_nat d.d_Z)
    (String.concat " " (List.map cl d.d_tape))
    (String.concat " " (List.sort compare (List.map (fun (s, c) -> Printf.sprintf "%d=%s" (int_of_nat s) (hex32 c)) d.d_consts)))
    (String.concat " " (List.sort compare (List.map (fun (s, v) -> Printf.sprintf "%d=v%d" (int_of_nat s) (var_index (int_of_nat v))) d.d_vars)))

let dump_tape (t : tape) : string =
  let cl c = Printf.sprintf "%s:%d:%d:%d" (opname c.c_op) (int_of_nat c.c_id) (int_of_nat c.c_a) (int_of_nat c.c_b) in
  Printf.sprintf "root=%d term=%d tape=[%s]" (int_of_nat t.t_root) (if t.t_terminal then 1 else 0)
    (String.concat " " (List.map cl t.t_clauses))

let parse_clause s =
  match String.split_on_char ':' s with
  | [op; i; a; b] -> { c_op = op_of_name op; c_id = nat_of_int (int_of_string i);
                       c_a = nat_of_int (int_of_string a); c_b = nat_of_int (int_of_string b) }
  | _ -> failwith "clause"

(* N <-> int *)
let rec pos_of_int n : positive =
  if n = 1 then XH else if n land 1 = 0 then XO (pos_of_int (n lsr 1)) else XI (pos_of_int (n lsr 1))
let n_of_int n : n = if n = 0 then N0 else Npos (pos_of_int n)
let rec int_of_pos = function XH -> 1 | XO p -> 2 * int_of_pos p | XI p -> 2 * int_of_pos p + 1
let int_of_n = function N0 -> 0 | Npos p -> int_of_pos p
let enc_f32 (x : float) : n = n_of_int ((Int32.to_int (Int32.bits_of_float x)) land 0xFFFFFFFF)
let dec_f32 (b : n) : float = Int32.float_of_bits (Int32.of_int (int_of_n b))
let unhex (h : string) : n list =
  if h = "-" then [] else List.init (String.length h / 2) (fun i -> n_of_int (int_of_string ("0x" ^ String.sub h (2 * i) 2)))
let tohex (b : n list) : string =
  if b = [] then "-" else String.concat "" (List.map (fun c -> Printf.sprintf "%02x" (int_of_n c)) b)

let no_oracle _ _ _ _ = nan

(* C16: user oracles.  Oracle g wraps the expression with arena id oracle_tbl.(g); it answers
   with that expression's value through its own pipeline (the harness' ExprOracle owns an
   Evaluator of the wrapped tree).  Wrapped expressions are oracle-free. *)
let oracle_tbl : (int, int) Hashtbl.t = Hashtbl.create 8
let oracle_arena : float arena ref = ref []
let rec osem_of (o : float ops) (g : nat) (x : float) (y : float) (z : float) : float =
  match Hashtbl.find_opt oracle_tbl (int_of_nat g) with
  | None -> nan
  | Some e ->
      let (a1, r) = optimized o !oracle_arena (nat_of_int e) in
      let d = mk_deck a1 r in
      tape_value o no_oracle d d.d_tape d.d_root (fun _ -> 0.0) x y z

let rec length_nat = function [] -> O | _ :: r -> S (length_nat r)

(* the oracle_at of the deck of (a, root), as Eval/OracleEval.v's [evaluator] builds it *)
let oracle_at_of (o : float ops) (a : float arena) (d : float deck) =
  let fuel = nat_of_int 64 in   (* nesting depth of transformed oracles *)
  fun k px py pz ->
    match List.nth_opt d.d_oracles (int_of_nat k) with
    | Some (_, id) -> oracle_obj o (osem_of o) fuel a id px py pz
    | None -> nan

(* value of handle [h] through the full pipeline in arithmetic [o] *)
let eval_pipeline (o : float ops) (optimize : bool) (a : float arena) (h : int)
    (varval : int -> float) (x : float) (y : float) (z : float) : float =
  if Hashtbl.length oracle_tbl = 0 then begin
    let (a1, r) = if optimize then optimized o a (nat_of_int h) else flatten o a (nat_of_int h) in
    let d = mk_deck a1 r in
    tape_value o no_oracle d d.d_tape d.d_root (fun v -> varval (int_of_nat v)) x y z
  end else
    (* Eval/OracleEval.v's evaluator optimises the tree itself, like Deck::Deck(Tree) *)
    evaluator o (osem_of o) (nat_of_int 64) a (nat_of_int h) (fun v -> varval (int_of_nat v)) x y z

let () =
  let a = ref (init_arena f32) in
  let handles = ref [||] in
  let optflag = Hashtbl.create 16 in   (* handle index -> TREE_FLAG_IS_OPTIMIZED *)
  let varidx = Hashtbl.create 8 in      (* arena id -> creation index *)
  let nvars = ref 0 in
  let case_id = ref "" in
  let cmd = ref 0 in
  let add_handle i = handles := Array.append !handles [|i|] in
  let h s = !handles.(int_of_string s) in
  let noflags = ref false in
  let live_handles () = List.filter (fun i -> i >= 0) (Array.to_list !handles) in
  let statics = [0; 1; 2; 3; 4] in
  let valid l = List.for_all (fun s -> h s >= 0) l in
  let var_index i = try Hashtbl.find varidx i with Not_found -> -1 in
  let out s = Printf.printf "%s %d %s\n" !case_id !cmd s in
  let set (res : float arena * nat) = a := fst res; add_handle (int_of_nat (snd res)) in
  let shadows = ref (new_shadows ()) in
  (* replay one handle-producing command in a shadow; anything unsupported invalidates the shadow *)
  let shadow_step (sh : shadow) (c : string) (rest : string list) =
    let push i = sh.shh := Array.append !(sh.shh) [|i|] in
    let hh s = let i = int_of_string s in if i >= 0 && i < Array.length !(sh.shh) then !(sh.shh).(i) else -1 in
    let setr (res : float arena * nat) = sh.sa := fst res; push (int_of_nat (snd res)) in
    let n x = nat_of_int (hh x) in
    (try
      (match c, rest with
       | "const", [hx] -> setr (mk_const !(sh.sa) (of_hex32 hx))
       | "x", [] -> setr (mk_nullary !(sh.sa) VAR_X)
       | "y", [] -> setr (mk_nullary !(sh.sa) VAR_Y)
       | "z", [] -> setr (mk_nullary !(sh.sa) VAR_Z)
       | "var", [] ->
           let res = mk_var !(sh.sa) in
           Hashtbl.replace sh.sv (int_of_nat (snd res)) (Hashtbl.length sh.sv); setr res
       | "un", [op; l] when hh l >= 0 -> setr (mk_unary sh.so !(sh.sa) (op_of_name op) (n l))
       | "bin", [op; l; r] when hh l >= 0 && hh r >= 0 -> setr (mk_bin sh.so !(sh.sa) (op_of_name op) (n l) (n r))
       | "remap", [t; x; y; z] when List.for_all (fun q -> hh q >= 0) [t; x; y; z] ->
           setr (mk_remap !(sh.sa) (n t) (n x) (n y) (n z))
       | "apply", [t; v; e] when List.for_all (fun q -> hh q >= 0) [t; v; e] ->
           (match mk_apply !(sh.sa) (n t) (n v) (n e) with Some res -> setr res | None -> push (-1))
       | "flatten", [t] when hh t >= 0 -> setr (flatten sh.so !(sh.sa) (n t))
       | "opt", [t] when hh t >= 0 -> setr (optimized sh.so !(sh.sa) (n t))
       | "copy", [t] -> push (hh t)
       (* an oracle denotes the expression it wraps: for the purpose of the shadows (numerical fragility of folded constants
          and values) it IS that expression *)
       | ("oracle" | "soracle"), [t] when hh t >= 0 -> push (hh t)
       | ("std" | "cstd"), k :: hs when List.for_all (fun q -> hh q >= 0) hs ->
           (match std_dispatch sh.so (nat_of_int (int_of_string k)) (List.map (fun q -> SH (n q)) hs) with
            | Some e -> setr (build sh.so e !(sh.sa))
            | None -> push (-1))
       | _ -> push (-1); sh.sok <- false)
    with _ -> push (-1); sh.sok <- false) in
  (try
    while true do
      let line = input_line stdin in
      let toks = List.filter (fun s -> s <> "") (String.split_on_char ' ' (String.trim line)) in
      (match toks with
       | [] -> ()
       | "case" :: id :: _ ->
           case_id := id; cmd := 0; a := init_arena f32; handles := [||]; Hashtbl.reset optflag; noflags := false;
           Hashtbl.reset oracle_tbl;
           Hashtbl.reset varidx; nvars := 0;
           shadows := new_shadows ()
       | ["end"] ->
           incr cmd;
           if !noflags then begin
             handles := Array.map (fun _ -> -1) !handles;
             out (Printf.sprintf "END live=%d"
                    (int_of_nat (live_count !a (List.map nat_of_int []) (List.map nat_of_int statics)) - List.length statics))
           end
       | c :: rest ->
         incr cmd;
         let nh_before = Array.length !handles in
         (try
           (match c, rest with
            | "capi", [] -> noflags := true
            | "nullary", [op] ->
                (match (try Some (op_of_name op) with Not_found -> None) with
                 | Some o when (match args o with Some O -> true | _ -> false) -> set (mk_nullary !a o)
                 | _ -> add_handle (-1))
            | ("un" | "bin" | "remap" | "apply" | "opt" | "flatten" | "copy" | "saveload" | "descend"), _
              when !noflags && (let hs = (match c, rest with
                                          | "un", [_; l] -> [l] | "bin", [_; l; r] -> [l; r]
                                          | "remap", l -> l | "apply", l -> l | "descend", [t; _] -> [t]
                                          | _, [t] -> [t] | _ -> []) in not (valid hs)) ->
                add_handle (-1)
            | ("un" | "bin"), op :: _ when !noflags && (try ignore (op_of_name op); false with Not_found -> true) ->
                add_handle (-1)
            | "un", [op; _] when !noflags && (match args (op_of_name op) with Some (S O) -> false | _ -> true) -> add_handle (-1)
            | "bin", [op; _; _] when !noflags && (match args (op_of_name op) with Some (S (S O)) -> false | _ -> true) -> add_handle (-1)
            | "copy", [t] -> add_handle (h t)
            | "descend", [t; k] ->
                (* the handle moves to a child of its node: new handle on the child, old handle gone *)
                let i = h t in
                let k = int_of_string k in
                let j = (match getn !a (nat_of_int i) with
                         | NUnary (_, x) -> int_of_nat x
                         | NBinary (_, x, y) -> int_of_nat (if k mod 2 = 0 then x else y)
                         | NRemap (x, y, z, u) -> int_of_nat (List.nth [x; y; z; u] (k mod 4))
                         | NApply (v, e, u) -> int_of_nat (List.nth [v; e; u] (k mod 3))
                         | _ -> i) in
                !handles.(int_of_string t) <- -1; add_handle j
            | "print", [_] -> ()
            | "delete", [t] -> !handles.(int_of_string t) <- -1
            | "saveload", [t] ->
                let sh = { sh_tree = nat_of_int (h t); sh_name = []; sh_doc = []; sh_vars = [] } in
                let (a1, bytes) = serialize f32 enc_f32 !a [sh] in
                let (a2, loaded) = deserialize f32 dec_f32 a1 bytes in
                (match loaded with
                 | s0 :: _ -> a := a2; add_handle (int_of_nat s0.sh_tree)
                 | [] -> add_handle (-1))
            | "check", [] ->
                let hs = List.map nat_of_int (live_handles ()) in
                let st = List.map nat_of_int statics in
                let rcs = Array.to_list (Array.map (fun i ->
                    if i < 0 then "-" else string_of_int (int_of_nat (rc_spec !a hs st (nat_of_int i)))) !handles) in
                out (Printf.sprintf "R %s L %d" (String.concat " " rcs)
                       (int_of_nat (live_count !a hs st) - List.length statics))
            | "eval", [_] when !noflags -> ()
            | "const", [hx] -> set (mk_const !a (of_hex32 hx))
            | "x", [] -> set (mk_nullary !a VAR_X)
            | "y", [] -> set (mk_nullary !a VAR_Y)
            | "z", [] -> set (mk_nullary !a VAR_Z)
            | "var", [] ->
                let res = mk_var !a in
                Hashtbl.replace varidx (int_of_nat (snd res)) !nvars; incr nvars; set res
            | "un", [op; l] -> set (mk_unary f32 !a (op_of_name op) (nat_of_int (h l)))
            | "bin", [op; l; r] -> set (mk_bin f32 !a (op_of_name op) (nat_of_int (h l)) (nat_of_int (h r)))
            | "oracle", [t] ->
                let g = Hashtbl.length oracle_tbl in
                Hashtbl.replace oracle_tbl g (h t);
                set (push !a (NOracle (nat_of_int g)));
                oracle_arena := !a
            | ("std" | "cstd"), k :: hs ->
                if List.exists (fun s -> h s < 0) hs then add_handle (-1) else
                (match std_dispatch f32 (nat_of_int (int_of_string k)) (List.map (fun s -> SH (nat_of_int (h s))) hs) with
                 | Some e -> set (build f32 e !a)
                 | None -> add_handle (-1))
            | "remap", [t; x; y; z] ->
                set (mk_remap !a (nat_of_int (h t)) (nat_of_int (h x)) (nat_of_int (h y)) (nat_of_int (h z)))
            | "apply", [t; v; e] ->
                (match mk_apply !a (nat_of_int (h t)) (nat_of_int (h v)) (nat_of_int (h e)) with
                 | Some res -> set res
                 | None -> if !noflags then add_handle (-1) else (add_handle 3; out "EXC"))
            | "flatten", [t] -> set (flatten f32 !a (nat_of_int (h t)))
            | "opt", [t] ->
                (* Tree::optimized on a handle that carries the flag returns it unchanged *)
                if (not !noflags) && Hashtbl.mem optflag (int_of_string t) then add_handle (h t)
                else begin
                  (* the level fuel of Tree/Optimize.v must suffice (theorem for src_ok_o sources; checked here) *)
                  let (res, oof) = optimized_full f32 !a (nat_of_int (h t)) in
                  if oof then out "OOF";
                  set res
                end;
                Hashtbl.replace optflag (Array.length !handles - 1) true
            | "dump", [t] ->
                out ("D " ^ dump_dag !a (h t) var_index);
                (* the same handle in the shadow builds: a structure (folded constants) that depends on
                   rounding noise / the sign of zero is not compared with the implementation's *)
                if Hashtbl.length oracle_tbl = 0 && not !noflags then
                  List.iter (fun sh ->
                    let hi = int_of_string t in
                    if sh.sok && hi < Array.length !(sh.shh) && !(sh.shh).(hi) >= 0 then
                      (try out ("DS " ^ dump_dag !(sh.sa) !(sh.shh).(hi)
                                  (fun i -> match Hashtbl.find_opt sh.sv i with Some k -> k | None -> -1))
                       with _ -> ())) !shadows
            | "eq", [s; t] ->
                let (_, b) = tree_eq f32 !a (nat_of_int (h s)) (nat_of_int (h t)) in
                out (if b then "EQ 1" else "EQ 0")
            | "deck", [t] ->
                let (a1, r) = optimized f32 !a (nat_of_int (h t)) in
                out ("K " ^ dump_deck (mk_deck a1 r) var_index)
            | "eval", t :: xs :: ys :: zs :: vs ->
                let vals = Array.of_list (List.map of_hex32 vs) in
                let varval i = let k = var_index i in
                  if k >= 0 && k < Array.length vals then vals.(k) else 0.0 in
                let x = of_hex32 xs and y = of_hex32 ys and z = of_hex32 zs in
                let v32 = eval_pipeline f32 true !a (h t) varval x y z in
                let v32u = eval_pipeline f32 false !a (h t) varval x y z in
                (* reference denotation in doubles on the un-optimised flattened tree,
                   with the largest intermediate magnitude and a sensitivity estimate *)
                (* doubles that remember whether any operation produced a non-finite result: constants folded
                   while flattening (log(0), pow(-inf, 3)) never show up as slots *)
                let nonfinite = ref false in
                let f64 = mk_ops (fun v -> if not (Float.is_finite v) then nonfinite := true; v) in
                let (a1, r) = if Hashtbl.length oracle_tbl = 0 then flatten f64 !a (nat_of_int (h t))
                              else optimized f64 !a (nat_of_int (h t)) in
                let d = mk_deck a1 r in
                let run vv x y z =
                  let sl = eval_tape f64 (if Hashtbl.length oracle_tbl = 0 then no_oracle else oracle_at_of f64 a1 d) d d.d_tape
                      (set_point d (init_slots f64 d (fun v -> vv (int_of_nat v))) x y z) in
                  (List.nth sl (int_of_nat d.d_root),
                   List.fold_left (fun m v -> if Float.is_nan v then infinity else Float.max m (Float.abs v)) 0.0 sl) in
                let (ref64, mx) = run varval x y z in
                let mx = if !nonfinite then infinity else mx in
                let pert k = fun u -> u *. (1.0 +. k *. 1e-6) +. k *. 1e-7 in
                let sens = List.fold_left (fun s k ->
                    let (r', _) = run (fun i -> pert k (varval i)) (pert k x) (pert (-. k) y) (pert k z) in
                    Float.max s (Float.abs (r' -. ref64))) 0.0 [1.0; -1.0] in
                (* discontinuity probe (mod, compare, branch cuts): a larger perturbation that moves the
                   reference out of proportion marks the point as unstable *)
                let sens = List.fold_left (fun s k ->
                    let (r', _) = run (fun i -> pert k (varval i)) (pert k x) (pert (-. k) y) (pert k z) in
                    let d = Float.abs (r' -. ref64) in
                    if d > 20.0 *. Float.abs k *. Float.max s (1e-6 *. (1.0 +. Float.abs ref64)) || Float.is_nan d
                    then Float.max s 1e30 else s) sens [30.0; -30.0; 300.0; -300.0] in
                (* rounding-noise probe: spread of the un-optimised binary32 value under one-ulp noise *)
                let dist v = if Float.is_nan v && Float.is_nan v32u then 0.0
                             else if Float.is_nan v || Float.is_nan v32u then infinity else Float.abs (v -. v32u) in
                let noise = List.fold_left (fun acc seed ->
                    let o = f32_noisy seed in
                    Float.max acc (dist (eval_pipeline o false !a (h t) varval x y z))) 0.0 [1; 2; 3; 4; 5; 6; 7; 8] in
                let noise = Float.max noise (dist (eval_pipeline f32_poszero false !a (h t) varval x y z)) in
                let noise = Float.max noise (dist (eval_pipeline f32_negzero false !a (h t) varval x y z)) in
                (* a NaN intermediate in a variant (mod(0,0) once atan2(-0,-0) = -pi has become atan2(0,0) = 0):
                   min / max pass a NaN on or not depending on the operand order, so the point is outside the domain *)
                let nan_in o =
                  if Hashtbl.length oracle_tbl <> 0 then false else
                  (try
                    let (a1, r) = flatten o !a (nat_of_int (h t)) in
                    let d = mk_deck a1 r in
                    List.exists Float.is_nan (eval_tape o no_oracle d d.d_tape
                      (set_point d (init_slots o d (fun v -> varval (int_of_nat v))) x y z))
                  with _ -> false) in
                let noise = if nan_in f32_poszero || nan_in f32_negzero || nan_in (f32_noisy 1) || nan_in (f32_noisy 2) then infinity else noise in
                (* ... and under the shadow builds (doubles, noisy binary32), which also re-fold the constants *)
                let noise =
                  List.fold_left (fun acc sh ->
                    let hi = int_of_string t in
                    if not sh.sok || hi >= Array.length !(sh.shh) || !(sh.shh).(hi) < 0 then acc else
                    let vv i = (match Hashtbl.find_opt sh.sv i with
                                | Some k when k < Array.length vals -> vals.(k) | _ -> 0.0) in
                    (try Float.max acc (dist (eval_pipeline sh.so false !(sh.sa) !(sh.shh).(hi) vv x y z))
                     with _ -> acc)) noise !shadows in
                out (Printf.sprintf "V %s %s %s %s %s %s" (hex32 v32) (hex32 v32u) (hex64 ref64) (hex64 mx) (hex64 sens) (hex64 noise))
            | "archive", nshapes :: rest ->
                (* archive N, then per shape: h name doc nv, then nv pairs (varhandle name); variables in serialisation order *)
                let rest = ref rest in
                let next () = match !rest with x :: r -> rest := r; x | [] -> failwith "archive args" in
                let shapes = List.init (int_of_string nshapes) (fun _ ->
                    let t = h (next ()) in let name = unhex (next ()) in let doc = unhex (next ()) in
                    let nv = int_of_string (next ()) in
                    let vs = List.init nv (fun _ -> let v = h (next ()) in let nm = unhex (next ()) in (nat_of_int v, nm)) in
                    { sh_tree = nat_of_int t; sh_name = name; sh_doc = doc; sh_vars = vs }) in
                let (_, bytes) = serialize f32 enc_f32 !a shapes in
                out ("B " ^ tohex bytes);
                (* the shape trees in the shadow builds (fragile constant folds; see "dump") *)
                List.iteri (fun k shp ->
                  List.iter (fun sh ->
                    (* find the main handle index of this shape's tree *)
                    let hi = ref (-1) in
                    Array.iteri (fun j v -> if v = int_of_nat shp.sh_tree && !hi < 0 then hi := j) !handles;
                    if sh.sok && !hi >= 0 && !hi < Array.length !(sh.shh) && !(sh.shh).(!hi) >= 0 then
                      (try out (Printf.sprintf "DS %d %s" k (dump_dag !(sh.sa) !(sh.shh).(!hi) (fun _ -> 0))) with _ -> ())) !shadows) shapes;
                let (a2, loaded) = deserialize f32 dec_f32 (init_arena f32) bytes in
                out ("N " ^ string_of_int (List.length loaded));
                List.iter (fun sh ->
                    let names = List.sort compare (List.map (fun (_, nm) -> tohex nm) sh.sh_vars) in
                    let sorted = List.sort compare (List.map (fun (v, nm) -> (tohex nm, int_of_nat v)) sh.sh_vars) in
                    let vi i = let rec find k = function [] -> -1 | (_, v) :: r -> if v = i then k else find (k + 1) r in find 0 sorted in
                    out (Printf.sprintf "S name=%s doc=%s vars=%s dump=%s" (tohex sh.sh_name) (tohex sh.sh_doc)
                           (if names = [] then "-" else String.concat "," names)
                           (dump_dag a2 (int_of_nat sh.sh_tree) vi))) loaded
            | "deriv", t :: xs :: ys :: zs :: vs ->
                (* value + gradient through the model's derivative kernels (binary32), the variable
                   partials, and central differences of the reference denotation in doubles *)
                let vals = Array.of_list (List.map of_hex32 vs) in
                let varval i = let k = var_index i in if k >= 0 && k < Array.length vals then vals.(k) else 0.0 in
                let x = of_hex32 xs and y = of_hex32 ys and z = of_hex32 zs in
                let (a1, r) = optimized f32 !a (nat_of_int (h t)) in
                let d = mk_deck a1 r in
                let (v, ((gx, gy), gz)) = deriv_at f32 no_oracle d (fun i -> varval (int_of_nat i)) x y z in
                let vp = List.sort compare (List.map (fun (slot, vid) ->
                    (var_index (int_of_nat vid), var_partial f32 no_oracle d (fun i -> varval (int_of_nat i)) x y z slot)) d.d_vars) in
                (* reference: central differences in doubles on the un-optimised flattened tree *)
                let (a2, r2) = flatten f64 !a (nat_of_int (h t)) in
                let d2 = mk_deck a2 r2 in
                let f vv x y z = tape_value f64 no_oracle d2 d2.d_tape d2.d_root (fun i -> vv (int_of_nat i)) x y z in
                (* a point where some sub-expression is NaN or infinite is outside the property's domain *)
                let all_slots = eval_tape f64 no_oracle d2 d2.d_tape
                    (set_point d2 (init_slots f64 d2 (fun i -> varval (int_of_nat i))) x y z) in
                let defined = List.for_all (fun v -> Float.is_finite v) all_slots in
                let hh = 1e-4 in
                let cd g = (g hh -. g (-. hh)) /. (2.0 *. hh) in
                let cd2 g = (g (2.0 *. hh) -. g (-. 2.0 *. hh)) /. (4.0 *. hh) in
                let dx = cd (fun e -> f varval (x +. e) y z) and dy = cd (fun e -> f varval x (y +. e) z)
                and dz = cd (fun e -> f varval x y (z +. e)) in
                let dx2 = cd2 (fun e -> f varval (x +. e) y z) and dy2 = cd2 (fun e -> f varval x (y +. e) z)
                and dz2 = cd2 (fun e -> f varval x y (z +. e)) in
                let smooth = Float.abs (dx -. dx2) +. Float.abs (dy -. dy2) +. Float.abs (dz -. dz2) in
                let vcd = List.map (fun (k, _) ->
                    cd (fun e -> f (fun i -> if var_index i = k then varval i +. e else varval i) x y z)) vp in
                (* smoothness in each variable: the central difference at twice the step must agree (a min / max
                   switching, or cos(x^2 / v) oscillating, inside the step is not a smooth point) *)
                let vcd = List.map2 (fun (k, _) d1 ->
                    let d2 = cd2 (fun e -> f (fun i -> if var_index i = k then varval i +. e else varval i) x y z) in
                    if Float.abs (d1 -. d2) <= 1e-4 *. (1.0 +. Float.abs d1) then d1 else nan) vp vcd in
                (* the central difference itself loses everything below eps64 * |largest intermediate| / h *)
                let maxabs = List.fold_left (fun m v -> Float.max m (Float.abs v)) 0.0 all_slots in
                let smooth = smooth +. 4.4e-16 *. maxabs /. hh in
                let smooth = if defined then smooth else infinity in
                (* conditioning: how far the model's own gradient moves under one-ulp noise *)
                let spread = List.fold_left (fun acc seed ->
                    let o = f32_noisy seed in
                    let (_, ((nx, ny), nz)) = deriv_at o no_oracle d (fun i -> varval (int_of_nat i)) x y z in
                    let nv = List.map (fun (slot, _) -> var_partial o no_oracle d (fun i -> varval (int_of_nat i)) x y z slot) d.d_vars in
                    let pv = List.map (fun (slot, _) -> var_partial f32 no_oracle d (fun i -> varval (int_of_nat i)) x y z slot) d.d_vars in
                    let df a b = if Float.is_nan a || Float.is_nan b then (if Float.is_nan a && Float.is_nan b then 0.0 else infinity)
                                 else Float.abs (a -. b) in
                    List.fold_left Float.max acc ([df nx gx; df ny gy; df nz gz] @ List.map2 df nv pv)) 0.0 [1; 2; 3; 4; 5; 6; 7; 8; 9; 10; 11; 12] in
                (* an exact min / max tie in the optimised deck: which operand's derivative is returned then
                   depends on the operand order, which the optimiser sorts by pointer *)
                let sl32 = Array.of_list (eval_tape f32 no_oracle d d.d_tape
                    (set_point d (init_slots f32 d (fun i -> varval (int_of_nat i))) x y z)) in
                let tie = List.exists (fun c -> (c.c_op = OP_MIN || c.c_op = OP_MAX) &&
                    (let ia = int_of_nat c.c_a and ib = int_of_nat c.c_b in
                     ia <> ib && ia < Array.length sl32 && ib < Array.length sl32 && sl32.(ia) = sl32.(ib))) d.d_tape in
                let spread = if tie then infinity else spread in
                out (Printf.sprintf "DV %s %s %s %s cd %s %s %s %s vars %s vcd %s cond %s" (hex32 v) (hex32 gx) (hex32 gy) (hex32 gz)
                       (hex64 dx) (hex64 dy) (hex64 dz) (hex64 smooth)
                       (String.concat "," (List.map (fun (k, g) -> Printf.sprintf "%d:%s" k (hex32 g)) vp))
                       (String.concat "," (List.map hex64 vcd)) (hex64 spread))
            (* --- second-stage commands: start from the implementation's artefact --- *)
            | "deckof", dag ->
                let (a1, r, vars) = load_dag f32 dag in
                let vi i = try Hashtbl.find vars i with Not_found -> -1 in
                out ("K " ^ dump_deck (mk_deck a1 (nat_of_int r)) vi)
            | "pushiv", n :: root :: term :: rest ->
                (* pushiv <nslots> <root> <term> <nclauses> clause* then per slot lo hi (hex32) *)
                let n = int_of_string n in
                let nc = int_of_string (List.hd rest) in
                let rest = List.tl rest in
                let cls = List.map parse_clause (List.filteri (fun i _ -> i < nc) rest) in
                let toks = Array.of_list (List.filteri (fun i _ -> i >= nc) rest) in
                let lo = List.init n (fun i -> of_hex32 toks.(3 * i)) and hi = List.init n (fun i -> of_hex32 toks.(3 * i + 1)) in
                let fl = List.init n (fun i -> toks.(3 * i + 2) = "1") in
                let t = { t_clauses = cls; t_root = nat_of_int (int_of_string root); t_terminal = (term = "1") } in
                out ("P " ^ dump_tape (tape_push (nat_of_int n) (keep_interval f32 lo hi fl) t))
            | "getbase", n :: rest ->
                (* getbase <n> (I|P lx ly lz ux uy uz)*n  P x,y,z ...  R lx,ly,lz,ux,uy,uz ... *)
                let n = int_of_string n in
                let toks = Array.of_list rest in
                let lv = List.init n (fun i ->
                    let f k = of_hex32 toks.(7 * i + k) in
                    { l_interval = (toks.(7 * i) = "I");
                      l_lo = ((f 1, f 2), f 3); l_hi = ((f 4, f 5), f 6); l_tape = i }) in
                let rest = List.filteri (fun i _ -> i >= 7 * n) rest in
                let mode = ref "" in
                let outp = Buffer.create 64 in
                List.iter (fun tk ->
                    if tk = "P" || tk = "R" then (mode := tk; Buffer.add_string outp (" " ^ tk))
                    else begin
                      let fs = Array.of_list (List.map of_hex32 (String.split_on_char ',' tk)) in
                      let idx =
                        if !mode = "P" then get_base_idx (in_level f32 ((fs.(0), fs.(1)), fs.(2))) lv
                        else get_base_idx (box_in_level f32 ((fs.(0), fs.(1)), fs.(2)) ((fs.(3), fs.(4)), fs.(5))) lv in
                      Buffer.add_string outp (" " ^ string_of_int (int_of_nat idx))
                    end) rest;
                out ("GB" ^ Buffer.contents outp)
            | "pushpt", n :: root :: term :: rest ->
                let n = int_of_string n in
                let nc = int_of_string (List.hd rest) in
                let rest = List.tl rest in
                let cls = List.map parse_clause (List.filteri (fun i _ -> i < nc) rest) in
                let v = List.map of_hex32 (List.filteri (fun i _ -> i >= nc) rest) in
                let t = { t_clauses = cls; t_root = nat_of_int (int_of_string root); t_terminal = (term = "1") } in
                out ("P " ^ dump_tape (tape_push (nat_of_int n) (keep_point f32 v) t))
            | _ -> out ("ERR unknown command " ^ c))
         with e -> out ("ERR " ^ Printexc.to_string e));
         (* keep the shadows' handle tables in step with the main one *)
         let grown = Array.length !handles - nh_before in
         if grown = 1 then List.iter (fun sh -> shadow_step sh c rest) !shadows
         else if grown <> 0 then List.iter (fun sh -> sh.sok <- false) !shadows)
    done
  with End_of_file -> ())
