(* C03 adaptive-octree driver.  One command per case:
     octree <H> pre <tree tokens> post <tree tokens> tris <a>b>c ...
   tree tokens (preorder): B | E | F | A,<level>,<mask>,<manifold>,<vertex_count>,<index0..3>
   Answer:
     OM collect_equal=<b> walk_equal=<b> cons_pre=<b> cons_post=<b> bclear=<b> conflicts=<n> tris=<n>
        collapsed=<n> mixed=<triangles joining leaves of different levels> closed=<b> height=<n>
   - lattice signs [ins] are read off the UNCOLLAPSED tree; a point that receives both signs is a conflict;
   - collect_equal: Render/OctTree.ocollect on the uncollapsed tree (numerical oracle read off the collapsed tree)
     gives exactly the implementation's collapsed tree;
   - walk_equal: the model's dual walk over the implementation's collapsed tree emits the implementation's
     triangles as a multiset (vertices named through leaf->index), each quad with either diagonal (which one the
     implementation uses depends on vertex positions): the model is run with both diagonal oracles and every
     implementation triangle must be matched by a triangle of one of the two triangulations of its quad. *)
open Otmodel
let rec pos_of_int n = if n = 1 then XH else if n land 1 = 0 then XO (pos_of_int (n / 2)) else XI (pos_of_int (n / 2))
let z_of_int n = if n = 0 then Z0 else if n > 0 then Zpos (pos_of_int n) else Zneg (pos_of_int (-n))
let rec int_of_pos = function XH -> 1 | XO p -> 2 * int_of_pos p | XI p -> 2 * int_of_pos p + 1
let int_of_z = function Z0 -> 0 | Zpos p -> int_of_pos p | Zneg p -> - (int_of_pos p)
let rec nat_of_int n = if n <= 0 then O else S (nat_of_int (n - 1))
let rec int_of_nat = function O -> 0 | S n -> 1 + int_of_nat n

let rec parse toks path acc =
  match toks with
  | "B" :: r ->
      let r = ref r and acc = ref acc and cs = ref [] in
      for i = 0 to 7 do
        let (c, r', acc') = parse !r (i :: path) !acc in
        cs := c :: !cs; r := r'; acc := acc'
      done;
      (match List.rev !cs with
       | [c0; c1; c2; c3; c4; c5; c6; c7] -> (OB (c0, c1, c2, c3, c4, c5, c6, c7), !r, !acc)
       | _ -> failwith "children")
  | "E" :: r -> (OE, r, acc)
  | "F" :: r -> (OF, r, acc)
  | tok :: r when String.length tok > 2 && tok.[0] = 'A' ->
      (match String.split_on_char ',' tok with
       | [_; lvl; mask; mf; _; i0; i1; i2; i3] ->
           let l = int_of_string lvl in
           (OA (nat_of_int l, z_of_int (int_of_string mask), mf = "1"), r,
            (path, [| int_of_string i0; int_of_string i1; int_of_string i2; int_of_string i3 |], l) :: acc)
       | _ -> failwith "leaf token")
  | t :: _ -> failwith ("tree token " ^ t)
  | [] -> failwith "tree ends early"

(* canonical rotation of a triangle (orientation kept) *)
let canon (a, b, c) = if a <= b && a <= c then (a, b, c) else if b <= a && b <= c then (b, c, a) else (c, a, b)

let () =
  let case_id = ref "" and cmd = ref 0 in
  try while true do
    let line = input_line stdin in
    let toks = List.filter (fun s -> s <> "") (String.split_on_char ' ' (String.trim line)) in
    (match toks with
     | [] -> ()
     | "case" :: id :: _ -> case_id := id; cmd := 0
     | ["end"] -> ()
     | c :: rest ->
       incr cmd;
       let out s = Printf.printf "%s %d %s\n" !case_id !cmd s in
       (try match c, rest with
         | "octree", h :: "pre" :: r ->
             let hh = int_of_string h in
             let (pre, r, _) = parse r [] [] in
             let r = (match r with "post" :: r -> r | _ -> failwith "post expected") in
             let (post, r, leaves) = parse r [] [] in
             let tris = (match r with "tris" :: r -> r | _ -> failwith "tris expected") in
             let itris = List.map (fun s -> match String.split_on_char '>' s with
                 | [a; b; c] -> canon (int_of_string a, int_of_string b, int_of_string c) | _ -> failwith "tri") tris in
             let tbl : (int * int * int, bool) Hashtbl.t = Hashtbl.create 4096 in
             let conflicts = ref 0 in
             let set p v = (match Hashtbl.find_opt tbl p with
                            | Some w when w <> v -> incr conflicts
                            | _ -> Hashtbl.replace tbl p v) in
             let rec fill t (ox, oy, oz) k =
               let sz = 1 lsl k in
               match t with
               | OE | OF -> for i = 0 to sz do for j = 0 to sz do for l = 0 to sz do set (ox + i, oy + j, oz + l) (t = OF) done done done
               | OA (_, m, _) ->
                   let mi = int_of_z m in
                   List.iter (fun c -> set (ox + sz * (c land 1), oy + sz * ((c lsr 1) land 1), oz + sz * (c lsr 2)) ((mi lsr c) land 1 = 1))
                     [0; 1; 2; 3; 4; 5; 6; 7]
               | OB (c0, c1, c2, c3, c4, c5, c6, c7) ->
                   let s2 = sz / 2 in
                   List.iteri (fun i c -> fill c (ox + s2 * (i land 1), oy + s2 * ((i lsr 1) land 1), oz + s2 * (i lsr 2)) (k - 1))
                     [c0; c1; c2; c3; c4; c5; c6; c7] in
             fill pre (0, 0, 0) hh;
             let ins (p : (z * z) * z) =
               let ((x, y), zz) = p in
               (match Hashtbl.find_opt tbl (int_of_z x, int_of_z y, int_of_z zz) with Some v -> v | None -> false) in
             let org = ((Z0, Z0), Z0) in
             let cons_pre = oconsistentb ins pre org (nat_of_int hh) in
             let cons_post = oconsistentb ins post org (nat_of_int hh) in
             let bclear = oboundary_clearb ins (nat_of_int hh) in
             let collapsed = List.filter (fun (_, _, l) -> l > 0) leaves in
             let cpaths = List.map (fun (p, _, _) -> p) collapsed in
             let rec tails l = l :: (match l with [] -> [] | _ :: r -> tails r) in
             let ok (p : z list) = let ip = List.map int_of_z p in List.exists (fun q -> List.mem q cpaths) (tails ip) in
             let coll = ocollect ok (nat_of_int hh) [] pre in
             let collect_equal = otree_eqb coll post in
             let ltbl = Hashtbl.create 1024 in
             List.iter (fun (p, idx, l) -> Hashtbl.replace ltbl p (idx, l)) leaves;
             let idx (p, vi) =
               let ip = List.map int_of_z p in
               (match Hashtbl.find_opt ltbl ip with
                | Some (a, _) -> let k = int_of_z vi in if k >= 0 && k < 4 then a.(k) else -1
                | None -> -2) in
             let lvl_of (p, _) = (match Hashtbl.find_opt ltbl (List.map int_of_z p) with Some (_, l) -> l | None -> -1) in
             let conv m = List.map (fun ((a, b), c) -> canon (idx a, idx b, idx c)) m in
             let m1 = mesh_walk (fun _ _ _ _ -> true) post in
             let m0 = mesh_walk (fun _ _ _ _ -> false) post in
             let c1 = conv m1 and c0 = conv m0 in
             (* every implementation triangle is in one of the two triangulations, and the counts agree *)
             let h1 = Hashtbl.create 1024 and h0 = Hashtbl.create 1024 in
             List.iter (fun t -> Hashtbl.replace h1 t (1 + (try Hashtbl.find h1 t with Not_found -> 0))) c1;
             List.iter (fun t -> Hashtbl.replace h0 t (1 + (try Hashtbl.find h0 t with Not_found -> 0))) c0;
             let take h t = (match Hashtbl.find_opt h t with Some n when n > 0 -> Hashtbl.replace h t (n - 1); true | _ -> false) in
             let matched = List.for_all (fun t -> take h1 t || take h0 t) itris in
             (* a quad with a repeated vertex gives one triangle under either diagonal, so the totals can differ between
                the two runs only through the diagonal; the implementation's count must lie between *)
             let n1 = List.length c1 and n0 = List.length c0 and ni = List.length itris in
             let walk_equal = matched && ni <= max n1 n0 && ni >= min n1 n0 in
             let mixed = List.length (List.filter (fun ((a, b), c) -> not (lvl_of a = lvl_of b && lvl_of b = lvl_of c)) m1) in
             out (Printf.sprintf "OM collect_equal=%b walk_equal=%b cons_pre=%b cons_post=%b bclear=%b conflicts=%d tris=%d/%d/%d collapsed=%d mixed=%d closed=%b height=%d"
                    collect_equal walk_equal cons_pre cons_post bclear !conflicts ni n1 n0
                    (List.length collapsed) mixed (oclosed_meshb m1 && oclosed_meshb m0) (int_of_nat (oheight post)))
         | _ -> out ("ERR unknown " ^ c)
       with e -> out ("ERR " ^ Printexc.to_string e)))
  done with End_of_file -> ()
