(* C20 driver: runs the extracted progress-accounting model.
     build N L          -> PB <announced N L> <total_ticks N L>
     walk N <shape>     -> PW <live> <walk_ticks N>      shape: pre-order, B branch (2^N kids follow), L leaf, S singleton
     reset w (na nf)*   -> PR <reset_ticks> <num_blocks> *)
open Pmodel
let rec nat_of_int n = if n <= 0 then O else S (nat_of_int (n - 1))
let int_of_nat n = let rec go acc = function O -> acc | S m -> go (acc + 1) m in go 0 n
let parse_shape (n : int) (s : string) : fcell =
  let pos = ref 0 in
  let rec go () =
    let c = s.[!pos] in incr pos;
    match c with
    | 'L' -> FLeaf | 'S' -> FSing
    | 'B' -> let kids = List.init (1 lsl n) (fun _ -> go ()) in FBranch kids
    | _ -> failwith "shape" in
  go ()
let () =
  let case_id = ref "" and cmd = ref 0 in
  try while true do
    let line = input_line stdin in
    let toks = List.filter (fun s -> s <> "") (String.split_on_char ' ' (String.trim line)) in
    (match toks with
     | [] -> ()
     | "case" :: id :: _ -> case_id := id; cmd := 0
     | ["end"] -> ()
     | c :: rest ->
       incr cmd;
       let out s = Printf.printf "%s %d %s\n" !case_id !cmd s in
       (try match c, rest with
         | "build", [n; l] ->
             let n = nat_of_int (int_of_string n) and l = nat_of_int (int_of_string l) in
             out (Printf.sprintf "PB %d %d" (int_of_nat (announced n l)) (int_of_nat (total_ticks n l)))
         | "walk", [n; sh] ->
             let t = parse_shape (int_of_string n) sh in
             out (Printf.sprintf "PW %d %d" (int_of_nat (live t)) (int_of_nat (walk_ticks (nat_of_int (int_of_string n)) t)))
         | "reset", w :: ps ->
             let rec pairs = function a :: b :: r -> (nat_of_int (int_of_string a), nat_of_int (int_of_string b)) :: pairs r | _ -> [] in
             let pools = pairs ps in
             out (Printf.sprintf "PR %d %d" (int_of_nat (reset_ticks (nat_of_int (int_of_string w)) pools)) (int_of_nat (num_blocks pools)))
         | _ -> out ("ERR unknown " ^ c)
       with e -> out ("ERR " ^ Printexc.to_string e)))
  done with End_of_file -> ()
