(* Replays the trace of evaluator calls recorded from Solver::findRoot through the
   extracted control-flow model: the model's value / gradient oracles answer with the
   implementation's own answers, in order; the model must issue the same setVar
   arguments, make the same number of calls and return the same result. *)
open Smodel

let rec nat_of_int n = if n <= 0 then O else S (nat_of_int (n - 1))
let rec int_of_nat = function O -> 0 | S n -> 1 + int_of_nat n
let r32 (x : float) : float = Int32.float_of_bits (Int32.bits_of_float x)
let hex32 (x : float) = Printf.sprintf "%08lx" (Int32.bits_of_float x)
let of_hex32 (s : string) : float = Int32.float_of_bits (Int32.of_string ("0x" ^ s))

type ev = V of float | G of (int * float) list | Sv of int * float

exception Diverge of string

let () =
  try
    while true do
      let line = input_line stdin in
      match List.filter (fun s -> s <> "") (String.split_on_char ' ' (String.trim line)) with
      | id :: "solve" :: gas :: rest ->
          (* rest: K k1 k2 .. ; V idx:hex .. ; M idx .. ; T trace.. *)
          let sect = Hashtbl.create 4 in
          let cur = ref "" in
          List.iter (fun t -> if List.mem t ["K"; "V"; "M"; "T"] then (cur := t; Hashtbl.replace sect t [])
                      else Hashtbl.replace sect !cur (t :: (try Hashtbl.find sect !cur with Not_found -> []))) rest;
          let get k = List.rev (try Hashtbl.find sect k with Not_found -> []) in
          let keys = List.map int_of_string (get "K") in
          let vars = List.map (fun s -> match String.split_on_char ':' s with
              | [i; h] -> (nat_of_int (int_of_string i), of_hex32 h) | _ -> failwith "var") (get "V") in
          let mask = List.map (fun s -> nat_of_int (int_of_string s)) (get "M") in
          let trace = ref (List.map (fun s ->
              match s.[0] with
              | 'V' -> V (of_hex32 (String.sub s 1 8))
              | 'G' -> G (if String.length s = 1 then [] else
                            List.map (fun e -> match String.split_on_char ':' e with
                                | [i; h] -> (int_of_string i, of_hex32 h) | _ -> failwith "g")
                              (String.split_on_char ',' (String.sub s 1 (String.length s - 1))))
              | 'S' -> (match String.split_on_char ':' (String.sub s 1 (String.length s - 1)) with
                  | [i; h] -> Sv (int_of_string i, of_hex32 h) | _ -> failwith "s")
              | _ -> failwith "trace") (get "T")) in
          let fused = ref None in       (* which rounding of v - step*d the compiler chose *)
          let nv = ref 0 and ng = ref 0 in
          (* v - step * d : separately rounded or contracted into an fma; decided by the trace *)
          let cur_sub = ref (fun a b -> r32 (a -. b)) in
          let pending_mul = ref (0.0, 0.0) in
          let in_trial = ref false in
          let scur = ref [] in
          let sops = {
            s_zero = 0.0; s_eps = r32 1e-6; s_half = 0.5;
            s_fabs = Float.abs; s_ltb = (fun a b -> a < b); s_geb = (fun a b -> a >= b);
            s_isfinite = Float.is_finite;
            s_iszero = (fun x -> x = 0.0);
            s_add = (fun a b -> r32 (a +. b));
            s_sub = (fun a b ->
                (* the subtraction in [trial] directly follows s_mul on (step, d): the model's
                   trial coordinate.  Its last bits depend on compiler choices (fma contraction,
                   powf(x,2) folding), so when the implementation's recorded setVar argument is
                   within tolerance the model continues from the recorded value -- the
                   correspondence is about control flow and protocol, not about those bits *)
                if !in_trial then begin
                  in_trial := false;
                  let (s, d) = !pending_mul in
                  let mine = (match !fused with
                      | Some true -> r32 (Float.fma (-. s) d a)
                      | _ -> r32 (a -. b)) in
                  (match !scur with
                   | x :: r ->
                       scur := r;
                       if x = mine || (Float.is_nan x && Float.is_nan mine)
                          || Float.abs (x -. mine) <= 1e-4 *. (Float.abs a +. Float.abs b) +. 1e-6
                       then x else mine
                   | [] -> mine)
                end else r32 (a -. b));
            s_mul = (fun a b -> pending_mul := (a, b); in_trial := true; r32 (a *. b));
            s_div = (fun a b -> r32 (a /. b));
            s_sq = (fun x -> r32 (x *. x));
            s_halve = (fun x -> r32 (x /. 2.0));      (* binary32: underflows to 0 *)
            s_mul_d = (fun a b -> a *. b);
          } in
          ignore cur_sub;
          let check_sets (e : (nat * float) list) =
            (* consume the S entries preceding the next V and compare with the model's assignment *)
            let rec go () = match !trace with
              | Sv (i, x) :: r ->
                  trace := r;
                  (match List.assoc_opt (nat_of_int i) e with
                   | Some y when List.mem i keys ->
                       (* the compiler may contract v - step*d into an fma and fold powf(x,2):
                          last-bit differences of the trial point are not control flow *)
                       let ulps a b =
                         let k v = let b = Int32.bits_of_float v in
                           if Int32.compare b 0l < 0 then Int32.sub Int32.min_int b else b in
                         Int32.abs (Int32.sub (k a) (k b)) in
                       if not (x = y || (Float.is_nan x && Float.is_nan y)
                               || Int32.compare (ulps x y) 16l <= 0
                               || Float.abs (x -. y) <= 1e-5 *. (Float.abs x +. Float.abs y) +. 2e-6) then
                         raise (Diverge (Printf.sprintf "setVar v%d impl=%s model=%s" i (hex32 x) (hex32 y)))
                   | _ -> ());
                  go ()
              | _ -> () in go () in
          let value (e : (nat * float) list) : float =
            check_sets e;
            match !trace with
            | V x :: r -> trace := r; incr nv; x
            | _ -> raise (Diverge "model asks for a value, trace has none") in
          let gradient (_ : (nat * float) list) : (nat * float) list =
            match !trace with
            | G l :: r -> trace := r; incr ng; List.map (fun (i, x) -> (nat_of_int i, x)) l
            | _ -> raise (Diverge "model asks for a gradient, trace has none") in
          let ev0 = List.map (fun k -> (nat_of_int k, 0.0)) keys in
          let run f =
            fused := Some f;
            let saved = !trace in
            nv := 0; ng := 0; in_trial := false;
            (* the extracted [map] evaluates its tail first (OCaml evaluates constructor
               arguments right to left), so within each trial the coordinates are computed
               in reverse variable order: reverse each block of the recorded arguments *)
            let all = List.filter_map (function Sv (_, x) -> Some x | _ -> None) !trace in
            let nvars = List.length (List.filter (fun (k, _) -> not (List.mem k mask)) vars) in
            let rec blocks l = if l = [] || nvars = 0 then [] else
                let rec take n l acc = if n = 0 then (acc, l) else (match l with x :: r -> take (n - 1) r (x :: acc) | [] -> (acc, [])) in
                let (b, rest) = take nvars l [] in b @ blocks rest in
            scur := blocks all;
            try
              let res = find_root sops value gradient (nat_of_int 100000) (nat_of_int 400)
                  (nat_of_int (int_of_string gas)) ev0 vars mask in
              let left = List.length !trace in
              Ok (res, left)
            with Diverge m -> trace := saved; Error m in
          let res = match run false with
            | Ok r -> Ok r
            | Error m1 -> (match run true with Ok r -> Ok r | Error m2 -> Error (m1 ^ " | fma: " ^ m2)) in
          (match res with
           | Ok (Done (r, vs, _, n), left) ->
               Printf.printf "%s SR r=%s vars=%s grads=%d left=%d\n" id (hex32 r)
                 (String.concat "," (List.map (fun (k, x) -> Printf.sprintf "%d:%s" (int_of_nat k) (hex32 x)) vs))
                 (int_of_nat n) left
           | Ok (OutOfFuel, _) -> Printf.printf "%s SR OUTOFFUEL\n" id
           | Error m -> Printf.printf "%s SR DIVERGE %s\n" id m)
      | _ -> ()
    done
  with End_of_file -> ()
