(* C10 driver: collect nverts (a b)*  ->  CC | v v v | v v ...   (same format as harness/expr.cpp) *)
open Cmodel
let rec nat_of_int n = if n <= 0 then O else S (nat_of_int (n - 1))
let int_of_nat n = let rec go acc = function O -> acc | S m -> go (acc + 1) m in go 0 n
let () =
  let case_id = ref "" and cmd = ref 0 in
  try while true do
    let line = input_line stdin in
    let toks = List.filter (fun s -> s <> "") (String.split_on_char ' ' (String.trim line)) in
    (match toks with
     | [] -> ()
     | "case" :: id :: _ -> case_id := id; cmd := 0
     | ["end"] -> ()
     | c :: rest ->
       incr cmd;
       let out s = Printf.printf "%s %d %s\n" !case_id !cmd s in
       (try match c, rest with
         | "collect", _ :: ps ->
             let rec pairs = function a :: b :: r -> (nat_of_int (int_of_string a), nat_of_int (int_of_string b)) :: pairs r | _ -> [] in
             let polys = collect (pairs ps) in
             out ("CC" ^ String.concat "" (List.map (fun l -> " |" ^ String.concat "" (List.map (fun v -> " " ^ string_of_int (int_of_nat v)) l)) polys))
         | _ -> out ("ERR unknown " ^ c)
       with e -> out ("ERR " ^ Printexc.to_string e)))
  done with End_of_file -> ()
