(* Voxels::View::split chains through the extracted model: "<id> <nx> <ny> <nz> (mask side)*" *)
open Vmodel
let rec nat_of_int n = if n <= 0 then O else S (nat_of_int (n - 1))
let rec int_of_nat = function O -> 0 | S n -> 1 + int_of_nat n
let show v = Printf.sprintf "%d,%d,%d,%d,%d,%d" (int_of_nat v.cx) (int_of_nat v.cy) (int_of_nat v.cz)
    (int_of_nat v.sx) (int_of_nat v.sy) (int_of_nat v.sz)
let () =
  try while true do
      let line = input_line stdin in
      match List.filter (fun s -> s <> "") (String.split_on_char ' ' (String.trim line)) with
      | id :: nx :: ny :: nz :: steps ->
          let v = ref { cx = O; cy = O; cz = O; sx = nat_of_int (int_of_string nx); sy = nat_of_int (int_of_string ny);
                        sz = nat_of_int (int_of_string nz) } in
          let rec go k = function
            | mask :: side :: rest ->
                let m = int_of_string mask in
                let (a, b) = split (m land 1 <> 0) (m land 2 <> 0) (m land 4 <> 0) !v in
                Printf.printf "%s %d VS %s %s\n" id k (show a) (show b);
                v := if side = "1" then b else a;
                if int_of_nat (voxels !v) > 0 then go (k + 1) rest
            | _ -> () in
          go 0 steps
      | _ -> ()
    done with End_of_file -> ()
