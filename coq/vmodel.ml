
type nat =
| O
| S of nat

(** val fst : ('a1 * 'a2) -> 'a1 **)

let fst = function
| (x, _) -> x

(** val length : 'a1 list -> nat **)

let rec length = function
| [] -> O
| _ :: l' -> S (length l')

(** val app : 'a1 list -> 'a1 list -> 'a1 list **)

let rec app l m =
  match l with
  | [] -> m
  | a :: l1 -> a :: (app l1 m)

(** val add : nat -> nat -> nat **)

let rec add n m =
  match n with
  | O -> m
  | S p -> S (add p m)

(** val mul : nat -> nat -> nat **)

let rec mul n m =
  match n with
  | O -> O
  | S p -> add m (mul p m)

(** val sub : nat -> nat -> nat **)

let rec sub n m =
  match n with
  | O -> n
  | S k -> (match m with
            | O -> n
            | S l -> sub k l)

module Nat =
 struct
  (** val leb : nat -> nat -> bool **)

  let rec leb n m =
    match n with
    | O -> true
    | S n' -> (match m with
               | O -> false
               | S m' -> leb n' m')

  (** val ltb : nat -> nat -> bool **)

  let ltb n m =
    leb (S n) m

  (** val min : nat -> nat -> nat **)

  let rec min n m =
    match n with
    | O -> O
    | S n' -> (match m with
               | O -> O
               | S m' -> S (min n' m'))

  (** val divmod : nat -> nat -> nat -> nat -> nat * nat **)

  let rec divmod x y q u =
    match x with
    | O -> (q, u)
    | S x' ->
      (match u with
       | O -> divmod x' y (S q) y
       | S u' -> divmod x' y q u')

  (** val div : nat -> nat -> nat **)

  let div x y = match y with
  | O -> y
  | S y' -> fst (divmod x y' O y')
 end

type view = { cx : nat; cy : nat; cz : nat; sx : nat; sy : nat; sz : nat }

(** val voxels : view -> nat **)

let voxels v =
  mul (mul v.sx v.sy) v.sz

(** val pick_axis : bool -> bool -> bool -> view -> nat **)

let pick_axis mx my mz v =
  let ax = if mx then v.sx else O in
  let ay = if my then v.sy else O in
  let az = if mz then v.sz else O in
  if (&&) (Nat.leb ay ax) (Nat.leb az ax)
  then O
  else if Nat.leb az ay then S O else S (S O)

(** val split : bool -> bool -> bool -> view -> view * view **)

let split mx my mz v =
  match pick_axis mx my mz v with
  | O ->
    let up = Nat.div v.sx (S (S O)) in
    let lo = sub v.sx up in
    ({ cx = v.cx; cy = v.cy; cz = v.cz; sx = lo; sy = v.sy; sz = v.sz },
    { cx = (add v.cx lo); cy = v.cy; cz = v.cz; sx = up; sy = v.sy; sz =
    v.sz })
  | S n ->
    (match n with
     | O ->
       let up = Nat.div v.sy (S (S O)) in
       let lo = sub v.sy up in
       ({ cx = v.cx; cy = v.cy; cz = v.cz; sx = v.sx; sy = lo; sz = v.sz },
       { cx = v.cx; cy = (add v.cy lo); cz = v.cz; sx = v.sx; sy = up; sz =
       v.sz })
     | S _ ->
       let up = Nat.div v.sz (S (S O)) in
       let lo = sub v.sz up in
       ({ cx = v.cx; cy = v.cy; cz = v.cz; sx = v.sx; sy = v.sy; sz = lo },
       { cx = v.cx; cy = v.cy; cz = (add v.cz lo); sx = v.sx; sy = v.sy; sz =
       up }))

(** val partition : nat -> nat -> view list -> view list **)

let rec partition fuel workers rs =
  match fuel with
  | O -> rs
  | S f ->
    (match rs with
     | [] -> []
     | front :: rest ->
       if (&&) (Nat.ltb (length rs) workers)
            (Nat.ltb (S O) (Nat.min front.sx front.sy))
       then let (a, b) = split true true false front in
            partition f workers (app rest (a :: (b :: [])))
       else rs)
