
val negb : bool -> bool

type nat =
| O
| S of nat

val fst : ('a1 * 'a2) -> 'a1

val snd : ('a1 * 'a2) -> 'a2

val length : 'a1 list -> nat

val app : 'a1 list -> 'a1 list -> 'a1 list

type comparison =
| Eq
| Lt
| Gt

val pred : nat -> nat

val add : nat -> nat -> nat

val mul : nat -> nat -> nat

module Nat :
 sig
  val eqb : nat -> nat -> bool

  val leb : nat -> nat -> bool

  val ltb : nat -> nat -> bool
 end

val nth : nat -> 'a1 list -> 'a1 -> 'a1

val rev : 'a1 list -> 'a1 list

val map : ('a1 -> 'a2) -> 'a1 list -> 'a2 list

val flat_map : ('a1 -> 'a2 list) -> 'a1 list -> 'a2 list

val fold_left : ('a1 -> 'a2 -> 'a1) -> 'a2 list -> 'a1 -> 'a1

val fold_right : ('a2 -> 'a1 -> 'a1) -> 'a1 -> 'a2 list -> 'a1

val forallb : ('a1 -> bool) -> 'a1 list -> bool

val filter : ('a1 -> bool) -> 'a1 list -> 'a1 list

val find : ('a1 -> bool) -> 'a1 list -> 'a1 option

val seq : nat -> nat -> nat list

val repeat : 'a1 -> nat -> 'a1 list

type positive =
| XI of positive
| XO of positive
| XH

type n =
| N0
| Npos of positive

module Pos :
 sig
  type mask =
  | IsNul
  | IsPos of positive
  | IsNeg
 end

module Coq_Pos :
 sig
  val succ : positive -> positive

  val add : positive -> positive -> positive

  val add_carry : positive -> positive -> positive

  val pred_double : positive -> positive

  type mask = Pos.mask =
  | IsNul
  | IsPos of positive
  | IsNeg

  val succ_double_mask : mask -> mask

  val double_mask : mask -> mask

  val double_pred_mask : positive -> mask

  val sub_mask : positive -> positive -> mask

  val sub_mask_carry : positive -> positive -> mask

  val mul : positive -> positive -> positive

  val compare_cont : comparison -> positive -> positive -> comparison

  val compare : positive -> positive -> comparison

  val eqb : positive -> positive -> bool

  val iter_op : ('a1 -> 'a1 -> 'a1) -> positive -> 'a1 -> 'a1

  val to_nat : positive -> nat

  val of_succ_nat : nat -> positive
 end

module N :
 sig
  val succ_double : n -> n

  val double : n -> n

  val add : n -> n -> n

  val sub : n -> n -> n

  val mul : n -> n -> n

  val compare : n -> n -> comparison

  val eqb : n -> n -> bool

  val leb : n -> n -> bool

  val pos_div_eucl : positive -> n -> n * n

  val div_eucl : n -> n -> n * n

  val div : n -> n -> n

  val modulo : n -> n -> n

  val to_nat : n -> nat

  val of_nat : nat -> n
 end

type opcode =
| INVALID
| CONSTANT
| VAR_X
| VAR_Y
| VAR_Z
| VAR_FREE
| CONST_VAR
| OP_SQUARE
| OP_SQRT
| OP_NEG
| OP_SIN
| OP_COS
| OP_TAN
| OP_ASIN
| OP_ACOS
| OP_ATAN
| OP_EXP
| OP_ABS
| OP_LOG
| OP_RECIP
| OP_ADD
| OP_MUL
| OP_MIN
| OP_MAX
| OP_SUB
| OP_DIV
| OP_ATAN2
| OP_POW
| OP_NTH_ROOT
| OP_MOD
| OP_NANFILL
| OP_COMPARE
| ORACLE

val all_opcodes : opcode list

val code : opcode -> n

val eND_OF_ITEM : n

val args : opcode -> nat option

val is_commutative : opcode -> bool

val is_idempotent : opcode -> bool

val opcode_eqb : opcode -> opcode -> bool

val of_code : n -> opcode option

type 'num ops = { o_un : (opcode -> 'num -> 'num);
                  o_bin : (opcode -> 'num -> 'num -> 'num); o_zero : 
                  'num; o_one : 'num; o_eqb : ('num -> 'num -> bool);
                  o_ltb : ('num -> 'num -> bool); o_isnan : ('num -> bool) }

val o_neg : 'a1 ops -> 'a1 -> 'a1

val o_add : 'a1 ops -> 'a1 -> 'a1 -> 'a1

val o_sub : 'a1 ops -> 'a1 -> 'a1 -> 'a1

val o_mul : 'a1 ops -> 'a1 -> 'a1 -> 'a1

val o_div : 'a1 ops -> 'a1 -> 'a1 -> 'a1

val o_mone : 'a1 ops -> 'a1

type 'num node =
| NConst of 'num
| NNullary of opcode
| NUnary of opcode * nat
| NBinary of opcode * nat * nat
| NOracle of nat
| NOracleT of nat * nat * nat * nat
| NRemap of nat * nat * nat * nat
| NApply of nat * nat * nat
| NInvalid

type 'num arena = 'num node list

val getn : 'a1 arena -> nat -> 'a1 node

val push : 'a1 arena -> 'a1 node -> 'a1 arena * nat

val idX : nat

val idY : nat

val idZ : nat

val idInvalid : nat

val idOne : nat

val init_arena : 'a1 ops -> 'a1 arena

val mk_const : 'a1 arena -> 'a1 -> 'a1 arena * nat

val mk_nullary : 'a1 arena -> opcode -> 'a1 arena * nat

val mk_var : 'a1 arena -> 'a1 arena * nat

val mk_unary : 'a1 ops -> 'a1 arena -> opcode -> nat -> 'a1 arena * nat

val is_zero : 'a1 ops -> 'a1 -> bool

val is_one : 'a1 ops -> 'a1 -> bool

val is_mone : 'a1 ops -> 'a1 -> bool

val mk_binary :
  'a1 ops -> nat -> 'a1 arena -> opcode -> nat -> nat -> 'a1 arena * nat

val binary_fuel : nat

val mk_bin : 'a1 ops -> 'a1 arena -> opcode -> nat -> nat -> 'a1 arena * nat

type flags = { f_remap : bool; f_oracle : bool; f_xyz : bool }

val f_none : flags

val f_or : flags -> flags -> flags

val getf : flags list -> nat -> flags

val node_flags : flags list -> 'a1 node -> flags

val all_flags : 'a1 arena -> flags list

val flags_of : 'a1 arena -> nat -> flags

val mk_remap : 'a1 arena -> nat -> nat -> nat -> nat -> 'a1 arena * nat

val mk_apply : 'a1 arena -> nat -> nat -> nat -> ('a1 arena * nat) option

type fenv = { fx : nat; fy : nat; fz : nat; fvars : (nat * nat) list }

val fenv0 : fenv

val lookup : (nat * nat) list -> nat -> nat option

val flat : 'a1 ops -> nat -> 'a1 arena -> fenv -> nat -> 'a1 arena * nat

val flatten : 'a1 ops -> 'a1 arena -> nat -> 'a1 arena * nat

type 'num key =
| KNan
| KInv
| KConst of 'num
| KOp of opcode
| KVar of nat
| KUn of opcode * nat
| KBin of opcode * nat * nat
| KUniq of nat

val key_of : 'a1 ops -> 'a1 arena -> nat -> 'a1 key

val key_eqb : 'a1 ops -> 'a1 key -> 'a1 key -> bool

type 'num canon = ('num key * nat) list

type 'num ost = { st_arena : 'num arena; st_canon : 'num canon }

val canon_find : 'a1 ops -> 'a1 canon -> 'a1 key -> nat option

val uniq : 'a1 ops -> 'a1 ost -> nat -> 'a1 ost * nat

val lift_uniq : 'a1 ops -> 'a1 ost -> ('a1 arena * nat) -> 'a1 ost * nat

type 'num cls =
| CAffNeg of nat
| CAffAdd of nat * nat
| CAffSub of nat * nat
| CAffMulL of 'num * nat
| CAffMulR of nat * 'num
| CAffDiv of nat * 'num
| CComm of opcode * nat * nat
| COther

val classify : 'a1 arena -> nat -> 'a1 cls

type 'num amap = (nat * 'num) list

val amap_add : 'a1 ops -> 'a1 amap -> nat -> 'a1 -> 'a1 amap

val add_term : 'a1 ops -> 'a1 ost -> 'a1 amap -> nat -> 'a1 -> 'a1 amap

val insert : ('a1 -> 'a1 -> bool) -> 'a1 -> 'a1 list -> 'a1 list

val isort : ('a1 -> 'a1 -> bool) -> 'a1 list -> 'a1 list

val dedup_adjacent : nat list -> nat list

val fold_comm : 'a1 ops -> 'a1 ost -> opcode -> nat list -> 'a1 ost * nat

val term_lt : 'a1 ops -> (nat * 'a1) -> (nat * 'a1) -> bool

val span_mult :
  'a1 ops -> 'a1 -> (nat * 'a1) list -> nat list * (nat * 'a1) list

val mk_const_uniq : 'a1 ops -> 'a1 ost -> 'a1 -> 'a1 ost * nat

val collapse :
  'a1 ops -> nat -> 'a1 ost -> (nat * 'a1) list -> nat option -> 'a1
  ost * nat option

val collapse_side : 'a1 ops -> 'a1 ost -> (nat * 'a1) list -> 'a1 ost * nat

val rebuild_affine : 'a1 ops -> 'a1 ost -> 'a1 amap -> 'a1 ost * nat

val opt_tree : 'a1 ops -> nat -> 'a1 ost -> nat -> 'a1 ost * nat

val opt_fuel : nat -> nat

val optimized_helper :
  'a1 ops -> 'a1 arena -> 'a1 canon -> nat -> 'a1 ost * nat

val optimized : 'a1 ops -> 'a1 arena -> nat -> 'a1 arena * nat

val tree_eq : 'a1 ops -> 'a1 arena -> nat -> nat -> 'a1 arena * bool

val kids : 'a1 node -> nat list

val upd : 'a1 list -> nat -> ('a1 -> 'a1) -> 'a1 list

val count_pass :
  nat -> 'a1 arena -> bool list -> nat list -> bool list * nat list

val in_degrees : 'a1 arena -> nat -> nat list

val walk_loop :
  nat -> 'a1 arena -> nat list -> nat list -> nat list -> nat list

val walk : 'a1 arena -> nat -> nat list

type clause = { c_op : opcode; c_id : nat; c_a : nat; c_b : nat }

type 'num deck = { d_tape : clause list; d_consts : (nat * 'num) list;
                   d_vars : (nat * nat) list; d_oracles : (nat * nat) list;
                   d_slots : (nat * nat) list; d_X : nat; d_Y : nat;
                   d_Z : nat; d_num : nat; d_root : nat }

val slot_of : (nat * nat) list -> nat -> nat

val has_slot : (nat * nat) list -> nat -> bool

val deck_step : 'a1 arena -> ('a1 deck * nat) -> nat -> 'a1 deck * nat

val deck0 : 'a1 deck

val mk_deck : 'a1 arena -> nat -> 'a1 deck

type 'num slots = 'num list

val sget : 'a1 ops -> 'a1 slots -> nat -> 'a1

val sset : 'a1 slots -> nat -> 'a1 -> 'a1 slots

val eval_clause :
  'a1 ops -> (nat -> 'a1 -> 'a1 -> 'a1 -> 'a1) -> 'a1 deck -> 'a1 slots ->
  clause -> 'a1 slots

val init_slots : 'a1 ops -> 'a1 deck -> (nat -> 'a1) -> 'a1 slots

val set_point : 'a1 deck -> 'a1 slots -> 'a1 -> 'a1 -> 'a1 -> 'a1 slots

val eval_tape :
  'a1 ops -> (nat -> 'a1 -> 'a1 -> 'a1 -> 'a1) -> 'a1 deck -> clause list ->
  'a1 slots -> 'a1 slots

val tape_value :
  'a1 ops -> (nat -> 'a1 -> 'a1 -> 'a1 -> 'a1) -> 'a1 deck -> clause list ->
  nat -> (nat -> 'a1) -> 'a1 -> 'a1 -> 'a1 -> 'a1

type keep =
| KEEP_BOTH
| KEEP_A
| KEEP_B
| KEEP_ALWAYS

type tape = { t_clauses : clause list; t_root : nat; t_terminal : bool }

val bget : bool list -> nat -> bool

val nget : nat list -> nat -> nat

type pstate = { p_dis : bool list; p_remap : nat list; p_term : bool;
                p_changed : bool }

val push_step : (clause -> keep) -> pstate -> clause -> pstate

val chase : nat -> nat list -> nat -> nat

val tape_push : nat -> (clause -> keep) -> tape -> tape

val keep_point : 'a1 ops -> 'a1 list -> clause -> keep

val keep_interval :
  'a1 ops -> 'a1 list -> 'a1 list -> bool list -> clause -> keep

type byte = n

val qUOTE : byte

val bSLASH : byte

val tAG_T : byte

val tAG_t : byte

val esc : byte list -> byte list

val ser_string : byte list -> byte list

val unesc : nat -> byte list -> byte list -> byte list * byte list

val deser_string : byte list -> byte list * byte list

val u32le : n -> byte list

val read_u32 : byte list -> n * byte list

type idmap = (nat * n) list

val id_find : idmap -> nat -> n option

val id_at : idmap -> nat -> n

val ser_node :
  ('a1 -> n) -> 'a1 arena -> (byte list * idmap) -> nat -> byte list * idmap

val ser_tree :
  'a1 ops -> ('a1 -> n) -> 'a1 arena -> nat -> (byte list * idmap) -> ('a1
  arena * nat) * (byte list * idmap)

type shape = { sh_tree : nat; sh_name : byte list; sh_doc : byte list;
               sh_vars : (nat * byte list) list }

val ser_vars : idmap -> (nat * byte list) list -> byte list

val ser_shape :
  'a1 ops -> ('a1 -> n) -> 'a1 arena -> (byte list * idmap) -> shape -> 'a1
  arena * (byte list * idmap)

val serialize :
  'a1 ops -> ('a1 -> n) -> 'a1 arena -> shape list -> 'a1 arena * byte list

val tget : nat list -> n -> nat

val deser_nodes :
  'a1 ops -> (n -> 'a1) -> nat -> 'a1 arena -> nat list -> byte list -> ('a1
  arena * nat list) * byte list

val deser_vars :
  nat -> nat list -> byte list -> (nat * byte list) list -> (nat * byte list)
  list * byte list

val deser_shape :
  'a1 ops -> (n -> 'a1) -> 'a1 arena -> nat list -> byte -> byte list ->
  (('a1 arena * nat list) * shape) * byte list

val deser_shapes :
  'a1 ops -> (n -> 'a1) -> nat -> 'a1 arena -> nat list -> byte list -> shape
  list -> 'a1 arena * shape list

val deserialize :
  'a1 ops -> (n -> 'a1) -> 'a1 arena -> byte list -> 'a1 arena * shape list

type cell = { c_kids : nat list; c_rc : nat; c_alive : bool }

type heap = cell list

val dead : cell

val hget : heap -> nat -> cell

val hset : heap -> nat -> cell -> heap

val inc : heap -> nat -> heap

val dec : heap -> nat -> heap

val alloc : heap -> nat list -> heap * nat

val free : heap -> nat -> heap

val drop_loop : nat -> heap -> nat -> nat list -> heap

val drop : nat -> heap -> nat -> heap

type rop =
| RAlloc of nat list
| RCopy of nat
| RDrop of nat

type rstate = { r_heap : heap; r_handles : nat option list;
                r_statics : nat list }

val hnd : rstate -> nat -> nat option

val rstep : nat -> rstate -> rop -> rstate

val owned : 'a1 node -> nat list

val mark_pass : nat -> 'a1 arena -> bool list -> bool list

val live_set : 'a1 arena -> nat list -> bool list

val count_occ_nat : nat list -> nat -> nat

val rc_spec : 'a1 arena -> nat list -> nat list -> nat -> nat

val live_count : 'a1 arena -> nat list -> nat list -> nat

type 'num dvec = ('num * 'num) * 'num

val d3 : ('a1 -> 'a1) -> 'a1 dvec -> 'a1 dvec

val d3_2 : ('a1 -> 'a1 -> 'a1) -> 'a1 dvec -> 'a1 dvec -> 'a1 dvec

val dzero : 'a1 ops -> 'a1 dvec

val dscale : 'a1 ops -> 'a1 dvec -> 'a1 -> 'a1 dvec

val ddivs : 'a1 ops -> 'a1 dvec -> 'a1 -> 'a1 dvec

val two : 'a1 ops -> 'a1

val sq : 'a1 ops -> 'a1 -> 'a1

val dkern :
  'a1 ops -> bool -> opcode -> 'a1 -> 'a1 -> 'a1 -> 'a1 dvec -> 'a1 dvec ->
  'a1 dvec

type 'num dslots = 'num dvec list

val dget : 'a1 ops -> 'a1 dslots -> nat -> 'a1 dvec

val dset : 'a1 dslots -> nat -> 'a1 dvec -> 'a1 dslots

val dclause :
  'a1 ops -> bool -> 'a1 slots -> 'a1 dslots -> clause -> 'a1 dslots

val deriv_tape :
  'a1 ops -> bool -> clause list -> 'a1 slots -> 'a1 dslots -> 'a1 dslots

val seeds_xyz : 'a1 ops -> 'a1 deck -> 'a1 dslots

val deriv_at :
  'a1 ops -> (nat -> 'a1 -> 'a1 -> 'a1 -> 'a1) -> 'a1 deck -> (nat -> 'a1) ->
  'a1 -> 'a1 -> 'a1 -> 'a1 * 'a1 dvec

val var_partial :
  'a1 ops -> (nat -> 'a1 -> 'a1 -> 'a1 -> 'a1) -> 'a1 deck -> (nat -> 'a1) ->
  'a1 -> 'a1 -> 'a1 -> nat -> 'a1
