
val negb : bool -> bool

type nat =
| O
| S of nat

val fst : ('a1 * 'a2) -> 'a1

val snd : ('a1 * 'a2) -> 'a2

val length : 'a1 list -> nat

module Nat :
 sig
  val add : nat -> nat -> nat

  val mul : nat -> nat -> nat

  val sub : nat -> nat -> nat

  val eqb : nat -> nat -> bool

  val pow : nat -> nat -> nat

  val divmod : nat -> nat -> nat -> nat -> nat * nat

  val div : nat -> nat -> nat

  val modulo : nat -> nat -> nat
 end

val forallb : ('a1 -> bool) -> 'a1 list -> bool

val filter : ('a1 -> bool) -> 'a1 list -> 'a1 list

val combine : 'a1 list -> 'a2 list -> ('a1 * 'a2) list

val repeat : 'a1 -> nat -> 'a1 list

type 'num qops = { q_zero : 'num; q_one : 'num; q_mone : 'num; q_two : 
                   'num; q_inf : 'num; q_add : ('num -> 'num -> 'num);
                   q_sub : ('num -> 'num -> 'num);
                   q_mul : ('num -> 'num -> 'num);
                   q_ltb : ('num -> 'num -> bool);
                   q_leb : ('num -> 'num -> bool);
                   q_eqb : ('num -> 'num -> bool) }

type 'num vec = 'num list

val digits : nat -> nat -> nat list

val dimension : nat -> nat -> nat

val contains : 'a1 qops -> 'a1 vec -> 'a1 vec -> 'a1 vec -> bool

type 'num cand = { c_pos : 'num vec; c_err : 'num; c_tag : nat }

val improves : 'a1 qops -> 'a1 vec -> 'a1 vec -> 'a1 cand -> 'a1 cand -> bool

val sub_pass :
  'a1 qops -> nat -> nat -> 'a1 vec -> 'a1 vec -> (nat -> 'a1 cand) -> nat ->
  'a1 cand -> 'a1 cand

val dim_pass :
  'a1 qops -> nat -> 'a1 vec -> 'a1 vec -> (nat -> 'a1 cand) -> nat -> 'a1
  cand -> 'a1 cand

val bounded_search :
  'a1 qops -> nat -> 'a1 vec -> 'a1 vec -> (nat -> 'a1 cand) -> 'a1 cand
