#!/bin/sh
# full .vo build of the development (no -vos); extra args go to make
cd "$(dirname "$0")"
coq_makefile -f _CoqProject $(find theories -name '*.v' | sort) -o Makefile >/dev/null || exit 2
exec make -j16 "$@"
