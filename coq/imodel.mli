
val negb : bool -> bool

val fst : ('a1 * 'a2) -> 'a1

val snd : ('a1 * 'a2) -> 'a2

type comparison =
| Eq
| Lt
| Gt

val compOpp : comparison -> comparison

type positive =
| XI of positive
| XO of positive
| XH

type n =
| N0
| Npos of positive

type z =
| Z0
| Zpos of positive
| Zneg of positive

module Pos :
 sig
  val pred_double : positive -> positive

  val pred_N : positive -> n

  val compare_cont : comparison -> positive -> positive -> comparison

  val compare : positive -> positive -> comparison

  val eqb : positive -> positive -> bool

  val testbit : positive -> n -> bool
 end

module N :
 sig
  val testbit : n -> n -> bool
 end

module Z :
 sig
  val compare : z -> z -> comparison

  val ltb : z -> z -> bool

  val eqb : z -> z -> bool

  val odd : z -> bool

  val testbit : z -> z -> bool
 end

type opcode =
| INVALID
| CONSTANT
| VAR_X
| VAR_Y
| VAR_Z
| VAR_FREE
| CONST_VAR
| OP_SQUARE
| OP_SQRT
| OP_NEG
| OP_SIN
| OP_COS
| OP_TAN
| OP_ASIN
| OP_ACOS
| OP_ATAN
| OP_EXP
| OP_ABS
| OP_LOG
| OP_RECIP
| OP_ADD
| OP_MUL
| OP_MIN
| OP_MAX
| OP_SUB
| OP_DIV
| OP_ATAN2
| OP_POW
| OP_NTH_ROOT
| OP_MOD
| OP_NANFILL
| OP_COMPARE
| ORACLE

val all_opcodes : opcode list

type 'num iops = { i_ltb : ('num -> 'num -> bool);
                   i_leb : ('num -> 'num -> bool);
                   i_eqb : ('num -> 'num -> bool); i_zero : 'num;
                   i_one : 'num; i_mone : 'num; i_pinf : 'num; i_ninf : 
                   'num; i_pi : 'num; i_negpi : 'num; i_neghalfpi : 'num;
                   i_halfpi : 'num; i_isnan : ('num -> bool);
                   i_isfinite : ('num -> bool); i_trunc : ('num -> z);
                   i_floor_int : ('num -> z); i_of_Z : (z -> 'num);
                   i_fmin : ('num -> 'num -> 'num);
                   i_fmax : ('num -> 'num -> 'num);
                   i_atan2 : ('num -> 'num -> 'num) }

type 'num bnd = 'num * 'num

type 'num bprims = { b_add : ('num bnd -> 'num bnd -> 'num bnd);
                     b_sub : ('num bnd -> 'num bnd -> 'num bnd);
                     b_mul : ('num bnd -> 'num bnd -> 'num bnd);
                     b_div : ('num bnd -> 'num bnd -> 'num bnd);
                     b_min : ('num bnd -> 'num bnd -> 'num bnd);
                     b_max : ('num bnd -> 'num bnd -> 'num bnd);
                     b_hull : ('num bnd -> 'num bnd -> 'num bnd);
                     b_neg : ('num bnd -> 'num bnd);
                     b_abs : ('num bnd -> 'num bnd);
                     b_square : ('num bnd -> 'num bnd);
                     b_sqrt : ('num bnd -> 'num bnd);
                     b_sin : ('num bnd -> 'num bnd);
                     b_cos : ('num bnd -> 'num bnd);
                     b_tan : ('num bnd -> 'num bnd);
                     b_asin : ('num bnd -> 'num bnd);
                     b_acos : ('num bnd -> 'num bnd);
                     b_atan : ('num bnd -> 'num bnd);
                     b_exp : ('num bnd -> 'num bnd);
                     b_log : ('num bnd -> 'num bnd);
                     b_recip : ('num bnd -> 'num bnd);
                     b_pow : ('num bnd -> z -> 'num bnd);
                     b_nth_root : ('num bnd -> z -> 'num bnd);
                     b_scale : ('num bnd -> 'num -> 'num bnd);
                     b_empty : 'num bnd }

type 'num ival = { iv : 'num bnd; nanf : bool }

val lower : 'a1 ival -> 'a1

val upper : 'a1 ival -> 'a1

val mk : 'a1 iops -> 'a1 -> 'a1 -> 'a1 ival

val contains_zero : 'a1 iops -> 'a1 ival -> bool

type state =
| EMPTY
| FILLED
| AMBIGUOUS

val is_filled : 'a1 iops -> 'a1 ival -> bool

val is_empty : 'a1 iops -> 'a1 ival -> bool

val state_of : 'a1 iops -> 'a1 ival -> state

val iadd : 'a1 iops -> 'a1 bprims -> 'a1 ival -> 'a1 ival -> 'a1 ival

val imul : 'a1 iops -> 'a1 bprims -> 'a1 ival -> 'a1 ival -> 'a1 ival

val isub : 'a1 iops -> 'a1 bprims -> 'a1 ival -> 'a1 ival -> 'a1 ival

val idiv : 'a1 iops -> 'a1 bprims -> 'a1 ival -> 'a1 ival -> 'a1 ival

val imin : 'a1 bprims -> 'a1 ival -> 'a1 ival -> 'a1 ival

val imax : 'a1 bprims -> 'a1 ival -> 'a1 ival -> 'a1 ival

val iatan2 : 'a1 iops -> 'a1 ival -> 'a1 ival -> 'a1 ival

val sanitize : 'a1 iops -> 'a1 bnd -> 'a1 bnd

val ipow : 'a1 iops -> 'a1 bprims -> 'a1 ival -> 'a1 ival -> 'a1 ival

val inth_root : 'a1 iops -> 'a1 bprims -> 'a1 ival -> 'a1 ival -> 'a1 ival

val is_inf : 'a1 iops -> 'a1 -> bool

val imod : 'a1 iops -> 'a1 bprims -> 'a1 ival -> 'a1 ival -> 'a1 ival

val inanfill : 'a1 bprims -> 'a1 ival -> 'a1 ival -> 'a1 ival

val icompare : 'a1 iops -> 'a1 ival -> 'a1 ival -> 'a1 ival

val isquare : 'a1 bprims -> 'a1 ival -> 'a1 ival

val isqrt : 'a1 iops -> 'a1 bprims -> 'a1 ival -> 'a1 ival

val ineg : 'a1 bprims -> 'a1 ival -> 'a1 ival

val isin : 'a1 iops -> 'a1 bprims -> 'a1 ival -> 'a1 ival

val icos : 'a1 iops -> 'a1 bprims -> 'a1 ival -> 'a1 ival

val itan : 'a1 iops -> 'a1 bprims -> 'a1 ival -> 'a1 ival

val iasin : 'a1 iops -> 'a1 bprims -> 'a1 ival -> 'a1 ival

val iacos : 'a1 iops -> 'a1 bprims -> 'a1 ival -> 'a1 ival

val iatan : 'a1 iops -> 'a1 bprims -> 'a1 ival -> 'a1 ival

val iexp : 'a1 bprims -> 'a1 ival -> 'a1 ival

val ilog : 'a1 iops -> 'a1 bprims -> 'a1 ival -> 'a1 ival

val iabs : 'a1 bprims -> 'a1 ival -> 'a1 ival

val irecip : 'a1 iops -> 'a1 bprims -> 'a1 ival -> 'a1 ival

val ieval_un : 'a1 iops -> 'a1 bprims -> opcode -> 'a1 ival -> 'a1 ival

val ieval_bin :
  'a1 iops -> 'a1 bprims -> opcode -> 'a1 ival -> 'a1 ival -> 'a1 ival
