
(** val negb : bool -> bool **)

let negb = function
| true -> false
| false -> true

(** val fst : ('a1 * 'a2) -> 'a1 **)

let fst = function
| (x, _) -> x

(** val snd : ('a1 * 'a2) -> 'a2 **)

let snd = function
| (_, y) -> y

type comparison =
| Eq
| Lt
| Gt

(** val compOpp : comparison -> comparison **)

let compOpp = function
| Eq -> Eq
| Lt -> Gt
| Gt -> Lt

type positive =
| XI of positive
| XO of positive
| XH

type n =
| N0
| Npos of positive

type z =
| Z0
| Zpos of positive
| Zneg of positive

module Pos =
 struct
  (** val pred_double : positive -> positive **)

  let rec pred_double = function
  | XI p -> XI (XO p)
  | XO p -> XI (pred_double p)
  | XH -> XH

  (** val pred_N : positive -> n **)

  let pred_N = function
  | XI p -> Npos (XO p)
  | XO p -> Npos (pred_double p)
  | XH -> N0

  (** val compare_cont : comparison -> positive -> positive -> comparison **)

  let rec compare_cont r x y =
    match x with
    | XI p ->
      (match y with
       | XI q -> compare_cont r p q
       | XO q -> compare_cont Gt p q
       | XH -> Gt)
    | XO p ->
      (match y with
       | XI q -> compare_cont Lt p q
       | XO q -> compare_cont r p q
       | XH -> Gt)
    | XH -> (match y with
             | XH -> r
             | _ -> Lt)

  (** val compare : positive -> positive -> comparison **)

  let compare =
    compare_cont Eq

  (** val eqb : positive -> positive -> bool **)

  let rec eqb p q =
    match p with
    | XI p0 -> (match q with
                | XI q0 -> eqb p0 q0
                | _ -> false)
    | XO p0 -> (match q with
                | XO q0 -> eqb p0 q0
                | _ -> false)
    | XH -> (match q with
             | XH -> true
             | _ -> false)

  (** val testbit : positive -> n -> bool **)

  let rec testbit p n0 =
    match p with
    | XI p0 -> (match n0 with
                | N0 -> true
                | Npos n1 -> testbit p0 (pred_N n1))
    | XO p0 -> (match n0 with
                | N0 -> false
                | Npos n1 -> testbit p0 (pred_N n1))
    | XH -> (match n0 with
             | N0 -> true
             | Npos _ -> false)
 end

module N =
 struct
  (** val testbit : n -> n -> bool **)

  let testbit a n0 =
    match a with
    | N0 -> false
    | Npos p -> Pos.testbit p n0
 end

module Z =
 struct
  (** val compare : z -> z -> comparison **)

  let compare x y =
    match x with
    | Z0 -> (match y with
             | Z0 -> Eq
             | Zpos _ -> Lt
             | Zneg _ -> Gt)
    | Zpos x' -> (match y with
                  | Zpos y' -> Pos.compare x' y'
                  | _ -> Gt)
    | Zneg x' ->
      (match y with
       | Zneg y' -> compOpp (Pos.compare x' y')
       | _ -> Lt)

  (** val ltb : z -> z -> bool **)

  let ltb x y =
    match compare x y with
    | Lt -> true
    | _ -> false

  (** val eqb : z -> z -> bool **)

  let eqb x y =
    match x with
    | Z0 -> (match y with
             | Z0 -> true
             | _ -> false)
    | Zpos p -> (match y with
                 | Zpos q -> Pos.eqb p q
                 | _ -> false)
    | Zneg p -> (match y with
                 | Zneg q -> Pos.eqb p q
                 | _ -> false)

  (** val odd : z -> bool **)

  let odd = function
  | Z0 -> false
  | Zpos p -> (match p with
               | XO _ -> false
               | _ -> true)
  | Zneg p -> (match p with
               | XO _ -> false
               | _ -> true)

  (** val testbit : z -> z -> bool **)

  let testbit a = function
  | Z0 -> odd a
  | Zpos p ->
    (match a with
     | Z0 -> false
     | Zpos a0 -> Pos.testbit a0 (Npos p)
     | Zneg a0 -> negb (N.testbit (Pos.pred_N a0) (Npos p)))
  | Zneg _ -> false
 end

type opcode =
| INVALID
| CONSTANT
| VAR_X
| VAR_Y
| VAR_Z
| VAR_FREE
| CONST_VAR
| OP_SQUARE
| OP_SQRT
| OP_NEG
| OP_SIN
| OP_COS
| OP_TAN
| OP_ASIN
| OP_ACOS
| OP_ATAN
| OP_EXP
| OP_ABS
| OP_LOG
| OP_RECIP
| OP_ADD
| OP_MUL
| OP_MIN
| OP_MAX
| OP_SUB
| OP_DIV
| OP_ATAN2
| OP_POW
| OP_NTH_ROOT
| OP_MOD
| OP_NANFILL
| OP_COMPARE
| ORACLE

(** val all_opcodes : opcode list **)

let all_opcodes =
  INVALID :: (CONSTANT :: (VAR_X :: (VAR_Y :: (VAR_Z :: (VAR_FREE :: (CONST_VAR :: (OP_SQUARE :: (OP_SQRT :: (OP_NEG :: (OP_SIN :: (OP_COS :: (OP_TAN :: (OP_ASIN :: (OP_ACOS :: (OP_ATAN :: (OP_EXP :: (OP_ABS :: (OP_LOG :: (OP_RECIP :: (OP_ADD :: (OP_MUL :: (OP_MIN :: (OP_MAX :: (OP_SUB :: (OP_DIV :: (OP_ATAN2 :: (OP_POW :: (OP_NTH_ROOT :: (OP_MOD :: (OP_NANFILL :: (OP_COMPARE :: (ORACLE :: []))))))))))))))))))))))))))))))))

type 'num iops = { i_ltb : ('num -> 'num -> bool);
                   i_leb : ('num -> 'num -> bool);
                   i_eqb : ('num -> 'num -> bool); i_zero : 'num;
                   i_one : 'num; i_mone : 'num; i_pinf : 'num; i_ninf : 
                   'num; i_pi : 'num; i_negpi : 'num; i_neghalfpi : 'num;
                   i_halfpi : 'num; i_isnan : ('num -> bool);
                   i_isfinite : ('num -> bool); i_trunc : ('num -> z);
                   i_floor_int : ('num -> z); i_of_Z : (z -> 'num);
                   i_fmin : ('num -> 'num -> 'num);
                   i_fmax : ('num -> 'num -> 'num);
                   i_atan2 : ('num -> 'num -> 'num) }

type 'num bnd = 'num * 'num

type 'num bprims = { b_add : ('num bnd -> 'num bnd -> 'num bnd);
                     b_sub : ('num bnd -> 'num bnd -> 'num bnd);
                     b_mul : ('num bnd -> 'num bnd -> 'num bnd);
                     b_div : ('num bnd -> 'num bnd -> 'num bnd);
                     b_min : ('num bnd -> 'num bnd -> 'num bnd);
                     b_max : ('num bnd -> 'num bnd -> 'num bnd);
                     b_hull : ('num bnd -> 'num bnd -> 'num bnd);
                     b_neg : ('num bnd -> 'num bnd);
                     b_abs : ('num bnd -> 'num bnd);
                     b_square : ('num bnd -> 'num bnd);
                     b_sqrt : ('num bnd -> 'num bnd);
                     b_sin : ('num bnd -> 'num bnd);
                     b_cos : ('num bnd -> 'num bnd);
                     b_tan : ('num bnd -> 'num bnd);
                     b_asin : ('num bnd -> 'num bnd);
                     b_acos : ('num bnd -> 'num bnd);
                     b_atan : ('num bnd -> 'num bnd);
                     b_exp : ('num bnd -> 'num bnd);
                     b_log : ('num bnd -> 'num bnd);
                     b_recip : ('num bnd -> 'num bnd);
                     b_pow : ('num bnd -> z -> 'num bnd);
                     b_nth_root : ('num bnd -> z -> 'num bnd);
                     b_scale : ('num bnd -> 'num -> 'num bnd);
                     b_empty : 'num bnd }

type 'num ival = { iv : 'num bnd; nanf : bool }

(** val lower : 'a1 ival -> 'a1 **)

let lower a =
  fst a.iv

(** val upper : 'a1 ival -> 'a1 **)

let upper a =
  snd a.iv

(** val mk : 'a1 iops -> 'a1 -> 'a1 -> 'a1 ival **)

let mk i lo hi =
  { iv = (lo, hi); nanf = ((||) (i.i_isnan lo) (i.i_isnan hi)) }

(** val contains_zero : 'a1 iops -> 'a1 ival -> bool **)

let contains_zero i a =
  (&&) (i.i_leb (lower a) i.i_zero) (i.i_leb i.i_zero (upper a))

type state =
| EMPTY
| FILLED
| AMBIGUOUS

(** val is_filled : 'a1 iops -> 'a1 ival -> bool **)

let is_filled i a =
  i.i_ltb (upper a) i.i_zero

(** val is_empty : 'a1 iops -> 'a1 ival -> bool **)

let is_empty i a =
  i.i_ltb i.i_zero (lower a)

(** val state_of : 'a1 iops -> 'a1 ival -> state **)

let state_of i a =
  if a.nanf
  then AMBIGUOUS
  else if is_empty i a
       then EMPTY
       else if is_filled i a then FILLED else AMBIGUOUS

(** val iadd : 'a1 iops -> 'a1 bprims -> 'a1 ival -> 'a1 ival -> 'a1 ival **)

let iadd i b a b0 =
  { iv = (b.b_add a.iv b0.iv); nanf =
    ((||)
      ((||) ((||) a.nanf b0.nanf)
        ((&&) (i.i_eqb (lower a) i.i_ninf) (i.i_eqb (upper b0) i.i_pinf)))
      ((&&) (i.i_eqb (lower b0) i.i_ninf) (i.i_eqb (upper a) i.i_pinf))) }

(** val imul : 'a1 iops -> 'a1 bprims -> 'a1 ival -> 'a1 ival -> 'a1 ival **)

let imul i b a b0 =
  { iv = (b.b_mul a.iv b0.iv); nanf =
    ((||)
      ((||) ((||) a.nanf b0.nanf)
        ((&&)
          ((||) (i.i_eqb (lower a) i.i_ninf) (i.i_eqb (upper a) i.i_pinf))
          (contains_zero i b0)))
      ((&&)
        ((||) (i.i_eqb (lower b0) i.i_ninf) (i.i_eqb (upper b0) i.i_pinf))
        (contains_zero i a))) }

(** val isub : 'a1 iops -> 'a1 bprims -> 'a1 ival -> 'a1 ival -> 'a1 ival **)

let isub i b a b0 =
  { iv = (b.b_sub a.iv b0.iv); nanf =
    ((||)
      ((||) ((||) a.nanf b0.nanf)
        ((&&) (i.i_eqb (lower a) i.i_ninf) (i.i_eqb (lower b0) i.i_ninf)))
      ((&&) (i.i_eqb (upper a) i.i_pinf) (i.i_eqb (upper b0) i.i_pinf))) }

(** val idiv : 'a1 iops -> 'a1 bprims -> 'a1 ival -> 'a1 ival -> 'a1 ival **)

let idiv i b a b0 =
  { iv =
    (if contains_zero i b0 then (i.i_ninf, i.i_pinf) else b.b_div a.iv b0.iv);
    nanf =
    ((||)
      ((||) ((||) a.nanf b0.nanf)
        ((&&)
          ((||) (i.i_eqb (lower a) i.i_ninf) (i.i_eqb (upper a) i.i_pinf))
          ((||) (i.i_eqb (lower b0) i.i_ninf) (i.i_eqb (upper b0) i.i_pinf))))
      ((&&) (contains_zero i a) (contains_zero i b0))) }

(** val imin : 'a1 bprims -> 'a1 ival -> 'a1 ival -> 'a1 ival **)

let imin b a b0 =
  let i = b.b_min a.iv b0.iv in
  { iv = (if b0.nanf then b.b_hull i a.iv else i); nanf = a.nanf }

(** val imax : 'a1 bprims -> 'a1 ival -> 'a1 ival -> 'a1 ival **)

let imax b a b0 =
  let i = b.b_max a.iv b0.iv in
  { iv = (if b0.nanf then b.b_hull i a.iv else i); nanf = a.nanf }

(** val iatan2 : 'a1 iops -> 'a1 ival -> 'a1 ival -> 'a1 ival **)

let iatan2 i y x =
  let u =
    (||) ((||) y.nanf x.nanf) ((&&) (contains_zero i x) (contains_zero i y))
  in
  let a = i.i_atan2 in
  let pos = fun v -> i.i_ltb i.i_zero v in
  let neg = fun v -> i.i_ltb v i.i_zero in
  let b =
    if pos (lower x)
    then if pos (lower y)
         then ((a (lower y) (upper x)), (a (upper y) (lower x)))
         else if neg (upper y)
              then ((a (lower y) (lower x)), (a (upper y) (upper x)))
              else ((a (lower y) (lower x)), (a (upper y) (lower x)))
    else if neg (upper x)
         then if pos (lower y)
              then ((a (upper y) (upper x)), (a (lower y) (lower x)))
              else if neg (upper y)
                   then ((a (upper y) (lower x)), (a (lower y) (upper x)))
                   else (i.i_negpi, i.i_pi)
         else if pos (lower y)
              then ((a (lower y) (upper x)), (a (lower y) (lower x)))
              else if neg (upper y)
                   then ((a (upper y) (lower x)), (a (upper y) (upper x)))
                   else (i.i_negpi, i.i_pi)
  in
  { iv = b; nanf = u }

(** val sanitize : 'a1 iops -> 'a1 bnd -> 'a1 bnd **)

let sanitize i b =
  ((if i.i_isnan (fst b) then i.i_ninf else fst b),
    (if i.i_isnan (snd b) then i.i_pinf else snd b))

(** val ipow : 'a1 iops -> 'a1 bprims -> 'a1 ival -> 'a1 ival -> 'a1 ival **)

let ipow i b a b0 =
  let bpt = i.i_trunc (lower b0) in
  { iv =
  (if (&&) (Z.ltb bpt Z0) (contains_zero i a)
   then (i.i_ninf, i.i_pinf)
   else b.b_pow a.iv bpt); nanf =
  ((||) ((||) a.nanf b0.nanf) ((&&) (contains_zero i a) (Z.eqb bpt Z0))) }

(** val inth_root :
    'a1 iops -> 'a1 bprims -> 'a1 ival -> 'a1 ival -> 'a1 ival **)

let inth_root i b a b0 =
  let bpt = i.i_trunc (lower b0) in
  { iv =
  (let r = b.b_nth_root a.iv bpt in
   ((if (&&) (i.i_isnan (fst r)) (i.i_eqb (lower a) i.i_ninf)
     then i.i_ninf
     else fst r),
   (if (&&) (i.i_isnan (snd r)) (i.i_eqb (upper a) i.i_pinf)
    then i.i_pinf
    else snd r))); nanf =
  ((||) ((||) a.nanf b0.nanf)
    ((&&) (i.i_leb (lower a) i.i_zero) (negb (Z.testbit bpt Z0)))) }

(** val is_inf : 'a1 iops -> 'a1 -> bool **)

let is_inf i x =
  (||) (i.i_eqb x i.i_pinf) (i.i_eqb x i.i_ninf)

(** val imod : 'a1 iops -> 'a1 bprims -> 'a1 ival -> 'a1 ival -> 'a1 ival **)

let imod i b a b0 =
  let out0 = ((i.i_fmin (lower b0) i.i_zero), (i.i_fmax i.i_zero (upper b0)))
  in
  let bpos = i.i_leb i.i_zero (upper b0) in
  let bneg = i.i_leb (lower b0) i.i_zero in
  let refine = fun usedA ->
    let absB = b.b_abs b0.iv in
    let q = b.b_div usedA absB in
    let qi = i.i_floor_int (fst q) in
    if Z.eqb qi (i.i_floor_int (snd q))
    then b.b_sub a.iv (b.b_scale b0.iv (i.i_of_Z qi))
    else out0
  in
  let out =
    if (&&) (i.i_isfinite (upper a)) (i.i_isfinite (lower a))
    then if bpos
         then if bneg then out0 else refine a.iv
         else if bneg then refine (b.b_scale a.iv i.i_mone) else b.b_empty
    else out0
  in
  { iv = out; nanf =
  ((||)
    ((||)
      ((||)
        ((||) ((||) ((||) a.nanf b0.nanf) (is_inf i (lower a)))
          (is_inf i (upper a))) (is_inf i (lower b0))) (is_inf i (upper b0)))
    ((&&) bpos bneg)) }

(** val inanfill : 'a1 bprims -> 'a1 ival -> 'a1 ival -> 'a1 ival **)

let inanfill b a b0 =
  if a.nanf
  then { iv = (b.b_hull a.iv b0.iv); nanf = b0.nanf }
  else { iv = a.iv; nanf = false }

(** val icompare : 'a1 iops -> 'a1 ival -> 'a1 ival -> 'a1 ival **)

let icompare i a b =
  if (||) a.nanf b.nanf
  then { iv = (i.i_mone, i.i_one); nanf = false }
  else if i.i_ltb (upper a) (lower b)
       then { iv = (i.i_mone, i.i_mone); nanf = false }
       else if i.i_ltb (upper b) (lower a)
            then { iv = (i.i_one, i.i_one); nanf = false }
            else { iv = (i.i_mone, i.i_one); nanf = false }

(** val isquare : 'a1 bprims -> 'a1 ival -> 'a1 ival **)

let isquare b a =
  { iv = (b.b_square a.iv); nanf = a.nanf }

(** val isqrt : 'a1 iops -> 'a1 bprims -> 'a1 ival -> 'a1 ival **)

let isqrt i b a =
  { iv = (b.b_sqrt a.iv); nanf = ((||) a.nanf (i.i_ltb (lower a) i.i_zero)) }

(** val ineg : 'a1 bprims -> 'a1 ival -> 'a1 ival **)

let ineg b a =
  { iv = (b.b_neg a.iv); nanf = a.nanf }

(** val isin : 'a1 iops -> 'a1 bprims -> 'a1 ival -> 'a1 ival **)

let isin i b a =
  { iv = (b.b_sin a.iv); nanf =
    ((||) ((||) a.nanf (is_inf i (lower a))) (is_inf i (upper a))) }

(** val icos : 'a1 iops -> 'a1 bprims -> 'a1 ival -> 'a1 ival **)

let icos i b a =
  { iv = (b.b_cos a.iv); nanf =
    ((||) ((||) a.nanf (is_inf i (lower a))) (is_inf i (upper a))) }

(** val itan : 'a1 iops -> 'a1 bprims -> 'a1 ival -> 'a1 ival **)

let itan i b a =
  { iv = (b.b_tan a.iv); nanf =
    ((||) ((||) a.nanf (is_inf i (lower a))) (is_inf i (upper a))) }

(** val iasin : 'a1 iops -> 'a1 bprims -> 'a1 ival -> 'a1 ival **)

let iasin i b a =
  { iv = (b.b_asin a.iv); nanf =
    ((||) ((||) a.nanf (i.i_ltb (lower a) i.i_mone))
      (i.i_ltb i.i_one (upper a))) }

(** val iacos : 'a1 iops -> 'a1 bprims -> 'a1 ival -> 'a1 ival **)

let iacos i b a =
  { iv = (b.b_acos a.iv); nanf =
    ((||) ((||) a.nanf (i.i_ltb (lower a) i.i_mone))
      (i.i_ltb i.i_one (upper a))) }

(** val iatan : 'a1 iops -> 'a1 bprims -> 'a1 ival -> 'a1 ival **)

let iatan i b a =
  { iv =
    (if (||) (is_inf i (lower a)) (is_inf i (upper a))
     then (i.i_neghalfpi, i.i_halfpi)
     else b.b_atan a.iv); nanf = a.nanf }

(** val iexp : 'a1 bprims -> 'a1 ival -> 'a1 ival **)

let iexp b a =
  { iv = (b.b_exp a.iv); nanf = a.nanf }

(** val ilog : 'a1 iops -> 'a1 bprims -> 'a1 ival -> 'a1 ival **)

let ilog i b a =
  { iv = (sanitize i (b.b_log a.iv)); nanf =
    ((||) a.nanf (i.i_ltb (lower a) i.i_zero)) }

(** val iabs : 'a1 bprims -> 'a1 ival -> 'a1 ival **)

let iabs b a =
  { iv = (b.b_abs a.iv); nanf = a.nanf }

(** val irecip : 'a1 iops -> 'a1 bprims -> 'a1 ival -> 'a1 ival **)

let irecip i b a =
  { iv =
    (if contains_zero i a then (i.i_ninf, i.i_pinf) else b.b_recip a.iv);
    nanf = a.nanf }

(** val ieval_un :
    'a1 iops -> 'a1 bprims -> opcode -> 'a1 ival -> 'a1 ival **)

let ieval_un i b op a =
  match op with
  | OP_SQUARE -> isquare b a
  | OP_SQRT -> isqrt i b a
  | OP_NEG -> ineg b a
  | OP_SIN -> isin i b a
  | OP_COS -> icos i b a
  | OP_TAN -> itan i b a
  | OP_ASIN -> iasin i b a
  | OP_ACOS -> iacos i b a
  | OP_ATAN -> iatan i b a
  | OP_EXP -> iexp b a
  | OP_ABS -> iabs b a
  | OP_LOG -> ilog i b a
  | OP_RECIP -> irecip i b a
  | _ -> a

(** val ieval_bin :
    'a1 iops -> 'a1 bprims -> opcode -> 'a1 ival -> 'a1 ival -> 'a1 ival **)

let ieval_bin i b op a b0 =
  match op with
  | OP_ADD -> iadd i b a b0
  | OP_MUL -> imul i b a b0
  | OP_MIN -> imin b a b0
  | OP_MAX -> imax b a b0
  | OP_SUB -> isub i b a b0
  | OP_DIV -> idiv i b a b0
  | OP_ATAN2 -> iatan2 i a b0
  | OP_POW -> ipow i b a b0
  | OP_NTH_ROOT -> inth_root i b a b0
  | OP_MOD -> imod i b a b0
  | OP_NANFILL -> inanfill b a b0
  | OP_COMPARE -> icompare i a b0
  | _ -> a
