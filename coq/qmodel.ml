
(** val negb : bool -> bool **)

let negb = function
| true -> false
| false -> true

type nat =
| O
| S of nat

(** val fst : ('a1 * 'a2) -> 'a1 **)

let fst = function
| (x, _) -> x

(** val snd : ('a1 * 'a2) -> 'a2 **)

let snd = function
| (_, y) -> y

(** val length : 'a1 list -> nat **)

let rec length = function
| [] -> O
| _ :: l' -> S (length l')

module Nat =
 struct
  (** val add : nat -> nat -> nat **)

  let rec add n m =
    match n with
    | O -> m
    | S p -> S (add p m)

  (** val mul : nat -> nat -> nat **)

  let rec mul n m =
    match n with
    | O -> O
    | S p -> add m (mul p m)

  (** val sub : nat -> nat -> nat **)

  let rec sub n m =
    match n with
    | O -> n
    | S k -> (match m with
              | O -> n
              | S l -> sub k l)

  (** val eqb : nat -> nat -> bool **)

  let rec eqb n m =
    match n with
    | O -> (match m with
            | O -> true
            | S _ -> false)
    | S n' -> (match m with
               | O -> false
               | S m' -> eqb n' m')

  (** val pow : nat -> nat -> nat **)

  let rec pow n = function
  | O -> S O
  | S m0 -> mul n (pow n m0)

  (** val divmod : nat -> nat -> nat -> nat -> nat * nat **)

  let rec divmod x y q u =
    match x with
    | O -> (q, u)
    | S x' ->
      (match u with
       | O -> divmod x' y (S q) y
       | S u' -> divmod x' y q u')

  (** val div : nat -> nat -> nat **)

  let div x y = match y with
  | O -> y
  | S y' -> fst (divmod x y' O y')

  (** val modulo : nat -> nat -> nat **)

  let modulo x = function
  | O -> x
  | S y' -> sub y' (snd (divmod x y' O y'))
 end

(** val forallb : ('a1 -> bool) -> 'a1 list -> bool **)

let rec forallb f = function
| [] -> true
| a :: l0 -> (&&) (f a) (forallb f l0)

(** val filter : ('a1 -> bool) -> 'a1 list -> 'a1 list **)

let rec filter f = function
| [] -> []
| x :: l0 -> if f x then x :: (filter f l0) else filter f l0

(** val combine : 'a1 list -> 'a2 list -> ('a1 * 'a2) list **)

let rec combine l l' =
  match l with
  | [] -> []
  | x :: tl ->
    (match l' with
     | [] -> []
     | y :: tl' -> (x, y) :: (combine tl tl'))

(** val repeat : 'a1 -> nat -> 'a1 list **)

let rec repeat x = function
| O -> []
| S k -> x :: (repeat x k)

type 'num qops = { q_zero : 'num; q_one : 'num; q_mone : 'num; q_two : 
                   'num; q_inf : 'num; q_add : ('num -> 'num -> 'num);
                   q_sub : ('num -> 'num -> 'num);
                   q_mul : ('num -> 'num -> 'num);
                   q_ltb : ('num -> 'num -> bool);
                   q_leb : ('num -> 'num -> bool);
                   q_eqb : ('num -> 'num -> bool) }

type 'num vec = 'num list

(** val digits : nat -> nat -> nat list **)

let rec digits n i =
  match n with
  | O -> []
  | S k ->
    (Nat.modulo i (S (S (S O)))) :: (digits k (Nat.div i (S (S (S O)))))

(** val dimension : nat -> nat -> nat **)

let dimension n i =
  length (filter (Nat.eqb (S (S O))) (digits n i))

(** val contains : 'a1 qops -> 'a1 vec -> 'a1 vec -> 'a1 vec -> bool **)

let contains q lo hi p =
  forallb (fun t ->
    (&&) (q.q_leb (fst (fst t)) (snd t)) (q.q_leb (snd t) (snd (fst t))))
    (combine (combine lo hi) p)

type 'num cand = { c_pos : 'num vec; c_err : 'num; c_tag : nat }

(** val improves :
    'a1 qops -> 'a1 vec -> 'a1 vec -> 'a1 cand -> 'a1 cand -> bool **)

let improves q lo hi sol out =
  (||) (q.q_ltb sol.c_err out.c_err)
    ((&&)
      ((&&) (q.q_eqb sol.c_err out.c_err) (negb (contains q lo hi sol.c_pos)))
      (contains q lo hi out.c_pos))

(** val sub_pass :
    'a1 qops -> nat -> nat -> 'a1 vec -> 'a1 vec -> (nat -> 'a1 cand) -> nat
    -> 'a1 cand -> 'a1 cand **)

let rec sub_pass q n d lo hi cands k out =
  match k with
  | O -> out
  | S j ->
    let out' =
      if Nat.eqb (dimension n j) d
      then if improves q lo hi (cands j) out then cands j else out
      else out
    in
    sub_pass q n d lo hi cands j out'

(** val dim_pass :
    'a1 qops -> nat -> 'a1 vec -> 'a1 vec -> (nat -> 'a1 cand) -> nat -> 'a1
    cand -> 'a1 cand **)

let rec dim_pass q n lo hi cands d out =
  let out1 = sub_pass q n d lo hi cands (Nat.pow (S (S (S O))) n) out in
  if contains q lo hi out1.c_pos
  then out1
  else (match d with
        | O -> { c_pos = out1.c_pos; c_err = q.q_inf; c_tag = out1.c_tag }
        | S d' ->
          dim_pass q n lo hi cands d' { c_pos = out1.c_pos; c_err = q.q_inf;
            c_tag = out1.c_tag })

(** val bounded_search :
    'a1 qops -> nat -> 'a1 vec -> 'a1 vec -> (nat -> 'a1 cand) -> 'a1 cand **)

let bounded_search q n lo hi cands =
  match n with
  | O -> { c_pos = []; c_err = q.q_inf; c_tag = O }
  | S m ->
    dim_pass q n lo hi cands m { c_pos = (repeat q.q_zero n); c_err =
      q.q_inf; c_tag = (Nat.pow (S (S (S O))) n) }
