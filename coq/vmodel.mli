
type nat =
| O
| S of nat

val fst : ('a1 * 'a2) -> 'a1

val length : 'a1 list -> nat

val app : 'a1 list -> 'a1 list -> 'a1 list

val add : nat -> nat -> nat

val mul : nat -> nat -> nat

val sub : nat -> nat -> nat

module Nat :
 sig
  val leb : nat -> nat -> bool

  val ltb : nat -> nat -> bool

  val min : nat -> nat -> nat

  val divmod : nat -> nat -> nat -> nat -> nat * nat

  val div : nat -> nat -> nat
 end

type view = { cx : nat; cy : nat; cz : nat; sx : nat; sy : nat; sz : nat }

val voxels : view -> nat

val pick_axis : bool -> bool -> bool -> view -> nat

val split : bool -> bool -> bool -> view -> view * view

val partition : nat -> nat -> view list -> view list
