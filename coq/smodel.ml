
(** val negb : bool -> bool **)

let negb = function
| true -> false
| false -> true

type nat =
| O
| S of nat

(** val fst : ('a1 * 'a2) -> 'a1 **)

let fst = function
| (x, _) -> x

(** val snd : ('a1 * 'a2) -> 'a2 **)

let snd = function
| (_, y) -> y



module Nat =
 struct
  (** val eqb : nat -> nat -> bool **)

  let rec eqb n m =
    match n with
    | O -> (match m with
            | O -> true
            | S _ -> false)
    | S n' -> (match m with
               | O -> false
               | S m' -> eqb n' m')
 end

(** val map : ('a1 -> 'a2) -> 'a1 list -> 'a2 list **)

let rec map f = function
| [] -> []
| a :: t -> (f a) :: (map f t)

(** val fold_left : ('a1 -> 'a2 -> 'a1) -> 'a2 list -> 'a1 -> 'a1 **)

let rec fold_left f l a0 =
  match l with
  | [] -> a0
  | b :: t -> fold_left f t (f a0 b)

(** val existsb : ('a1 -> bool) -> 'a1 list -> bool **)

let rec existsb f = function
| [] -> false
| a :: l0 -> (||) (f a) (existsb f l0)

(** val forallb : ('a1 -> bool) -> 'a1 list -> bool **)

let rec forallb f = function
| [] -> true
| a :: l0 -> (&&) (f a) (forallb f l0)

(** val filter : ('a1 -> bool) -> 'a1 list -> 'a1 list **)

let rec filter f = function
| [] -> []
| x :: l0 -> if f x then x :: (filter f l0) else filter f l0

type 'num sops = { s_zero : 'num; s_eps : 'num; s_half : 'num;
                   s_fabs : ('num -> 'num); s_ltb : ('num -> 'num -> bool);
                   s_geb : ('num -> 'num -> bool);
                   s_isfinite : ('num -> bool);
                   s_add : ('num -> 'num -> 'num);
                   s_sub : ('num -> 'num -> 'num);
                   s_mul : ('num -> 'num -> 'num);
                   s_div : ('num -> 'num -> 'num); s_sq : ('num -> 'num);
                   s_halve : ('num -> 'num); s_mul_d : ('num -> 'num -> 'num) }

type 'num assign = (nat * 'num) list

(** val aget : 'a1 assign -> nat -> 'a1 option **)

let rec aget m k =
  match m with
  | [] -> None
  | p :: r -> let (j, x) = p in if Nat.eqb k j then Some x else aget r k

(** val aset : 'a1 assign -> nat -> 'a1 -> 'a1 assign **)

let rec aset m k x =
  match m with
  | [] -> []
  | p :: r ->
    let (j, y) = p in
    if Nat.eqb k j then (j, x) :: r else (j, y) :: (aset r k x)

(** val dget : 'a1 sops -> 'a1 assign -> nat -> 'a1 **)

let dget sO ds k =
  match aget ds k with
  | Some x -> x
  | None -> sO.s_zero

(** val trial : 'a1 sops -> 'a1 assign -> 'a1 assign -> 'a1 -> 'a1 assign **)

let trial sO vars ds step =
  map (fun v -> ((fst v),
    (sO.s_sub (snd v) (sO.s_mul step (dget sO ds (fst v)))))) vars

(** val set_all : 'a1 assign -> 'a1 assign -> 'a1 assign **)

let set_all ev vs =
  fold_left (fun e v -> aset e (fst v) (snd v)) vs ev

type 'num ls_result =
| LS_accept of 'num assign * 'num assign * 'num * bool
| LS_giveup
| LS_out_of_fuel

(** val line_search :
    'a1 sops -> ('a1 assign -> 'a1) -> nat -> 'a1 assign -> 'a1 assign -> 'a1
    assign -> 'a1 -> 'a1 -> 'a1 -> 'a1 ls_result **)

let rec line_search sO value fuel ev vars ds r slope step =
  match fuel with
  | O -> LS_out_of_fuel
  | S f ->
    if negb (sO.s_isfinite step)
    then LS_giveup
    else let tv = trial sO vars ds step in
         let ev' = set_all ev tv in
         let r' = value ev' in
         let diff = sO.s_sub r r' in
         if (||)
              ((||)
                ((||)
                  (sO.s_geb (sO.s_div diff step) (sO.s_mul_d slope sO.s_half))
                  (sO.s_ltb (sO.s_fabs diff) sO.s_eps))
                (sO.s_ltb slope sO.s_eps)) (sO.s_ltb r' sO.s_eps)
         then LS_accept (ev', tv, r', (sO.s_ltb (sO.s_fabs diff) sO.s_eps))
         else line_search sO value f ev' vars ds r slope (sO.s_halve step)

type 'num result =
| Done of 'num * 'num assign * 'num assign * nat
| OutOfFuel

(** val outer :
    'a1 sops -> ('a1 assign -> 'a1) -> ('a1 assign -> 'a1 assign) -> nat ->
    nat -> nat -> 'a1 assign -> 'a1 assign -> 'a1 assign -> 'a1 -> bool ->
    nat -> 'a1 result **)

let rec outer sO value gradient ofuel lsfuel gas ev vars ds r converged nevals =
  match ofuel with
  | O -> OutOfFuel
  | S f ->
    if (||) converged (negb (sO.s_geb (sO.s_fabs r) sO.s_eps))
    then Done (r, vars, ev, nevals)
    else (match gas with
          | O -> Done (r, vars, ev, nevals)
          | S g ->
            if Nat.eqb g O
            then Done (r, vars, ev, nevals)
            else let gr = gradient ev in
                 let ds' = fold_left (fun d p -> aset d (fst p) (snd p)) gr ds
                 in
                 if forallb (fun p -> sO.s_ltb (sO.s_fabs (snd p)) sO.s_eps)
                      ds'
                 then Done (r, vars, ev, (S nevals))
                 else let slope =
                        fold_left (fun acc p ->
                          sO.s_add acc (sO.s_sq (snd p))) ds' sO.s_zero
                      in
                      (match line_search sO value lsfuel ev vars ds' r slope
                               (sO.s_div r slope) with
                       | LS_accept (ev', vars', r', conv) ->
                         outer sO value gradient f lsfuel g ev' vars' ds' r'
                           conv (S nevals)
                       | LS_giveup -> Done (r, vars, ev, (S nevals))
                       | LS_out_of_fuel -> OutOfFuel))

(** val find_root :
    'a1 sops -> ('a1 assign -> 'a1) -> ('a1 assign -> 'a1 assign) -> nat ->
    nat -> nat -> 'a1 assign -> 'a1 assign -> nat list -> 'a1 result **)

let find_root sO value gradient ofuel lsfuel gas ev0 vars mask =
  let ev = set_all ev0 vars in
  let vars' = filter (fun v -> negb (existsb (Nat.eqb (fst v)) mask)) vars in
  let ds = map (fun v -> ((fst v), sO.s_zero)) vars' in
  outer sO value gradient ofuel lsfuel gas ev vars' ds (value ev) false O
