
val negb : bool -> bool

type nat =
| O
| S of nat

val fst : ('a1 * 'a2) -> 'a1

val snd : ('a1 * 'a2) -> 'a2



module Nat :
 sig
  val eqb : nat -> nat -> bool
 end

val map : ('a1 -> 'a2) -> 'a1 list -> 'a2 list

val fold_left : ('a1 -> 'a2 -> 'a1) -> 'a2 list -> 'a1 -> 'a1

val existsb : ('a1 -> bool) -> 'a1 list -> bool

val forallb : ('a1 -> bool) -> 'a1 list -> bool

val filter : ('a1 -> bool) -> 'a1 list -> 'a1 list

type 'num sops = { s_zero : 'num; s_eps : 'num; s_half : 'num;
                   s_fabs : ('num -> 'num); s_ltb : ('num -> 'num -> bool);
                   s_geb : ('num -> 'num -> bool);
                   s_isfinite : ('num -> bool);
                   s_add : ('num -> 'num -> 'num);
                   s_sub : ('num -> 'num -> 'num);
                   s_mul : ('num -> 'num -> 'num);
                   s_div : ('num -> 'num -> 'num); s_sq : ('num -> 'num);
                   s_halve : ('num -> 'num); s_mul_d : ('num -> 'num -> 'num) }

type 'num assign = (nat * 'num) list

val aget : 'a1 assign -> nat -> 'a1 option

val aset : 'a1 assign -> nat -> 'a1 -> 'a1 assign

val dget : 'a1 sops -> 'a1 assign -> nat -> 'a1

val trial : 'a1 sops -> 'a1 assign -> 'a1 assign -> 'a1 -> 'a1 assign

val set_all : 'a1 assign -> 'a1 assign -> 'a1 assign

type 'num ls_result =
| LS_accept of 'num assign * 'num assign * 'num * bool
| LS_giveup
| LS_out_of_fuel

val line_search :
  'a1 sops -> ('a1 assign -> 'a1) -> nat -> 'a1 assign -> 'a1 assign -> 'a1
  assign -> 'a1 -> 'a1 -> 'a1 -> 'a1 ls_result

type 'num result =
| Done of 'num * 'num assign * 'num assign * nat
| OutOfFuel

val outer :
  'a1 sops -> ('a1 assign -> 'a1) -> ('a1 assign -> 'a1 assign) -> nat -> nat
  -> nat -> 'a1 assign -> 'a1 assign -> 'a1 assign -> 'a1 -> bool -> nat ->
  'a1 result

val find_root :
  'a1 sops -> ('a1 assign -> 'a1) -> ('a1 assign -> 'a1 assign) -> nat -> nat
  -> nat -> 'a1 assign -> 'a1 assign -> nat list -> 'a1 result
