(* Round-trip correctness of the archive codec (Serial/Codec.v: serializer.cpp,
   deserializer.cpp, archive.cpp): deserialising what the serialiser wrote
   yields shapes with the same names and docs whose trees denote the same
   functions (the deserialiser re-runs the smart constructors, so only
   denotations are preserved, not node shapes) and whose named variables are
   bound to the reloaded variables.

   Main results (all without axioms):
     string_roundtrip      deser_string (ser_string s ++ rest) = (s, rest)
     u32_roundtrip         n < 2^32 -> read_u32 (u32le n ++ rest) = (n, rest)
     u32le_bytes           every byte of u32le n is < 256
     vars_roundtrip(_len)  the (name, index)* END_OF_ITEM section
     tree_roundtrip        fold ser_node over walk, then deser_nodes
     plain_no_remap        a plain tree has no remap flag (flatten is the identity)
     shape_roundtrip       one 'T' shape through ser_shape / deser_shape
     shared_roundtrip      one 't' shape (root already serialised)
     archive_roundtrip     deserialize (serialize shapes), any number of shapes
     shape_rel_sem         what the shape relation of the above means
     env_corr_exists(_rev) the environment correspondence is satisfiable both ways

   HYPOTHESES THAT HAD TO BE ADDED (each with a concrete counterexample):

   (H1) constants must fit the 32-bit word: [consts_ok] asks, for every constant
        c reachable from the root, enc c < 2^32 and dec (enc c) = c.
        [forall c, dec (enc c) = c] alone is NOT enough: with num = N,
        enc = dec = id and the constant c = 2^32, u32le (enc c) = [0;0;0;0]
        and the tree reloads as the constant 0.  (At run time enc is the
        IEEE-754 bit pattern of a float, which always fits.)

   (H2) stream positions must fit the 32-bit word: the number of entries of
        Serializer::ids after the tree, [length (ser_ids ids (walk a t))], must
        be <= 2^32 (every position is then < 2^32).  serializeBytes casts
        ids.size() to uint32_t, so node number 2^32 would be written as
        position 0 and every later reference to it would reload node 0.

   (H3) shape_roundtrip: every named variable of the shape must have been given
        a position (it occurs in the tree, or was serialised before).
        Serializer::serializeShape otherwise prints "named variable not found"
        and DROPS the binding: for the shape {tree = X; vars = [(v, "a")]} with
        v a VAR_FREE node that does not occur in the tree, ser_vars writes
        nothing and the reloaded shape has sh_vars = [].

   (H4) the trees are *plain* ([plain]: every node reachable from the root
        satisfies [pure_at], i.e. constants, X/Y/Z at their canonical ids, free
        variables, unary and binary operations).  Oracles are not modelled by
        Codec.v and remap/apply nodes are removed by flatten first; for plain
        trees flatten is the identity ([plain_no_remap], derived, not assumed).

   No defect of the codec was found for plain trees: under (H1)-(H4) every
   stated goal holds.

   The relation [rel a ids b trees] between the serialiser state (id map [ids]
   over the source arena [a]) and the deserialiser state (target arena [b],
   table [trees]) and the correspondence of environments [env_corr] are
   defined below. *)
From Coq Require Import List NArith ZArith Arith Bool Lia ZifyNat ZifyN ZifyBool.
From LF Require Import Base.Opcode Base.Num Base.Arena Base.Sem Tree.Build Tree.BuildSem
  Tree.RemapSem Tree.Flatten Eval.Deck Eval.DeckSem Eval.DeckSemReach Serial.Codec.
Import ListNotations.
Ltac Zify.zify_post_hook ::= Z.div_mod_to_equations.

(* ================================================================== *)
(* 1. strings                                                          *)
Section Strings.
  Local Open Scope N_scope.

  Lemma esc_length s : (length s <= length (esc s))%nat.
  Proof.
    induction s as [|c s IH]; simpl; [lia|].
    destruct (N.eqb c QUOTE || N.eqb c BSLASH); simpl; lia.
  Qed.

  Lemma unesc_esc : forall s fuel acc rest, (length s < fuel)%nat ->
    unesc fuel (esc s ++ QUOTE :: rest) acc = (rev acc ++ s, rest).
  Proof.
    induction s as [|c s IH]; intros fuel acc rest Hf.
    - destruct fuel as [|f]; [simpl in Hf; lia|]. simpl. rewrite app_nil_r. reflexivity.
    - destruct fuel as [|f]; [simpl in Hf; lia|]. simpl in Hf.
      assert (Hs : (length s < f)%nat) by lia.
      cbn [esc].
      destruct (N.eqb c QUOTE) eqn:Hq; [|destruct (N.eqb c BSLASH) eqn:Hb]; cbn [orb].
      + apply N.eqb_eq in Hq; subst c.
        cbn [app unesc]. change (N.eqb BSLASH QUOTE) with false.
        change (N.eqb BSLASH BSLASH) with true. cbv iota.
        rewrite IH by exact Hs. cbn [rev]. rewrite <- app_assoc. reflexivity.
      + apply N.eqb_eq in Hb; subst c.
        cbn [app unesc]. change (N.eqb BSLASH QUOTE) with false.
        change (N.eqb BSLASH BSLASH) with true. cbv iota.
        rewrite IH by exact Hs. cbn [rev]. rewrite <- app_assoc. reflexivity.
      + cbn [app unesc]. rewrite Hq, Hb.
        rewrite IH by exact Hs. cbn [rev]. rewrite <- app_assoc. reflexivity.
  Qed.

  (* Goal 1 *)
  Theorem string_roundtrip s rest : deser_string (ser_string s ++ rest) = (s, rest).
  Proof.
    unfold ser_string, deser_string. cbn [app].
    change (N.eqb QUOTE QUOTE) with true. cbv iota.
    rewrite <- app_assoc. cbn [app].
    rewrite unesc_esc; [reflexivity|].
    rewrite app_length. pose proof (esc_length s). simpl. lia.
  Qed.

  Lemma ser_string_length s : (2 <= length (ser_string s))%nat.
  Proof. unfold ser_string. simpl. rewrite app_length. simpl. lia. Qed.

  Lemma ser_string_head s : exists r, ser_string s = QUOTE :: r.
  Proof. eexists; reflexivity. Qed.
End Strings.

(* ================================================================== *)
(* 2. little-endian words                                              *)
Section Words.
  Local Open Scope N_scope.

  Theorem u32_roundtrip n rest : n < 2 ^ 32 -> read_u32 (u32le n ++ rest) = (n, rest).
  Proof.
    intros Hn. unfold u32le, read_u32. cbn [app]. f_equal.
    change (2 ^ 32) with 4294967296 in Hn. lia.
  Qed.

  Theorem u32le_bytes n : Forall (fun b => b < 256) (u32le n).
  Proof.
    unfold u32le. repeat constructor; apply N.mod_lt; discriminate.
  Qed.

  Lemma u32le_length n : length (u32le n) = 4%nat.
  Proof. reflexivity. Qed.
End Words.
Global Opaque u32le read_u32.

(* ================================================================== *)
(* 3. the variable section                                             *)
Section Vars.
  Local Open Scope N_scope.

  Definition vars_ok (ids : idmap) (vs : list (nat * list byte)) : Prop :=
    forall v, In v vs -> exists k, id_find ids (fst v) = Some k /\ k < 2 ^ 32.

  Lemma id_at_find ids n k : id_find ids n = Some k -> id_at ids n = k.
  Proof. unfold id_at; intros ->; reflexivity. Qed.

  Lemma deser_vars_step f trees s k rest acc : k < 2 ^ 32 ->
    deser_vars (S f) trees (ser_string s ++ u32le k ++ rest) acc
    = deser_vars f trees rest ((tget trees k, s) :: acc).
  Proof.
    intros Hk.
    assert (E : exists tl, ser_string s ++ u32le k ++ rest = QUOTE :: tl) by (eexists; reflexivity).
    destruct E as [tl E].
    pose proof (string_roundtrip s (u32le k ++ rest)) as Hs. rewrite E in Hs.
    rewrite E. cbn [deser_vars]. change (N.eqb QUOTE END_OF_ITEM) with false. cbv iota.
    rewrite Hs. rewrite u32_roundtrip by exact Hk. reflexivity.
  Qed.

  Lemma deser_vars_gen trees ids : forall vs fuel acc rest,
    vars_ok ids vs -> (length vs < fuel)%nat ->
    deser_vars fuel trees (ser_vars ids vs ++ [END_OF_ITEM] ++ rest) acc
    = (rev acc ++ map (fun v => (tget trees (id_at ids (fst v)), snd v)) vs, rest).
  Proof.
    induction vs as [|v vs IH]; intros fuel acc rest Hok Hf.
    - destruct fuel as [|f]; [simpl in Hf; lia|]. simpl. rewrite app_nil_r. reflexivity.
    - destruct fuel as [|f]; [simpl in Hf; lia|]. simpl in Hf.
      destruct (Hok v (or_introl eq_refl)) as (k & Hk & Hlt).
      unfold ser_vars. cbn [flat_map]. rewrite Hk.
      fold (ser_vars ids vs).
      rewrite <- !app_assoc.
      rewrite deser_vars_step by exact Hlt.
      rewrite IH; [| intros w Hw; apply Hok; right; exact Hw | lia].
      cbn [rev map]. rewrite (id_at_find ids (fst v) k Hk). rewrite <- app_assoc. reflexivity.
  Qed.

  (* Goal 3.  Fuel: one unit per entry plus one for the terminator. *)
  Theorem vars_roundtrip trees ids vs fuel rest :
    vars_ok ids vs -> (length vs < fuel)%nat ->
    deser_vars fuel trees (ser_vars ids vs ++ [END_OF_ITEM] ++ rest) []
    = (map (fun v => (tget trees (id_at ids (fst v)), snd v)) vs, rest).
  Proof. intros; rewrite deser_vars_gen by assumption; reflexivity. Qed.

  Lemma ser_vars_length ids vs : vars_ok ids vs -> (length vs <= length (ser_vars ids vs))%nat.
  Proof.
    induction vs as [|v vs IH]; intros Hok; [simpl; lia|].
    destruct (Hok v (or_introl eq_refl)) as (k & Hk & _).
    unfold ser_vars. cbn [flat_map]. rewrite Hk. fold (ser_vars ids vs).
    rewrite !app_length. pose proof (ser_string_length (snd v)).
    assert (length vs <= length (ser_vars ids vs))%nat by (apply IH; intros w Hw; apply Hok; right; exact Hw).
    simpl; lia.
  Qed.

  (* the fuel chosen by deser_shape (length of the remaining input) suffices *)
  Corollary vars_roundtrip_len trees ids vs rest :
    vars_ok ids vs ->
    let inp := ser_vars ids vs ++ [END_OF_ITEM] ++ rest in
    deser_vars (length inp) trees inp []
    = (map (fun v => (tget trees (id_at ids (fst v)), snd v)) vs, rest).
  Proof.
    intros Hok inp. apply vars_roundtrip; [exact Hok|].
    unfold inp. rewrite !app_length. pose proof (ser_vars_length ids vs Hok). simpl. lia.
  Qed.
End Vars.

(* ================================================================== *)
(* 4. the tree section                                                 *)
Section IdMaps.
  Local Open Scope N_scope.

  Lemma id_find_In ids n k : id_find ids n = Some k -> In (n, k) ids.
  Proof.
    induction ids as [|[j p] ids IH]; simpl; [discriminate|].
    destruct (Nat.eqb n j) eqn:E.
    - apply Nat.eqb_eq in E; subst j. intros H; inversion H; subst. left; reflexivity.
    - intros H; right; apply IH; exact H.
  Qed.

  Lemma id_find_None ids n : id_find ids n = None -> forall k, ~ In (n, k) ids.
  Proof.
    induction ids as [|[j p] ids IH]; simpl; intros H k; [tauto|].
    destruct (Nat.eqb n j) eqn:E; [discriminate|].
    apply Nat.eqb_neq in E. intros [Hc|Hc]; [inversion Hc; subst; congruence|].
    exact (IH H k Hc).
  Qed.

  Lemma id_find_None_keys ids n : id_find ids n = None -> ~ In n (map fst ids).
  Proof.
    intros H Hin. apply in_map_iff in Hin. destruct Hin as ([j k] & Hj & Hin). simpl in Hj; subst j.
    exact (id_find_None ids n H k Hin).
  Qed.

  Lemma id_find_unique ids n k : NoDup (map fst ids) -> In (n, k) ids -> id_find ids n = Some k.
  Proof.
    induction ids as [|[j p] ids IH]; simpl; intros Hnd Hin; [tauto|].
    inversion Hnd as [|x l Hni Hnd']; subst.
    destruct Hin as [Hin|Hin].
    - inversion Hin; subst. rewrite Nat.eqb_refl. reflexivity.
    - destruct (Nat.eqb n j) eqn:E; [|apply IH; assumption].
      apply Nat.eqb_eq in E; subst j. exfalso. apply Hni.
      apply in_map_iff. exists (n, k). split; [reflexivity | exact Hin].
  Qed.

  Lemma id_find_cons_ne m kn ids x : x <> m -> id_find ((m, kn) :: ids) x = id_find ids x.
  Proof. intros H; simpl. apply Nat.eqb_neq in H; rewrite H; reflexivity. Qed.

  Lemma id_find_cons_eq m kn ids : id_find ((m, kn) :: ids) m = Some kn.
  Proof. simpl. rewrite Nat.eqb_refl; reflexivity. Qed.

  Lemma id_at_cons_ne m kn ids x : x <> m -> id_at ((m, kn) :: ids) x = id_at ids x.
  Proof. intros H; unfold id_at; rewrite id_find_cons_ne by exact H; reflexivity. Qed.

  (* positions are 0 .. length-1 in insertion order (newest first) *)
  Fixpoint pos_ok (ids : idmap) : Prop :=
    match ids with
    | [] => True
    | (_, k) :: r => k = N.of_nat (length r) /\ pos_ok r
    end.

  Lemma pos_ok_In ids n k : pos_ok ids -> In (n, k) ids -> (N.to_nat k < length ids)%nat.
  Proof.
    induction ids as [|[j p] ids IH]; simpl; intros Hp Hi; [tauto|].
    destruct Hp as [Hp1 Hp2]. destruct Hi as [Hi|Hi].
    - inversion Hi; subst. lia.
    - specialize (IH Hp2 Hi). lia.
  Qed.

  Lemma tget_app_old trees i k : (N.to_nat k < length trees)%nat -> tget (trees ++ [i]) k = tget trees k.
  Proof. intros H; unfold tget; apply app_nth1; exact H. Qed.

  Lemma tget_app_new trees i : tget (trees ++ [i]) (N.of_nat (length trees)) = i.
  Proof.
    unfold tget. rewrite Nat2N.id. rewrite app_nth2 by lia. rewrite Nat.sub_diag. reflexivity.
  Qed.

  Lemma code_end_false op : N.eqb (code op) END_OF_ITEM = false.
  Proof. apply N.eqb_neq. apply code_ne_end. Qed.
End IdMaps.

Section Flags.
  Context {num : Type}.
  Notation arena := (arena num).

  Lemma all_flags_app_prefix (a b : arena) : exists t, all_flags (a ++ b) = all_flags a ++ t.
  Proof.
    induction b as [|n b IH] using rev_ind.
    - exists []. rewrite !app_nil_r; reflexivity.
    - destruct IH as [t Ht]. rewrite app_assoc, all_flags_snoc, Ht.
      eexists. rewrite <- app_assoc. reflexivity.
  Qed.

  Lemma flags_of_extend (a b : arena) i : i < length a -> flags_of (a ++ b) i = flags_of a i.
  Proof.
    intros Hi. unfold flags_of, getf. destruct (all_flags_app_prefix a b) as [t ->].
    apply app_nth1. rewrite all_flags_length; exact Hi.
  Qed.

  Lemma firstn_S_getn (a : arena) i : i < length a -> firstn (S i) a = firstn i a ++ [getn a i].
  Proof.
    unfold getn. revert i. induction a as [|n a IH]; intros i Hi; simpl in *; [lia|].
    destruct i; [reflexivity|]. simpl. f_equal. apply IH. lia.
  Qed.

  Lemma flags_of_node (a : arena) i : i < length a ->
    flags_of a i = node_flags (all_flags (firstn i a)) (getn a i).
  Proof.
    intros Hi. rewrite <- (firstn_skipn (S i) a) at 1.
    assert (Hl : length (firstn (S i) a) = S i) by (rewrite firstn_length; lia).
    rewrite flags_of_extend by lia.
    rewrite firstn_S_getn by exact Hi.
    assert (Hl2 : length (firstn i a) = i) by (rewrite firstn_length; lia).
    pose proof (flags_of_snoc_new (firstn i a) (getn a i)) as Hp.
    rewrite Hl2 in Hp. exact Hp.
  Qed.

  Lemma getf_flags_firstn (a : arena) i j : j < i -> i <= length a ->
    getf (all_flags (firstn i a)) j = flags_of a j.
  Proof.
    intros Hj Hi. rewrite <- (firstn_skipn i a) at 2.
    rewrite flags_of_extend; [reflexivity|]. rewrite firstn_length; lia.
  Qed.

  Lemma reach_trans (a : arena) t x m : reach a t x -> reach a x m -> reach a t m.
  Proof.
    intros Hx Hm. induction Hm as [|p c Hp IH Hk]; [exact Hx|].
    eapply reach_kid; eauto.
  Qed.

  (* a tree all of whose reachable nodes are plain carries no remap flag, so
     Tree::flatten returns it unchanged *)
  Lemma plain_no_remap (a : arena) : arena_wf a ->
    forall t, t < length a -> (forall m, reach a t m -> pure_at a m) ->
    f_remap (flags_of a t) = false.
  Proof.
    intros Hwf t. induction t as [t IH] using lt_wf_ind. intros Ht Hp.
    pose proof (Hp t (reach_root a t)) as Hpt. unfold pure_at in Hpt.
    pose proof (arena_wf_nth a t Hwf Ht) as Hnw.
    rewrite flags_of_node by exact Ht.
    destruct (getn a t) as [c|o|o x|o x y|k|x' y' z' t'|x y z t0|v e t0|] eqn:Hn;
      try contradiction; simpl in Hnw.
    - reflexivity.
    - destruct o; try contradiction; reflexivity.
    - destruct Hnw as [Hx _]. cbn [node_flags].
      rewrite getf_flags_firstn by lia.
      apply IH; [exact Hx | lia |].
      intros m Hm. apply Hp. eapply reach_trans; [|exact Hm].
      eapply reach_kid; [apply reach_root|]. rewrite Hn. left; reflexivity.
    - destruct Hnw as (Hx & Hy & _). cbn [node_flags].
      rewrite !getf_flags_firstn by lia. cbn [f_or f_remap].
      rewrite (IH x Hx ltac:(lia)), (IH y Hy ltac:(lia)); [reflexivity| |].
      + intros m Hm. apply Hp. eapply reach_trans; [|exact Hm].
        eapply reach_kid; [apply reach_root|]. rewrite Hn. right; left; reflexivity.
      + intros m Hm. apply Hp. eapply reach_trans; [|exact Hm].
        eapply reach_kid; [apply reach_root|]. rewrite Hn. left; reflexivity.
  Qed.
End Flags.

Section Tree.
  Context {num : Type} (O : ops num).
  Variable osem : nat -> num -> num -> num -> num.
  Hypothesis LAWS : laws O.
  Variable enc : num -> N.
  Variable dec : N -> num.
  Notation arena := (arena num).
  Notation env := (env num).
  Notation val := (val O osem).
  Notation ser_node := (ser_node enc).
  Notation deser_nodes := (deser_nodes O dec).
  Local Open Scope N_scope.

  (* ---- one step of the deserialiser, by kind of opcode ---- *)
  Lemma deser_step_const f b trees n rest : n < 2 ^ 32 ->
    deser_nodes (S f) b trees (code CONSTANT :: u32le n ++ rest)
    = let (a1, i) := mk_const b (dec n) in deser_nodes f a1 (trees ++ [i]) rest.
  Proof.
    intros Hn. cbn [Codec.deser_nodes].
    rewrite code_end_false, of_code_code. cbv iota.
    change (opcode_eqb CONSTANT CONSTANT) with true. cbv iota.
    rewrite u32_roundtrip by exact Hn. reflexivity.
  Qed.

  Lemma not_const_args op k : args op = Some (S k) -> opcode_eqb op CONSTANT = false.
  Proof.
    intros H. destruct (opcode_eqb op CONSTANT) eqn:E; [|reflexivity].
    apply opcode_eqb_eq in E; subst op; discriminate H.
  Qed.

  Lemma deser_step_un f b trees op k rest : args op = Some 1%nat -> k < 2 ^ 32 ->
    deser_nodes (S f) b trees (code op :: u32le k ++ rest)
    = let (a1, i) := mk_unary O b op (tget trees k) in deser_nodes f a1 (trees ++ [i]) rest.
  Proof.
    intros Hop Hk. cbn [Codec.deser_nodes].
    rewrite code_end_false, of_code_code. cbv iota.
    rewrite (not_const_args op 0 Hop). cbv iota. rewrite Hop. cbv iota.
    rewrite u32_roundtrip by exact Hk. reflexivity.
  Qed.

  Lemma deser_step_bin f b trees op kr kl rest : args op = Some 2%nat -> kr < 2 ^ 32 -> kl < 2 ^ 32 ->
    deser_nodes (S f) b trees (code op :: u32le kr ++ u32le kl ++ rest)
    = let (a1, i) := mk_bin O b op (tget trees kl) (tget trees kr) in
      deser_nodes f a1 (trees ++ [i]) rest.
  Proof.
    intros Hop Hr Hl. cbn [Codec.deser_nodes].
    rewrite code_end_false, of_code_code. cbv iota.
    rewrite (not_const_args op 1 Hop). cbv iota. rewrite Hop. cbv iota.
    rewrite u32_roundtrip by exact Hr. rewrite u32_roundtrip by exact Hl. reflexivity.
  Qed.

  Lemma deser_step_null f b trees op rest : args op = Some 0%nat -> op <> CONSTANT ->
    deser_nodes (S f) b trees (code op :: rest)
    = let (a1, i) := mk_nullary b op in deser_nodes f a1 (trees ++ [i]) rest.
  Proof.
    intros Hop Hc. cbn [Codec.deser_nodes].
    rewrite code_end_false, of_code_code. cbv iota.
    destruct (opcode_eqb op CONSTANT) eqn:E; [apply opcode_eqb_eq in E; contradiction|].
    rewrite Hop. reflexivity.
  Qed.

  Lemma deser_step_end f b trees rest :
    deser_nodes (S f) b trees (END_OF_ITEM :: rest) = (b, trees, rest).
  Proof. reflexivity. Qed.

  (* ---- the relation between serialiser and deserialiser states ---- *)
  Variable a : arena.
  Hypothesis Hwfa : arena_wf a.

  (* r: environment for the source arena, r': environment for the target arena.
     Coordinates agree; every serialised free variable of the source has the
     value of the fresh VAR_FREE node it was reloaded as. *)
  Definition env_corr (ids : idmap) (trees : list nat) (r r' : env) : Prop :=
    ex r' = ex r /\ ey r' = ey r /\ ez r' = ez r /\
    forall n k, In (n, k) ids -> getn a n = NNullary VAR_FREE -> ev r' (tget trees k) = ev r n.

  Record rel (ids : idmap) (b : arena) (trees : list nat) : Prop := {
    r_wf : arena_wf b;
    r_base : base_ok O b;
    r_len : length ids = length trees;
    r_pos : pos_ok ids;
    r_rng : forall n k, In (n, k) ids -> (tget trees k < length b)%nat;
    r_val : forall n k, In (n, k) ids -> forall r r', env_corr ids trees r r' ->
              val b (tget trees k) r' = val a n r;
    r_var : forall n k, In (n, k) ids -> getn a n = NNullary VAR_FREE ->
              getn b (tget trees k) = NNullary VAR_FREE;
    r_inj : forall n k n' k', In (n, k) ids -> In (n', k') ids ->
              getn a n = NNullary VAR_FREE -> getn a n' = NNullary VAR_FREE ->
              tget trees k = tget trees k' -> n = n';
    (* the id map is closed under children (whole trees were serialised) *)
    r_closed : forall n k, In (n, k) ids -> forall c, In c (kids (getn a n)) ->
              id_find ids c <> None;
    (* every arena id has at most one position *)
    r_keys : NoDup (map fst ids)
  }.

  Lemma rel_tget_old ids b trees i n k : rel ids b trees -> In (n, k) ids ->
    tget (trees ++ [i]) k = tget trees k.
  Proof.
    intros R Hi. apply tget_app_old. rewrite <- (r_len _ _ _ R).
    apply (pos_ok_In ids n k (r_pos _ _ _ R) Hi).
  Qed.

  Lemma env_corr_mono ids b trees m i r r' : rel ids b trees ->
    env_corr ((m, N.of_nat (length ids)) :: ids) (trees ++ [i]) r r' -> env_corr ids trees r r'.
  Proof.
    intros R (Hx & Hy & Hz & Hv). repeat split; auto.
    intros n k Hi Hn. rewrite <- (rel_tget_old ids b trees i n k R Hi).
    apply Hv; [right; exact Hi | exact Hn].
  Qed.

  Lemma rel_extend ids b trees m b1 i :
    rel ids b trees -> id_find ids m = None -> extends b b1 -> arena_wf b1 -> (i < length b1)%nat ->
    (forall r r', env_corr ((m, N.of_nat (length ids)) :: ids) (trees ++ [i]) r r' ->
                  val b1 i r' = val a m r) ->
    (getn a m = NNullary VAR_FREE -> i = length b /\ getn b1 i = NNullary VAR_FREE) ->
    (forall c, In c (kids (getn a m)) -> id_find ids c <> None) ->
    rel ((m, N.of_nat (length ids)) :: ids) b1 (trees ++ [i]).
  Proof.
    intros R Hnone He Hwf1 Hi Hval Hvar Hcl.
    assert (Hmono : forall c, id_find ids c <> None ->
                      id_find ((m, N.of_nat (length ids)) :: ids) c <> None).
    { intros c Hf. destruct (Nat.eq_dec c m) as [->|Hne].
      - rewrite id_find_cons_eq; discriminate.
      - rewrite id_find_cons_ne by exact Hne. exact Hf. }
    pose proof (extends_length _ _ He) as Hlen.
    assert (Hnew : tget (trees ++ [i]) (N.of_nat (length ids)) = i).
    { rewrite (r_len _ _ _ R). apply tget_app_new. }
    constructor.
    - exact Hwf1.
    - eapply base_ok_extends; [apply (r_base _ _ _ R) | exact He].
    - rewrite app_length. simpl. rewrite (r_len _ _ _ R). lia.
    - simpl. split; [reflexivity | apply (r_pos _ _ _ R)].
    - intros n k [Hk|Hk].
      + inversion Hk; subst. rewrite Hnew. exact Hi.
      + rewrite (rel_tget_old ids b trees i n k R Hk).
        pose proof (r_rng _ _ _ R n k Hk). lia.
    - intros n k [Hk|Hk] r r' Hc.
      + inversion Hk; subst. rewrite Hnew. apply Hval; exact Hc.
      + rewrite (rel_tget_old ids b trees i n k R Hk).
        rewrite (extends_val O osem b b1) by (auto; apply (r_rng _ _ _ R n k Hk)).
        apply (r_val _ _ _ R n k Hk). eapply env_corr_mono; eauto.
    - intros n k [Hk|Hk] Hn.
      + inversion Hk; subst. rewrite Hnew. apply Hvar; exact Hn.
      + rewrite (rel_tget_old ids b trees i n k R Hk).
        rewrite (extends_getn b b1) by (auto; apply (r_rng _ _ _ R n k Hk)).
        apply (r_var _ _ _ R n k Hk Hn).
    - intros n k n' k' [Hk|Hk] [Hk'|Hk'] Hn Hn' Heq.
      + inversion Hk; inversion Hk'; subst; reflexivity.
      + inversion Hk; subst. rewrite Hnew in Heq.
        rewrite (rel_tget_old ids b trees i n' k' R Hk') in Heq.
        pose proof (r_rng _ _ _ R n' k' Hk'). destruct (Hvar Hn) as [Hib _]. lia.
      + inversion Hk'; subst. rewrite Hnew in Heq.
        rewrite (rel_tget_old ids b trees i n k R Hk) in Heq.
        pose proof (r_rng _ _ _ R n k Hk). destruct (Hvar Hn') as [Hib _]. lia.
      + rewrite (rel_tget_old ids b trees i n k R Hk) in Heq.
        rewrite (rel_tget_old ids b trees i n' k' R Hk') in Heq.
        apply (r_inj _ _ _ R n k n' k' Hk Hk' Hn Hn' Heq).
    - intros n k [Hk|Hk] c Hc; apply Hmono.
      + inversion Hk; subst. apply Hcl; exact Hc.
      + apply (r_closed _ _ _ R n k Hk c Hc).
    - cbn [map fst]. constructor; [apply id_find_None_keys; exact Hnone | apply (r_keys _ _ _ R)].
  Qed.

  Lemma rel_pos_lt ids b trees n k : rel ids b trees -> N.of_nat (length ids) <= 2 ^ 32 ->
    In (n, k) ids -> k < 2 ^ 32.
  Proof.
    intros R Hb Hi. pose proof (pos_ok_In ids n k (r_pos _ _ _ R) Hi). lia.
  Qed.
  (* ---- one node ---- *)
  Lemma val_nullary_x m r : (m < length a)%nat -> getn a m = NNullary VAR_X -> val a m r = ex r.
  Proof. intros Hm Hn. rewrite val_node by exact Hm. rewrite Hn. reflexivity. Qed.
  Lemma val_nullary_y m r : (m < length a)%nat -> getn a m = NNullary VAR_Y -> val a m r = ey r.
  Proof. intros Hm Hn. rewrite val_node by exact Hm. rewrite Hn. reflexivity. Qed.
  Lemma val_nullary_z m r : (m < length a)%nat -> getn a m = NNullary VAR_Z -> val a m r = ez r.
  Proof. intros Hm Hn. rewrite val_node by exact Hm. rewrite Hn. reflexivity. Qed.
  Lemma val_nullary_v m r : (m < length a)%nat -> getn a m = NNullary VAR_FREE -> val a m r = ev r m.
  Proof. intros Hm Hn. rewrite val_node by exact Hm. rewrite Hn. reflexivity. Qed.

  Definition const_ok (m : nat) : Prop :=
    forall c, getn a m = NConst c -> enc c < 2 ^ 32 /\ dec (enc c) = c.

  Lemma node_step ids b trees m :
    rel ids b trees -> (m < length a)%nat -> pure_at a m -> const_ok m ->
    id_find ids m = None ->
    (forall k, In k (kids (getn a m)) -> id_find ids k <> None) ->
    N.of_nat (length ids) < 2 ^ 32 ->
    exists nb b1 i,
      (forall out, ser_node a (out, ids) m = (out ++ nb, (m, N.of_nat (length ids)) :: ids)) /\
      (1 <= length nb)%nat /\
      (forall f rest, deser_nodes (S f) b trees (nb ++ rest) = deser_nodes f b1 (trees ++ [i]) rest) /\
      rel ((m, N.of_nat (length ids)) :: ids) b1 (trees ++ [i]) /\ extends b b1.
  Proof.
    intros R Hm Hpure Hc Hnone Hkids Hbound.
    pose proof (r_wf _ _ _ R) as Hwfb. pose proof (r_base _ _ _ R) as Hbb.
    assert (Hb32 : N.of_nat (length ids) <= 2 ^ 32) by lia.
    unfold pure_at in Hpure.
    destruct (getn a m) as [c|o|o x|o x y|k|x' y' z' t'|x y z t|v e t|] eqn:Hn; try contradiction.
    - (* constant *)
      destruct (Hc c Hn) as [Hlt Hdec].
      pose proof (const_sem O osem b (dec (enc c)) Hwfb) as Hok.
      destruct (mk_const b (dec (enc c))) as [b1 i] eqn:E.
      destruct Hok as (He & Hwf1 & Hi & Hv); cbn [fst snd] in *.
      exists (code CONSTANT :: u32le (enc c)), b1, i. split; [|split; [|split; [|split]]].
      + intros out. unfold Codec.ser_node. rewrite Hnone, Hn. reflexivity.
      + simpl; lia.
      + intros f rest. cbn [app]. rewrite deser_step_const by exact Hlt. rewrite E. reflexivity.
      + apply (rel_extend ids b trees m b1 i R Hnone He Hwf1 Hi).
        * intros r r' _. rewrite Hv, Hdec. symmetry. apply (val_const O osem a m c r Hm Hn).
        * intros Hvf; rewrite Hn in Hvf; discriminate Hvf.
        * intros c0 Hc0; apply Hkids; first [exact Hc0 | rewrite Hn in Hc0; exact Hc0].
      + exact He.
    - (* nullary *)
      destruct o; try contradiction.
      + (* X *)
        pose proof (nullary_sem_x O osem b Hwfb Hbb) as Hok.
        destruct (mk_nullary b VAR_X) as [b1 i] eqn:E.
        destruct Hok as (He & Hwf1 & Hi & Hv); cbn [fst snd] in *.
        exists [code VAR_X], b1, i. split; [|split; [|split; [|split]]].
        * intros out. unfold Codec.ser_node. rewrite Hnone, Hn. reflexivity.
        * simpl; lia.
        * intros f rest. cbn [app]. rewrite deser_step_null by (reflexivity || discriminate).
          rewrite E. reflexivity.
        * apply (rel_extend ids b trees m b1 i R Hnone He Hwf1 Hi).
          -- intros r r' (Hx & _). rewrite Hv, Hx. symmetry. apply val_nullary_x; assumption.
          -- intros Hvf; rewrite Hn in Hvf; discriminate Hvf.
          -- intros c0 Hc0; apply Hkids; first [exact Hc0 | rewrite Hn in Hc0; exact Hc0].
        * exact He.
      + (* Y *)
        pose proof (nullary_sem_y O osem b Hwfb Hbb) as Hok.
        destruct (mk_nullary b VAR_Y) as [b1 i] eqn:E.
        destruct Hok as (He & Hwf1 & Hi & Hv); cbn [fst snd] in *.
        exists [code VAR_Y], b1, i. split; [|split; [|split; [|split]]].
        * intros out. unfold Codec.ser_node. rewrite Hnone, Hn. reflexivity.
        * simpl; lia.
        * intros f rest. cbn [app]. rewrite deser_step_null by (reflexivity || discriminate).
          rewrite E. reflexivity.
        * apply (rel_extend ids b trees m b1 i R Hnone He Hwf1 Hi).
          -- intros r r' (_ & Hy & _). rewrite Hv, Hy. symmetry. apply val_nullary_y; assumption.
          -- intros Hvf; rewrite Hn in Hvf; discriminate Hvf.
          -- intros c0 Hc0; apply Hkids; first [exact Hc0 | rewrite Hn in Hc0; exact Hc0].
        * exact He.
      + (* Z *)
        pose proof (nullary_sem_z O osem b Hwfb Hbb) as Hok.
        destruct (mk_nullary b VAR_Z) as [b1 i] eqn:E.
        destruct Hok as (He & Hwf1 & Hi & Hv); cbn [fst snd] in *.
        exists [code VAR_Z], b1, i. split; [|split; [|split; [|split]]].
        * intros out. unfold Codec.ser_node. rewrite Hnone, Hn. reflexivity.
        * simpl; lia.
        * intros f rest. cbn [app]. rewrite deser_step_null by (reflexivity || discriminate).
          rewrite E. reflexivity.
        * apply (rel_extend ids b trees m b1 i R Hnone He Hwf1 Hi).
          -- intros r r' (_ & _ & Hz & _). rewrite Hv, Hz. symmetry. apply val_nullary_z; assumption.
          -- intros Hvf; rewrite Hn in Hvf; discriminate Hvf.
          -- intros c0 Hc0; apply Hkids; first [exact Hc0 | rewrite Hn in Hc0; exact Hc0].
        * exact He.
      + (* free variable: reloaded as a fresh VAR_FREE node *)
        pose proof (var_sem O osem b Hwfb) as Hok. unfold mk_var in Hok.
        assert (E : mk_nullary b VAR_FREE = (b ++ [NNullary VAR_FREE], length b)) by reflexivity.
        rewrite E in Hok.
        destruct Hok as (He & Hwf1 & Hi & Hv); cbn [fst snd] in *.
        exists [code VAR_FREE], (b ++ [NNullary VAR_FREE]), (length b).
        split; [|split; [|split; [|split]]].
        * intros out. unfold Codec.ser_node. rewrite Hnone, Hn. reflexivity.
        * simpl; lia.
        * intros f rest. cbn [app]. rewrite deser_step_null by (reflexivity || discriminate).
          rewrite E. reflexivity.
        * apply (rel_extend ids b trees m _ _ R Hnone He Hwf1 Hi).
          -- intros r r' (_ & _ & _ & Hvv). rewrite Hv.
             rewrite val_nullary_v by assumption.
             rewrite <- (Hvv m (N.of_nat (length ids)) (or_introl eq_refl) Hn).
             rewrite (r_len _ _ _ R), tget_app_new. reflexivity.
          -- intros _. split; [reflexivity | apply getn_snoc_new].
          -- intros c0 Hc0; apply Hkids; first [exact Hc0 | rewrite Hn in Hc0; exact Hc0].
        * exact He.
    - (* unary *)
      destruct (val_unary O osem a m o x (env0 O) Hwfa Hm Hn) as [Hxm _].
      pose proof (shape_unary_args a m o x Hwfa Hm Hn) as Hop.
      destruct (id_find ids x) as [kx|] eqn:Hfx; [|exfalso; apply (Hkids x); [left; reflexivity | exact Hfx]].
      pose proof (id_find_In ids x kx Hfx) as Hinx.
      pose proof (rel_pos_lt ids b trees x kx R Hb32 Hinx) as Hkx.
      pose proof (r_rng _ _ _ R x kx Hinx) as Hrx.
      pose proof (unary_sem O osem LAWS b o (tget trees kx) Hwfb Hrx Hop) as Hok.
      destruct (mk_unary O b o (tget trees kx)) as [b1 i] eqn:E.
      destruct Hok as (He & Hwf1 & Hi & Hv); cbn [fst snd] in *.
      exists (code o :: u32le kx), b1, i. split; [|split; [|split; [|split]]].
      + intros out. unfold Codec.ser_node. rewrite Hnone, Hn.
        rewrite id_at_cons_ne by lia. rewrite (id_at_find ids x kx Hfx). reflexivity.
      + simpl; lia.
      + intros f rest. cbn [app]. rewrite deser_step_un by assumption. rewrite E. reflexivity.
      + apply (rel_extend ids b trees m b1 i R Hnone He Hwf1 Hi).
        * intros r r' Hcr. rewrite Hv.
          destruct (val_unary O osem a m o x r Hwfa Hm Hn) as [_ ->].
          rewrite (r_val _ _ _ R x kx Hinx r r'); [reflexivity|].
          eapply env_corr_mono; eauto.
        * intros Hvf; rewrite Hn in Hvf; discriminate Hvf.
        * intros c0 Hc0; apply Hkids; first [exact Hc0 | rewrite Hn in Hc0; exact Hc0].
      + exact He.
    - (* binary: written as op, id(rhs), id(lhs) *)
      destruct (val_binary O osem a m o x y (env0 O) Hwfa Hm Hn) as (Hxm & Hym & _).
      pose proof (shape_binary_args a m o x y Hwfa Hm Hn) as Hop.
      destruct (id_find ids x) as [kx|] eqn:Hfx; [|exfalso; apply (Hkids x); [left; reflexivity | exact Hfx]].
      destruct (id_find ids y) as [ky|] eqn:Hfy; [|exfalso; apply (Hkids y); [right; left; reflexivity | exact Hfy]].
      pose proof (id_find_In ids x kx Hfx) as Hinx.
      pose proof (id_find_In ids y ky Hfy) as Hiny.
      pose proof (rel_pos_lt ids b trees x kx R Hb32 Hinx) as Hkx.
      pose proof (rel_pos_lt ids b trees y ky R Hb32 Hiny) as Hky.
      pose proof (r_rng _ _ _ R x kx Hinx) as Hrx.
      pose proof (r_rng _ _ _ R y ky Hiny) as Hry.
      pose proof (bin_sem O osem LAWS b o (tget trees kx) (tget trees ky) Hwfb Hrx Hry Hop) as Hok.
      destruct (mk_bin O b o (tget trees kx) (tget trees ky)) as [b1 i] eqn:E.
      destruct Hok as (He & Hwf1 & Hi & Hv); cbn [fst snd] in *.
      exists (code o :: u32le ky ++ u32le kx), b1, i. split; [|split; [|split; [|split]]].
      + intros out. unfold Codec.ser_node. rewrite Hnone, Hn.
        rewrite !id_at_cons_ne by lia.
        rewrite (id_at_find ids x kx Hfx), (id_at_find ids y ky Hfy). reflexivity.
      + simpl; lia.
      + intros f rest. cbn [app]. rewrite <- app_assoc.
        rewrite deser_step_bin by assumption. rewrite E. reflexivity.
      + apply (rel_extend ids b trees m b1 i R Hnone He Hwf1 Hi).
        * intros r r' Hcr. rewrite Hv.
          destruct (val_binary O osem a m o x y r Hwfa Hm Hn) as (_ & _ & ->).
          assert (Hc0 : env_corr ids trees r r') by (eapply env_corr_mono; eauto).
          rewrite (r_val _ _ _ R x kx Hinx r r' Hc0), (r_val _ _ _ R y ky Hiny r r' Hc0).
          reflexivity.
        * intros Hvf; rewrite Hn in Hvf; discriminate Hvf.
        * intros c0 Hc0; apply Hkids; first [exact Hc0 | rewrite Hn in Hc0; exact Hc0].
      + exact He.
  Qed.
  (* ---- the serialiser alone: bookkeeping of the id map ---- *)
  Lemma ser_node_ids out ids m :
    snd (ser_node a (out, ids) m)
    = match id_find ids m with Some _ => ids | None => (m, N.of_nat (length ids)) :: ids end.
  Proof.
    unfold Codec.ser_node. destruct (id_find ids m); [reflexivity|].
    destruct (getn a m); reflexivity.
  Qed.

  Lemma ser_node_skip out ids m k : id_find ids m = Some k -> ser_node a (out, ids) m = (out, ids).
  Proof. intros H. unfold Codec.ser_node. rewrite H. reflexivity. Qed.

  Lemma fold_ids_notin : forall l st t, id_find (snd st) t = None -> ~ In t l ->
    id_find (snd (fold_left (ser_node a) l st)) t = None.
  Proof.
    induction l as [|m l IH]; intros [out ids] t Hn Hni; [exact Hn|].
    cbn [fold_left]. apply IH; [|intros Hc; apply Hni; right; exact Hc].
    rewrite ser_node_ids. cbn [snd] in Hn. destruct (id_find ids m); [exact Hn|].
    rewrite id_find_cons_ne; [exact Hn|]. intros ->. apply Hni; left; reflexivity.
  Qed.

  (* the root of a walk (its last element), if new, receives the last position *)
  Lemma fold_ids_last pre t st : id_find (snd st) t = None -> ~ In t pre ->
    exists ids1, snd (fold_left (ser_node a) (pre ++ [t]) st) = (t, N.of_nat (length ids1)) :: ids1.
  Proof.
    intros Hn Hni. rewrite fold_left_app. cbn [fold_left].
    pose proof (fold_ids_notin pre st t Hn Hni) as H.
    destruct (fold_left (ser_node a) pre st) as [out1 ids1]. cbn [snd] in H.
    exists ids1. rewrite ser_node_ids, H. reflexivity.
  Qed.

  Lemma fold_ids_length_mono : forall l st,
    (length (snd st) <= length (snd (fold_left (ser_node a) l st)))%nat.
  Proof.
    induction l as [|m l IH]; intros [out ids]; [cbn [fold_left snd]; lia|].
    cbn [fold_left]. etransitivity; [|apply IH].
    rewrite ser_node_ids. cbn [snd]. destruct (id_find ids m); simpl; lia.
  Qed.

  Lemma fold_ids_length_le : forall l st,
    (length (snd (fold_left (ser_node a) l st)) <= length (snd st) + length l)%nat.
  Proof.
    induction l as [|m l IH]; intros [out ids]; [cbn [fold_left snd]; lia|].
    cbn [fold_left]. etransitivity; [apply IH|].
    rewrite ser_node_ids. cbn [snd]. destruct (id_find ids m); simpl; lia.
  Qed.

  (* the final id map does not depend on the bytes written so far *)
  Lemma fold_ids_out_indep : forall l out out' ids,
    snd (fold_left (ser_node a) l (out, ids)) = snd (fold_left (ser_node a) l (out', ids)).
  Proof.
    induction l as [|m l IH]; intros out out' ids; [reflexivity|].
    cbn [fold_left].
    pose proof (ser_node_ids out ids m) as E1. pose proof (ser_node_ids out' ids m) as E2.
    destruct (ser_node a (out, ids) m) as [o1 i1]. destruct (ser_node a (out', ids) m) as [o2 i2].
    cbn [snd] in E1, E2. subst i1 i2. apply IH.
  Qed.

  (* Serializer::ids after writing the nodes [l] *)
  Definition ser_ids (ids : idmap) (l : list nat) : idmap :=
    snd (fold_left (ser_node a) l ([], ids)).

  Lemma ser_ids_eq l out ids : snd (fold_left (ser_node a) l (out, ids)) = ser_ids ids l.
  Proof. apply fold_ids_out_indep. Qed.

  (* ---- the walk ---- *)
  (* every element is a plain node whose constants survive the 32-bit coding and
     whose children come earlier in the list or are already serialised *)
  Definition kids_ok (ids : idmap) (l : list nat) : Prop :=
    forall pre m suf, l = pre ++ m :: suf ->
      (m < length a)%nat /\ pure_at a m /\ const_ok m /\
      forall k, In k (kids (getn a m)) -> In k pre \/ id_find ids k <> None.

  Lemma kids_ok_tail ids ids1 m l :
    kids_ok ids (m :: l) -> id_find ids1 m <> None ->
    (forall k, id_find ids k <> None -> id_find ids1 k <> None) ->
    kids_ok ids1 l.
  Proof.
    intros H Hm Hmono. unfold kids_ok. intros pre m0 suf ->.
    destruct (H (m :: pre) m0 suf eq_refl) as (H1 & H2 & H3 & H4).
    split; [exact H1|]. split; [exact H2|]. split; [exact H3|]. intros k Hk. destruct (H4 k Hk) as [[<-|Hp]|Hf]; auto.
  Qed.

  Lemma nodes_roundtrip : forall l out ids b trees,
    kids_ok ids l -> rel ids b trees ->
    N.of_nat (length (snd (fold_left (ser_node a) l (out, ids)))) <= 2 ^ 32 ->
    exists bytes ids' b' trees',
      fold_left (ser_node a) l (out, ids) = (out ++ bytes, ids') /\
      (forall fuel rest, (length bytes < fuel)%nat ->
         deser_nodes fuel b trees (bytes ++ [END_OF_ITEM] ++ rest) = (b', trees', rest)) /\
      rel ids' b' trees' /\ extends b b' /\
      (forall m, In m l -> id_find ids' m <> None) /\
      (forall m, id_find ids m <> None -> id_find ids' m <> None) /\
      (exists new, ids' = new ++ ids) /\ (exists nt, trees' = trees ++ nt).
  Proof.
    induction l as [|m l IH]; intros out ids b trees Hk R Hb.
    - exists [], ids, b, trees. rewrite app_nil_r.
      repeat match goal with |- _ /\ _ => split end.
      + reflexivity.
      + intros fuel rest Hf. destruct fuel as [|f]; [simpl in Hf; lia|]. reflexivity.
      + exact R.
      + apply extends_refl.
      + intros m [].
      + auto.
      + exists []; reflexivity.
      + exists []; rewrite app_nil_r; reflexivity.
    - destruct (Hk [] m l eq_refl) as (Hm & Hpure & Hc & Hkids).
      cbn [fold_left] in Hb.
      destruct (id_find ids m) as [km|] eqn:Hfm.
      + (* already serialised (shared with an earlier shape): skipped *)
        assert (Hk' : kids_ok ids l).
        { apply (kids_ok_tail ids ids m l Hk); [rewrite Hfm; discriminate | auto]. }
        rewrite (ser_node_skip out ids m km Hfm) in Hb.
        destruct (IH out ids b trees Hk' R Hb) as (bytes & ids' & b' & trees' & H1 & H2 & H3 & H4 & H5 & H6 & H7 & H8).
        exists bytes, ids', b', trees'.
        repeat match goal with |- _ /\ _ => split end;
          [| exact H2 | exact H3 | exact H4 | | exact H6 | exact H7 | exact H8].
        * cbn [fold_left]. rewrite (ser_node_skip out ids m km Hfm). exact H1.
        * intros m0 [<-|Hin]; [apply H6; rewrite Hfm; discriminate | apply H5; exact Hin].
      + assert (Hkids' : forall k, In k (kids (getn a m)) -> id_find ids k <> None).
        { intros k Hin. destruct (Hkids k Hin) as [[]|Hf]; exact Hf. }
        assert (Hlt : N.of_nat (length ids) < 2 ^ 32).
        { pose proof (fold_ids_length_mono l (ser_node a (out, ids) m)) as Hmono.
          rewrite ser_node_ids, Hfm in Hmono. cbn [length] in Hmono. lia. }
        destruct (node_step ids b trees m R Hm Hpure Hc Hfm Hkids' Hlt)
          as (nb & b1 & i & Hs & Hnb & Hd & R1 & He1).
        rewrite Hs in Hb.
        set (ids1 := (m, N.of_nat (length ids)) :: ids) in *.
        assert (Hmono : forall k, id_find ids k <> None -> id_find ids1 k <> None).
        { intros k Hf. unfold ids1. destruct (Nat.eq_dec k m) as [->|Hne].
          - rewrite id_find_cons_eq; discriminate.
          - rewrite id_find_cons_ne by exact Hne. exact Hf. }
        assert (Hk' : kids_ok ids1 l).
        { apply (kids_ok_tail ids ids1 m l Hk); [unfold ids1; rewrite id_find_cons_eq; discriminate | exact Hmono]. }
        destruct (IH (out ++ nb) ids1 b1 (trees ++ [i]) Hk' R1 Hb)
          as (bytes & ids' & b' & trees' & H1 & H2 & H3 & H4 & H5 & H6 & H7 & H8).
        exists (nb ++ bytes), ids', b', trees'.
        repeat match goal with |- _ /\ _ => split end; [| | exact H3 | | | | |].
        * cbn [fold_left]. rewrite Hs. rewrite app_assoc. exact H1.
        * intros fuel rest Hf. rewrite app_length in Hf.
          destruct fuel as [|f]; [lia|].
          rewrite <- app_assoc. rewrite Hd. apply H2. lia.
        * eapply extends_trans; eauto.
        * intros m0 [<-|Hin]; [|apply H5; exact Hin].
          apply H6. unfold ids1. rewrite id_find_cons_eq. discriminate.
        * intros m0 Hf. apply H6. apply Hmono. exact Hf.
        * destruct H7 as [new ->]. exists (new ++ [(m, N.of_nat (length ids))]).
          unfold ids1. rewrite <- app_assoc. reflexivity.
        * destruct H8 as [nt ->]. exists (i :: nt). rewrite <- app_assoc. reflexivity.
  Qed.

  (* ---- Goal 4: a whole tree ---- *)
  Definition plain (t : nat) : Prop := forall m, reach a t m -> pure_at a m.
  Definition consts_ok (t : nat) : Prop := forall m, reach a t m -> const_ok m.

  (* a coding that is faithful on all numbers is faithful on every tree *)
  Lemma consts_ok_global t :
    (forall c, enc c < 2 ^ 32) -> (forall c, dec (enc c) = c) -> consts_ok t.
  Proof. intros H1 H2 m _ c _. split; [apply H1 | apply H2]. Qed.

  Lemma walk_kids_ok t ids : (t < length a)%nat -> plain t -> consts_ok t ->
    kids_ok ids (walk a t).
  Proof.
    intros Ht Hp Hc.
    destruct (walk_topo_ok_reach a Hwfa t Ht Hp) as [[_ Hall] _].
    intros pre m suf Heq. destruct (Hall pre m suf Heq) as (H1 & H2 & H3).
    split; [exact H1|]. split; [exact H2|]. split.
    - apply Hc. apply (walk_in_reach a Hwfa t Ht). rewrite Heq.
      apply in_or_app; right; left; reflexivity.
    - intros k Hk. left. apply H3; exact Hk.
  Qed.

  Theorem tree_roundtrip t out ids b trees :
    (t < length a)%nat -> plain t -> consts_ok t -> rel ids b trees ->
    N.of_nat (length (ser_ids ids (walk a t))) <= 2 ^ 32 ->
    exists bytes ids' b' trees',
      fold_left (ser_node a) (walk a t) (out, ids) = (out ++ bytes, ids') /\
      (forall fuel rest, (length bytes < fuel)%nat ->
         deser_nodes fuel b trees (bytes ++ [END_OF_ITEM] ++ rest) = (b', trees', rest)) /\
      rel ids' b' trees' /\ extends b b' /\
      (* every reachable node has been assigned a position and reloads to a node
         denoting the same function *)
      (forall m, reach a t m -> exists k, id_find ids' m = Some k /\
         forall r r', env_corr ids' trees' r r' -> val b' (tget trees' k) r' = val a m r) /\
      (forall m, id_find ids m <> None -> id_find ids' m <> None) /\
      (* a new root is the last reloaded tree *)
      (id_find ids t = None ->
         id_find ids' t = Some (N.of_nat (pred (length trees'))) /\
         forall r r', env_corr ids' trees' r r' ->
           val b' (nth (pred (length trees')) trees' idInvalid) r' = val a t r) /\
      (* both states only grow *)
      (exists new, ids' = new ++ ids) /\ (exists nt, trees' = trees ++ nt).
  Proof.
    intros Ht Hp Hc R Hb. rewrite <- (ser_ids_eq _ out) in Hb.
    destruct (nodes_roundtrip (walk a t) out ids b trees (walk_kids_ok t ids Ht Hp Hc) R Hb)
      as (bytes & ids' & b' & trees' & H1 & H2 & H3 & H4 & H5 & H6 & H7 & H8).
    exists bytes, ids', b', trees'.
    split; [exact H1|]. split; [exact H2|]. split; [exact H3|]. split; [exact H4|].
    assert (Hreach : forall m, reach a t m -> exists k, id_find ids' m = Some k /\
         forall r r', env_corr ids' trees' r r' -> val b' (tget trees' k) r' = val a m r).
    { intros m Hm. pose proof (H5 m (reach_in_walk a Hwfa t Ht m Hm)) as Hf.
      destruct (id_find ids' m) as [k|] eqn:E; [|congruence].
      exists k. split; [reflexivity|]. intros r r' Hcr.
      apply (r_val _ _ _ H3 m k (id_find_In ids' m k E) r r' Hcr). }
    split; [exact Hreach|]. split; [exact H6|]. split; [|split; [exact H7 | exact H8]].
    intros Hnone.
    destruct (walk_topo_ok_reach a Hwfa t Ht Hp) as [[Hnd _] [pre Hpre]].
    rewrite Hpre in Hnd. destruct (NoDup_snoc pre t Hnd) as [_ Hni].
    destruct (fold_ids_last pre t (out, ids) Hnone Hni) as [ids1 Hl].
    rewrite <- Hpre, H1 in Hl. cbn [snd] in Hl.
    assert (Hlen : length ids1 = pred (length trees')).
    { pose proof (r_len _ _ _ H3) as Hl3. rewrite Hl in Hl3. simpl in Hl3. lia. }
    assert (Hf : id_find ids' t = Some (N.of_nat (pred (length trees')))).
    { rewrite Hl, id_find_cons_eq, Hlen. reflexivity. }
    split; [exact Hf|]. intros r r' Hcr.
    destruct (Hreach t (reach_root a t)) as (k & Hk & Hv).
    rewrite Hf in Hk. inversion Hk; subst k.
    specialize (Hv r r' Hcr). unfold tget in Hv. rewrite Nat2N.id in Hv. exact Hv.
  Qed.

  (* the conservative form of the position bound *)
  Lemma bound_from_lengths t ids :
    N.of_nat (length ids + length (walk a t)) <= 2 ^ 32 ->
    N.of_nat (length (ser_ids ids (walk a t))) <= 2 ^ 32.
  Proof.
    intros H. pose proof (fold_ids_length_le (walk a t) ([], ids)) as Hle. cbn [snd] in Hle.
    assert (Hle' : (length (ser_ids ids (walk a t)) <= length ids + length (walk a t))%nat) by exact Hle.
    lia.
  Qed.

  (* ---- serializeTree: flatten is the identity on a tree without remap flag ---- *)
  Lemma ser_tree_plain t st : f_remap (flags_of a t) = false ->
    ser_tree O enc a t st = (a, t, fold_left (ser_node a) (walk a t) st).
  Proof. intros H. unfold ser_tree, flatten. rewrite H. reflexivity. Qed.

  (* ---- the correspondence of environments is satisfiable ---- *)
  Definition is_varb (n : nat) : bool :=
    match getn a n with NNullary VAR_FREE => true | _ => false end.
  Lemma is_varb_spec n : is_varb n = true <-> getn a n = NNullary VAR_FREE.
  Proof.
    unfold is_varb. destruct (getn a n) as [c|o|o x|o x y|k|x' y' z' t'|x y z t|v e t|];
      try (split; [discriminate|intros H; discriminate H]).
    destruct o; split; try discriminate; try reflexivity; intros H; discriminate H.
  Qed.

  Theorem env_corr_exists ids b trees (r : env) : rel ids b trees ->
    exists r', env_corr ids trees r r'.
  Proof.
    intros R.
    set (pick := fun j => find (fun p : nat * N => is_varb (fst p) && Nat.eqb (tget trees (snd p)) j) ids).
    exists {| ex := ex r; ey := ey r; ez := ez r;
              ev := fun j => match pick j with Some p => ev r (fst p) | None => o_zero O end |}.
    split; [reflexivity|]. split; [reflexivity|]. split; [reflexivity|].
    intros n k Hin Hn. cbn [ev]. unfold pick.
    destruct (find _ ids) as [[n' k']|] eqn:E.
    - apply find_some in E. destruct E as [Hin' Hp]. cbn [fst snd] in Hp.
      apply andb_true_iff in Hp. destruct Hp as [Hv He].
      apply is_varb_spec in Hv. apply Nat.eqb_eq in He. cbn [fst].
      f_equal. apply (r_inj _ _ _ R n' k' n k Hin' Hin Hv Hn He).
    - exfalso. pose proof (find_none _ _ E (n, k) Hin) as Hf. cbn [fst snd] in Hf.
      apply is_varb_spec in Hn. rewrite Hn, Nat.eqb_refl in Hf. discriminate Hf.
  Qed.

  (* ... in both directions: the reloaded tree is the original one up to the
     renaming of the serialised free variables *)
  Theorem env_corr_exists_rev ids b trees (r' : env) : rel ids b trees ->
    exists r, env_corr ids trees r r'.
  Proof.
    intros R.
    exists {| ex := ex r'; ey := ey r'; ez := ez r';
              ev := fun n => match id_find ids n with
                             | Some k => ev r' (tget trees k)
                             | None => o_zero O
                             end |}.
    split; [reflexivity|]. split; [reflexivity|]. split; [reflexivity|].
    intros n k Hin _. cbn [ev]. rewrite (id_find_unique ids n k (r_keys _ _ _ R) Hin). reflexivity.
  Qed.

  (* the empty serialiser / deserialiser states are related *)
  Lemma rel_init b : arena_wf b -> base_ok O b -> rel [] b [].
  Proof.
    intros Hw Hb. constructor; auto; try exact I; try (simpl; constructor; fail);
      intros; match goal with H : In _ [] |- _ => destruct H end.
  Qed.

  (* ---- Goal 5: shapes ---- *)
  Lemma flatten_plain t : (t < length a)%nat -> plain t -> flatten O a t = (a, t).
  Proof.
    intros Ht Hp. unfold flatten. rewrite (plain_no_remap a Hwfa t Ht Hp). reflexivity.
  Qed.

  (* a serialised root has all its reachable nodes serialised *)
  Lemma rel_reach_closed ids b trees t m : rel ids b trees ->
    id_find ids t <> None -> reach a t m -> id_find ids m <> None.
  Proof.
    intros R Ht Hm. induction Hm as [|p c Hp IH Hk]; [exact Ht|].
    destruct (id_find ids p) as [kp|] eqn:E; [|congruence].
    apply (r_closed _ _ _ R p kp (id_find_In ids p kp E) c Hk).
  Qed.

  (* the reload [v'] of a variable binding [v], in the states [ids] / [trees] *)
  Definition var_rel (ids : idmap) (trees : list nat) (v v' : nat * list byte) : Prop :=
    snd v' = snd v /\ exists k, In (fst v, k) ids /\ fst v' = tget trees k.

  Lemma vars_map_rel ids trees vs :
    (forall v, In v vs -> id_find ids (fst v) <> None) ->
    Forall2 (var_rel ids trees) vs (map (fun v => (tget trees (id_at ids (fst v)), snd v)) vs).
  Proof.
    induction vs as [|v vs IH]; intros H; [constructor|].
    cbn [map]. constructor.
    - split; [reflexivity|]. cbn [fst].
      pose proof (H v (or_introl eq_refl)) as Hf.
      destruct (id_find ids (fst v)) as [k|] eqn:E; [|congruence].
      exists k. split; [apply id_find_In; exact E|]. rewrite (id_at_find ids (fst v) k E). reflexivity.
    - apply IH. intros w Hw. apply H. right; exact Hw.
  Qed.

  (* the reload [s'] of a shape [s]: same name and doc, the root and the
     variable bindings are the reloads of the original ones *)
  Definition shape_rel (ids : idmap) (trees : list nat) (s s' : shape) : Prop :=
    sh_name s' = sh_name s /\ sh_doc s' = sh_doc s /\
    (exists k, In (sh_tree s, k) ids /\ sh_tree s' = tget trees k) /\
    Forall2 (var_rel ids trees) (sh_vars s) (sh_vars s').

  (* what [shape_rel] means: the reloaded root denotes the same function, and a
     named free variable is bound to the VAR_FREE node it was reloaded as *)
  Theorem shape_rel_sem ids b trees s s' : rel ids b trees -> shape_rel ids trees s s' ->
    sh_name s' = sh_name s /\ sh_doc s' = sh_doc s /\
    (forall r r', env_corr ids trees r r' -> val b (sh_tree s') r' = val a (sh_tree s) r) /\
    Forall2 (fun v v' => snd v' = snd v /\
               (forall r r', env_corr ids trees r r' -> val b (fst v') r' = val a (fst v) r) /\
               (getn a (fst v) = NNullary VAR_FREE ->
                  getn b (fst v') = NNullary VAR_FREE /\
                  forall r r', env_corr ids trees r r' -> ev r' (fst v') = ev r (fst v)))
            (sh_vars s) (sh_vars s').
  Proof.
    intros R (Hn & Hd & (k & Hin & Hk) & Hv).
    split; [exact Hn|]. split; [exact Hd|]. split.
    - intros r r' Hc. rewrite Hk. apply (r_val _ _ _ R _ k Hin r r' Hc).
    - induction Hv as [|v v' vs vs' (Hs & kv & Hkin & Hkv) _ IH]; constructor; [|exact IH].
      split; [exact Hs|]. rewrite Hkv. split.
      + intros r r' Hc. apply (r_val _ _ _ R _ kv Hkin r r' Hc).
      + intros Hvar. split; [apply (r_var _ _ _ R _ kv Hkin Hvar)|].
        intros r r' (_ & _ & _ & Hcv). apply Hcv; assumption.
  Qed.

  Lemma var_rel_mono ids b trees new nt v v' : rel ids b trees ->
    var_rel ids trees v v' -> var_rel (new ++ ids) (trees ++ nt) v v'.
  Proof.
    intros R (Hs & k & Hin & Hk). split; [exact Hs|]. exists k.
    split; [apply in_or_app; right; exact Hin|]. rewrite Hk.
    unfold tget. rewrite app_nth1; [reflexivity|]. rewrite <- (r_len _ _ _ R).
    apply (pos_ok_In ids _ k (r_pos _ _ _ R) Hin).
  Qed.

  Lemma shape_rel_mono ids b trees new nt s s' : rel ids b trees ->
    shape_rel ids trees s s' -> shape_rel (new ++ ids) (trees ++ nt) s s'.
  Proof.
    intros R (Hn & Hd & (k & Hin & Hk) & Hv).
    split; [exact Hn|]. split; [exact Hd|]. split.
    - exists k. split; [apply in_or_app; right; exact Hin|]. rewrite Hk.
      unfold tget. rewrite app_nth1; [reflexivity|]. rewrite <- (r_len _ _ _ R).
      apply (pos_ok_In ids _ k (r_pos _ _ _ R) Hin).
    - induction Hv as [|v v' vs vs' Hvv _ IH]; constructor; [|exact IH].
      apply (var_rel_mono ids b trees new nt v v' R Hvv).
  Qed.

  (* one 'T' shape: a tree whose root has not been serialised yet *)
  Theorem shape_roundtrip s out ids b trees :
    let t := sh_tree s in
    (t < length a)%nat -> plain t -> consts_ok t -> rel ids b trees ->
    id_find ids t = None ->
    N.of_nat (length (ser_ids ids (walk a t))) <= 2 ^ 32 ->
    (* every named variable occurs in the tree or was serialised earlier
       (otherwise Serializer::serializeShape silently drops the binding) *)
    (forall v, In v (sh_vars s) -> reach a t (fst v) \/ id_find ids (fst v) <> None) ->
    exists bytes ids' b' trees' s',
      ser_shape O enc a (out, ids) s = (a, (out ++ TAG_T :: bytes, ids')) /\
      (forall rest, deser_shape O dec b trees TAG_T (bytes ++ rest) = (b', trees', s', rest)) /\
      rel ids' b' trees' /\ extends b b' /\
      (exists new, ids' = new ++ ids) /\ (exists nt, trees' = trees ++ nt) /\
      shape_rel ids' trees' s s' /\
      sh_tree s' = nth (pred (length trees')) trees' idInvalid /\
      sh_vars s' = map (fun v => (tget trees' (id_at ids' (fst v)), snd v)) (sh_vars s) /\
      ids' = ser_ids ids (walk a t).
  Proof.
    intros t Ht Hp Hc R Hnone Hb Hvars.
    set (out0 := out ++ [TAG_T] ++ ser_string (sh_name s) ++ ser_string (sh_doc s)).
    destruct (tree_roundtrip t out0 ids b trees Ht Hp Hc R Hb)
      as (nb & ids' & b' & trees' & H1 & H2 & H3 & H4 & H5 & H6 & H7 & H8 & H9).
    destruct (H7 Hnone) as [Hroot Hrv].
    assert (Hb' : N.of_nat (length ids') <= 2 ^ 32).
    { rewrite <- (ser_ids_eq _ out0), H1 in Hb. exact Hb. }
    assert (Hvk : forall v, In v (sh_vars s) -> id_find ids' (fst v) <> None).
    { intros v Hv. destruct (Hvars v Hv) as [Hr|Hf].
      - destruct (H5 _ Hr) as (k & Hk & _). rewrite Hk; discriminate.
      - apply H6; exact Hf. }
    assert (Hvok : vars_ok ids' (sh_vars s)).
    { intros v Hv. pose proof (Hvk v Hv) as Hf.
      destruct (id_find ids' (fst v)) as [k|] eqn:E; [|congruence].
      exists k. split; [reflexivity|].
      apply (rel_pos_lt ids' b' trees' (fst v) k H3 Hb'). apply id_find_In; exact E. }
    set (sv := ser_vars ids' (sh_vars s)).
    exists (ser_string (sh_name s) ++ ser_string (sh_doc s) ++ nb ++ [END_OF_ITEM] ++ sv ++ [END_OF_ITEM]),
      ids', b', trees',
      {| sh_tree := nth (pred (length trees')) trees' idInvalid; sh_name := sh_name s;
         sh_doc := sh_doc s;
         sh_vars := map (fun v => (tget trees' (id_at ids' (fst v)), snd v)) (sh_vars s) |}.
    repeat match goal with |- _ /\ _ => split end;
      [| | exact H3 | exact H4 | exact H8 | exact H9 | | reflexivity | reflexivity
       | rewrite <- (ser_ids_eq _ out0), H1; reflexivity].
    - unfold ser_shape. fold t. rewrite (flatten_plain t Ht Hp). rewrite Hnone.
      rewrite (ser_tree_plain t _ (plain_no_remap a Hwfa t Ht Hp)).
      fold out0. rewrite H1. unfold out0, sv.
      f_equal. f_equal. repeat rewrite <- app_assoc. reflexivity.
    - intros rest. unfold deser_shape. repeat rewrite <- app_assoc.
      rewrite string_roundtrip. rewrite string_roundtrip.
      change (N.eqb TAG_T TAG_t) with false. cbv iota.
      rewrite H2 by (rewrite app_length; simpl; lia).
      pose proof (vars_roundtrip_len trees' ids' (sh_vars s) rest Hvok) as Hv.
      cbv zeta in Hv. fold sv in Hv.
      match goal with |- (let (_, _) := ?X in _) = _ =>
        replace X with (map (fun v : nat * list byte => (tget trees' (id_at ids' (fst v)), snd v)) (sh_vars s), rest)
          by (symmetry; exact Hv) end.
      reflexivity.
    - split; [reflexivity|]. split; [reflexivity|]. split.
      + exists (N.of_nat (pred (length trees'))). cbn [sh_tree].
        split; [apply id_find_In; exact Hroot|]. unfold tget. rewrite Nat2N.id. reflexivity.
      + cbn [sh_vars]. apply vars_map_rel. exact Hvk.
  Qed.

  (* a shape whose root was serialised earlier is written as a back-reference *)
  Theorem shared_roundtrip s out ids b trees k :
    let t := sh_tree s in
    (t < length a)%nat -> plain t -> rel ids b trees ->
    id_find ids t = Some k ->
    N.of_nat (length ids) <= 2 ^ 32 ->
    (forall v, In v (sh_vars s) -> id_find ids (fst v) <> None) ->
    exists bytes s',
      ser_shape O enc a (out, ids) s = (a, (out ++ TAG_t :: bytes, ids)) /\
      (forall rest, deser_shape O dec b trees TAG_t (bytes ++ rest) = (b, trees, s', rest)) /\
      shape_rel ids trees s s' /\
      sh_tree s' = tget trees k /\
      sh_vars s' = map (fun v => (tget trees (id_at ids (fst v)), snd v)) (sh_vars s).
  Proof.
    intros t Ht Hp R Hk Hb Hvars.
    pose proof (id_find_In ids t k Hk) as Hin.
    pose proof (rel_pos_lt ids b trees t k R Hb Hin) as Hk32.
    assert (Hvok : vars_ok ids (sh_vars s)).
    { intros v Hv. pose proof (Hvars v Hv) as Hf.
      destruct (id_find ids (fst v)) as [kv|] eqn:E; [|congruence].
      exists kv. split; [reflexivity|].
      apply (rel_pos_lt ids b trees (fst v) kv R Hb). apply id_find_In; exact E. }
    set (sv := ser_vars ids (sh_vars s)).
    exists (ser_string (sh_name s) ++ ser_string (sh_doc s) ++ u32le k ++ sv ++ [END_OF_ITEM]),
      {| sh_tree := tget trees k; sh_name := sh_name s; sh_doc := sh_doc s;
         sh_vars := map (fun v => (tget trees (id_at ids (fst v)), snd v)) (sh_vars s) |}.
    repeat match goal with |- _ /\ _ => split end; [| | | reflexivity | reflexivity].
    - unfold ser_shape. fold t. rewrite (flatten_plain t Ht Hp). rewrite Hk. reflexivity.
    - intros rest. unfold deser_shape. repeat rewrite <- app_assoc.
      rewrite string_roundtrip. rewrite string_roundtrip.
      change (N.eqb TAG_t TAG_t) with true. cbv iota.
      rewrite u32_roundtrip by exact Hk32.
      pose proof (vars_roundtrip_len trees ids (sh_vars s) rest Hvok) as Hv.
      cbv zeta in Hv. fold sv in Hv.
      match goal with |- (let (_, _) := ?X in _) = _ =>
        replace X with (map (fun v : nat * list byte => (tget trees (id_at ids (fst v)), snd v)) (sh_vars s), rest)
          by (symmetry; exact Hv) end.
      reflexivity.
    - split; [reflexivity|]. split; [reflexivity|]. split.
      + exists k. split; [exact Hin | reflexivity].
      + cbn [sh_vars]. apply vars_map_rel. exact Hvars.
  Qed.

  (* ---- whole archives: serialize, then deserialize ---- *)
  Definition shape_ok (s : shape) : Prop :=
    (sh_tree s < length a)%nat /\ plain (sh_tree s) /\ consts_ok (sh_tree s) /\
    forall v, In v (sh_vars s) -> reach a (sh_tree s) (fst v).

  Definition ser_step (acc : arena * (list byte * idmap)) (s : shape) :=
    ser_shape O enc (fst acc) (snd acc) s.

  Fixpoint total_nodes (shapes : list shape) : nat :=
    match shapes with
    | [] => 0
    | s :: r => length (walk a (sh_tree s)) + total_nodes r
    end.

  Lemma shapes_roundtrip : forall shapes out ids b trees,
    Forall shape_ok shapes -> rel ids b trees ->
    N.of_nat (length ids + total_nodes shapes) <= 2 ^ 32 ->
    exists bytes ids' b' trees' shapes',
      fold_left ser_step shapes (a, (out, ids)) = (a, (out ++ bytes, ids')) /\
      (length shapes <= length bytes)%nat /\
      (forall fuel acc, (length shapes <= fuel)%nat ->
         deser_shapes O dec fuel b trees bytes acc = (b', rev acc ++ shapes')) /\
      rel ids' b' trees' /\ extends b b' /\
      (exists new, ids' = new ++ ids) /\ (exists nt, trees' = trees ++ nt) /\
      Forall2 (shape_rel ids' trees') shapes shapes'.
  Proof.
    induction shapes as [|s shapes IH]; intros out ids b trees Hok R Hb.
    - exists [], ids, b, trees, []. rewrite app_nil_r.
      repeat match goal with |- _ /\ _ => split end.
      + reflexivity.
      + simpl; lia.
      + intros fuel acc _. rewrite app_nil_r. destruct fuel; reflexivity.
      + exact R.
      + apply extends_refl.
      + exists []; reflexivity.
      + exists []; rewrite app_nil_r; reflexivity.
      + constructor.
    - inversion Hok as [|s0 l0 Hs Hrest]; subst s0 l0.
      destruct Hs as (Ht & Hp & Hc & Hv).
      cbn [total_nodes] in Hb. cbn [fold_left]. unfold ser_step at 2. cbn [fst snd].
      destruct (id_find ids (sh_tree s)) as [k|] eqn:Hf.
      + (* root already serialised: back-reference *)
        assert (Hvars : forall v, In v (sh_vars s) -> id_find ids (fst v) <> None).
        { intros v Hin. apply (rel_reach_closed ids b trees (sh_tree s) (fst v) R);
            [rewrite Hf; discriminate | apply Hv; exact Hin]. }
        destruct (shared_roundtrip s out ids b trees k Ht Hp R Hf ltac:(lia) Hvars)
          as (sb & s1 & E1 & D1 & SR1 & _ & _).
        destruct (IH (out ++ TAG_t :: sb) ids b trees Hrest R ltac:(lia))
          as (bytes2 & ids2 & b2 & trees2 & shapes2 & E2 & L2 & D2 & R2 & He2 & [new2 Hn2] & [nt2 Ht2] & F2).
        exists (TAG_t :: sb ++ bytes2), ids2, b2, trees2, (s1 :: shapes2).
        repeat match goal with |- _ /\ _ => split end.
        * rewrite E1, E2. rewrite <- app_assoc. reflexivity.
        * simpl. rewrite app_length. lia.
        * intros fuel acc Hfu. destruct fuel as [|f]; [simpl in Hfu; lia|].
          cbn [deser_shapes]. rewrite D1. rewrite D2 by (simpl in Hfu; lia).
          cbn [rev]. rewrite <- app_assoc. reflexivity.
        * exact R2.
        * exact He2.
        * exists new2; exact Hn2.
        * exists nt2; exact Ht2.
        * constructor; [|exact F2]. rewrite Hn2, Ht2.
          apply (shape_rel_mono ids b trees new2 nt2 s s1 R SR1).
      + (* a new tree *)
        assert (Hb1 : N.of_nat (length (ser_ids ids (walk a (sh_tree s)))) <= 2 ^ 32).
        { apply bound_from_lengths. lia. }
        assert (Hvars : forall v, In v (sh_vars s) ->
                  reach a (sh_tree s) (fst v) \/ id_find ids (fst v) <> None).
        { intros v Hin. left. apply Hv; exact Hin. }
        destruct (shape_roundtrip s out ids b trees Ht Hp Hc R Hf Hb1 Hvars)
          as (sb & ids1 & b1 & trees1 & s1 & E1 & D1 & R1 & He1 & [new1 Hn1] & [nt1 Ht1] & SR1 & _ & _ & Hids1).
        assert (Hlen1 : (length ids1 <= length ids + length (walk a (sh_tree s)))%nat).
        { rewrite Hids1. pose proof (fold_ids_length_le (walk a (sh_tree s)) ([], ids)) as Hle.
          exact Hle. }
        destruct (IH (out ++ TAG_T :: sb) ids1 b1 trees1 Hrest R1 ltac:(lia))
          as (bytes2 & ids2 & b2 & trees2 & shapes2 & E2 & L2 & D2 & R2 & He2 & [new2 Hn2] & [nt2 Ht2] & F2).
        exists (TAG_T :: sb ++ bytes2), ids2, b2, trees2, (s1 :: shapes2).
        repeat match goal with |- _ /\ _ => split end.
        * rewrite E1, E2. rewrite <- app_assoc. reflexivity.
        * simpl. rewrite app_length. lia.
        * intros fuel acc Hfu. destruct fuel as [|f]; [simpl in Hfu; lia|].
          cbn [deser_shapes]. rewrite D1. rewrite D2 by (simpl in Hfu; lia).
          cbn [rev]. rewrite <- app_assoc. reflexivity.
        * exact R2.
        * eapply extends_trans; eauto.
        * exists (new2 ++ new1). rewrite Hn2, Hn1, app_assoc. reflexivity.
        * exists (nt1 ++ nt2). rewrite Ht2, Ht1, app_assoc. reflexivity.
        * constructor; [|exact F2]. rewrite Hn2, Ht2.
          apply (shape_rel_mono ids1 b1 trees1 new2 nt2 s s1 R1 SR1).
  Qed.

  (* deserialize (serialize shapes) reloads every shape: same names and docs,
     roots denoting the same functions, variables bound to their reloads
     (see [shape_rel_sem]) *)
  Theorem archive_roundtrip shapes b :
    Forall shape_ok shapes -> arena_wf b -> base_ok O b ->
    N.of_nat (total_nodes shapes) <= 2 ^ 32 ->
    exists bytes ids' b' trees' shapes',
      serialize O enc a shapes = (a, bytes) /\
      deserialize O dec b bytes = (b', shapes') /\
      rel ids' b' trees' /\ extends b b' /\
      Forall2 (shape_rel ids' trees') shapes shapes'.
  Proof.
    intros Hok Hw Hbb Hb.
    destruct (shapes_roundtrip shapes [] [] b [] Hok (rel_init b Hw Hbb) Hb)
      as (bytes & ids' & b' & trees' & shapes' & E & L & D & R & He & _ & _ & F).
    exists bytes, ids', b', trees', shapes'.
    repeat match goal with |- _ /\ _ => split end; [| | exact R | exact He | exact F].
    - transitivity (let '(a1, (out, _)) := fold_left ser_step shapes (a, (([] : list byte), ([] : idmap))) in (a1, out));
        [reflexivity|].
      rewrite E. reflexivity.
    - unfold deserialize. rewrite (D (length bytes) [] L). reflexivity.
  Qed.
End Tree.

Global Transparent u32le read_u32.
