(* serializer.cpp / deserializer.cpp / archive.cpp, byte for byte, on the arena.
   Bytes are N values < 256; strings are lists of bytes; constants are written
   as their 32-bit pattern ([enc]/[dec] are supplied by the caller: raw IEEE
   bits at run time, any injective coding in the proofs).  Oracle nodes are not
   modelled (serialisation returns None on them). *)
From Coq Require Import List NArith Arith Bool Lia.
From LF Require Import Base.Opcode Base.Num Base.Arena Tree.Build Tree.Flatten Eval.Deck.
Import ListNotations.
Local Open Scope N_scope.

Section Codec.
  Context {num : Type} (O : ops num).
  Variable enc : num -> N.
  Variable dec : N -> num.
  Notation arena := (arena num).

  Definition byte := N.
  Definition QUOTE : byte := 34.      (* double quote *)
  Definition BSLASH : byte := 92.     (* backslash *)
  Definition TAG_T : byte := 84.      (* upper-case T: a fully serialised tree *)
  Definition TAG_t : byte := 116.     (* lower-case t: back-reference *)

  (* ---- strings ---- *)
  Fixpoint esc (s : list byte) : list byte :=
    match s with
    | [] => []
    | c :: r => if N.eqb c QUOTE || N.eqb c BSLASH then BSLASH :: c :: esc r else c :: esc r
    end.
  Definition ser_string (s : list byte) : list byte := QUOTE :: esc s ++ [QUOTE].

  (* body of Deserializer::deserializeString after the opening quote *)
  Fixpoint unesc (fuel : nat) (inp : list byte) (acc : list byte) : list byte * list byte :=
    match fuel with
    | 0%nat => (rev acc, inp)
    | S f =>
      match inp with
      | [] => (rev acc, [])
      | c :: r =>
          if N.eqb c QUOTE then (rev acc, r)
          else if N.eqb c BSLASH then
            match r with
            | [] => (rev acc, [])
            | e :: r' => unesc f r' (e :: acc)
            end
          else unesc f r (c :: acc)
      end
    end.
  Definition deser_string (inp : list byte) : list byte * list byte :=
    match inp with
    | c :: r => if N.eqb c QUOTE then unesc (length r) r [] else ([], r)
    | [] => ([], [])
    end.

  (* ---- raw little-endian words ---- *)
  Definition u32le (n : N) : list byte :=
    [n mod 256; (n / 256) mod 256; (n / 65536) mod 256; (n / 16777216) mod 256].
  Definition read_u32 (inp : list byte) : N * list byte :=
    match inp with
    | b0 :: b1 :: b2 :: b3 :: r => (b0 + 256 * b1 + 65536 * b2 + 16777216 * b3, r)
    | _ => (0, [])
    end.

  (* ---- Serializer ---- *)
  Definition idmap := list (nat * N).            (* Serializer::ids: arena id -> stream position *)
  Fixpoint id_find (m : idmap) (i : nat) : option N :=
    match m with
    | [] => None
    | (j, k) :: r => if Nat.eqb i j then Some k else id_find r i
    end.
  Definition id_at (m : idmap) (i : nat) : N := match id_find m i with Some k => k | None => 0 end.

  (* one node of the walk *)
  Definition ser_node (a : arena) (st : list byte * idmap) (n : nat) : list byte * idmap :=
    let (out, ids) := st in
    match id_find ids n with
    | Some _ => st
    | None =>
        let ids' := (n, N.of_nat (length ids)) :: ids in
        match getn a n with
        | NConst c => (out ++ [code CONSTANT] ++ u32le (enc c), ids')
        | NNullary op => (out ++ [code op], ids')
        | NUnary op x => (out ++ [code op] ++ u32le (id_at ids' x), ids')
        | NBinary op x y => (out ++ [code op] ++ u32le (id_at ids' y) ++ u32le (id_at ids' x), ids')
        | _ => (out ++ [code INVALID], ids')
        end
    end.

  (* Serializer::serializeTree: flatten, then walk leaves to root *)
  Definition ser_tree (a : arena) (t : nat) (st : list byte * idmap) : arena * nat * (list byte * idmap) :=
    let (a1, t1) := flatten O a t in
    (a1, t1, fold_left (ser_node a1) (walk a1 t1) st).

  Record shape := { sh_tree : nat; sh_name : list byte; sh_doc : list byte;
                    sh_vars : list (nat * list byte) }.

  Definition ser_vars (ids : idmap) (vs : list (nat * list byte)) : list byte :=
    flat_map (fun v => match id_find ids (fst v) with
                       | Some k => ser_string (snd v) ++ u32le k
                       | None => []
                       end) vs.

  (* Serializer::serializeShape *)
  Definition ser_shape (a : arena) (st : list byte * idmap) (s : shape) : arena * (list byte * idmap) :=
    let (out, ids) := st in
    let (a0, t0) := flatten O a (sh_tree s) in
    match id_find ids t0 with
    | Some k =>
        (a0, (out ++ [TAG_t] ++ ser_string (sh_name s) ++ ser_string (sh_doc s) ++ u32le k
               ++ ser_vars ids (sh_vars s) ++ [END_OF_ITEM], ids))
    | None =>
        let '(a1, _, (out1, ids1)) :=
          ser_tree a0 t0 (out ++ [TAG_T] ++ ser_string (sh_name s) ++ ser_string (sh_doc s), ids) in
        (a1, (out1 ++ [END_OF_ITEM] ++ ser_vars ids1 (sh_vars s) ++ [END_OF_ITEM], ids1))
    end.

  Definition serialize (a : arena) (shapes : list shape) : arena * list byte :=
    let '(a1, (out, _)) :=
      fold_left (fun (acc : arena * (list byte * idmap)) s => ser_shape (fst acc) (snd acc) s)
                shapes (a, ([], [])) in
    (a1, out).

  (* ---- Deserializer ---- *)
  Definition tget (trees : list nat) (k : N) : nat := nth (N.to_nat k) trees idInvalid.

  (* the tree section of a 'T' shape: ops until END_OF_ITEM *)
  Fixpoint deser_nodes (fuel : nat) (a : arena) (trees : list nat) (inp : list byte)
    : arena * list nat * list byte :=
    match fuel with
    | 0%nat => (a, trees, inp)
    | S f =>
      match inp with
      | [] => (a, trees, [])
      | b :: r =>
          if N.eqb b END_OF_ITEM then (a, trees, r)
          else
            match of_code b with
            | None => (a, trees, r)
            | Some op =>
                if opcode_eqb op CONSTANT then
                  let (bits, r1) := read_u32 r in
                  let (a1, i) := mk_const a (dec bits) in
                  deser_nodes f a1 (trees ++ [i]) r1
                else
                  match args op with
                  | Some 2%nat =>
                      let (rhs, r1) := read_u32 r in
                      let (lhs, r2) := read_u32 r1 in
                      let (a1, i) := mk_bin O a op (tget trees lhs) (tget trees rhs) in
                      deser_nodes f a1 (trees ++ [i]) r2
                  | Some 1%nat =>
                      let (lhs, r1) := read_u32 r in
                      let (a1, i) := mk_unary O a op (tget trees lhs) in
                      deser_nodes f a1 (trees ++ [i]) r1
                  | _ =>
                      let (a1, i) := mk_nullary a op in
                      deser_nodes f a1 (trees ++ [i]) r
                  end
            end
      end
    end.

  (* the variable section: (name, index)* END_OF_ITEM, with the look-ahead by peek *)
  Fixpoint deser_vars (fuel : nat) (trees : list nat) (inp : list byte) (acc : list (nat * list byte))
    : list (nat * list byte) * list byte :=
    match fuel with
    | 0%nat => (rev acc, inp)
    | S f =>
      match inp with
      | [] => (rev acc, [])
      | b :: r =>
          if N.eqb b END_OF_ITEM then (rev acc, r)
          else
            let (name, r1) := deser_string inp in
            let (idx, r2) := read_u32 r1 in
            deser_vars f trees r2 ((tget trees idx, name) :: acc)
      end
    end.

  (* Deserializer::deserializeShape *)
  Definition deser_shape (a : arena) (trees : list nat) (tag : byte) (inp : list byte)
    : arena * list nat * shape * list byte :=
    let (name, r1) := deser_string inp in
    let (doc, r2) := deser_string r1 in
    if N.eqb tag TAG_t then
      let (k, r3) := read_u32 r2 in
      let (vs, r4) := deser_vars (length r3) trees r3 [] in
      (a, trees, {| sh_tree := tget trees k; sh_name := name; sh_doc := doc; sh_vars := vs |}, r4)
    else
      let '(a1, trees1, r3) := deser_nodes (length r2) a trees r2 in
      let root := nth (pred (length trees1)) trees1 idInvalid in
      let (vs, r4) := deser_vars (length r3) trees1 r3 [] in
      (a1, trees1, {| sh_tree := root; sh_name := name; sh_doc := doc; sh_vars := vs |}, r4).

  Fixpoint deser_shapes (fuel : nat) (a : arena) (trees : list nat) (inp : list byte) (acc : list shape)
    : arena * list shape :=
    match fuel with
    | 0%nat => (a, rev acc)
    | S f =>
      match inp with
      | [] => (a, rev acc)
      | tag :: r =>
          let '(a1, trees1, s, r1) := deser_shape a trees tag r in
          deser_shapes f a1 trees1 r1 (s :: acc)
      end
    end.

  Definition deserialize (a : arena) (inp : list byte) : arena * list shape :=
    deser_shapes (length inp) a [] inp [].

End Codec.
