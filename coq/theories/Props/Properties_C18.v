(* C18 — standard-library shapes, CSG and transforms mean what they say.  Statements only;
   proofs in Stdlib/StdSem.v, Stdlib/StdGeom.v and Stdlib/StdRounded.v.

   The constants s_sphere, s_move, ... are those of Gen/Stdlib_gen.v, which
   translate/gen_stdlib.py regenerates from libfive/stdlib/stdlib_impl.cpp on every run: each
   C++ function over Trees is a Coq function over terms (Stdlib/SExpr.v).
     denote RD osem a e r   meaning of term e at environment r over the reals (RD)
     inside e r  :=  denote ... e r < 0          outside e r  :=  0 < denote ... e r
     indep p     :=  p's value does not depend on the position (constants, free variables)
   Parameters are arbitrary position-independent TERMS (the C API accepts trees for every
   argument); "primes" in comments are their values. *)
From Coq Require Import Reals List.
From LF Require Import Base.Opcode Base.Num Base.Arena Base.Sem Tree.Build Tree.BuildSem
  Stdlib.SExpr Gen.Stdlib_gen Eval.DerivSem Stdlib.StdSem Stdlib.StdGeom Stdlib.StdRounded.
Local Open Scope R_scope.

(* building a term through the Tree constructors (all simplification rules of tree.cpp
   included) yields a node whose value is the term's meaning: ties the generated functions,
   via C07's constructor theorems, to what Tree::unary / binary / remap really build *)
Theorem C18_build_denote :
  forall (num : Type) (O : ops num) (osem : nat -> num -> num -> num -> num), laws O ->
  forall (e : sx num) (a : arena num),
    arena_wf a -> base_ok O a -> handles_ok (length a) e ->
    ok_result O osem a (build O e a) (fun r => denote O osem a e r).
Proof. exact @build_denote. Qed.

Theorem C18_reals_are_an_instance : laws RD.
Proof. exact RD_laws. Qed.

Section C18.
  Variable osem : nat -> R -> R -> R -> R.
  Variable a : arena R.
  Notation D := (denote RD osem a).
  Notation inside := (inside osem a).
  Notation outside := (outside osem a).
  Notation indep := (indep osem a).
  Notation at3 := (@upd_xyz R).

  (* ---- CSG = set operations on inside-ness (for arbitrary shape terms) ---- *)
  Theorem C18_csg : forall s t r,
    (inside (s_union s t) r <-> inside s r \/ inside t r) /\
    (outside (s_union s t) r <-> outside s r /\ outside t r) /\
    (inside (s_intersection s t) r <-> inside s r /\ inside t r) /\
    (outside (s_intersection s t) r <-> outside s r \/ outside t r) /\
    (inside (s_difference s t) r <-> inside s r /\ outside t r) /\
    (outside (s_difference s t) r <-> outside s r \/ inside t r) /\
    (inside (s_inverse s) r <-> outside s r) /\
    (outside (s_inverse s) r <-> inside s r).
  Proof.
    intros s t r.
    split; [apply union_inside|]. split; [apply union_outside|].
    split; [apply intersection_inside|]. split; [apply intersection_outside|].
    split; [apply difference_inside|]. split; [apply difference_outside|].
    split; [apply inverse_inside | apply inverse_outside].
  Qed.

  (* ---- transforms map the solid by the documented point map ---- *)
  Theorem C18_move : forall t ox oy oz r x y z, indep ox -> indep oy -> indep oz ->
    (inside (s_move t (V3 ox oy oz)) (at3 r (x + D ox r) (y + D oy r) (z + D oz r)) <-> inside t (at3 r x y z)).
  Proof. exact (move_maps osem a). Qed.

  Theorem C18_reflect : forall t c0 r,
    D (s_reflect_x RD t c0) r = D t (at3 r (2 * D c0 r - ex r) (ey r) (ez r)) /\
    D (s_reflect_y RD t c0) r = D t (at3 r (ex r) (2 * D c0 r - ey r) (ez r)) /\
    D (s_reflect_z RD t c0) r = D t (at3 r (ex r) (ey r) (2 * D c0 r - ez r)) /\
    D (s_reflect_xy t) r = D t (at3 r (ey r) (ex r) (ez r)) /\
    D (s_reflect_yz t) r = D t (at3 r (ex r) (ez r) (ey r)) /\
    D (s_reflect_xz t) r = D t (at3 r (ez r) (ey r) (ex r)).
  Proof.
    intros t c0 r.
    split; [apply reflect_x_sem|]. split; [apply reflect_y_sem|]. split; [apply reflect_z_sem|].
    split; [apply reflect_xy_sem|]. split; [apply reflect_yz_sem | apply reflect_xz_sem].
  Qed.

  Theorem C18_symmetric : forall t r,
    (inside (s_symmetric_x t) r <-> inside t (at3 r (Rabs (ex r)) (ey r) (ez r))) /\
    (inside (s_symmetric_y t) r <-> inside t (at3 r (ex r) (Rabs (ey r)) (ez r))) /\
    (inside (s_symmetric_z t) r <-> inside t (at3 r (ex r) (ey r) (Rabs (ez r)))).
  Proof.
    intros t r. split; [apply symmetric_x_inside|]. split; [apply symmetric_y_inside | apply symmetric_z_inside].
  Qed.

  Theorem C18_scale_xyz : forall t s1 s2 s3 c1 c2 c3 r x y z,
    indep s1 -> indep s2 -> indep s3 -> indep c1 -> indep c2 -> indep c3 ->
    D s1 r <> 0 -> D s2 r <> 0 -> D s3 r <> 0 ->
    (inside (s_scale_xyz t (V3 s1 s2 s3) (V3 c1 c2 c3))
        (at3 r (D c1 r + (x - D c1 r) * D s1 r) (D c2 r + (y - D c2 r) * D s2 r)
               (D c3 r + (z - D c3 r) * D s3 r)) <->
     inside t (at3 r x y z)).
  Proof. exact (scale_xyz_maps osem a). Qed.

  Theorem C18_scale_axis : forall t s c0 r c y z, indep s -> indep c0 -> D s r <> 0 ->
    (inside (s_scale_x t s c0) (at3 r (D c0 r + (c - D c0 r) * D s r) y z) <-> inside t (at3 r c y z)).
  Proof. exact (scale_x_maps osem a). Qed.

  (* rotations: the solid is carried by a rigid motion (an isometry that fixes the centre),
     whose inverse is the rotation by the opposite angle *)
  Theorem C18_rotate : forall t ang cx cy cz r p, indep ang -> indep cx -> indep cy -> indep cz ->
    let c := (D cx r, D cy r, D cz r) in
    (inside (s_rotate_x t ang (V3 cx cy cz)) (atp r (mrot_x (- D ang r) c p)) <-> inside t (atp r p)) /\
    (inside (s_rotate_y t ang (V3 cx cy cz)) (atp r (mrot_y (- D ang r) c p)) <-> inside t (atp r p)) /\
    (inside (s_rotate_z t ang (V3 cx cy cz)) (atp r (mrot_z (- D ang r) c p)) <-> inside t (atp r p)).
  Proof.
    intros t ang cx cy cz r p Ha Hx Hy Hz; cbv zeta.
    split; [apply rotate_x_maps; assumption|]. split; [apply rotate_y_maps; assumption | apply rotate_z_maps; assumption].
  Qed.

  (* ---- primitives are negative exactly on their documented open sets ---- *)
  Theorem C18_sphere : forall rad cx cy cz r, indep rad -> 0 <= D rad r ->
    (inside (s_sphere rad (V3 cx cy cz)) r <->
     (ex r - D cx r) ^ 2 + (ey r - D cy r) ^ 2 + (ez r - D cz r) ^ 2 < (D rad r) ^ 2).
  Proof. exact (sphere_inside osem a). Qed.

  Theorem C18_circle : forall rad cx cy r, indep rad -> 0 <= D rad r ->
    (inside (s_circle RD rad (V2 cx cy)) r <-> (ex r - D cx r) ^ 2 + (ey r - D cy r) ^ 2 < (D rad r) ^ 2).
  Proof. exact (circle_inside osem a). Qed.

  Theorem C18_rectangle : forall a1 a2 b1 b2 r,
    inside (s_rectangle (V2 a1 a2) (V2 b1 b2)) r <-> D a1 r < ex r < D b1 r /\ D a2 r < ey r < D b2 r.
  Proof. exact (rectangle_inside osem a). Qed.

  Theorem C18_boxes : forall a1 a2 a3 b1 b2 b3 r,
    (inside (s_box_mitered (V3 a1 a2 a3) (V3 b1 b2 b3)) r <->
     D a1 r < ex r < D b1 r /\ D a2 r < ey r < D b2 r /\ D a3 r < ez r < D b3 r) /\
    (inside (s_box_exact RD (V3 a1 a2 a3) (V3 b1 b2 b3)) r <->
     D a1 r < ex r < D b1 r /\ D a2 r < ey r < D b2 r /\ D a3 r < ez r < D b3 r).
  Proof. intros; split; [apply box_mitered_inside | apply box_exact_inside]. Qed.

  Theorem C18_extrude : forall t zmin zmax r,
    inside (s_extrude_z t zmin zmax) r <-> inside t r /\ D zmin r < ez r < D zmax r.
  Proof. exact (extrude_z_inside osem a). Qed.

  Theorem C18_cylinder : forall rad h b1 b2 b3 r, indep rad -> 0 <= D rad r ->
    (inside (s_cylinder_z RD rad h (V3 b1 b2 b3)) r <->
     (ex r - D b1 r) ^ 2 + (ey r - D b2 r) ^ 2 < (D rad r) ^ 2 /\ D b3 r < ez r < D b3 r + D h r).
  Proof. exact (cylinder_z_inside osem a). Qed.

  Theorem C18_cone : forall radius height b1 b2 b3 r, indep radius -> indep height -> 0 < D height r ->
    (inside (s_cone_z radius height (V3 b1 b2 b3)) r <->
     D b3 r < ez r /\
     sqrt ((ex r - D b1 r) ^ 2 + (ey r - D b2 r) ^ 2) < D radius r * (1 - (ez r - D b3 r) / D height r)).
  Proof. exact (cone_z_inside osem a). Qed.

  Theorem C18_torus : forall ro ri c1 c2 c3 r, indep ro -> indep ri -> 0 <= D ri r ->
    (inside (s_torus_z ro ri (V3 c1 c2 c3)) r <->
     (D ro r - sqrt ((ex r - D c1 r) ^ 2 + (ey r - D c2 r) ^ 2)) ^ 2 + (ez r - D c3 r) ^ 2 < (D ri r) ^ 2).
  Proof. exact (torus_z_inside osem a). Qed.

  Theorem C18_half_space : forall n1 n2 n3 p1 p2 p3 r,
    D (s_half_space (V3 n1 n2 n3) (V3 p1 p2 p3)) r =
    (ex r - D p1 r) * D n1 r + (ey r - D p2 r) * D n2 r + (ez r - D p3 r) * D n3 r.
  Proof. exact (half_space_sem osem a). Qed.

  (* ---- exact variants return the Euclidean distance to the boundary ---- *)
  Theorem C18_sphere_exact : forall rad cx cy cz r, indep rad -> 0 <= D rad r ->
    (forall q, dist q (D cx r, D cy r, D cz r) = D rad r ->
               Rabs (D (s_sphere rad (V3 cx cy cz)) r) <= dist (pos r) q) /\
    (exists q, dist q (D cx r, D cy r, D cz r) = D rad r /\
               dist (pos r) q = Rabs (D (s_sphere rad (V3 cx cy cz)) r)).
  Proof.
    intros rad cx cy cz r Hi Hr. split.
    - intros q Hq. apply (sphere_exact_lower osem a); assumption.
    - apply (sphere_exact_attained osem a); assumption.
  Qed.

  Theorem C18_box_exact_outside : forall s1 s2 s3 c1 c2 c3 r,
    0 <= D s1 r -> 0 <= D s2 r -> 0 <= D s3 r ->
    ~ inside (s_box_exact_centered RD (V3 s1 s2 s3) (V3 c1 c2 c3)) r ->
    let v := D (s_box_exact_centered RD (V3 s1 s2 s3) (V3 c1 c2 c3)) r in
    let c := bc_centered osem a c1 c2 c3 r in let h := bh_centered osem a s1 s2 s3 r in
    0 <= v /\
    (exists q, in_closed_box c h q /\ dist2 (pos r) q = v * v) /\
    (forall q, in_closed_box c h q -> v * v <= dist2 (pos r) q).
  Proof. exact (box_exact_centered_outside osem a). Qed.

  Theorem C18_box_exact_inside : forall s1 s2 s3 c1 c2 c3 r,
    inside (s_box_exact_centered RD (V3 s1 s2 s3) (V3 c1 c2 c3)) r ->
    let v := D (s_box_exact_centered RD (V3 s1 s2 s3) (V3 c1 c2 c3)) r in
    let c := bc_centered osem a c1 c2 c3 r in let h := bh_centered osem a s1 s2 s3 r in
    v < 0 /\
    (forall q, ~ in_open_box c h q -> v * v <= dist2 (pos r) q) /\
    (exists q, in_closed_box c h q /\ ~ in_open_box c h q /\ dist2 (pos r) q = v * v).
  Proof.
    intros s1 s2 s3 c1 c2 c3 r Hin. cbv zeta.
    destruct (box_exact_centered_inside_dist osem a s1 s2 s3 c1 c2 c3 r Hin) as (_ & _ & H3 & H4 & H5).
    repeat split; assumption.
  Qed.

  (* ---- rounded shapes ---- *)
  (* rounded_rectangle(a, b, rad): "a rectangle with rounded corners".
     (1) for every radius >= 0 it is exactly the union of its six open pieces: the two
         rectangles (a1,b1) x (a2+rad, b2-rad), (a1+rad, b1-rad) x (a2,b2) and the four discs of
         radius rad about the corners of the inner rectangle [a1+rad, b1-rad] x [a2+rad, b2-rad]
         -- in particular about (b1 - rad, a2 + rad);
     (2) for a POSITIVE radius on the documented domain a + 2 rad <= b it is the set of points
         at distance < rad from the inner rectangle (clamp the point to the inner rectangle).
         The seams between the open pieces are covered because the discs overlap them.
         (2) is false at rad = 0, where the shape is the open rectangle (a1,b1) x (a2,b2):
         StdRounded.rounded_rectangle_geom_zero_radius_refuted. *)
  Theorem C18_rounded_rectangle : forall a1 a2 b1 b2 rad r, indep rad -> 0 <= D rad r ->
    let x := ex r in let y := ey r in let rho := D rad r in
    let A1 := D a1 r + rho in let B1 := D b1 r - rho in
    let A2 := D a2 r + rho in let B2 := D b2 r - rho in
    (inside (s_rounded_rectangle RD (V2 a1 a2) (V2 b1 b2) rad) r <->
       (D a1 r < x < D b1 r /\ A2 < y < B2) \/
       (A1 < x < B1 /\ D a2 r < y < D b2 r) \/
       (x - A1) ^ 2 + (y - A2) ^ 2 < rho ^ 2 \/
       (x - B1) ^ 2 + (y - B2) ^ 2 < rho ^ 2 \/
       (x - A1) ^ 2 + (y - B2) ^ 2 < rho ^ 2 \/
       (x - B1) ^ 2 + (y - A2) ^ 2 < rho ^ 2) /\
    (0 < rho -> D a1 r + 2 * rho <= D b1 r -> D a2 r + 2 * rho <= D b2 r ->
     (inside (s_rounded_rectangle RD (V2 a1 a2) (V2 b1 b2) rad) r <->
      (x - Rmax A1 (Rmin x B1)) ^ 2 + (y - Rmax A2 (Rmin y B2)) ^ 2 < rho ^ 2)).
  Proof. exact (rounded_rectangle_inside osem a). Qed.

  (* a concrete point that only the corner disc about (b1 - rad, a2 + rad) contains:
     a = (-1,-2), b = (3,1), rad = 1/2, point (2.8, -1.8).  It is inside the shape, in none of
     the other five pieces, and not in the disc about (b1 - rad, a1 + rad): a rounded_rectangle
     with that corner centre mistyped is a different shape. *)
  Theorem C18_rounded_rectangle_corner_matters :
    let r := {| ex := 14 / 5; ey := - 9 / 5; ez := 0; ev := fun _ => 0 |} in
    let a1 := -1 in let a2 := -2 in let b1 := 3 in let b2 := 1 in let rad := 1 / 2 in
    inside (s_rounded_rectangle RD (V2 (SC a1) (SC a2)) (V2 (SC b1) (SC b2)) (SC rad)) r /\
    (ex r - (b1 - rad)) ^ 2 + (ey r - (a2 + rad)) ^ 2 < rad ^ 2 /\
    ~ (a1 < ex r < b1 /\ a2 + rad < ey r < b2 - rad) /\
    ~ (a1 + rad < ex r < b1 - rad /\ a2 < ey r < b2) /\
    ~ (ex r - (a1 + rad)) ^ 2 + (ey r - (a2 + rad)) ^ 2 < rad ^ 2 /\
    ~ (ex r - (b1 - rad)) ^ 2 + (ey r - (b2 - rad)) ^ 2 < rad ^ 2 /\
    ~ (ex r - (a1 + rad)) ^ 2 + (ey r - (b2 - rad)) ^ 2 < rad ^ 2 /\
    ~ (ex r - (b1 - rad)) ^ 2 + (ey r - (a1 + rad)) ^ 2 < rad ^ 2.
  Proof. exact (rounded_rectangle_corner_matters osem a). Qed.

  (* rounded_box(a, b, fr): box sides positive, fraction 0 < fr <= 1, rounding radius
     rho = fr * min(dx, dy, dz) / 2: the points at distance < rho from the inner box
     [a + rho, b - rho].  No independence hypothesis is needed.  (False at fr = 0, where the
     shape is the open box (a, b): StdRounded.rounded_box_inside_zero_refuted; the form that
     also covers fr = 0 is StdRounded.rounded_box_inside_gen.) *)
  Theorem C18_rounded_box : forall a1 a2 a3 b1 b2 b3 fr r,
    D a1 r < D b1 r -> D a2 r < D b2 r -> D a3 r < D b3 r -> 0 < D fr r <= 1 ->
    let x := ex r in let y := ey r in let z := ez r in
    let rho := D fr r * Rmin (D b1 r - D a1 r) (Rmin (D b2 r - D a2 r) (D b3 r - D a3 r)) / 2 in
    let A1 := D a1 r + rho in let B1 := D b1 r - rho in
    let A2 := D a2 r + rho in let B2 := D b2 r - rho in
    let A3 := D a3 r + rho in let B3 := D b3 r - rho in
    (inside (s_rounded_box RD (V3 a1 a2 a3) (V3 b1 b2 b3) fr) r <->
     (x - Rmax A1 (Rmin x B1)) ^ 2 + (y - Rmax A2 (Rmin y B2)) ^ 2 + (z - Rmax A3 (Rmin z B3)) ^ 2
       < rho ^ 2).
  Proof. exact (rounded_box_inside osem a). Qed.

  (* ... and it is exact outside the inner box: the value is the Euclidean distance to the
     inner box minus rho (the signed distance to the rounded surface); value + rho is attained
     by a point of the closed inner box and is a lower bound for all of them *)
  Theorem C18_rounded_box_exact : forall a1 a2 a3 b1 b2 b3 fr r,
    D a1 r <= D b1 r -> D a2 r <= D b2 r -> D a3 r <= D b3 r -> D fr r <= 1 ->
    let x := ex r in let y := ey r in let z := ez r in
    let rho := D fr r * Rmin (D b1 r - D a1 r) (Rmin (D b2 r - D a2 r) (D b3 r - D a3 r)) / 2 in
    let A1 := D a1 r + rho in let B1 := D b1 r - rho in
    let A2 := D a2 r + rho in let B2 := D b2 r - rho in
    let A3 := D a3 r + rho in let B3 := D b3 r - rho in
    let inner q := A1 <= px q <= B1 /\ A2 <= py q <= B2 /\ A3 <= pz q <= B3 in
    let v := D (s_rounded_box RD (V3 a1 a2 a3) (V3 b1 b2 b3) fr) r in
    ~ (A1 < x < B1 /\ A2 < y < B2 /\ A3 < z < B3) ->
    v = sqrt ((x - Rmax A1 (Rmin x B1)) ^ 2 + (y - Rmax A2 (Rmin y B2)) ^ 2 + (z - Rmax A3 (Rmin z B3)) ^ 2)
        - rho /\
    0 <= v + rho /\
    (exists q, inner q /\ dist2 (pos r) q = (v + rho) * (v + rho)) /\
    (forall q, inner q -> (v + rho) * (v + rho) <= dist2 (pos r) q).
  Proof.
    intros a1 a2 a3 b1 b2 b3 fr r H1 H2 H3 Hf; cbv zeta; intros Hout. split.
    - exact (rounded_box_exact osem a a1 a2 a3 b1 b2 b3 fr r H1 H2 H3 Hf Hout).
    - exact (rounded_box_exact_dist osem a a1 a2 a3 b1 b2 b3 fr r H1 H2 H3 Hf Hout).
  Qed.
End C18.

(* the rotation maps are rigid motions *)
Theorem C18_rotations_rigid : forall th c p q,
  (dist2 (mrot_x th c p) (mrot_x th c q) = dist2 p q /\ mrot_x th c c = c) /\
  (dist2 (mrot_y th c p) (mrot_y th c q) = dist2 p q /\ mrot_y th c c = c) /\
  (dist2 (mrot_z th c p) (mrot_z th c q) = dist2 p q /\ mrot_z th c c = c).
Proof.
  intros th c p q.
  split; [split; [apply mrot_x_isometry | apply mrot_x_fix]|].
  split; [split; [apply mrot_y_isometry | apply mrot_y_fix] | split; [apply mrot_z_isometry | apply mrot_z_fix]].
Qed.

Print Assumptions C18_build_denote.
Print Assumptions C18_reals_are_an_instance.
Print Assumptions C18_csg.
Print Assumptions C18_move.
Print Assumptions C18_reflect.
Print Assumptions C18_symmetric.
Print Assumptions C18_scale_xyz.
Print Assumptions C18_scale_axis.
Print Assumptions C18_rotate.
Print Assumptions C18_sphere.
Print Assumptions C18_circle.
Print Assumptions C18_rectangle.
Print Assumptions C18_boxes.
Print Assumptions C18_extrude.
Print Assumptions C18_cylinder.
Print Assumptions C18_cone.
Print Assumptions C18_torus.
Print Assumptions C18_half_space.
Print Assumptions C18_sphere_exact.
Print Assumptions C18_box_exact_outside.
Print Assumptions C18_box_exact_inside.
Print Assumptions C18_rotations_rigid.
Print Assumptions C18_rounded_rectangle.
Print Assumptions C18_rounded_rectangle_corner_matters.
Print Assumptions C18_rounded_box.
Print Assumptions C18_rounded_box_exact.
