(* C18 - placeholder until Stdlib/StdSem.v is integrated *)
From LF Require Import Base.Opcode Base.Num Stdlib.SExpr Gen.Stdlib_gen.
Theorem C18_dispatch_total_on_sphere :
  forall (num : Type) (O : ops num) r cx cy cz,
    std_dispatch O 26 (r :: cx :: cy :: cz :: nil) = Some (s_sphere r (V3 cx cy cz)).
Proof. reflexivity. Qed.
Print Assumptions C18_dispatch_total_on_sphere.
