(* C11 - placeholder until Render/CancelSem.v is integrated *)
From LF Require Import Render.Cancel.
Theorem C11_exited_absorbing : forall d c, wstep d c Exited = Exited.
Proof. reflexivity. Qed.
Print Assumptions C11_exited_absorbing.
