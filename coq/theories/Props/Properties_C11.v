(* C11 — cancellation yields nothing or a complete result, and always terminates.
   Statements only; model in Render/Cancel.v (its header maps it to worker_pool.inl,
   dual.hpp, simplex_tree.inl and mesh.cpp), proofs in Render/CancelSem.v. *)
From Coq Require Import List Arith.
From LF Require Import Render.Progress Render.Cancel Render.CancelSem.
Import ListNotations.

(* every processing order that any schedule of any number of workers can produce visits each
   cell at most once, only cells of the tree, and a cell only after its (ambiguous) parent *)
Theorem C11_sched_sound : forall c proc, sched c proc ->
  NoDup proc /\ incl proc (cells c) /\
  (forall p, In p proc -> p <> [] -> exists a b, proc = a ++ p :: b /\ In (parent p) a).
Proof.
  intros c proc H. destruct (sched_sound c proc H) as [H1 H2]. split; [exact H1|]. split; [exact H2|].
  intros p Hp Hne. destruct (sched_parent_before c proc H p Hp Hne) as (a & b & E & Hin & _).
  exists a, b; split; assumption.
Qed.

(* NO DEADLOCK: while some cell is unprocessed a task is available *)
Theorem C11_no_deadlock : forall c proc, sched c proc -> length proc < length (cells c) -> frontier c proc <> [].
Proof. exact sched_progress. Qed.

(* BOUNDED WORK: at most (number of cells) task steps, and every run can be completed *)
Theorem C11_bounded_work : forall c proc, sched c proc ->
  length proc <= length (cells c) /\
  exists rest, sched c (proc ++ rest) /\ length (proc ++ rest) = length (cells c).
Proof. intros c proc H; split; [apply sched_bounded; exact H | apply sched_extend; exact H]. Qed.

(* the done flag is raised exactly when every cell has been processed: never early (no worker
   leaves while work remains), always at the end (every worker leaves): an uncancelled render
   terminates with its structure complete, under every schedule *)
Theorem C11_done_exactly_at_end : forall c proc, sched c proc ->
  (done_flag c proc = true <-> length proc = length (cells c)).
Proof. exact done_iff_all. Qed.

(* once the cancel flag (or done) is set every worker is out of its loop after finishing at
   most the body it is in; while neither is set no worker leaves *)
Theorem C11_workers_exit : 
  (forall done pc, exists n, n <= 2 /\ Nat.iter n (wstep done true) pc = Exited) /\
  (forall cancel pc, exists n, n <= 2 /\ Nat.iter n (wstep true cancel) pc = Exited) /\
  (forall n pc, pc <> Exited -> Nat.iter n (wstep false false) pc <> Exited).
Proof. split; [exact cancel_exits|]. split; [exact done_exits | exact no_exit_iter]. Qed.

(* the repaired Mesh::render: wherever the flag is raised, the result is no mesh or a mesh
   whose index assignment and dual walk both ran to completion *)
Theorem C11_all_or_nothing : forall r, run_ok r -> all_or_nothing (render_new r).
Proof. exact render_new_all_or_nothing. Qed.

Theorem C11_uncancelled_gives_mesh : forall r, run_ok r -> r_flag_final r = false -> r_build r = Complete ->
  render_new r = MeshOf Complete Complete.
Proof. exact render_new_complete_when_uncancelled. Qed.

(* the code before the repair returned the partial mesh of a cancelled walk / index assignment *)
Theorem C11_old_code_refuted : exists r, run_ok r /\ ~ all_or_nothing (render_old r).
Proof. exact render_old_refuted. Qed.

Print Assumptions C11_sched_sound.
Print Assumptions C11_no_deadlock.
Print Assumptions C11_bounded_work.
Print Assumptions C11_done_exactly_at_end.
Print Assumptions C11_workers_exit.
Print Assumptions C11_all_or_nothing.
Print Assumptions C11_uncancelled_gives_mesh.
Print Assumptions C11_old_code_refuted.

(* THE PHASE SKELETON IS THE SOURCE'S.  translate/gen_render.py re-reads Mesh::render (mesh.cpp) on every run: per meshing
   algorithm the order of build / check-after-build (`settings.cancel.load() || t.get() == nullptr` -> return nullptr) /
   index assignment / dual walk / final check (`if (settings.cancel.load()) out.reset();`) / return, and every occurrence of
   `cancel` and of `return` in the function must be one of these (Gen/RenderSkeleton_gen.v).  Interpreted on a run
   (Render/CancelSkel.v) each skeleton IS the model's repaired render, so it returns nothing or a complete mesh; the same
   skeleton without the final check - the code before the repair 7279a79 - returns a partial mesh *)
From LF Require Gen.RenderSkeleton_gen Render.CancelSkel.
Theorem C11_render_skeleton_all_or_nothing :
  forall alg evs, In (alg, evs) RenderSkeleton_gen.render_skeleton_gen ->
  forall r, run_ok r -> exists x, CancelSkel.interp evs r = Some x /\ all_or_nothing x.
Proof. exact CancelSkel.skeleton_all_or_nothing. Qed.
Theorem C11_render_skeleton_is_the_model :
  forall alg evs, In (alg, evs) RenderSkeleton_gen.render_skeleton_gen ->
  forall r, CancelSkel.interp evs r = Some (render_new (if CancelSkel.has_assign evs then r else CancelSkel.no_assign r)).
Proof. exact CancelSkel.skeleton_is_render_new. Qed.
(* [skeleton_shape]: the three algorithms, each with build, check, walk, final check, and return last *)
Theorem C11_render_skeleton_shape : CancelSkel.skeleton_shape.
Proof. exact CancelSkel.skeleton_shape_ok. Qed.
Theorem C11_final_check_needed :
  exists r, run_ok r /\
    CancelSkel.interp (RenderSkeleton_gen.EvBuild :: RenderSkeleton_gen.EvCheckAfterBuild :: RenderSkeleton_gen.EvWalk
                       :: RenderSkeleton_gen.EvReturn :: nil) r = Some (MeshOf Complete Partial).
Proof. exact CancelSkel.skeleton_without_final_check_refuted. Qed.
Print Assumptions C11_render_skeleton_all_or_nothing.
Print Assumptions C11_render_skeleton_is_the_model.
Print Assumptions C11_render_skeleton_shape.
Print Assumptions C11_final_check_needed.
