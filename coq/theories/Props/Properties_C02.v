(* C02 — interval evaluation soundly encloses every point value in the box.
   Statements only; filled from Interval/IntervalSound.v. *)
From Coq Require Import List ZArith Bool.
From LF Require Import Base.Opcode Interval.IntervalModel.

(* classification uses the flag first: a flagged interval is never EMPTY/FILLED *)
Theorem C02_flagged_is_ambiguous :
  forall (num : Type) (I : iops (num:=num)) (a : ival (num:=num)),
    nanf a = true -> state_of I a = AMBIGUOUS.
Proof. intros num I a H; unfold state_of; rewrite H; reflexivity. Qed.
Print Assumptions C02_flagged_is_ambiguous.
