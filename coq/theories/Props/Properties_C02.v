(* C02 — interval evaluation soundly encloses every point value in the box.
   Statements only.  Point values are extended reals (XR.v: finite reals, +-inf,
   NaN, IEEE conventions without rounding); an interval is libfive's Interval
   (bounds + may-be-NaN flag) with every flag formula and case split of
   interval.hpp (IntervalModel.v); Boost's primitives are only assumed to
   enclose exact images ([B_sound]). *)
From Coq Require Import Reals List ZArith Bool.
From LF Require Import Base.Opcode Interval.IntervalModel Interval.XR Interval.IntervalSound.
From LF Require Gen.IntervalDispatch_gen Eval.KernelsAgree Gen.IntervalOps_gen Interval.IntervalAgree.

(* what is assumed of the point kernels (eval_array.cpp): the arithmetic ones are
   the IEEE operations, the transcendental ones only by their NaN behaviour *)
Record point_sem (p_un : opcode -> xr -> xr) (p_bin : opcode -> xr -> xr -> xr) : Prop := {
  ps_square : forall x, p_un OP_SQUARE x = xsquare x;
  ps_sqrt : forall x, p_un OP_SQRT x = xsqrt x;
  ps_neg : forall x, p_un OP_NEG x = xneg x;
  ps_abs : forall x, p_un OP_ABS x = xabs x;
  ps_recip : forall x, p_un OP_RECIP x = xrecip x;
  ps_cv : forall x, p_un CONST_VAR x = x;
  ps_add : forall x y, p_bin OP_ADD x y = xadd x y;
  ps_sub : forall x y, p_bin OP_SUB x y = xsub x y;
  ps_mul : forall x y, p_bin OP_MUL x y = xmul x y;
  ps_div : forall x y, p_bin OP_DIV x y = xdiv x y;
  ps_min : forall x y, p_bin OP_MIN x y = xmin_std x y;
  ps_max : forall x y, p_bin OP_MAX x y = xmax_std x y;
  ps_nanfill : forall x y, p_bin OP_NANFILL x y = xnanfill x y;
  ps_compare : forall x y, p_bin OP_COMPARE x y = xcompare x y;
  ps_mod : forall x y, p_bin OP_MOD x y = xmod x y;
  ps_atan2 : forall y x, p_bin OP_ATAN2 y x = xatan2 y x;
  ps_sin : forall x, p_un OP_SIN x = NaN <-> x = NaN \/ xinf x;
  ps_cos : forall x, p_un OP_COS x = NaN <-> x = NaN \/ xinf x;
  ps_tan : forall x, p_un OP_TAN x = NaN <-> x = NaN \/ xinf x;
  ps_asin : forall x, p_un OP_ASIN x = NaN <->
      x = NaN \/ xlt x (Fin (-1)) = true \/ xlt (Fin 1) x = true;
  ps_acos : forall x, p_un OP_ACOS x = NaN <->
      x = NaN \/ xlt x (Fin (-1)) = true \/ xlt (Fin 1) x = true;
  ps_atan_nan : forall x, p_un OP_ATAN x = NaN <-> x = NaN;
  ps_atan_rng : forall x, x <> NaN ->
      xle (Fin (- (PI / 2))) (p_un OP_ATAN x) = true /\ xle (p_un OP_ATAN x) (Fin (PI / 2)) = true;
  ps_exp : forall x, p_un OP_EXP x = NaN <-> x = NaN;
  ps_log : forall x, p_un OP_LOG x = NaN <-> x = NaN \/ xlt x (Fin 0) = true;
  ps_pow : forall x (n : Z), x <> NaN -> p_bin OP_POW x (Fin (IZR n)) <> NaN;
  ps_pow_nan : forall y, p_bin OP_POW NaN y = NaN;
  ps_root : forall x (n : Z), p_bin OP_NTH_ROOT x (Fin (IZR n)) = NaN <->
      x = NaN \/ (xlt x (Fin 0) = true /\ Z.even n = true)
}.

(* Composition over any tape: if every leaf slot's point value lies in its
   interval, so does every computed slot — in particular an unflagged result
   means a non-NaN value inside the bounds — for all expressions, all boxes
   (finite or infinite bounds, flagged operands).  [ok_std]: pow / nth_root
   exponents are integer constants, mod's quotient bounds are finite. *)
Theorem C02_eval_sound :
  forall (B : bprims) p_un p_bin, point_sem p_un p_bin -> B_sound B p_un p_bin ->
  forall (t : list clause) (D : nat -> Prop) (sp : nat -> xr) (si : nat -> xival),
    wf t D -> tape_ok B (ok_std B) t si ->
    (forall n, D n -> In_iv (sp n) (si n)) ->
    forall n, def_run t D n -> In_iv (run_pt p_un p_bin t sp n) (run_iv B t si n).
Proof.
  intros B p_un p_bin [] HB. eapply eval_sound_std; eassumption.
Qed.

(* EMPTY / FILLED classification: no point of the opposite sign, none undefined *)
Theorem C02_classified_ok : forall (x : xr) (A : xival),
  In_iv x A ->
  match state_of XI A with
  | EMPTY => xlt (Fin 0) x = true
  | FILLED => xlt x (Fin 0) = true
  | AMBIGUOUS => True
  end.
Proof. exact classified_ok. Qed.

(* mod: whenever the point result is NaN the interval is flagged, for all bounds *)
Theorem C02_mod_flag_sound : forall (B : bprims) (x y : xr) (A B' : xival),
  In_iv x A -> In_iv y B' -> xmod x y = NaN -> nanf (imod XI B A B') = true.
Proof. exact imod_flag_sound. Qed.

(* the hypotheses are satisfiable: a concrete instance with no assumption left *)
Theorem C02_eval_sound_instance : forall t D sp si,
  wf t D -> tape_ok B0 (ok_std B0) t si ->
  (forall n, D n -> In_iv (sp n) (si n)) ->
  forall n, def_run t D n -> In_iv (run_pt pu0 pb0 t sp n) (run_iv B0 t si n).
Proof. exact eval_sound_std_instance. Qed.

(* a flagged interval is never classified EMPTY or FILLED *)
Theorem C02_flagged_is_ambiguous :
  forall (num : Type) (I : iops (num:=num)) (a : ival (num:=num)),
    nanf a = true -> state_of I a = AMBIGUOUS.
Proof. intros num I a H; unfold state_of; rewrite H; reflexivity. Qed.

(* THE DISPATCH IS THE SOURCE'S.  [ieval_gen] is regenerated on every run from IntervalEvaluator::operator()
   (eval_interval.cpp) by translate/gen_kernels.py: every opcode is sent to the Interval:: operation the model's
   [ieval_un] / [ieval_bin] name, with its operands in the same order (for every number type and every choice of
   Boost's primitives) *)
Theorem C02_dispatch_from_source :
  forall (num : Type) (I : @iops num) (B : @bprims num) op a b,
    IntervalDispatch_gen.ieval_gen I B op a b =
    match args op with Some 1%nat => ieval_un I B op a | _ => ieval_bin I B op a b end.
Proof. exact @KernelsAgree.ieval_gen_eq. Qed.

(* THE OPERATIONS ARE THE SOURCE'S.  Every operation of the C++ class Interval - the may-be-NaN flag formula, the case
   analysis (atan2's nine cases, mod's switch with its fall-through, the zero-crossing tests of / recip pow, atan's
   infinite-bound rescue, log's and nth_root's NaN-bound repairs, compare, nanfill, min / max under
   LIBFIVE_USES_STD_MIN_AND_MAX), state(), isFilled / isEmpty and the two-float constructor - is re-read from
   include/libfive/eval/interval.hpp on every run by translate/gen_interval.py (Gen/IntervalOps_gen.v: a statement-level
   translation, let for let and if for if; what the translator does not understand makes the file fail) and is the
   operation of the model that C02_eval_sound is about, for every number type, every [I], every [B], all operands.
   Recorded, not derived: the two libm facts in pow's flag (isnan(pow(0.0f,-1.0f)) and isnan(pow(-1.0f, int)) are
   false: [libm_nan_on_zero_to_negative], [libm_pow_m1_is_nan]); the protected constructor's re-ordering of
   inverted bounds is translated ([g_ctor_norm]) and is the identity on ordered bounds ([g_ctor_plain]). *)
Theorem C02_interval_ops_from_source :
  forall (num : Type) (I : @iops num) (B : @bprims num),
    (forall a, IntervalOps_gen.g_is_filled I B a = is_filled I a) /\
    (forall a, IntervalOps_gen.g_is_empty I B a = is_empty I a) /\
    (forall a, IntervalOps_gen.g_state_of I B a = state_of I a) /\
    (forall lo hi, IntervalOps_gen.g_mk I B lo hi = mk I lo hi) /\
    (forall a b, IntervalOps_gen.g_iadd I B a b = iadd I B a b) /\
    (forall a b, IntervalOps_gen.g_isub I B a b = isub I B a b) /\
    (forall a b, IntervalOps_gen.g_imul I B a b = imul I B a b) /\
    (forall a b, IntervalOps_gen.g_idiv I B a b = idiv I B a b) /\
    (forall a b, IntervalOps_gen.g_imin I B a b = imin B a b) /\
    (forall a b, IntervalOps_gen.g_imax I B a b = imax B a b) /\
    (forall y x, IntervalOps_gen.g_iatan2 I B y x = iatan2 I y x) /\
    (forall a b, IntervalOps_gen.g_ipow I B a b = ipow I B a b) /\
    (forall a b, IntervalOps_gen.g_inth_root I B a b = inth_root I B a b) /\
    (forall a b, IntervalOps_gen.g_imod I B a b = imod I B a b) /\
    (forall a b, IntervalOps_gen.g_inanfill I B a b = inanfill B a b) /\
    (forall a b, IntervalOps_gen.g_icompare I B a b = icompare I a b) /\
    (forall a, IntervalOps_gen.g_isquare I B a = isquare B a) /\
    (forall a, IntervalOps_gen.g_isqrt I B a = isqrt I B a) /\
    (forall a, IntervalOps_gen.g_ineg I B a = ineg B a) /\
    (forall a, IntervalOps_gen.g_isin I B a = isin I B a) /\
    (forall a, IntervalOps_gen.g_icos I B a = icos I B a) /\
    (forall a, IntervalOps_gen.g_itan I B a = itan I B a) /\
    (forall a, IntervalOps_gen.g_iasin I B a = iasin I B a) /\
    (forall a, IntervalOps_gen.g_iacos I B a = iacos I B a) /\
    (forall a, IntervalOps_gen.g_iatan I B a = iatan I B a) /\
    (forall a, IntervalOps_gen.g_iexp I B a = iexp B a) /\
    (forall a, IntervalOps_gen.g_ilog I B a = ilog I B a) /\
    (forall a, IntervalOps_gen.g_iabs I B a = iabs B a) /\
    (forall a, IntervalOps_gen.g_irecip I B a = irecip I B a).
Proof. intros num I B. exact (IntervalAgree.interval_ops_from_source I B). Qed.

Print Assumptions C02_eval_sound.
Print Assumptions C02_classified_ok.
Print Assumptions C02_mod_flag_sound.
Print Assumptions C02_eval_sound_instance.
Print Assumptions C02_flagged_is_ambiguous.
Print Assumptions C02_dispatch_from_source.
Print Assumptions C02_interval_ops_from_source.
