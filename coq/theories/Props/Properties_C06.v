(* C06 — gradients are the derivatives of the evaluated function.  Statements only
   (filled from Eval/DerivSem.v). *)
From Coq Require Import List.
From LF Require Import Base.Opcode Base.Num Eval.Deriv.

(* at a min/max clause the kernel returns exactly one branch's gradient, tie or not *)
Theorem C06_minmax_branch :
  forall (num : Type) (O : ops num) cv av bv ov (ad bd : dvec),
    (dkern O cv OP_MIN av bv ov ad bd = ad \/ dkern O cv OP_MIN av bv ov ad bd = bd) /\
    (dkern O cv OP_MAX av bv ov ad bd = ad \/ dkern O cv OP_MAX av bv ov ad bd = bd).
Proof. intros; simpl; destruct (o_ltb O av bv); auto. Qed.

(* the const-var barrier: variable partials are cut, spatial gradients pass *)
Theorem C06_const_var :
  forall (num : Type) (O : ops num) av bv ov (ad bd : dvec),
    dkern O true CONST_VAR av bv ov ad bd = dzero O /\ dkern O false CONST_VAR av bv ov ad bd = ad.
Proof. intros; split; reflexivity. Qed.

Print Assumptions C06_minmax_branch.
Print Assumptions C06_const_var.
