(* C06 — gradients are the derivatives of the evaluated function.  Statements only;
   proofs are in Eval/DerivSem.v.  [RD] is the real-number reading of every opcode,
   [vk] its value kernel, [dkern] (Eval/Deriv.v) the model of the derivative kernels of
   eval_deriv_array.cpp / eval_jacobian.cpp that the correspondence check runs against
   the implementation, [vpass1]/[dpass1] (Eval/EvalState.v) the value / derivative pass
   over a tape. *)
From Coq Require Import Reals List.
From Coquelicot Require Import Coquelicot.
From LF Require Import Base.Opcode Base.Num Eval.Deck Eval.EvalState Eval.Deriv Eval.DerivSem.
From LF Require Import Gen.DerivKernels_gen Gen.ArrayKernels_gen Eval.KernelsAgree.
Local Open Scope R_scope.

(* the chain rule, for every opcode: where the opcode is differentiable ([smooth_at]) and,
   for pow / nth_root / mod, the second argument does not move, the kernel's output is
   the derivative of the value kernel composed with the arguments *)
Theorem C06_kernel_correct :
  forall (op : opcode) (a b : R -> R) (t ad bd : R),
    is_derive a t ad -> is_derive b t bd ->
    smooth_at op (a t) (b t) ->
    (const_b op -> locally t (fun s => b s = b t)) ->
    is_derive (fun s => vk op (a s) (b s)) t (dk op (a t) (b t) (vk op (a t) (b t)) ad bd).
Proof. exact kernel_correct. Qed.

(* the three-component kernel is the scalar kernel on each component *)
Theorem C06_kernel_componentwise :
  forall (num : Type) (O : ops num) cv op av bv ov (ad bd : @dvec num),
    dkern O cv op av bv ov ad bd =
    (dkern1 O cv op av bv ov (pr1 ad) (pr1 bd),
     dkern1 O cv op av bv ov (pr2 ad) (pr2 bd),
     dkern1 O cv op av bv ov (pr3 ad) (pr3 bd)).
Proof. exact @dkern_componentwise. Qed.

(* whole tapes: every slot's derivative along any differentiable family of leaf values *)
Theorem C06_deriv_correct :
  forall (tape : list clause) (leafv : R -> nat -> R) (leafd : nat -> R) (t : R),
    wf tape ->
    (forall s, leaf tape s -> is_derive (fun u => leafv u s) t (leafd s)) ->
    tape_smooth tape leafv t ->
    forall s, is_derive (fun u => vpass1 vk tape (leafv u) s) t
                        (dpass1 dk tape (vpass1 vk tape (leafv t)) leafd s).
Proof. exact deriv_correct. Qed.

(* DerivArrayEvaluator::derivs: the returned triple is (d/dx, d/dy, d/dz), with or
   without a const-var barrier in the tape *)
Theorem C06_gradient_correct :
  forall (tape : list clause) (lv : nat -> R) (sx sy sz : nat) (x y z : R) (isconst : nat -> Prop),
    wf tape -> sx <> sy -> sx <> sz -> sy <> sz ->
    (forall s, isconst s -> leaf tape s /\ s <> sx /\ s <> sy /\ s <> sz) ->
    tape_smooth_pt tape (pt3 lv sx sy sz x y z) isconst ->
    forall s,
      let G := dpass1 (dkern RD false) tape (vpass1 vk tape (pt3 lv sx sy sz x y z)) (seed3 sx sy sz) s in
      is_derive (fun u => vpass1 vk tape (pt3 lv sx sy sz u y z) s) x (pr1 G) /\
      is_derive (fun u => vpass1 vk tape (pt3 lv sx sy sz x u z) s) y (pr2 G) /\
      is_derive (fun u => vpass1 vk tape (pt3 lv sx sy sz x y u) s) z (pr3 G).
Proof. exact gradient_correct. Qed.

(* JacobianEvaluator::gradient: partial derivatives with respect to free variables *)
Theorem C06_jacobian_correct :
  forall (tape : list clause) (lv : nat -> R) (s1 s2 s3 : nat) (x1 x2 x3 : R) (isconst : nat -> Prop),
    wf tape -> s1 <> s2 -> s1 <> s3 -> s2 <> s3 ->
    (forall c, In c tape -> c_op c <> CONST_VAR) ->
    (forall s, isconst s -> leaf tape s /\ s <> s1 /\ s <> s2 /\ s <> s3) ->
    tape_smooth_pt tape (pt3 lv s1 s2 s3 x1 x2 x3) isconst ->
    forall s,
      let G := dpass1 (dkern RD true) tape (vpass1 vk tape (pt3 lv s1 s2 s3 x1 x2 x3)) (seed3 s1 s2 s3) s in
      is_derive (fun u => vpass1 vk tape (pt3 lv s1 s2 s3 u x2 x3) s) x1 (pr1 G) /\
      is_derive (fun u => vpass1 vk tape (pt3 lv s1 s2 s3 x1 u x3) s) x2 (pr2 G) /\
      is_derive (fun u => vpass1 vk tape (pt3 lv s1 s2 s3 x1 x2 u) s) x3 (pr3 G).
Proof. exact jacobian3_correct. Qed.

(* the const-var barrier: variable partials are cut, spatial gradients pass *)
Theorem C06_const_var :
  forall (num : Type) (O : ops num) av bv ov (ad bd : @dvec num),
    dkern O true CONST_VAR av bv ov ad bd = dzero O /\ dkern O false CONST_VAR av bv ov ad bd = ad.
Proof. intros; split; [apply const_var_zero | apply const_var_pass]. Qed.

(* at a min/max clause the kernel returns exactly one branch's gradient, tie or not *)
Theorem C06_minmax_branch :
  forall (num : Type) (O : ops num) cv op av bv ov (ad bd : @dvec num),
    op = OP_MIN \/ op = OP_MAX ->
    dkern O cv op av bv ov ad bd = ad \/ dkern O cv op av bv ov ad bd = bd.
Proof. exact @minmax_branch. Qed.

(* a point with non-zero value is inside exactly when its value is negative *)
Theorem C06_inside_nonzero : forall v : R, v <> 0 -> (is_inside v <-> ~ 0 < v).
Proof. exact inside_nonzero. Qed.

(* THE KERNELS ARE THE SOURCE'S.  [dkern_gen] / [vkern_gen] are regenerated on every run from
   DerivArrayEvaluator::operator() (eval_deriv_array.cpp) and ArrayEvaluator::operator() (eval_array.cpp) by
   translate/gen_kernels.py, one match arm per C++ case; they coincide with the model's kernels for every opcode
   (and every number type), so the chain-rule theorem is about the formulas the code states today *)
Theorem C06_kernels_from_source :
  forall (num : Type) (O : ops num) cv op av bv ov (ad bd : @dvec num),
    dkern_gen O cv op av bv ov ad bd = dkern O cv op av bv ov ad bd.
Proof. exact @dkern_gen_eq. Qed.
Theorem C06_kernel_correct_source :
  forall (op : opcode) (a b : R -> R) (t ad bd : R),
    is_derive a t ad -> is_derive b t bd ->
    smooth_at op (a t) (b t) ->
    (const_b op -> locally t (fun s => b s = b t)) ->
    is_derive (fun s => vkern_gen op (a s) (b s)) t
      (pr1 (dkern_gen RD false op (a t) (b t) (vkern_gen op (a t) (b t)) (ad, ad, ad) (bd, bd, bd))).
Proof. exact kernel_correct_source. Qed.

Print Assumptions C06_kernel_correct.
Print Assumptions C06_kernel_componentwise.
Print Assumptions C06_deriv_correct.
Print Assumptions C06_gradient_correct.
Print Assumptions C06_jacobian_correct.
Print Assumptions C06_const_var.
Print Assumptions C06_minmax_branch.
Print Assumptions C06_inside_nonzero.
Print Assumptions C06_kernels_from_source.
Print Assumptions C06_kernel_correct_source.
