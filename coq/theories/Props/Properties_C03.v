(* C03 — rendered meshes are closed, consistently oriented surfaces.  Statements only.

   Proved part: the simplex (and hybrid) meshers run marching tetrahedra with a fixed table;
   Gen/TetTable_gen.v is that table, re-read from simplex_mesher.cpp on every run; the theorems
   below are about it (Render/MarchTet.v is the model, Render/MarchTetSem.v the proofs).
   Oracle-only part (check/props/c03.py): dual contouring, and the fact that libfive's own
   complex of tetrahedra (cells of different octree levels, minimal-level subspace vertices)
   is closed and consistently oriented, which is the hypothesis [complex_closed]. *)
From Coq Require Import List Arith.
From LF Require Import Gen.TetTable_gen Render.MarchTet Render.MarchTetSem.
Import ListNotations.

(* the table itself: 16 rows, 0 / 1 / 2 triangles by the number of inside vertices, every
   triangle corner on a tet edge whose ends differ in sign *)
Theorem C03_table_sanity :
  length gen_tet_table = 16 /\
  forall m, m < 16 ->
    length (nth m gen_tet_table []) = expected_tris m /\
    forall es, In es (nth m gen_tet_table []) ->
      length es = 3 /\ forall e, In e es -> sign_change m e = true.
Proof. exact table_sanity. Qed.

(* the boundary of what one tet emits is exactly its four face segments (plus the interior
   diagonal in both directions): for EVERY tet and EVERY inside / outside assignment *)
Theorem C03_tet_boundary : forall ins t e,
  count_dedge e (dedges (march ins t)) =
  count_dedge e (flat_map (fseg ins) (tet_faces t)) + count_dedge e (diag ins t).
Proof. exact march_decomp. Qed.

(* WATERTIGHT AND CONSISTENTLY ORIENTED: over any tetrahedral complex in which every face that
   carries surface is matched by exactly one oppositely oriented copy, for every inside / outside
   assignment, each directed edge of the mesh is used exactly as often as its reverse *)
Theorem C03_marching_tets_closed : forall ins ts, complex_closed ins ts -> closed_mesh (mesh ins ts).
Proof. exact march_closed. Qed.

(* EDGE-MANIFOLD (simplex / hybrid): if moreover no two tets have the same four vertices, every
   directed edge is used at most once *)
Theorem C03_marching_tets_manifold : forall ins ts,
  complex_closed ins ts -> simplicial ts -> manifold_mesh (mesh ins ts).
Proof. exact march_manifold. Qed.

(* the hypotheses are satisfiable with surface present: the boundary of the 4-simplex *)
Theorem C03_nonvacuous :
  complex_closed ins01 simplex4 /\ simplicial simplex4 /\ length (mesh ins01 simplex4) = 8 /\
  closed_mesh (mesh ins01 simplex4) /\ manifold_mesh (mesh ins01 simplex4).
Proof.
  split; [exact simplex4_closed|]. split; [exact simplex4_simplicial|]. split; [exact simplex4_mesh_nonempty|].
  split; [exact simplex4_mesh_closed | exact simplex4_mesh_manifold].
Qed.

(* and [simplicial] is needed for manifoldness: two tets on the same four vertices *)
Theorem C03_double_tet_not_manifold :
  complex_closed ins01 double_tet /\ closed_mesh (mesh ins01 double_tet) /\ ~ manifold_mesh (mesh ins01 double_tet).
Proof. split; [exact double_tet_closed|]. split; [exact double_tet_mesh_closed | exact double_tet_not_manifold]. Qed.

Print Assumptions C03_table_sanity.
Print Assumptions C03_tet_boundary.
Print Assumptions C03_marching_tets_closed.
Print Assumptions C03_marching_tets_manifold.
Print Assumptions C03_nonvacuous.
Print Assumptions C03_double_tet_not_manifold.
