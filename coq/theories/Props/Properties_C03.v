(* C03 — rendered meshes are closed, consistently oriented surfaces.  Statements only.

   Proved part: the simplex (and hybrid) meshers run marching tetrahedra with a fixed table;
   Gen/TetTable_gen.v is that table, re-read from simplex_mesher.cpp on every run; the theorems
   below are about it (Render/MarchTet.v is the model, Render/MarchTetSem.v the proofs).
   Dual contouring on a UNIFORM grid (Render/DCGrid.v, DCGridSem.v): Dual<3>::walk +
   DCMesher::load with the patch tables libfive builds at start-up (Gen/MarchTables_gen.v,
   dumped from the implementation on every run) is watertight and consistently oriented for
   every filled / empty assignment of the lattice points and every choice of quad diagonals.
   The simplex mesher on a UNIFORM grid (Render/SimplexGrid.v, SimplexGridSem.v): the complex of
   tetrahedra Dual<3>::walk + SimplexMesher::load<A> builds (16 tets per lattice edge, through
   cell_vertices / tet_vertices re-read from simplex_mesher.cpp on every run) is closed and
   consistently oriented, so the hypothesis [complex_closed] of the marching-tetrahedra theorems
   is DISCHARGED for uniform grids: the mesh is watertight, consistently oriented and
   edge-manifold for every inside / outside assignment of the subspace vertices that is outside
   on the outermost layer of cells of the box.
   Oracle-only part (check/props/c03.py): grids with cells of different octree levels (the
   minimal-edge rule, collapsed cells; for the simplex mesher: min_element / leafLevel selection,
   next_shared / prev_shared), where [complex_closed] remains a hypothesis. *)
From Coq Require Import List Arith.
From Coq Require Import ZArith.
From LF Require Import Gen.TetTable_gen Render.MarchTet Render.MarchTetSem.
From LF Require Gen.MarchTables_gen Render.DCGrid Render.DCGridSem.
From LF Require Render.SimplexGrid Render.SimplexGridSem.
From LF Require Render.OctTree Render.OctTreeCollect Render.OctTreeSem.
From LF Require Gen.LeafsManifold_gen Render.LeafsAgree.
Import ListNotations.

(* the table itself: 16 rows, 0 / 1 / 2 triangles by the number of inside vertices, every
   triangle corner on a tet edge whose ends differ in sign *)
Theorem C03_table_sanity :
  length gen_tet_table = 16 /\
  forall m, m < 16 ->
    length (nth m gen_tet_table []) = expected_tris m /\
    forall es, In es (nth m gen_tet_table []) ->
      length es = 3 /\ forall e, In e es -> sign_change m e = true.
Proof. exact table_sanity. Qed.

(* the boundary of what one tet emits is exactly its four face segments (plus the interior
   diagonal in both directions): for EVERY tet and EVERY inside / outside assignment *)
Theorem C03_tet_boundary : forall ins t e,
  count_dedge e (dedges (march ins t)) =
  count_dedge e (flat_map (fseg ins) (tet_faces t)) + count_dedge e (diag ins t).
Proof. exact march_decomp. Qed.

(* WATERTIGHT AND CONSISTENTLY ORIENTED: over any tetrahedral complex in which every face that
   carries surface is matched by exactly one oppositely oriented copy, for every inside / outside
   assignment, each directed edge of the mesh is used exactly as often as its reverse *)
Theorem C03_marching_tets_closed : forall ins ts, complex_closed ins ts -> closed_mesh (mesh ins ts).
Proof. exact march_closed. Qed.

(* EDGE-MANIFOLD (simplex / hybrid): if moreover no two tets have the same four vertices, every
   directed edge is used at most once *)
Theorem C03_marching_tets_manifold : forall ins ts,
  complex_closed ins ts -> simplicial ts -> manifold_mesh (mesh ins ts).
Proof. exact march_manifold. Qed.

(* the hypotheses are satisfiable with surface present: the boundary of the 4-simplex *)
Theorem C03_nonvacuous :
  complex_closed ins01 simplex4 /\ simplicial simplex4 /\ length (mesh ins01 simplex4) = 8 /\
  closed_mesh (mesh ins01 simplex4) /\ manifold_mesh (mesh ins01 simplex4).
Proof.
  split; [exact simplex4_closed|]. split; [exact simplex4_simplicial|]. split; [exact simplex4_mesh_nonempty|].
  split; [exact simplex4_mesh_closed | exact simplex4_mesh_manifold].
Qed.

(* and [simplicial] is needed for manifoldness: two tets on the same four vertices *)
Theorem C03_double_tet_not_manifold :
  complex_closed ins01 double_tet /\ closed_mesh (mesh ins01 double_tet) /\ ~ manifold_mesh (mesh ins01 double_tet).
Proof. split; [exact double_tet_closed|]. split; [exact double_tet_mesh_closed | exact double_tet_not_manifold]. Qed.

(* DUAL CONTOURING, uniform grid: watertight and consistently oriented for every sign assignment
   with finitely many sign changes and every diagonal choice *)
Theorem C03_dc_uniform_grid_closed : forall ins diag E,
  DCGrid.covers ins E -> DCGrid.closed_mesh (DCGrid.dc_mesh ins diag E).
Proof. exact DCGridSem.dc_grid_closed. Qed.

(* ... in particular for every finite solid, with no hypothesis left *)
Theorem C03_dc_every_finite_solid_closed : forall S diag,
  DCGrid.closed_mesh (DCGrid.dc_mesh (DCGridSem.ins_of S) diag (DCGridSem.edges_of S)).
Proof. exact DCGridSem.dc_grid_closed_finite. Qed.

(* every triangle corner is a real patch vertex of its cell (no index -1 / marker vertex) *)
Theorem C03_dc_vertices_valid : forall ins d A p t,
  DCGrid.is_axis A = true -> In t (DCGrid.quad ins d A p) ->
  let '(a, b, c) := t in (0 <= snd a)%Z /\ (0 <= snd b)%Z /\ (0 <= snd c)%Z.
Proof. exact DCGridSem.quad_vertices_valid. Qed.

(* SIMPLEX MESHER, uniform grid.  Subspace vertices are points of the doubled lattice
   (2 c + 0 | 2 | 1 per axis for digit low | high | spanning), numbered by SimplexGrid.enc n on the
   box of n^3 cells; SimplexGrid.all_edges n lists every lattice edge whose four cells lie in the
   box; SimplexGridSem.clear_boundary n ins: every subspace vertex with a doubled coordinate in
   {0, 1, 2n - 1, 2n} (the outermost layer of cells) is outside. *)

(* every tet of load<A> is a flag corner < edge < face < cell of the cubical grid, in the vertex
   order (edge, corner | face, face | corner, cell), with four distinct vertices *)
Theorem C03_simplex_tets_are_flags : forall A p t,
  DCGrid.is_axis A = true -> In t (SimplexGrid.simplex_gtets A p) ->
  SimplexGridSem.tet_flagb t = true /\ SimplexGridSem.gdistinctb t = true.
Proof. exact SimplexGridSem.simplex_gtets_flags. Qed.

(* THE HYPOTHESIS OF C03_marching_tets_closed, DISCHARGED: libfive's own complex is closed and
   consistently oriented (every face that carries surface occurs exactly once with each
   orientation) *)
Theorem C03_simplex_uniform_grid_complex_closed : forall n ins,
  SimplexGridSem.clear_boundary n ins ->
  complex_closed ins (SimplexGrid.simplex_complex n (SimplexGrid.all_edges n)).
Proof. exact SimplexGridSem.simplex_complex_closed. Qed.

(* the same for any duplicate-free list of lattice edges of the box that contains, for every face
   carrying surface, the lattice edge of the tet on the other side *)
Theorem C03_simplex_complex_closed_any_edges : forall n ins E,
  NoDup E -> SimplexGridSem.axes_ok E -> SimplexGridSem.edges_in_box n E ->
  SimplexGridSem.partner_closed n ins E ->
  complex_closed ins (SimplexGrid.simplex_complex n E).
Proof. exact SimplexGridSem.simplex_complex_closed_gen. Qed.

(* WATERTIGHT AND CONSISTENTLY ORIENTED, no hypothesis on the complex left *)
Theorem C03_simplex_uniform_grid_closed : forall n ins,
  SimplexGridSem.clear_boundary n ins ->
  closed_mesh (mesh ins (SimplexGrid.simplex_complex n (SimplexGrid.all_edges n))).
Proof. exact SimplexGridSem.simplex_grid_closed. Qed.

(* EDGE-MANIFOLD: distinct flags have distinct vertex sets *)
Theorem C03_simplex_uniform_grid_simplicial : forall n,
  simplicial (SimplexGrid.simplex_complex n (SimplexGrid.all_edges n)).
Proof. exact SimplexGridSem.simplex_complex_simplicial. Qed.

Theorem C03_simplex_uniform_grid_manifold : forall n ins,
  SimplexGridSem.clear_boundary n ins ->
  manifold_mesh (mesh ins (SimplexGrid.simplex_complex n (SimplexGrid.all_edges n))).
Proof. exact SimplexGridSem.simplex_grid_manifold. Qed.

(* the model emits for every cell; what load<A> skips (EMPTY / FILLED cells: all subspace vertices
   of one sign) emits nothing *)
Theorem C03_simplex_skipped_emit_nothing : forall ins t,
  ins (tet_nth t 1) = ins (tet_nth t 0) -> ins (tet_nth t 2) = ins (tet_nth t 0) ->
  ins (tet_nth t 3) = ins (tet_nth t 0) -> march ins t = [].
Proof. exact SimplexGridSem.skipped_tets_emit_nothing. Qed.

(* non-vacuity: one inside corner in the 2^3 box, one inside cell vertex in the 3^3 box *)
Theorem C03_simplex_grid_example :
  SimplexGridSem.clear_boundary 2 SimplexGridSem.ex_corner /\
  length (SimplexGrid.simplex_mesh 2 SimplexGridSem.ex_corner) = 48 /\
  closed_mesh (SimplexGrid.simplex_mesh 2 SimplexGridSem.ex_corner) /\
  manifold_mesh (SimplexGrid.simplex_mesh 2 SimplexGridSem.ex_corner) /\
  SimplexGridSem.clear_boundary 3 SimplexGridSem.ex_cell /\
  length (SimplexGrid.simplex_mesh 3 SimplexGridSem.ex_cell) = 48 /\
  closed_mesh (SimplexGrid.simplex_mesh 3 SimplexGridSem.ex_cell) /\
  manifold_mesh (SimplexGrid.simplex_mesh 3 SimplexGridSem.ex_cell).
Proof.
  split; [exact SimplexGridSem.ex_corner_clear|]. split; [exact SimplexGridSem.ex_corner_size|].
  split; [exact SimplexGridSem.ex_corner_closed|]. split; [exact SimplexGridSem.ex_corner_manifold|].
  split; [exact SimplexGridSem.ex_cell_clear|]. split; [exact SimplexGridSem.ex_cell_size|].
  split; [exact SimplexGridSem.ex_cell_closed|exact SimplexGridSem.ex_cell_manifold].
Qed.

(* and a boundary hypothesis is needed: [all_edges] has no lattice edges in the boundary of the
   box, so an inside corner on the boundary leaves the surface open *)
Theorem C03_simplex_boundary_needed :
  ~ closed_mesh (SimplexGrid.simplex_mesh 2 (SimplexGridSem.ins_of 2 [(0, 2, 2)%Z])).
Proof. exact SimplexGridSem.boundary_needed. Qed.

(* ------------------------------------------------------------------ *)
(* DUAL CONTOURING ON ADAPTIVE OCTREES (cells of different levels, collapsed cells)                      *)
(* Render/OctTree.v models the octree, the topological part of DCTree<3>::collectChildren (with the      *)
(* 256-entry cornersAreManifold table read from dc_tree3.cpp), the recursive walk Dual<3>::work /        *)
(* face3 / edge3 and DCMesher::load (minimum-level rule, push_triangle); [ok] is the verdict of the      *)
(* numerical collapse tests, [diag] the normal-dependent choice of quad diagonal: both arbitrary.        *)
(* ------------------------------------------------------------------ *)
Module Adaptive.
Import OctTree OctTreeCollect OctTreeSem.

(* collapsing keeps the tree consistent with the lattice signs, for every verdict of the numerical tests *)
Theorem C03_dc_collapse_preserves_invariant : forall ins ok t o k p,
  oconsistent ins t o k -> oconsistent ins (ocollect ok k p t) o k.
Proof. exact ocollect_consistent. Qed.

(* WATERTIGHT AND CONSISTENTLY ORIENTED on ANY consistent adaptive octree - leaves of any mix of levels,
   pruned cells of any size - and for EVERY choice of quad diagonals: every directed edge is used as
   often as its reverse *)
Theorem C03_dc_adaptive_closed : forall ins t k diag,
  oconsistent ins t (0, 0, 0)%Z k -> oboundary_clear ins k -> oclosed_mesh (mesh_walk diag t).
Proof. exact walk3_closed. Qed.

(* no triangle repeats a vertex; every corner is a real patch vertex of its leaf *)
Theorem C03_dc_adaptive_triangles_valid : forall ins t k diag, oconsistent ins t (0, 0, 0)%Z k ->
  forall tr, In tr (mesh_walk diag t) ->
    (let '(a, b, c) := tr in a <> b /\ b <> c /\ a <> c) /\
    (forall v, (v = fst (fst tr) \/ v = snd (fst tr) \/ v = snd tr) -> (0 <= snd v)%Z).
Proof.
  intros ins t k diag C tr H. split; [exact (mesh_no_degenerate diag t tr H)|].
  intros v Hv. exact (mesh_vertices_valid ins t k diag C tr v H Hv).
Qed.

(* every triangle comes from one DCMesher::load call on four non-branching cells around one lattice edge,
   one of them exactly as large as the edge (the minimal-edge rule) *)
Theorem C03_dc_adaptive_triangles_from_minimal_edges : forall ins t k diag,
  oconsistent ins t (0, 0, 0)%Z k -> forall tr, In tr (mesh_walk diag t) -> load_call ins diag tr.
Proof. exact walk3_calls. Qed.

(* the hypotheses are satisfiable by EVERY lattice sign function: prune + subdivide + collapse + walk is
   closed for every solid strictly inside the region, every depth, every verdict of the numerical tests
   and every choice of diagonals *)
Theorem C03_dc_adaptive_pipeline_closed : forall ins ok k diag,
  oboundary_clear ins k -> oclosed_mesh (mesh_walk diag (ocollect ok k [] (obuild ins k (0, 0, 0)%Z))).
Proof. exact adaptive_dc_pipeline_closed. Qed.

(* the run-time checkers of the correspondence stage decide the hypotheses (and closedness) soundly *)
Theorem C03_dc_adaptive_checkers_sound : forall ins,
  (forall t o k, oconsistentb ins t o k = true -> oconsistent ins t o k) /\
  (forall k, oboundary_clearb ins k = true -> oboundary_clear ins k) /\
  (forall m, oclosed_meshb m = true -> oclosed_mesh m).
Proof.
  intros ins. split; [exact (oconsistentb_sound ins)|]. split; [exact (oboundary_clearb_sound ins) | exact oclosed_meshb_sound].
Qed.

(* the table of dc_tree3.cpp means what its comment says: a corner mask is manifold iff the filled corners
   and the empty corners are each connected along cube edges *)
Theorem C03_corner_table_is_connectivity : forall m, (0 <= m < 256)%Z ->
  (ocorners_manifold m = true <-> oconnected m /\ oconnected (255 - m)).
Proof. exact ocorners_manifold_connected. Qed.

(* non-vacuity: an 8 x 8 x 8 lattice whose collapsed tree has leaves of levels 2, 1 and 0 side by side;
   necessity: a solid touching the region boundary leaves an unpaired edge *)
Theorem C03_dc_adaptive_example :
  oconsistentb ins_bump bump_tree (0, 0, 0)%Z 3 = true /\ oboundary_clearb ins_bump 3 = true /\
  length (mesh_walk (fun _ _ _ _ => true) bump_tree) = 32%nat /\
  (forall diag, oclosed_mesh (mesh_walk diag bump_tree)).
Proof.
  destruct bump_checks as (A & B & C & _). split; [exact A|]. split; [exact B|]. split; [exact C | exact bump_closed].
Qed.
Theorem C03_dc_boundary_clear_needed :
  let t := obuild ins_touch 1 (0, 0, 0)%Z in
  oconsistentb ins_touch t (0, 0, 0)%Z 1 = true /\ oboundary_clearb ins_touch 1 = false /\
  ~ oclosed_mesh (mesh_walk (fun _ _ _ _ => true) t).
Proof. destruct oboundary_clear_needed as (_ & A & B & _ & _ & _ & _ & C). split; [exact A|]. split; [exact B | exact C]. Qed.
End Adaptive.

(* THE COLLAPSE TESTS ARE THE SOURCE'S: DCTree<3>::leafsAreManifold (12 edge midpoints, 6 face centres, the cell centre) is
   re-read from dc_tree3.cpp on every run and coincides with the model's [oleafs_manifold]; the corner table is read from
   the source as well (Gen/ManifoldTables_gen.v, consulted by [ocorners_manifold] directly) *)
Theorem C03_collapse_tests_from_source :
  forall (cs : Z -> OctTree.otree) (k : Z -> bool),
    LeafsManifold_gen.leafs_manifold3_gen cs k = OctTree.oleafs_manifold cs k.
Proof. exact LeafsAgree.leafs_manifold3_gen_eq. Qed.

Print Assumptions C03_table_sanity.
Print Assumptions C03_tet_boundary.
Print Assumptions C03_marching_tets_closed.
Print Assumptions C03_marching_tets_manifold.
Print Assumptions C03_nonvacuous.
Print Assumptions C03_double_tet_not_manifold.
Print Assumptions C03_dc_uniform_grid_closed.
Print Assumptions C03_dc_every_finite_solid_closed.
Print Assumptions C03_dc_vertices_valid.
Print Assumptions C03_simplex_tets_are_flags.
Print Assumptions C03_simplex_uniform_grid_complex_closed.
Print Assumptions C03_simplex_complex_closed_any_edges.
Print Assumptions C03_simplex_uniform_grid_closed.
Print Assumptions C03_simplex_uniform_grid_simplicial.
Print Assumptions C03_simplex_uniform_grid_manifold.
Print Assumptions C03_simplex_skipped_emit_nothing.
Print Assumptions C03_simplex_grid_example.
Print Assumptions C03_simplex_boundary_needed.
Print Assumptions Adaptive.C03_dc_collapse_preserves_invariant.
Print Assumptions Adaptive.C03_dc_adaptive_closed.
Print Assumptions Adaptive.C03_dc_adaptive_triangles_valid.
Print Assumptions Adaptive.C03_dc_adaptive_triangles_from_minimal_edges.
Print Assumptions Adaptive.C03_dc_adaptive_pipeline_closed.
Print Assumptions Adaptive.C03_dc_adaptive_checkers_sound.
Print Assumptions Adaptive.C03_corner_table_is_connectivity.
Print Assumptions Adaptive.C03_dc_adaptive_example.
Print Assumptions Adaptive.C03_dc_boundary_clear_needed.
Print Assumptions C03_collapse_tests_from_source.
