(* C03 — rendered meshes are closed, consistently oriented surfaces.  Statements only.

   Proved part: the simplex (and hybrid) meshers run marching tetrahedra with a fixed table;
   Gen/TetTable_gen.v is that table, re-read from simplex_mesher.cpp on every run; the theorems
   below are about it (Render/MarchTet.v is the model, Render/MarchTetSem.v the proofs).
   Dual contouring on a UNIFORM grid (Render/DCGrid.v, DCGridSem.v): Dual<3>::walk +
   DCMesher::load with the patch tables libfive builds at start-up (Gen/MarchTables_gen.v,
   dumped from the implementation on every run) is watertight and consistently oriented for
   every filled / empty assignment of the lattice points and every choice of quad diagonals.
   Oracle-only part (check/props/c03.py): grids with cells of different octree levels (the
   minimal-edge rule, collapsed cells), and the fact that libfive's own complex of tetrahedra
   is closed and consistently oriented, which is the hypothesis [complex_closed]. *)
From Coq Require Import List Arith.
From Coq Require Import ZArith.
From LF Require Import Gen.TetTable_gen Render.MarchTet Render.MarchTetSem.
From LF Require Gen.MarchTables_gen Render.DCGrid Render.DCGridSem.
Import ListNotations.

(* the table itself: 16 rows, 0 / 1 / 2 triangles by the number of inside vertices, every
   triangle corner on a tet edge whose ends differ in sign *)
Theorem C03_table_sanity :
  length gen_tet_table = 16 /\
  forall m, m < 16 ->
    length (nth m gen_tet_table []) = expected_tris m /\
    forall es, In es (nth m gen_tet_table []) ->
      length es = 3 /\ forall e, In e es -> sign_change m e = true.
Proof. exact table_sanity. Qed.

(* the boundary of what one tet emits is exactly its four face segments (plus the interior
   diagonal in both directions): for EVERY tet and EVERY inside / outside assignment *)
Theorem C03_tet_boundary : forall ins t e,
  count_dedge e (dedges (march ins t)) =
  count_dedge e (flat_map (fseg ins) (tet_faces t)) + count_dedge e (diag ins t).
Proof. exact march_decomp. Qed.

(* WATERTIGHT AND CONSISTENTLY ORIENTED: over any tetrahedral complex in which every face that
   carries surface is matched by exactly one oppositely oriented copy, for every inside / outside
   assignment, each directed edge of the mesh is used exactly as often as its reverse *)
Theorem C03_marching_tets_closed : forall ins ts, complex_closed ins ts -> closed_mesh (mesh ins ts).
Proof. exact march_closed. Qed.

(* EDGE-MANIFOLD (simplex / hybrid): if moreover no two tets have the same four vertices, every
   directed edge is used at most once *)
Theorem C03_marching_tets_manifold : forall ins ts,
  complex_closed ins ts -> simplicial ts -> manifold_mesh (mesh ins ts).
Proof. exact march_manifold. Qed.

(* the hypotheses are satisfiable with surface present: the boundary of the 4-simplex *)
Theorem C03_nonvacuous :
  complex_closed ins01 simplex4 /\ simplicial simplex4 /\ length (mesh ins01 simplex4) = 8 /\
  closed_mesh (mesh ins01 simplex4) /\ manifold_mesh (mesh ins01 simplex4).
Proof.
  split; [exact simplex4_closed|]. split; [exact simplex4_simplicial|]. split; [exact simplex4_mesh_nonempty|].
  split; [exact simplex4_mesh_closed | exact simplex4_mesh_manifold].
Qed.

(* and [simplicial] is needed for manifoldness: two tets on the same four vertices *)
Theorem C03_double_tet_not_manifold :
  complex_closed ins01 double_tet /\ closed_mesh (mesh ins01 double_tet) /\ ~ manifold_mesh (mesh ins01 double_tet).
Proof. split; [exact double_tet_closed|]. split; [exact double_tet_mesh_closed | exact double_tet_not_manifold]. Qed.

(* DUAL CONTOURING, uniform grid: watertight and consistently oriented for every sign assignment
   with finitely many sign changes and every diagonal choice *)
Theorem C03_dc_uniform_grid_closed : forall ins diag E,
  DCGrid.covers ins E -> DCGrid.closed_mesh (DCGrid.dc_mesh ins diag E).
Proof. exact DCGridSem.dc_grid_closed. Qed.

(* ... in particular for every finite solid, with no hypothesis left *)
Theorem C03_dc_every_finite_solid_closed : forall S diag,
  DCGrid.closed_mesh (DCGrid.dc_mesh (DCGridSem.ins_of S) diag (DCGridSem.edges_of S)).
Proof. exact DCGridSem.dc_grid_closed_finite. Qed.

(* every triangle corner is a real patch vertex of its cell (no index -1 / marker vertex) *)
Theorem C03_dc_vertices_valid : forall ins d A p t,
  DCGrid.is_axis A = true -> In t (DCGrid.quad ins d A p) ->
  let '(a, b, c) := t in (0 <= snd a)%Z /\ (0 <= snd b)%Z /\ (0 <= snd c)%Z.
Proof. exact DCGridSem.quad_vertices_valid. Qed.

Print Assumptions C03_table_sanity.
Print Assumptions C03_tet_boundary.
Print Assumptions C03_marching_tets_closed.
Print Assumptions C03_marching_tets_manifold.
Print Assumptions C03_nonvacuous.
Print Assumptions C03_double_tet_not_manifold.
Print Assumptions C03_dc_uniform_grid_closed.
Print Assumptions C03_dc_every_finite_solid_closed.
Print Assumptions C03_dc_vertices_valid.
