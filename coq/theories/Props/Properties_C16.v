(* C16 — black-box oracles behave exactly like the expressions they wrap.  Statements only;
   proofs in Eval/DeckOracleSem.v and Eval/OracleSem.v.

   Model: an oracle node [NOracle g] denotes the user's function [osem g]; after flatten a
   remapped oracle is [NOracleT cx cy cz u] (TransformedOracleClause).  Eval/OracleEval.v
   mirrors the C++ object structure: [evaluator] = a deck whose ORACLE clauses are answered
   by [oracle_obj]; a transformed oracle owns one evaluator per coordinate tree (built with an
   EMPTY variable map, as transformed_oracle.cpp does) and the underlying oracle; every
   evaluator first runs Tree::optimized on its tree, as Deck::Deck does. *)
From Coq Require Import Reals List Arith.
From Coquelicot Require Import Coquelicot.
From LF Require Import Base.Opcode Base.Num Base.Arena Base.Sem Tree.Build Tree.BuildSem
  Eval.Deck Eval.DeckSem Eval.DeckSemReach Eval.OracleEval Eval.DeckOracleSem Eval.OracleSem
  Stdlib.SExpr Eval.DerivSem.
From LF Require Base.RInst Tree.Optimize Tree.FlattenSem Tree.OptimizePure.
Local Open Scope nat_scope.

(* Deck + tape walk with ORACLE clauses: if every oracle clause is answered with its node's
   value at the point, the tape computes the denotation of the whole tree *)
Theorem C16_deck_with_oracles :
  forall (num : Type) (O : ops num) (osem oracle_at : nat -> num -> num -> num -> num)
         (a : arena num) (root : nat) (vars : nat -> num) (x y z : num),
    arena_wf a -> base_ok O a -> root < length a ->
    (forall m, DeckSemReach.reach a root m -> opure_at a m) ->
    let d := mk_deck a root in
    (forall k slot id, nth_error (d_oracles d) k = Some (slot, id) ->
       oracle_at k x y z = val O osem a id {| ex := x; ey := y; ez := z; ev := vars |}) ->
    tape_value O oracle_at d (d_tape d) (d_root d) vars x y z
    = val O osem a root {| ex := x; ey := y; ez := z; ev := vars |}.
Proof. exact @deck_correct_oracle_reach. Qed.

(* the tower of per-coordinate evaluators inside TransformedOracle computes the composition
   with the coordinate maps: point values through the real object structure (every evaluator
   starting with Tree::optimized, so lazy remap / apply nodes are allowed) equal the
   denotation, for any nesting of transformed oracles.  [tower_ok n a root] (Eval/OracleSem.v)
   packages, per level: [opt_ok] = Tree::optimized returns a live node of a well-formed arena
   with the same value that reaches only plain nodes and oracle leaves (ASSUMED as a
   hypothesis; proved for oracle-free sources, see C16_opt_ok_* below), the coordinate trees
   depend on the point only ([xyz_only]; see C16_free_variables_refuted), and the 4th
   component of a transformed oracle is an oracle node *)
Theorem C16_evaluator_correct :
  forall (num : Type) (O : ops num) (osem : nat -> num -> num -> num -> num)
         (n fuel : nat) (a : arena num) (root : nat) (vars : nat -> num) (x y z : num),
    tower_ok O osem n a root -> n <= fuel ->
    evaluator O osem fuel a root vars x y z = val O osem a root {| ex := x; ey := y; ez := z; ev := vars |}.
Proof. exact @evaluator_correct. Qed.

Theorem C16_oracle_obj_correct :
  forall (num : Type) (O : ops num) (osem : nat -> num -> num -> num -> num)
         (n fuel : nat) (a : arena num) (id : nat) (any : nat -> num) (x y z : num),
    arena_wf a -> id < length a -> obj_ok O osem n a id -> n <= fuel ->
    oracle_obj O osem fuel a id x y z = val O osem a id {| ex := x; ey := y; ez := z; ev := any |}.
Proof. exact @oracle_obj_correct. Qed.

(* non-vacuity, every number type: oracle.remap(min(x,y), y, z), built with a lazy remap node,
   satisfies [tower_ok] and evaluates to the composition *)
Theorem C16_tower_nonvacuous :
  forall (num : Type) (O : ops num) (osem : nat -> num -> num -> num -> num),
    tower_ok O osem 3 (good_arena O) 8 /\
    forall fuel vars x y z, 3 <= fuel ->
      evaluator O osem fuel (good_arena O) 8 vars x y z = osem 0 (o_bin O OP_MIN x y) y z.
Proof. intros; split; [apply good_tower | intros; apply good_evaluator; assumption]. Qed.

(* what the optimiser theorems give for [opt_ok], over the real instance of C07/C01:
   oracle-free source trees satisfy it; with oracles everything but the purity of the
   optimised output follows (for roots with no transformed oracle below, or no lazy node) *)
Theorem C16_opt_ok_oracle_free :
  forall (uf : opcode -> R -> R) (bf : opcode -> R -> R -> R),
    (forall x, bf OP_POW x 1%R = x) -> (forall x, bf OP_NTH_ROOT x 1%R = x) ->
    forall (osem : nat -> R -> R -> R -> R) (a : arena R) (i fuel : nat) vars x y z,
      arena_wf a -> base_ok (RInst.R_ops uf bf) a -> i < length a ->
      OptimizePure.src_ok a i -> FlattenSem.noT a i -> 1 <= fuel ->
      evaluator (RInst.R_ops uf bf) osem fuel a i vars x y z
      = val (RInst.R_ops uf bf) osem a i {| ex := x; ey := y; ez := z; ev := vars |}.
Proof. exact evaluator_oracle_free. Qed.

Theorem C16_opt_ok_of_pure :
  forall (uf : opcode -> R -> R) (bf : opcode -> R -> R -> R),
    (forall x, bf OP_POW x 1%R = x) -> (forall x, bf OP_NTH_ROOT x 1%R = x) ->
    forall (osem : nat -> R -> R -> R -> R) (a : arena R) (i : nat),
      arena_wf a -> base_ok (RInst.R_ops uf bf) a -> i < length a ->
      (FlattenSem.noT a i \/ f_remap (flags_of a i) = false) ->
      (let '(a1, r1) := Optimize.optimized (RInst.R_ops uf bf) a i in
       forall m, DeckSemReach.reach a1 r1 m -> opure_at a1 m) ->
      opt_ok (RInst.R_ops uf bf) osem a i.
Proof. exact opt_ok_of_pure. Qed.

(* wrapping: if the user oracle computes expression e, then ANY context (operations, remap
   chains) built over the oracle denotes the same function as the same context over e *)
Theorem C16_oracle_wrap :
  forall (num : Type) (O : ops num) (osem : nat -> num -> num -> num -> num)
         (a : arena num) (o g e : nat),
    arena_wf a -> o < length a -> getn a o = NOracle g ->
    (forall x y z vs, osem g x y z = val O osem a e {| ex := x; ey := y; ez := z; ev := vs |}) ->
    forall (t : sx num) r, denote O osem a (subst_handle o e t) r = denote O osem a t r.
Proof. exact @oracle_wrap_denote. Qed.

(* gradients: TransformedOracle::evalDerivs (Jacobian of the coordinate maps times the
   underlying gradient) is the gradient of the composite, wherever the underlying function is
   differentiable and the coordinate maps have partial derivatives *)
Theorem C16_gradient :
  forall (u X Y Z : R -> R -> R -> R) (x0 y0 z0 : R) (gX gY gZ gu : R * R * R),
    filterdiff (fun q : R * R * R => u (fst (fst q)) (snd (fst q)) (snd q))
               (locally (X x0 y0 z0, Y x0 y0 z0, Z x0 y0 z0))
               (fun d : R * R * R =>
                  (fst (fst gu) * fst (fst d) + snd (fst gu) * snd (fst d) + snd gu * snd d)%R) ->
    grad_at X x0 y0 z0 gX -> grad_at Y x0 y0 z0 gY -> grad_at Z x0 y0 z0 gZ ->
    grad_at (fun x y z => u (X x y z) (Y x y z) (Z x y z)) x0 y0 z0 (jac_mul RD gX gY gZ gu).
Proof. exact oracle_gradient_correct. Qed.

(* intervals: TransformedOracle::evalInterval (as repaired: the result is flagged may-be-NaN
   when any coordinate range is).  An unflagged result encloses the composite on the region *)
Theorem C16_interval_sound :
  forall (T : Type) (le : T -> T -> Prop) (P : Type) (region : P -> Prop) (X Y Z : P -> T)
         (u : T -> T -> T -> T) (iu : box T -> ires T) (RX RY RZ : ires T),
    (safe T RX -> forall p, region p -> inI T le (X p) (ir_itv T RX)) ->
    (safe T RY -> forall p, region p -> inI T le (Y p) (ir_itv T RY)) ->
    (safe T RZ -> forall p, region p -> inI T le (Z p) (ir_itv T RZ)) ->
    (forall b, safe T (iu b) ->
       forall q, in_box T le q b -> inI T le (u (fst (fst q)) (snd (fst q)) (snd q)) (ir_itv T (iu b))) ->
    safe T (tor_interval T iu RX RY RZ) ->
    forall p, region p -> inI T le (u (X p) (Y p) (Z p)) (ir_itv T (tor_interval T iu RX RY RZ)).
Proof. exact tor_interval_sound. Qed.

(* specialisation: running the three coordinate evaluators on pushed tapes (the oracle's
   context) leaves the oracle's answer unchanged, whenever each push is justified (C05) *)
Theorem C16_context_preserves :
  forall (num : Type) (O : ops num)
         (ox oy oz : nat -> num -> num -> num -> num) (dx dy dz : @deck num)
         nx ny nz (tX tY tZ : Push.tape) (vx vy vz : @slots num) fnx fny fnz
         (u : num -> num -> num -> num),
    PushSem.tape_wf dx nx tX -> length vx = nx -> PushSem.justified O ox dx vx fnx tX ->
    PushSem.tape_wf dy ny tY -> length vy = ny -> PushSem.justified O oy dy vy fny tY ->
    PushSem.tape_wf dz nz tZ -> length vz = nz -> PushSem.justified O oz dz vz fnz tZ ->
    let value := fun o d (t : Push.tape) v => sget O (eval_tape O o d (Push.t_clauses t) v) (Push.t_root t) in
    u (value ox dx (Push.tape_push nx fnx tX) vx) (value oy dy (Push.tape_push ny fny tY) vy)
      (value oz dz (Push.tape_push nz fnz tZ) vz)
    = u (value ox dx tX vx) (value oy dy tY vy) (value oz dz tZ vz).
Proof. exact @oracle_ctx_preserves_push. Qed.

(* KNOWN FINDING (known_findings.txt, key oracle:var-in-remap): with a free variable in a
   coordinate tree the real object structure evaluates that variable at 0 — the property's
   statement fails there.  Witness: oracle.remap(min(x, v), y, z), v := 3, at x = 5; every
   part of [tower_ok] holds except [xyz_only] of the optimised coordinate tree *)
Theorem C16_free_variables_refuted :
  let osem := fun (_ : nat) (x _ _ : R) => x in
  let a := bad_arena RD in
  let vars := fun _ : nat => 3%R in
  Optimize.optimized RD a 8 = (bad_opt RD, 11) /\
  getn (bad_opt RD) 11 = NOracleT 10 idY idZ 7 /\
  ~ xyz_only RD osem (bad_opt RD) 10 /\
  (tower_ok RD osem 3 a 8 <-> xyz_only RD osem (bad_opt RD) 10) /\
  evaluator RD osem 6 a 8 vars 5%R 0%R 0%R = 0%R /\
  val RD osem a 8 {| ex := 5%R; ey := 0%R; ez := 0%R; ev := vars |} = 3%R /\
  evaluator RD osem 6 a 8 vars 5%R 0%R 0%R <> val RD osem a 8 {| ex := 5%R; ey := 0%R; ez := 0%R; ev := vars |}.
Proof. exact oracle_vars_refuted. Qed.

Print Assumptions C16_deck_with_oracles.
Print Assumptions C16_evaluator_correct.
Print Assumptions C16_oracle_obj_correct.
Print Assumptions C16_tower_nonvacuous.
Print Assumptions C16_opt_ok_oracle_free.
Print Assumptions C16_opt_ok_of_pure.
Print Assumptions C16_oracle_wrap.
Print Assumptions C16_gradient.
Print Assumptions C16_interval_sound.
Print Assumptions C16_context_preserves.
Print Assumptions C16_free_variables_refuted.
