(* C16 — black-box oracles behave exactly like the expressions they wrap.  Statements only;
   proofs in Eval/DeckOracleSem.v and Eval/OracleSem.v.

   Model: an oracle node [NOracle g] denotes the user's function [osem g]; after flatten a
   remapped oracle is [NOracleT cx cy cz u] (TransformedOracleClause).  Eval/OracleEval.v
   mirrors the C++ object structure: [evaluator] = a deck whose ORACLE clauses are answered
   by [oracle_obj]; a transformed oracle owns one evaluator per coordinate tree (built with an
   EMPTY variable map, as transformed_oracle.cpp does) and the underlying oracle. *)
From Coq Require Import Reals List Arith.
From Coquelicot Require Import Coquelicot.
From LF Require Import Base.Opcode Base.Num Base.Arena Base.Sem Tree.Build Tree.BuildSem
  Eval.Deck Eval.DeckSem Eval.DeckSemReach Eval.OracleEval Eval.DeckOracleSem Eval.OracleSem
  Stdlib.SExpr Eval.DerivSem.
Local Open Scope nat_scope.

(* Deck + tape walk with ORACLE clauses: if every oracle clause is answered with its node's
   value at the point, the tape computes the denotation of the whole tree *)
Theorem C16_deck_with_oracles :
  forall (num : Type) (O : ops num) (osem oracle_at : nat -> num -> num -> num -> num)
         (a : arena num) (root : nat) (vars : nat -> num) (x y z : num),
    arena_wf a -> base_ok O a -> root < length a ->
    (forall m, DeckSemReach.reach a root m -> opure_at a m) ->
    let d := mk_deck a root in
    (forall k slot id, nth_error (d_oracles d) k = Some (slot, id) ->
       oracle_at k x y z = val O osem a id {| ex := x; ey := y; ez := z; ev := vars |}) ->
    tape_value O oracle_at d (d_tape d) (d_root d) vars x y z
    = val O osem a root {| ex := x; ey := y; ez := z; ev := vars |}.
Proof. exact @deck_correct_oracle_reach. Qed.

(* the tower of per-coordinate evaluators inside TransformedOracle computes the composition
   with the coordinate maps: point values through the real object structure equal the
   denotation, for any nesting of transformed oracles, provided the coordinate trees mention
   no free variable ([coords_closed]; see C16_free_variables_refuted) *)
Theorem C16_evaluator_correct :
  forall (num : Type) (O : ops num) (osem : nat -> num -> num -> num -> num)
         (a : arena num) (root fuel fc : nat) (vars : nat -> num) (x y z : num),
    arena_wf a -> base_ok O a -> root < length a -> 2 * root + 2 <= fuel ->
    coords_closed fc a root = true ->
    (forall m, dreach a root m -> canon_at a m) ->
    (forall m, dreach a root m -> underlying_at a m) ->
    evaluator O osem fuel a root vars x y z = val O osem a root {| ex := x; ey := y; ez := z; ev := vars |}.
Proof. exact @evaluator_correct. Qed.

(* wrapping: if the user oracle computes expression e, then ANY context (operations, remap
   chains) built over the oracle denotes the same function as the same context over e *)
Theorem C16_oracle_wrap :
  forall (num : Type) (O : ops num) (osem : nat -> num -> num -> num -> num)
         (a : arena num) (o g e : nat),
    arena_wf a -> o < length a -> getn a o = NOracle g ->
    (forall x y z vs, osem g x y z = val O osem a e {| ex := x; ey := y; ez := z; ev := vs |}) ->
    forall (t : sx num) r, denote O osem a (subst_handle o e t) r = denote O osem a t r.
Proof. exact @oracle_wrap_denote. Qed.

(* gradients: TransformedOracle::evalDerivs (Jacobian of the coordinate maps times the
   underlying gradient) is the gradient of the composite, wherever the underlying function is
   differentiable and the coordinate maps have partial derivatives *)
Theorem C16_gradient :
  forall (u X Y Z : R -> R -> R -> R) (x0 y0 z0 : R) (gX gY gZ gu : R * R * R),
    filterdiff (fun q : R * R * R => u (fst (fst q)) (snd (fst q)) (snd q))
               (locally (X x0 y0 z0, Y x0 y0 z0, Z x0 y0 z0))
               (fun d : R * R * R =>
                  (fst (fst gu) * fst (fst d) + snd (fst gu) * snd (fst d) + snd gu * snd d)%R) ->
    grad_at X x0 y0 z0 gX -> grad_at Y x0 y0 z0 gY -> grad_at Z x0 y0 z0 gZ ->
    grad_at (fun x y z => u (X x y z) (Y x y z) (Z x y z)) x0 y0 z0 (jac_mul RD gX gY gZ gu).
Proof. exact oracle_gradient_correct. Qed.

(* intervals: TransformedOracle::evalInterval (as repaired: the result is flagged may-be-NaN
   when any coordinate range is).  An unflagged result encloses the composite on the region *)
Theorem C16_interval_sound :
  forall (T : Type) (le : T -> T -> Prop) (P : Type) (region : P -> Prop) (X Y Z : P -> T)
         (u : T -> T -> T -> T) (iu : box T -> ires T) (RX RY RZ : ires T),
    (safe T RX -> forall p, region p -> inI T le (X p) (ir_itv T RX)) ->
    (safe T RY -> forall p, region p -> inI T le (Y p) (ir_itv T RY)) ->
    (safe T RZ -> forall p, region p -> inI T le (Z p) (ir_itv T RZ)) ->
    (forall b, safe T (iu b) ->
       forall q, in_box T le q b -> inI T le (u (fst (fst q)) (snd (fst q)) (snd q)) (ir_itv T (iu b))) ->
    safe T (tor_interval T iu RX RY RZ) ->
    forall p, region p -> inI T le (u (X p) (Y p) (Z p)) (ir_itv T (tor_interval T iu RX RY RZ)).
Proof. exact tor_interval_sound. Qed.

(* specialisation: running the three coordinate evaluators on pushed tapes (the oracle's
   context) leaves the oracle's answer unchanged, whenever each push is justified (C05) *)
Theorem C16_context_preserves :
  forall (num : Type) (O : ops num)
         (ox oy oz : nat -> num -> num -> num -> num) (dx dy dz : @deck num)
         nx ny nz (tX tY tZ : Push.tape) (vx vy vz : @slots num) fnx fny fnz
         (u : num -> num -> num -> num),
    PushSem.tape_wf dx nx tX -> length vx = nx -> PushSem.justified O ox dx vx fnx tX ->
    PushSem.tape_wf dy ny tY -> length vy = ny -> PushSem.justified O oy dy vy fny tY ->
    PushSem.tape_wf dz nz tZ -> length vz = nz -> PushSem.justified O oz dz vz fnz tZ ->
    let value := fun o d (t : Push.tape) v => sget O (eval_tape O o d (Push.t_clauses t) v) (Push.t_root t) in
    u (value ox dx (Push.tape_push nx fnx tX) vx) (value oy dy (Push.tape_push ny fny tY) vy)
      (value oz dz (Push.tape_push nz fnz tZ) vz)
    = u (value ox dx tX vx) (value oy dy tY vy) (value oz dz tZ vz).
Proof. exact @oracle_ctx_preserves_push. Qed.

(* KNOWN FINDING (known_findings.txt, key oracle:var-in-remap): with a free variable in a
   coordinate tree the real object structure evaluates that variable at 0 — the property's
   statement fails there; every other hypothesis of C16_evaluator_correct holds *)
Theorem C16_free_variables_refuted :
  let osem := fun (_ : nat) (x _ _ : R) => x in
  let a := bad_arena RD in
  let vars := fun _ : nat => 3%R in
  (arena_wf a /\ base_ok RD a /\ (8 < length a)%nat /\ (2 * 8 + 2 <= 18)%nat /\
   (forall m, dreach a 8 m -> evaluable_at a m) /\
   (forall m, dreach a 8 m -> canon_at a m) /\
   (forall m, dreach a 8 m -> underlying_at a m)) /\
  (forall fc, coords_closed fc a 8 = false) /\
  evaluator RD osem 18 a 8 vars 0%R 0%R 0%R = 0%R /\
  val RD osem a 8 {| ex := 0%R; ey := 0%R; ez := 0%R; ev := vars |} = 3%R /\
  evaluator RD osem 18 a 8 vars 0%R 0%R 0%R <> val RD osem a 8 {| ex := 0%R; ey := 0%R; ez := 0%R; ev := vars |}.
Proof. exact oracle_vars_refuted. Qed.

Print Assumptions C16_deck_with_oracles.
Print Assumptions C16_evaluator_correct.
Print Assumptions C16_oracle_wrap.
Print Assumptions C16_gradient.
Print Assumptions C16_interval_sound.
Print Assumptions C16_context_preserves.
Print Assumptions C16_free_variables_refuted.
