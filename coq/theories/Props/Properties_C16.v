(* C16 — black-box oracles behave exactly like the expressions they wrap.  Statements only;
   proofs in Eval/DeckOracleSem.v and Eval/OracleSem.v.

   Model: an oracle node [NOracle g] denotes the user's function [osem g]; after flatten a
   remapped oracle is [NOracleT cx cy cz u] (TransformedOracleClause).  Eval/OracleEval.v
   mirrors the C++ object structure: [evaluator] = a deck whose ORACLE clauses are answered
   by [oracle_obj]; a transformed oracle owns one evaluator per coordinate tree (built with an
   EMPTY variable map, as transformed_oracle.cpp does) and the underlying oracle; every
   evaluator first runs Tree::optimized on its tree, as Deck::Deck does. *)
From Coq Require Import Reals List Arith.
From Coquelicot Require Import Coquelicot.
From LF Require Import Base.Opcode Base.Num Base.Arena Base.Sem Tree.Build Tree.BuildSem
  Eval.Deck Eval.DeckSem Eval.DeckSemReach Eval.OracleEval Eval.DeckOracleSem Eval.OracleSem
  Stdlib.SExpr Eval.DerivSem.
From LF Require Base.RInst Tree.Optimize Tree.FlattenSem Tree.OptimizePure Tree.OptimizePureO Tree.Bnd.
Local Open Scope nat_scope.

(* Deck + tape walk with ORACLE clauses: if every oracle clause is answered with its node's
   value at the point, the tape computes the denotation of the whole tree *)
Theorem C16_deck_with_oracles :
  forall (num : Type) (O : ops num) (osem oracle_at : nat -> num -> num -> num -> num)
         (a : arena num) (root : nat) (vars : nat -> num) (x y z : num),
    arena_wf a -> base_ok O a -> root < length a ->
    (forall m, DeckSemReach.reach a root m -> opure_at a m) ->
    let d := mk_deck a root in
    (forall k slot id, nth_error (d_oracles d) k = Some (slot, id) ->
       oracle_at k x y z = val O osem a id {| ex := x; ey := y; ez := z; ev := vars |}) ->
    tape_value O oracle_at d (d_tape d) (d_root d) vars x y z
    = val O osem a root {| ex := x; ey := y; ez := z; ev := vars |}.
Proof. exact @deck_correct_oracle_reach. Qed.

(* the tower of per-coordinate evaluators inside TransformedOracle computes the composition
   with the coordinate maps: point values through the real object structure (every evaluator
   starting with Tree::optimized, so lazy remap / apply nodes are allowed) equal the
   denotation, for any nesting of transformed oracles.  [tower_ok n a root] (Eval/OracleSem.v)
   packages, per level: [opt_ok] = Tree::optimized returns a live node of a well-formed arena
   with the same value that reaches only plain nodes and oracle leaves (ASSUMED as a
   hypothesis; proved for oracle-free sources, see C16_opt_ok_* below), the coordinate trees
   depend on the point only ([xyz_only]; see C16_free_variables_refuted), and the 4th
   component of a transformed oracle is an oracle node *)
Theorem C16_evaluator_correct :
  forall (num : Type) (O : ops num) (osem : nat -> num -> num -> num -> num)
         (n fuel : nat) (a : arena num) (root : nat) (vars : nat -> num) (x y z : num),
    tower_ok O osem n a root -> n <= fuel ->
    evaluator O osem fuel a root vars x y z = val O osem a root {| ex := x; ey := y; ez := z; ev := vars |}.
Proof. exact @evaluator_correct. Qed.

Theorem C16_oracle_obj_correct :
  forall (num : Type) (O : ops num) (osem : nat -> num -> num -> num -> num)
         (n fuel : nat) (a : arena num) (id : nat) (any : nat -> num) (x y z : num),
    arena_wf a -> id < length a -> obj_ok O osem n a id -> n <= fuel ->
    oracle_obj O osem fuel a id x y z = val O osem a id {| ex := x; ey := y; ez := z; ev := any |}.
Proof. exact @oracle_obj_correct. Qed.

(* non-vacuity, every number type: oracle.remap(min(x,y), y, z), built with a lazy remap node,
   satisfies [tower_ok] and evaluates to the composition *)
Theorem C16_tower_nonvacuous :
  forall (num : Type) (O : ops num) (osem : nat -> num -> num -> num -> num),
    tower_ok O osem 3 (good_arena O) 8 /\
    forall fuel vars x y z, 3 <= fuel ->
      evaluator O osem fuel (good_arena O) 8 vars x y z = osem 0 (o_bin O OP_MIN x y) y z.
Proof. intros; split; [apply good_tower | intros; apply good_evaluator; assumption]. Qed.

(* what the optimiser theorems give for [opt_ok], over the real instance of C07/C01:
   oracle-free source trees satisfy it; with oracles everything but the purity of the
   optimised output follows from C07 for roots satisfying [good] (FlattenSem.v: transformed
   oracles below an apply node have variable-independent components), in particular for
   roots with no transformed oracle below.  (The former alternative "no lazy node at the
   root" belonged to the model that did not flatten coordinate trees; with the faithful
   model it is subsumed by [good].)  The purity itself is C16_optimized_with_oracles_pure
   below, so that [opt_ok] is a theorem: C16_opt_ok_discharged *)
Theorem C16_opt_ok_oracle_free :
  forall (uf : opcode -> R -> R) (bf : opcode -> R -> R -> R),
    (forall x, bf OP_POW x 1%R = x) -> (forall x, bf OP_NTH_ROOT x 1%R = x) ->
    forall (osem : nat -> R -> R -> R -> R) (a : arena R) (i fuel : nat) vars x y z,
      arena_wf a -> base_ok (RInst.R_ops uf bf) a -> i < length a ->
      OptimizePure.src_ok a i -> FlattenSem.noT a i -> 1 <= fuel ->
      evaluator (RInst.R_ops uf bf) osem fuel a i vars x y z
      = val (RInst.R_ops uf bf) osem a i {| ex := x; ey := y; ez := z; ev := vars |}.
Proof. exact evaluator_oracle_free. Qed.

Theorem C16_opt_ok_of_pure :
  forall (uf : opcode -> R -> R) (bf : opcode -> R -> R -> R),
    (forall x, bf OP_POW x 1%R = x) -> (forall x, bf OP_NTH_ROOT x 1%R = x) ->
    forall (osem : nat -> R -> R -> R -> R) (a : arena R) (i : nat),
      arena_wf a -> base_ok (RInst.R_ops uf bf) a -> i < length a ->
      (FlattenSem.noT a i \/ FlattenSem.good (RInst.R_ops uf bf) osem a i) ->
      (let '(a1, r1) := Optimize.optimized (RInst.R_ops uf bf) a i in
       forall m, DeckSemReach.reach a1 r1 m -> opure_at a1 m) ->
      opt_ok (RInst.R_ops uf bf) osem a i.
Proof. exact opt_ok_of_pure. Qed.

(* wrapping: if the user oracle computes expression e, then ANY context (operations, remap
   chains) built over the oracle denotes the same function as the same context over e *)
Theorem C16_oracle_wrap :
  forall (num : Type) (O : ops num) (osem : nat -> num -> num -> num -> num)
         (a : arena num) (o g e : nat),
    arena_wf a -> o < length a -> getn a o = NOracle g ->
    (forall x y z vs, osem g x y z = val O osem a e {| ex := x; ey := y; ez := z; ev := vs |}) ->
    forall (t : sx num) r, denote O osem a (subst_handle o e t) r = denote O osem a t r.
Proof. exact @oracle_wrap_denote. Qed.

(* gradients: TransformedOracle::evalDerivs (Jacobian of the coordinate maps times the
   underlying gradient) is the gradient of the composite, wherever the underlying function is
   differentiable and the coordinate maps have partial derivatives *)
Theorem C16_gradient :
  forall (u X Y Z : R -> R -> R -> R) (x0 y0 z0 : R) (gX gY gZ gu : R * R * R),
    filterdiff (fun q : R * R * R => u (fst (fst q)) (snd (fst q)) (snd q))
               (locally (X x0 y0 z0, Y x0 y0 z0, Z x0 y0 z0))
               (fun d : R * R * R =>
                  (fst (fst gu) * fst (fst d) + snd (fst gu) * snd (fst d) + snd gu * snd d)%R) ->
    grad_at X x0 y0 z0 gX -> grad_at Y x0 y0 z0 gY -> grad_at Z x0 y0 z0 gZ ->
    grad_at (fun x y z => u (X x y z) (Y x y z) (Z x y z)) x0 y0 z0 (jac_mul RD gX gY gZ gu).
Proof. exact oracle_gradient_correct. Qed.

(* intervals: TransformedOracle::evalInterval (as repaired: the result is flagged may-be-NaN
   when any coordinate range is).  An unflagged result encloses the composite on the region *)
Theorem C16_interval_sound :
  forall (T : Type) (le : T -> T -> Prop) (P : Type) (region : P -> Prop) (X Y Z : P -> T)
         (u : T -> T -> T -> T) (iu : box T -> ires T) (RX RY RZ : ires T),
    (safe T RX -> forall p, region p -> inI T le (X p) (ir_itv T RX)) ->
    (safe T RY -> forall p, region p -> inI T le (Y p) (ir_itv T RY)) ->
    (safe T RZ -> forall p, region p -> inI T le (Z p) (ir_itv T RZ)) ->
    (forall b, safe T (iu b) ->
       forall q, in_box T le q b -> inI T le (u (fst (fst q)) (snd (fst q)) (snd q)) (ir_itv T (iu b))) ->
    safe T (tor_interval T iu RX RY RZ) ->
    forall p, region p -> inI T le (u (X p) (Y p) (Z p)) (ir_itv T (tor_interval T iu RX RY RZ)).
Proof. exact tor_interval_sound. Qed.

(* specialisation: running the three coordinate evaluators on pushed tapes (the oracle's
   context) leaves the oracle's answer unchanged, whenever each push is justified (C05) *)
Theorem C16_context_preserves :
  forall (num : Type) (O : ops num)
         (ox oy oz : nat -> num -> num -> num -> num) (dx dy dz : @deck num)
         nx ny nz (tX tY tZ : Push.tape) (vx vy vz : @slots num) fnx fny fnz
         (u : num -> num -> num -> num),
    PushSem.tape_wf dx nx tX -> length vx = nx -> PushSem.justified O ox dx vx fnx tX ->
    PushSem.tape_wf dy ny tY -> length vy = ny -> PushSem.justified O oy dy vy fny tY ->
    PushSem.tape_wf dz nz tZ -> length vz = nz -> PushSem.justified O oz dz vz fnz tZ ->
    let value := fun o d (t : Push.tape) v => sget O (eval_tape O o d (Push.t_clauses t) v) (Push.t_root t) in
    u (value ox dx (Push.tape_push nx fnx tX) vx) (value oy dy (Push.tape_push ny fny tY) vy)
      (value oz dz (Push.tape_push nz fnz tZ) vz)
    = u (value ox dx tX vx) (value oy dy tY vy) (value oz dz tZ vz).
Proof. exact @oracle_ctx_preserves_push. Qed.

(* KNOWN FINDING (known_findings.txt, key oracle:var-in-remap): with a free variable in a
   coordinate tree the real object structure evaluates that variable at 0 — the property's
   statement fails there.  Witness: oracle.remap(min(x, v), y, z), v := 3, at x = 5; every
   part of [tower_ok] holds except [xyz_only] of the optimised coordinate tree *)
Theorem C16_free_variables_refuted :
  let osem := fun (_ : nat) (x _ _ : R) => x in
  let a := bad_arena RD in
  let vars := fun _ : nat => 3%R in
  Optimize.optimized RD a 8 = (bad_opt RD, 11) /\
  getn (bad_opt RD) 11 = NOracleT 10 idY idZ 7 /\
  ~ xyz_only RD osem (bad_opt RD) 10 /\
  (tower_ok RD osem 3 a 8 <-> xyz_only RD osem (bad_opt RD) 10) /\
  evaluator RD osem 6 a 8 vars 5%R 0%R 0%R = 0%R /\
  val RD osem a 8 {| ex := 5%R; ey := 0%R; ez := 0%R; ev := vars |} = 3%R /\
  evaluator RD osem 6 a 8 vars 5%R 0%R 0%R <> val RD osem a 8 {| ex := 5%R; ey := 0%R; ez := 0%R; ev := vars |}.
Proof. exact oracle_vars_refuted. Qed.


(* ---------------------------------------------------------------------------------- *)
(* [opt_ok] discharged.  Sources: [src_ok_o vb a i] = every node reachable from i through
   ANY link (coordinate trees included) is a constant, a canonical axis, a unary / binary
   operation, a lazy remap, a user oracle, a transformed oracle over a user oracle, or
   (when vb = true) a free variable / an apply node. *)

(* Tree::optimized on such a source: the result reaches, through walk()'s links AND through
   the coordinate trees of its transformed oracles, only plain nodes, user oracles and
   transformed oracles over a user oracle ([hp true vb]: no lazy node anywhere); the level
   bound does not grow; and the model's out-of-fuel flag is NOT raised: the computed level
   fuel [lvl_fuel] always suffices *)
Theorem C16_optimized_with_oracles_pure :
  forall (num : Type) (O : ops num) (vb : bool) (a : arena num) (i : nat),
    arena_wf a -> base_ok O a -> i < length a -> OptimizePureO.src_ok_o vb a i ->
    let '((a', j), fl) := Optimize.optimized_full O a i in
    extends a a' /\ arena_wf a' /\ base_ok O a' /\ j < length a' /\
    OptimizePure.hp true vb a' j /\ Optimize.bnd_of a' j <= Optimize.bnd_of a i /\ fl = false.
Proof. exact @OptimizePureO.optimized_o_pure. Qed.

Theorem C16_level_fuel_sufficient :
  forall (num : Type) (O : ops num) (vb : bool) (a : arena num) (i : nat),
    arena_wf a -> base_ok O a -> i < length a -> OptimizePureO.src_ok_o vb a i ->
    snd (Optimize.optimized_full O a i) = false.
Proof. exact @OptimizePureO.optimized_full_flag. Qed.

(* ... whereas node index + 1 levels do not (a DAG remapping a shared sub-tree by itself) *)
Theorem C16_level_index_insufficient :
  Optimize.st_oof (fst (Optimize.optimized_helper_lvl OptimizePureO.ops_nat 10
     {| Optimize.st_arena := OptimizePureO.doubling_arena 4; Optimize.st_canon := nil;
        Optimize.st_oof := false |} 9)) = true /\
  snd (Optimize.optimized_full OptimizePureO.ops_nat (OptimizePureO.doubling_arena 4) 9) = false /\
  Optimize.bnd_of (OptimizePureO.doubling_arena 4) 9 = 16.
Proof. exact OptimizePureO.lvl_index_insufficient. Qed.

(* value preservation + purity + flag, together *)
Theorem C16_optimized_with_oracles_sem :
  forall (uf : opcode -> R -> R) (bf : opcode -> R -> R -> R),
    (forall x, bf OP_POW x 1%R = x) -> (forall x, bf OP_NTH_ROOT x 1%R = x) ->
    forall (osem : nat -> R -> R -> R -> R) (vb : bool) (a : arena R) (i : nat),
      arena_wf a -> base_ok (RInst.R_ops uf bf) a -> i < length a ->
      OptimizePureO.src_ok_o vb a i -> FlattenSem.good (RInst.R_ops uf bf) osem a i ->
      let '((a1, r1), fl) := Optimize.optimized_full (RInst.R_ops uf bf) a i in
      extends a a1 /\ arena_wf a1 /\ base_ok (RInst.R_ops uf bf) a1 /\ r1 < length a1 /\
      (forall r, val (RInst.R_ops uf bf) osem a1 r1 r = val (RInst.R_ops uf bf) osem a i r) /\
      OptimizePure.hp true vb a1 r1 /\ Optimize.bnd_of a1 r1 <= Optimize.bnd_of a i /\ fl = false.
Proof. exact optimized_o_full. Qed.

Theorem C16_opt_ok_discharged :
  forall (uf : opcode -> R -> R) (bf : opcode -> R -> R -> R),
    (forall x, bf OP_POW x 1%R = x) -> (forall x, bf OP_NTH_ROOT x 1%R = x) ->
    forall (osem : nat -> R -> R -> R -> R) (vb : bool) (a : arena R) (root : nat),
      arena_wf a -> base_ok (RInst.R_ops uf bf) a -> root < length a ->
      OptimizePureO.src_ok_o vb a root -> FlattenSem.good (RInst.R_ops uf bf) osem a root ->
      opt_ok (RInst.R_ops uf bf) osem a root /\
      snd (Optimize.optimized_full (RInst.R_ops uf bf) a root) = false.
Proof. exact opt_ok_of_src_o. Qed.

(* the whole tower from syntactic conditions on the SOURCE: variable-free sources (vb = false)
   with user oracles, transformed oracles and lazy remaps anywhere, nested to any depth.
   No hypothesis on Tree::optimized and none on the out-of-fuel flag *)
Theorem C16_tower_ok_syntactic :
  forall (uf : opcode -> R -> R) (bf : opcode -> R -> R -> R),
    (forall x, bf OP_POW x 1%R = x) -> (forall x, bf OP_NTH_ROOT x 1%R = x) ->
    forall (osem : nat -> R -> R -> R -> R) (n : nat) (a : arena R) (root : nat),
      arena_wf a -> base_ok (RInst.R_ops uf bf) a -> root < length a ->
      OptimizePureO.src_ok_o false a root -> Optimize.bnd_of a root <= n ->
      tower_ok (RInst.R_ops uf bf) osem (2 * n + 1) a root.
Proof. exact tower_ok_of_src_o. Qed.

Theorem C16_evaluator_correct_syntactic :
  forall (uf : opcode -> R -> R) (bf : opcode -> R -> R -> R),
    (forall x, bf OP_POW x 1%R = x) -> (forall x, bf OP_NTH_ROOT x 1%R = x) ->
    forall (osem : nat -> R -> R -> R -> R) (a : arena R) (root fuel : nat) vars x y z,
      arena_wf a -> base_ok (RInst.R_ops uf bf) a -> root < length a ->
      OptimizePureO.src_ok_o false a root -> 2 * Optimize.bnd_of a root + 1 <= fuel ->
      evaluator (RInst.R_ops uf bf) osem fuel a root vars x y z
      = val (RInst.R_ops uf bf) osem a root {| ex := x; ey := y; ez := z; ev := vars |}.
Proof. exact evaluator_correct_syntactic. Qed.

(* non-vacuity over the reals: the evaluator tower on an already transformed oracle (oracle 0
   at (x + y, y, z)) lazily remapped again by (x * y, y, z) computes oracle 0 at
   (x * y + y, y, z); hypotheses of C16_evaluator_correct_syntactic all discharged *)
Theorem C16_nested_evaluator :
  forall (uf : opcode -> R -> R) (bf : opcode -> R -> R -> R),
    (forall x, bf OP_POW x 1%R = x) -> (forall x, bf OP_NTH_ROOT x 1%R = x) ->
    forall (osem : nat -> R -> R -> R -> R) fuel vars x y z, 3 <= fuel ->
      evaluator (RInst.R_ops uf bf) osem fuel (nested_R uf bf) 9 vars x y z
      = osem 0 (o_bin (RInst.R_ops uf bf) OP_ADD (o_bin (RInst.R_ops uf bf) OP_MUL x y) y) y z.
Proof. exact nested_R_evaluator. Qed.

(* non-vacuity, computed: an already transformed oracle (oracle 0 at (x + y, y, z)) remapped a
   second time, lazily, by (x * y, y, z): the flag is false, the optimised coordinate tree
   (y + x * y) holds no lazy node; flatten alone leaves the lazy remap in place *)
Theorem C16_nested_example :
  OptimizePureO.src_ok_o false OptimizePureO.nested_arena 9 /\
  (let '((a', j), fl) := Optimize.optimized_full OptimizePureO.ops_nat OptimizePureO.nested_arena 9 in
   fl = false /\ OptimizePureO.hpb (S j) a' j = true /\
   exists x m, getn a' j = NOracleT x idY idZ 5 /\ getn a' 5 = NOracle 0 /\
               getn a' x = NBinary OP_ADD idY m /\ getn a' m = NBinary OP_MUL idX idY) /\
  (let '(a', j) := Flatten.flatten OptimizePureO.ops_nat OptimizePureO.nested_arena 9 in
   exists x y z, getn a' j = NOracleT x y z 5 /\ getn a' x = NRemap 8 idY idZ 6).
Proof.
  split; [exact OptimizePureO.nested_src_ok|].
  split; [exact OptimizePureO.nested_coordinates_flat | exact OptimizePureO.nested_flatten_lazy].
Qed.

Print Assumptions C16_deck_with_oracles.
Print Assumptions C16_evaluator_correct.
Print Assumptions C16_oracle_obj_correct.
Print Assumptions C16_tower_nonvacuous.
Print Assumptions C16_opt_ok_oracle_free.
Print Assumptions C16_opt_ok_of_pure.
Print Assumptions C16_oracle_wrap.
Print Assumptions C16_gradient.
Print Assumptions C16_interval_sound.
Print Assumptions C16_context_preserves.
Print Assumptions C16_free_variables_refuted.
Print Assumptions C16_optimized_with_oracles_pure.
Print Assumptions C16_level_fuel_sufficient.
Print Assumptions C16_level_index_insufficient.
Print Assumptions C16_optimized_with_oracles_sem.
Print Assumptions C16_opt_ok_discharged.
Print Assumptions C16_tower_ok_syntactic.
Print Assumptions C16_evaluator_correct_syntactic.
Print Assumptions C16_nested_evaluator.
Print Assumptions C16_nested_example.

(* evalInterval IS THE SOURCE'S.  translate/gen_toracle.py re-reads TransformedOracle::evalInterval (transformed_oracle.cpp) on
   every run: the underlying oracle evaluated on the box of the three coordinate ranges (recognised by shape) and the
   may-be-NaN flag raised under the condition the source states (translated: `!xRange.isSafe() || !yRange.isSafe() ||
   !zRange.isSafe()`); it is the [tor_interval] of C16_interval_sound (the code before the repair 31b4946 has no such
   statement and generates a transformer that keeps the underlying flag only) *)
From LF Require Gen.TransformedInterval_gen.
Theorem C16_transformed_interval_from_source :
  forall (T : Type) (iu : box T -> ires T) (RX RY RZ : ires T),
    TransformedInterval_gen.tor_interval_gen T iu RX RY RZ = tor_interval T iu RX RY RZ.
Proof.
  intros T iu RX RY RZ. unfold TransformedInterval_gen.tor_interval_gen, tor_interval. cbn.
  destruct (ir_nan T (iu (ir_itv T RX, ir_itv T RY, ir_itv T RZ))), (ir_nan T RX), (ir_nan T RY), (ir_nan T RZ); reflexivity.
Qed.
Print Assumptions C16_transformed_interval_from_source.
