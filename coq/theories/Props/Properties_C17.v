(* C17 — the root finder reports what it actually reached.  Statements only.
   [find_root] is the control flow of Solver::findRoot (both overloads) over an
   abstract evaluator: [value] / [gradient] are arbitrary functions of the
   evaluator's variable assignment; all arithmetic is abstract ([sops]), so the
   statements hold for IEEE binary32 as one instance. *)
From Coq Require Import List Arith.
From LF Require Import Misc.Solver Misc.SolverSem.

Section C17.
  Context {num : Type} (SO : sops (num:=num)) (value : assign (num:=num) -> num)
          (gradient : assign (num:=num) -> assign (num:=num)).

  (* the returned residual is the expression at the evaluator's final assignment,
     which holds the returned values for the solved variables and the loaded
     initial values for the masked ones *)
  Theorem C17_residual_consistent :
    forall ofuel lsfuel gas (ev0 : assign) (vars : list (nat * num)) (mask : list nat)
           (r : num) (vars' ev : assign) (n : nat),
      NoDup (map fst vars) ->
      find_root SO value gradient ofuel lsfuel gas ev0 vars mask = Done r vars' ev n ->
      r = value ev /\
      map fst ev = map fst ev0 /\
      (forall k x, In (k, x) vars' -> In k (map fst ev0) -> aget ev k = Some x) /\
      (forall k x, In k mask -> In (k, x) vars -> In k (map fst ev0) -> aget ev k = Some x) /\
      (forall k, ~ In k (map fst vars) -> aget ev k = aget ev0 k).
  Proof. exact (residual_consistent SO value gradient). Qed.

  (* masked variables are never returned; every other variable is *)
  Theorem C17_masked_untouched :
    forall ofuel lsfuel gas (ev0 vars : assign) (mask : list nat) (r : num) (vars' ev : assign) (n : nat),
      find_root SO value gradient ofuel lsfuel gas ev0 vars mask = Done r vars' ev n ->
      map fst vars' = filter (unmasked mask) (map fst vars) /\
      (forall k, In k mask -> ~ In k (map fst vars')) /\
      (forall k, In k (map fst vars) -> ~ In k mask -> In k (map fst vars')).
  Proof. exact (masked_untouched SO value gradient). Qed.

  (* variables absent from the expression keep their initial values *)
  Theorem C17_absent_untouched :
    (forall s x, s_isfinite SO s = true -> s_sub SO x (s_mul SO s (s_zero SO)) = x) ->
    forall k, (forall e, aget (gradient e) k = None) ->
    forall ofuel lsfuel gas (ev0 : assign) (vars : list (nat * num)) (mask : list nat)
           (r : num) (vars' ev : assign) (n : nat) (x : num),
      In (k, x) vars -> ~ In k mask ->
      find_root SO value gradient ofuel lsfuel gas ev0 vars mask = Done r vars' ev n ->
      In (k, x) vars'.
  Proof. exact (absent_untouched SO value gradient). Qed.

  (* at most gas - 1 gradient evaluations (none for gas = 0 or 1) *)
  Theorem C17_iteration_budget :
    forall ofuel lsfuel gas (ev0 vars : assign) (mask : list nat) (r : num) (vars' ev : assign) (n : nat),
      find_root SO value gradient ofuel lsfuel gas ev0 vars mask = Done r vars' ev n -> n <= gas - 1.
  Proof. exact (outer_bounded SO value gradient). Qed.

  (* the call returns for EVERY value / gradient function (NaN, infinities, zero
     gradients included): if halving a finite step reaches, within K halvings, a
     step that no longer moves the point (binary32: underflow to 0), the line
     search never runs out of fuel, and a non-finite step gives up at once *)
  Theorem C17_terminates :
    forall K,
      (forall s, s_isfinite SO s = true ->
         exists k, k <= K /\ forall vars ds, trial SO vars ds (Nat.iter k (s_halve SO) s) = vars) ->
      (forall x, s_sub SO x x = s_zero SO) ->
      s_ltb SO (s_fabs SO (s_zero SO)) (s_eps SO) = true ->
      forall ofuel lsfuel gas (ev0 : assign) (vars : list (nat * num)) (mask : list nat),
        NoDup (map fst vars) -> K < lsfuel -> 1 <= ofuel -> gas <= ofuel ->
        find_root SO value gradient ofuel lsfuel gas ev0 vars mask <> OutOfFuel.
  Proof. exact (find_root_terminates SO value gradient). Qed.
End C17.

Print Assumptions C17_residual_consistent.
Print Assumptions C17_masked_untouched.
Print Assumptions C17_absent_untouched.
Print Assumptions C17_iteration_budget.
Print Assumptions C17_terminates.
