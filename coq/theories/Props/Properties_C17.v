(* C17 — the root finder reports what it actually reached.  Statements only.
   [find_root] is the control flow of Solver::findRoot (both overloads) over an
   abstract evaluator: [value] / [gradient] are arbitrary functions of the
   evaluator's variable assignment; all arithmetic is abstract ([sops]), so the
   statements hold for IEEE binary32 as one instance. *)
From Coq Require Import List Arith ZArith.
From LF Require Import Misc.Solver Misc.SolverSem.

Section C17.
  Context {num : Type} (SO : sops (num:=num)) (value : assign (num:=num) -> num)
          (gradient : assign (num:=num) -> assign (num:=num)).

  (* the returned residual is the expression at the evaluator's final assignment,
     which holds the returned values for the solved variables and the loaded
     initial values for the masked ones *)
  Theorem C17_residual_consistent :
    forall ofuel lsfuel gas (ev0 : assign) (vars : list (nat * num)) (mask : list nat)
           (r : num) (vars' ev : assign) (n : nat),
      NoDup (map fst vars) ->
      find_root SO value gradient ofuel lsfuel gas ev0 vars mask = Done r vars' ev n ->
      r = value ev /\
      map fst ev = map fst ev0 /\
      (forall k x, In (k, x) vars' -> In k (map fst ev0) -> aget ev k = Some x) /\
      (forall k x, In k mask -> In (k, x) vars -> In k (map fst ev0) -> aget ev k = Some x) /\
      (forall k, ~ In k (map fst vars) -> aget ev k = aget ev0 k).
  Proof. exact (residual_consistent SO value gradient). Qed.

  (* masked variables are never returned; every other variable is *)
  Theorem C17_masked_untouched :
    forall ofuel lsfuel gas (ev0 vars : assign) (mask : list nat) (r : num) (vars' ev : assign) (n : nat),
      find_root SO value gradient ofuel lsfuel gas ev0 vars mask = Done r vars' ev n ->
      map fst vars' = filter (unmasked mask) (map fst vars) /\
      (forall k, In k mask -> ~ In k (map fst vars')) /\
      (forall k, In k (map fst vars) -> ~ In k mask -> In k (map fst vars')).
  Proof. exact (masked_untouched SO value gradient). Qed.

  (* variables absent from the expression keep their initial values *)
  Theorem C17_absent_untouched :
    (forall s x, s_isfinite SO s = true -> s_sub SO x (s_mul SO s (s_zero SO)) = x) ->
    forall k, (forall e, aget (gradient e) k = None) ->
    forall ofuel lsfuel gas (ev0 : assign) (vars : list (nat * num)) (mask : list nat)
           (r : num) (vars' ev : assign) (n : nat) (x : num),
      In (k, x) vars -> ~ In k mask ->
      find_root SO value gradient ofuel lsfuel gas ev0 vars mask = Done r vars' ev n ->
      In (k, x) vars'.
  Proof. exact (absent_untouched SO value gradient). Qed.

  (* at most gas - 1 gradient evaluations (none for gas = 0 or 1) *)
  Theorem C17_iteration_budget :
    forall ofuel lsfuel gas (ev0 vars : assign) (mask : list nat) (r : num) (vars' ev : assign) (n : nat),
      find_root SO value gradient ofuel lsfuel gas ev0 vars mask = Done r vars' ev n -> n <= gas - 1.
  Proof. exact (outer_bounded SO value gradient). Qed.

  (* the call returns for EVERY value / gradient function (NaN, infinities, zero
     gradients, expressions that see the sign of a zero included), every initial
     assignment and mask: the only arithmetic fact used is that halving a finite
     step reaches zero within K halvings (binary32: underflow; K = 300 is
     plenty).  The line search gives up on a non-finite or zero step. *)
  Theorem C17_terminates :
    forall K,
      (forall s, s_isfinite SO s = true ->
         exists k, k <= K /\ s_iszero SO (Nat.iter k (s_halve SO) s) = true) ->
      forall ofuel lsfuel gas (ev0 : assign) (vars : list (nat * num)) (mask : list nat),
        K < lsfuel -> 1 <= ofuel -> gas <= ofuel ->
        find_root SO value gradient ofuel lsfuel gas ev0 vars mask <> OutOfFuel.
  Proof. exact (find_root_terminates SO value gradient). Qed.
End C17.

(* the zero-step exit is necessary: over sign-magnitude integers (two zeros, IEEE
   sign rules), where halving a finite step does reach zero within 10 halvings,
   the loop WITHOUT that exit (only the non-finite test) runs out of any fuel on
   an expression that sees the sign of a zero: the trial point for step 0 from
   -0 is +0, the residual there differs, and 0 / 2 = 0 *)
Theorem C17_old_line_search_refuted :
  forall fuel,
    line_search_old SignedZero.SZO SignedZero.valueS fuel
      SignedZero.varsS SignedZero.varsS SignedZero.dsS
      (SignedZero.of_Z 2%Z) (SignedZero.of_Z 1%Z) (SignedZero.of_Z 2%Z) = LS_out_of_fuel.
Proof. exact old_line_search_refuted. Qed.

(* ... although that arithmetic satisfies the hypothesis of C17_terminates *)
Theorem C17_old_line_search_refuted_halving :
  forall s, s_isfinite SignedZero.SZO s = true ->
    exists k, k <= 10 /\
      s_iszero SignedZero.SZO (Nat.iter k (s_halve SignedZero.SZO) s) = true.
Proof. exact SignedZero.SZ_halving_reaches_zero. Qed.

Print Assumptions C17_residual_consistent.
Print Assumptions C17_masked_untouched.
Print Assumptions C17_absent_untouched.
Print Assumptions C17_iteration_budget.
Print Assumptions C17_terminates.
Print Assumptions C17_old_line_search_refuted.
Print Assumptions C17_old_line_search_refuted_halving.
