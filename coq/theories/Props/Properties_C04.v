(* C04 — the mesh is the boundary of the solid, to within the resolution.

   What is proved here is the part of the argument that is logic rather than geometry of the
   particular meshers: pruning never discards surface.  A cell is given the type EMPTY / FILLED
   only from an interval result; if interval evaluation is sound (C02) such a cell contains no
   zero of the field and every point of it has the sign of the interval.  Hence every zero of
   the field inside the region lies in a leaf cell that was classified AMBIGUOUS, which is where
   (and only where) the meshers place vertices; C19 keeps simplex / hybrid vertices inside their
   cell.  The winding-number statement itself is decided by the oracle of check/props/c04.py. *)
From Coq Require Import Reals Lra List.
Local Open Scope R_scope.

Section Pruning.
  Variable P : Type.                      (* points *)
  Variable f : P -> R.                    (* the field *)
  Variable cell : Type.
  Variable inc : P -> cell -> Prop.       (* point in cell *)
  Variable lo hi : cell -> R.             (* interval result of the cell *)
  Hypothesis sound : forall c p, inc p c -> lo c <= f p <= hi c.     (* C02 for this cell *)

  Inductive state := Empty | Filled | Ambiguous.
  (* Interval::state *)
  Definition classify (c : cell) : state :=
    if Rlt_dec (hi c) 0 then Filled else if Rlt_dec 0 (lo c) then Empty else Ambiguous.

  Theorem C04_pruned_cells_have_no_surface : forall c p, inc p c ->
    (classify c = Filled -> f p < 0) /\ (classify c = Empty -> 0 < f p).
  Proof.
    intros c p Hp. pose proof (sound c p Hp) as [H1 H2]. unfold classify.
    destruct (Rlt_dec (hi c) 0); [split; intros; [lra | discriminate]|].
    destruct (Rlt_dec 0 (lo c)); split; intros; try discriminate; lra.
  Qed.

  Theorem C04_surface_only_in_ambiguous_cells : forall c p, inc p c -> f p = 0 -> classify c = Ambiguous.
  Proof.
    intros c p Hp Hz. destruct (C04_pruned_cells_have_no_surface c p Hp) as [A B].
    destruct (classify c) eqn:E; [specialize (B eq_refl); lra | specialize (A eq_refl); lra | reflexivity].
  Qed.

  (* a volume tree (acceleration structure) that was built from sound intervals prunes soundly too *)
  Theorem C04_vol_tree_prune_sound : forall (big small : cell),
    (forall p, inc p small -> inc p big) -> classify big <> Ambiguous ->
    forall p, inc p small -> (classify big = Filled -> f p < 0) /\ (classify big = Empty -> 0 < f p).
  Proof. intros big small Hsub _ p Hp. apply C04_pruned_cells_have_no_surface. apply Hsub; exact Hp. Qed.
End Pruning.

Print Assumptions C04_pruned_cells_have_no_surface.
Print Assumptions C04_surface_only_in_ambiguous_cells.
Print Assumptions C04_vol_tree_prune_sound.
