(* C04 — the mesh is the boundary of the solid, to within the resolution.  Statements only.

   Proved part.
   (a) Pruning never discards surface (Render/Pruning.v): a cell is given the type EMPTY / FILLED
       only from an interval result; if interval evaluation is sound (C02) such a cell contains
       no zero of the field and every point of it has the sign of the interval.  Hence every zero
       of the field inside the region lies in a leaf cell that was classified AMBIGUOUS, which is
       where (and only where) the meshers place vertices.
   (b) Dual contouring on a UNIFORM grid (Render/DCGrid.v = Dual<3>::walk + DCMesher::load with
       libfive's run-time patch tables; proofs in Render/DCBoundary.v): the mesh is exactly the
       boundary of the set of inside lattice points - one quad (two triangles) per lattice edge
       whose ends differ, over one vertex of each of the four cells around that edge; every
       lattice path from an inside to an outside point crosses an odd number of quads and every
       path between points on the same side an even number; the quads are wound so that
       right-hand normals point from the inside to the outside lattice point.
   (c) Over R^3 (grid origin og, spacing h): a sign-changing lattice edge of a field continuous
       along it carries a zero of the field, that zero lies in the four closed cells around the
       edge, hence every quad vertex that lies in its own cell (C19 for simplex / hybrid meshers;
       NOT guaranteed by dual contouring, an explicit hypothesis here) is within sqrt 3 * h
       (Euclidean, the cell diagonal) of the zero set.
   (d) No converse from corner signs: a ball thinner than the grid is invisible; this is why (a)
       and not the corner signs bounds the surface from the other side.
   Oracle-only part (check/props/c04.py): the winding-number statement for real renders, on
   adaptive octrees, with real vertex positions. *)
From Coq Require Import Reals Lra List ZArith Bool.
From LF Require Render.OctTreeSepH.
From LF Require Render.OctTreeSep Render.OctTreeSepC Render.OctTreeSepE Render.OctTreeFace.
From LF Require Import Render.Pruning Render.DCGrid Render.DCGridSem Render.DCBoundary.
From LF Require Render.DCBoundaryCont.
From LF Require Render.OctTree Render.OctTreeCollect Render.OctTreeSem.
Import ListNotations.

(* ------------------------------------------------------------------ *)
(* (a) pruning                                                         *)
(* ------------------------------------------------------------------ *)

Section Pruning.
  Local Open Scope R_scope.
  Variable P : Type.                      (* points *)
  Variable f : P -> R.                    (* the field *)
  Variable cell : Type.
  Variable inc : P -> cell -> Prop.       (* point in cell *)
  Variable lo hi : cell -> R.             (* interval result of the cell *)
  Hypothesis sound : forall c p, inc p c -> lo c <= f p <= hi c.     (* C02 for this cell *)

  (* Interval::state of the cell's interval result: Filled if hi < 0, Empty if 0 < lo, else
     Ambiguous (Render/Pruning.v) *)
  Local Notation classify := (Pruning.classify lo hi).

  (* a cell pruned as FILLED is inside everywhere, a cell pruned as EMPTY is outside everywhere:
     no piece of the surface is ever thrown away with a pruned cell *)
  Theorem C04_pruned_cells_have_no_surface : forall c p, inc p c ->
    (classify c = Filled -> f p < 0) /\ (classify c = Empty -> 0 < f p).
  Proof. exact (pruned_cells_have_no_surface P f cell inc lo hi sound). Qed.

  (* every zero of the field lies in a cell that is kept for meshing *)
  Theorem C04_surface_only_in_ambiguous_cells : forall c p, inc p c -> f p = 0 -> classify c = Ambiguous.
  Proof. exact (surface_only_in_ambiguous_cells P f cell inc lo hi sound). Qed.

  (* a volume tree (acceleration structure) that was built from sound intervals prunes soundly too *)
  Theorem C04_vol_tree_prune_sound : forall (big small : cell),
    (forall p, inc p small -> inc p big) -> classify big <> Ambiguous ->
    forall p, inc p small -> (classify big = Filled -> f p < 0) /\ (classify big = Empty -> 0 < f p).
  Proof. exact (vol_tree_prune_sound P f cell inc lo hi sound). Qed.
End Pruning.

(* ------------------------------------------------------------------ *)
(* adaptive octrees (Render/OctTree.v): what carries over from the uniform grid                            *)
(* ------------------------------------------------------------------ *)
Module AdaptiveDC.
Import OctTree OctTreeCollect OctTreeSem.
Local Open Scope Z_scope.

(* NO HOLES: on any consistent adaptive octree - collapsed cells next to finer ones, pruned cells of any size -
   the dual-contouring mesh has no boundary edge (every directed edge is matched by its reverse), for every
   choice of quad diagonals and every verdict of the numerical collapse tests: nothing can leak through it *)
Theorem C04_dc_adaptive_no_holes : forall ins ok pre k diag,
  oconsistent ins pre (0, 0, 0) k -> oboundary_clear ins k ->
  oclosed_mesh (mesh_walk diag (ocollect ok k [] pre)).
Proof.
  intros ins ok pre k diag C BC. apply (walk3_closed ins _ k); [|exact BC]. apply ocollect_consistent. exact C.
Qed.

(* SURFACE ONLY AT SIGN CHANGES: every triangle is emitted for a lattice edge whose four surrounding cells are
   ambiguous leaves, the smallest of which sees a sign change along it (DCMesher::load's minimum-level rule);
   pruned (EMPTY / FILLED) cells never carry surface *)
Theorem C04_dc_adaptive_surface_at_sign_changes : forall ins t k diag,
  oconsistent ins t (0, 0, 0) k -> forall tr, In tr (mesh_walk diag t) -> load_call ins diag tr.
Proof. exact walk3_calls. Qed.
End AdaptiveDC.

Print Assumptions C04_pruned_cells_have_no_surface.
Print Assumptions C04_surface_only_in_ambiguous_cells.
Print Assumptions C04_vol_tree_prune_sound.

(* ------------------------------------------------------------------ *)
(* (b) the uniform-grid dual-contouring mesh is the lattice boundary   *)
(* ------------------------------------------------------------------ *)

(* ONE QUAD PER BOUNDARY EDGE.  For every inside / outside assignment [ins] of the lattice
   points, every diagonal choice d and every lattice edge (axis A, start p): triangles are
   emitted iff the two ends differ in [ins], then exactly two; their vertices are (cell, patch)
   pairs with a valid patch index whose cells are among the four cells p - bits o,
   o = 0, Q, R, Q + R, around the edge, and each of these four cells contributes a vertex.
   Hence the mesh has two triangles per sign-changing edge listed in E; for a finite solid S,
   2 * (number of lattice edges joining S to its complement). *)
Theorem C04_dc_quads_are_boundary_edges :
  (forall ins d A p, is_axis A = true ->
     (quad ins d A p <> [] <-> sign_change ins (A, p) = true) /\
     length (quad ins d A p) = (if sign_change ins (A, p) then 2 else 0)%nat /\
     (forall v, In v (mesh_verts (quad ins d A p)) ->
        exists o, In o [0; Qax A; Rax A; Qax A + Rax A] /\ fst v = psub p (bits o) /\ 0 <= snd v) /\
     (sign_change ins (A, p) = true ->
        forall o, In o [0; Qax A; Rax A; Qax A + Rax A] ->
        exists k, 0 <= k /\ In (psub p (bits o), k) (mesh_verts (quad ins d A p))))%Z /\
  (forall ins diag E, (forall e, In e E -> is_axis (fst e) = true) ->
     length (dc_mesh ins diag E) = 2 * length (filter (sign_change ins) E)) /\
  (forall ins diag E, covers ins E -> (forall e, In e E -> sign_change ins e = true) ->
     length (dc_mesh ins diag E) = 2 * length E) /\
  (forall S diag, length (dc_mesh (ins_of S) diag (edges_of S)) = 2 * length (edges_of S)).
Proof. exact quads_are_boundary_edges. Qed.

(* [covers] alone (DCGrid.v) does not force E to list ONLY sign-changing edges, so the count is
   2 * length E only with that extra hypothesis: one filled point, its 6 edges and a spare one *)
Theorem C04_dc_covers_allows_spare_edges :
  let E := (1, (5, 5, 5))%Z :: one_E in
  covers one_ins E /\ forall diag, length (dc_mesh one_ins diag E) <> 2 * length E.
Proof. exact covers_allows_spare_edges. Qed.

(* THE MESH SEPARATES INSIDE FROM OUTSIDE, at lattice resolution.  A lattice path is a start
   point p and unit steps (axis, forward?).  The number of its steps that pass through a quad of
   the mesh equals the number of steps whose ends differ in [ins]; it is odd iff the two ends of
   the path differ in [ins].  So a path from an inside to an outside point crosses the mesh
   (at least once, an odd number of times), a closed path an even number of times.  The crossed
   quads are quads of [dc_mesh ins diag E] for every E that covers the sign-changing edges. *)
Theorem C04_dc_separates_inside_from_outside :
  (forall ins diag p l, valid_path l ->
     crossings ins p l = quads_crossed ins diag p l /\
     Nat.odd (quads_crossed ins diag p l) = xorb (ins p) (ins (path_end p l)) /\
     (ins p = true -> ins (path_end p l) = false -> 1 <= quads_crossed ins diag p l) /\
     (path_end p l = p -> Nat.even (quads_crossed ins diag p l) = true)) /\
  (forall ins E p l e, covers ins E -> valid_path l ->
     In e (path_edges p l) -> sign_change ins e = true ->
     In e E /\ forall diag t, In t (quad ins (diag e) (fst e) (snd e)) -> In t (dc_mesh ins diag E)).
Proof. exact dc_separates. Qed.

(* CONSISTENT OUTWARD ORIENTATION.  [tri_normal t] is the cross product (o_b - o_a) x (o_c - o_a)
   of the cell origins of the triangle t = (a, b, c) (cell origins differ from cell centres by a
   constant, so this is the normal of the triangle of cell centres).  For both triangles of the
   quad of the edge (A, p) and both diagonals it is + e_A when the inside end is p and - e_A
   when the inside end is p + e_A: it always points from the inside to the outside lattice point
   (counter-clockwise seen from outside, libfive's outward normals, along increasing f). *)
Theorem C04_dc_orientation : forall ins d A p t,
  is_axis A = true -> In t (quad ins d A p) ->
  (ins p = true /\ ins (padd p (bits A)) = false /\ tri_normal t = bits A /\ winding_sign A t = 1%Z) \/
  (ins p = false /\ ins (padd p (bits A)) = true /\ tri_normal t = pneg (bits A) /\ winding_sign A t = (-1)%Z).
Proof. exact dc_orientation. Qed.

(* ------------------------------------------------------------------ *)
(* (c) the lattice embedded in R^3                                     *)
(* ------------------------------------------------------------------ *)

Local Open Scope R_scope.

(* A SIGN-CHANGING EDGE CARRIES A ZERO.  [pos h og p] = og + h p is the position of the lattice
   point p, [edge_pt h og A p t] = pos p + t h e_A, t in [0, 1], the lattice edge.  If the field
   is continuous along the edge and strictly negative at one end and strictly positive at the
   other, it vanishes somewhere on the edge; in terms of the mesher's sign data: if the corner
   classification [ins] is strictly right at both ends ([sign_at]: FILLED means f < 0, EMPTY
   means 0 < f) and the edge changes sign in [ins]. *)
Theorem C04_sign_change_has_zero :
  (forall (f : R3 -> R) h og A p,
     is_axis A = true ->
     (forall t, 0 <= t <= 1 -> continuity_pt (fun s => f (edge_pt h og A p s)) t) ->
     (f (pos h og p) < 0 < f (pos h og (padd p (bits A))) \/
      f (pos h og (padd p (bits A))) < 0 < f (pos h og p)) ->
     exists t, 0 <= t <= 1 /\ f (edge_pt h og A p t) = 0) /\
  (forall ins (f : R3 -> R) h og A p,
     is_axis A = true -> edge_continuous f h og A p ->
     sign_at ins f h og p -> sign_at ins f h og (padd p (bits A)) ->
     sign_change ins (A, p) = true ->
     exists t, 0 <= t <= 1 /\ f (edge_pt h og A p t) = 0).
Proof. split; [exact sign_change_has_zero | exact sign_change_edge_has_zero]. Qed.

(* the continuity hypothesis is met on every lattice edge of every grid by every field that is
   continuous on R^3 ([continuous_R3]: Coquelicot's [continuous] at every point, product topology) *)
Theorem C04_continuous_fields_qualify : forall f : R3 -> R,
  DCBoundaryCont.continuous_R3 f -> forall h og A p, edge_continuous f h og A p.
Proof. exact DCBoundaryCont.continuous_edge_continuous. Qed.

(* EVERY MESH VERTEX IS WITHIN ONE CELL OF THE SURFACE.  [in_cell h og c x]: x lies in the closed
   cube of side h with origin pos c.  (1) The whole lattice edge lies in each of the four cells
   around it.  (2) When a quad is emitted, one zero z of the field lies in the cell of every
   vertex of the quad.  (3) Two points of one cell are at most sqrt 3 * h apart (Euclidean).
   (4) So for any placement [vpos] of the vertices, every vertex of the mesh that lies in its
   own cell is within sqrt 3 * h of a zero of the field lying in that same cell. *)
Theorem C04_vertices_near_surface :
  (forall h og A p o t, 0 <= h -> is_axis A = true ->
     In o [0; Qax A; Rax A; Qax A + Rax A]%Z -> 0 <= t <= 1 ->
     in_cell h og (psub p (bits o)) (edge_pt h og A p t)) /\
  (forall ins (f : R3 -> R) h og d A p,
     0 <= h -> is_axis A = true -> edge_continuous f h og A p ->
     sign_at ins f h og p -> sign_at ins f h og (padd p (bits A)) ->
     quad ins d A p <> [] ->
     exists z, f z = 0 /\ (exists t, 0 <= t <= 1 /\ z = edge_pt h og A p t) /\
               forall v, In v (mesh_verts (quad ins d A p)) -> in_cell h og (fst v) z) /\
  (forall h og c x y, 0 <= h -> in_cell h og c x -> in_cell h og c y -> dist x y <= sqrt 3 * h) /\
  (forall ins (f : R3 -> R) h og diag E (vpos : vertex -> R3),
     0 <= h -> (forall e, In e E -> is_axis (fst e) = true) ->
     (forall A p, is_axis A = true -> edge_continuous f h og A p) ->
     (forall p, sign_at ins f h og p) ->
     forall v, In v (mesh_verts (dc_mesh ins diag E)) -> in_cell h og (fst v) (vpos v) ->
       exists z, f z = 0 /\ in_cell h og (fst v) z /\ dist (vpos v) z <= sqrt 3 * h).
Proof.
  split; [exact edge_in_cells|]. split; [exact quad_cells_meet_surface|].
  split; [exact cell_diameter | exact mesh_vertices_near_surface].
Qed.

(* ------------------------------------------------------------------ *)
(* (d) no converse from corner signs                                   *)
(* ------------------------------------------------------------------ *)

(* A FEATURE THINNER THAN THE GRID IS INVISIBLE.  [ball_f] is the signed field of the ball of
   radius 1/4 centred in the unit cell at the origin: continuous on R^3, negative at the centre
   of the cell and zero at a point of the cell, yet strictly positive at EVERY lattice point of
   the unit grid, so that no lattice edge changes sign and the mesh is empty.  Corner signs
   cannot show that a cell without vertices is free of surface; interval pruning (a) can. *)
Theorem C04_thin_feature_invisible :
  DCBoundaryCont.continuous_R3 ball_f /\
  (forall x v, continuity (fun t => ball_f (radd x (rscale t v)))) /\
  (forall h og A p, edge_continuous ball_f h og A p) /\
  in_cell 1 O3R (0, 0, 0)%Z (/ 2, / 2, / 2) /\ ball_f (/ 2, / 2, / 2) < 0 /\
  in_cell 1 O3R (0, 0, 0)%Z (3 / 4, / 2, / 2) /\ ball_f (3 / 4, / 2, / 2) = 0 /\
  (forall p, 0 < ball_f (pos 1 O3R p)) /\ (forall p, sign_at ball_ins ball_f 1 O3R p) /\
  (forall e, sign_change ball_ins e = false) /\
  (forall diag E, dc_mesh ball_ins diag E = []).
Proof. split; [exact DCBoundaryCont.ball_f_continuous | exact thin_feature_invisible]. Qed.

(* ------------------------------------------------------------------ *)
(* non-vacuity                                                         *)
(* ------------------------------------------------------------------ *)

Local Close Scope R_scope.
Local Open Scope Z_scope.

(* COMPUTED EXAMPLES.  The 2 x 1 x 1 block has 10 boundary edges and 20 triangles, two points
   diagonal on a face 12 and 24.  A lattice path from the inside point (0,0,0) of the block to
   the outside point (3,0,0) crosses 1 quad, one right through the block 2, a closed loop
   through both points of the diagonal pair 4.  The quad on the +X side of the block has
   normal +X, the one on the -X side -X. *)
Theorem C04_boundary_examples :
  (length (edges_of block_S) = 10%nat /\
   forall d, length (dc_mesh (ins_of block_S) (fun _ => d) (edges_of block_S)) = (2 * length (edges_of block_S))%nat) /\
  (length (edges_of diag_S) = 12%nat /\
   forall d, length (dc_mesh (ins_of diag_S) (fun _ => d) (edges_of diag_S)) = (2 * length (edges_of diag_S))%nat) /\
  (valid_path out_path /\ ins_of block_S (0, 0, 0) = true /\ path_end (0, 0, 0) out_path = (3, 0, 0) /\
   ins_of block_S (3, 0, 0) = false /\ crossings (ins_of block_S) (0, 0, 0) out_path = 1%nat /\
   forall d, quads_crossed (ins_of block_S) (fun _ => d) (0, 0, 0) out_path = 1%nat) /\
  (ins_of block_S (-1, 0, 0) = false /\ path_end (-1, 0, 0) through_path = (2, 0, 0) /\
   ins_of block_S (2, 0, 0) = false /\ crossings (ins_of block_S) (-1, 0, 0) through_path = 2%nat) /\
  (valid_path loop_path /\ path_end (0, 0, 0) loop_path = (0, 0, 0) /\
   path_points (0, 0, 0) loop_path =
     [(0, 0, 0); (1, 0, 0); (1, 1, 0); (1, 1, 1); (0, 1, 1); (0, 0, 1); (0, 0, 0)] /\
   crossings (ins_of diag_S) (0, 0, 0) loop_path = 4%nat /\
   forall d, quads_crossed (ins_of diag_S) (fun _ => d) (0, 0, 0) loop_path = 4%nat) /\
  (forall d, map tri_normal (quad (ins_of block_S) d 1 (1, 0, 0)) = [(1, 0, 0); (1, 0, 0)] /\
             map tri_normal (quad (ins_of block_S) d 1 (-1, 0, 0)) = [(-1, 0, 0); (-1, 0, 0)]).
Proof.
  split; [exact block_boundary_edges|]. split; [exact diag_boundary_edges|].
  split; [exact out_path_crossings|]. split; [exact through_path_crossings|].
  split; [exact loop_path_crossings | exact block_orientation_example].
Qed.

(* THE GEOMETRIC HYPOTHESES ARE SATISFIABLE WITH SURFACE PRESENT.  The ball of radius 1/2 about
   the origin on the unit grid ([sphere_f] = x^2 + y^2 + z^2 - 1/4): its corner classification is
   [one_ins] (only the origin inside), the mesh has 12 triangles, and every mesh vertex, placed
   at the centre of its cell, is within sqrt 3 of a point of the sphere lying in that cell. *)
Theorem C04_geometric_example :
  (forall p, sign_at one_ins sphere_f 1 O3R p) /\
  (forall diag, length (dc_mesh one_ins diag one_E) = 12%nat) /\
  (forall diag v, In v (mesh_verts (dc_mesh one_ins diag one_E)) ->
     exists z, sphere_f z = 0%R /\ in_cell 1 O3R (fst v) z /\ (dist (centre (fst v)) z <= sqrt 3)%R).
Proof. split; [exact sphere_signs|]. split; [exact one_mesh_size | exact sphere_example]. Qed.

Print Assumptions C04_dc_quads_are_boundary_edges.
Print Assumptions C04_dc_covers_allows_spare_edges.
Print Assumptions C04_dc_separates_inside_from_outside.
Print Assumptions C04_dc_orientation.
Print Assumptions C04_sign_change_has_zero.
Print Assumptions C04_continuous_fields_qualify.
Print Assumptions C04_vertices_near_surface.
Print Assumptions C04_thin_feature_invisible.
Print Assumptions C04_boundary_examples.
Print Assumptions C04_geometric_example.
Print Assumptions AdaptiveDC.C04_dc_adaptive_no_holes.
Print Assumptions AdaptiveDC.C04_dc_adaptive_surface_at_sign_changes.

(* ------------------------------------------------------------------ *)
(* (f) adaptive octrees: triangles AT the sign changes (partial)        *)
(* ------------------------------------------------------------------ *)
(* Converse direction of C04_dc_adaptive_surface_at_sign_changes, with signs, orientation and crossing parity
   (Render/OctTreeSep*.v; 3D analogue of module AdaptiveSep of Properties_C10.v).  [min_edge3 A a b c d s k]: the four placed
   leaves contain the cubes of side 2^k around the lattice edge [s, s + 2^k] of axis A, in load3's argument order, one of them
   of level exactly k.  PROVED: the edge recursion reaches every such quadruple (sign-free), hence - the "_partial" theorems -
   every sign-changing minimal edge lying on the CENTRAL LINE of a branching cell yields its quad (the explicit [quad3] of
   [load3]), non-empty when the leaves are distinct, included in the mesh, its leaves forced ambiguous; which end is inside
   decides the winding; along any path of minimal edges the number of emitting edges is odd iff the ends differ in sign.
   NOT PROVED (time): the same for minimal edges lying INSIDE A FACE shared by two children (call_face3 -> face3 -> edge3;
   outline at the top of Render/OctTreeSep.v), [distinct3] from geometry, the single-triangle output when two of the four
   leaves coincide.  The winding-number statement on adaptive octrees therefore stays with the oracle. *)
Module AdaptiveDCSep.
Import OctTree OctTreeGeom OctTreeNet OctTreeSem OctTreeSep.
Local Open Scope Z_scope.


(* sign-free completeness of the edge recursion *)
Theorem C04_edge3_reaches_every_quadruple : forall ins diag A, oaxis A -> forall f ca cb cc cd s0 k0 a b c d s k,
  pfits3 ins A (Qax A + Rax A) ca s0 k0 -> pfits3 ins A (Rax A) cb s0 k0 ->
  pfits3 ins A (Qax A) cc s0 k0 -> pfits3 ins A 0 cd s0 k0 ->
  (c_k ca = k0 \/ c_k cb = k0 \/ c_k cc = k0 \/ c_k cd = k0) ->
  (oheight (c_t ca) < f)%nat -> (oheight (c_t cb) < f)%nat -> (oheight (c_t cc) < f)%nat -> (oheight (c_t cd) < f)%nat ->
  In a (pleaves3 ca) -> In b (pleaves3 cb) -> In c (pleaves3 cc) -> In d (pleaves3 cd) ->
  min_edge3 A a b c d s k -> online A s0 k0 s k ->
  incl (load3 diag A (c_cell a) (c_cell b) (c_cell c) (c_cell d))
       (edge3 diag f A (c_cell ca) (c_cell cb) (c_cell cc) (c_cell cd)).
Proof. exact edge3_complete. Qed.

Theorem C04_adaptive_sign_changes_give_triangles_partial : forall ins diag t k0 A X a b c d s k,
  oconsistent ins t (0, 0, 0) k0 -> oaxis A -> central_edge t k0 A X s k ->
  In a (pleaves3 X) -> In b (pleaves3 X) -> In c (pleaves3 X) -> In d (pleaves3 X) ->
  min_edge3 A a b c d s k -> ins s <> ins (ostep A s (osize k)) ->
  In a (oleaves t [] (0, 0, 0) k0) /\ In b (oleaves t [] (0, 0, 0) k0) /\
  In c (oleaves t [] (0, 0, 0) k0) /\ In d (oleaves t [] (0, 0, 0) k0) /\
  o_is_ambig (c_t a) = true /\ o_is_ambig (c_t b) = true /\ o_is_ambig (c_t c) = true /\ o_is_ambig (c_t d) = true /\
  load3 diag A (c_cell a) (c_cell b) (c_cell c) (c_cell d) =
    quad3 diag (ins s) (vtx3 (ins s) A a 0) (vtx3 (ins s) A b 1) (vtx3 (ins s) A c 2) (vtx3 (ins s) A d 3) /\
  (distinct3 a b c d -> load3 diag A (c_cell a) (c_cell b) (c_cell c) (c_cell d) <> []) /\
  incl (load3 diag A (c_cell a) (c_cell b) (c_cell c) (c_cell d)) (mesh_walk diag t).
Proof. exact OctTreeSep.adaptive_sign_changes_give_triangles_partial. Qed.

Theorem C04_adaptive_mesh_separates_partial : forall ins diag t k0 l p q,
  oconsistent ins t (0, 0, 0) k0 ->
  Forall (step3_ok ins) l -> Forall s3_distinct l -> joins3 p l q ->
  Nat.odd (length (emitting3 diag l)) = xorb (ins p) (ins q) /\
  (forall e, In e l -> step3_central t k0 e -> incl (s3_load diag e) (mesh_walk diag t)).
Proof. exact OctTreeSep.adaptive_mesh_separates_partial. Qed.

(* orientation: which end is inside decides the winding *)
Theorem C04_adaptive_quads_oriented : forall ins diag A a b c d s k, oaxis A ->
  leaf_ok ins a -> leaf_ok ins b -> leaf_ok ins c -> leaf_ok ins d -> min_edge3 A a b c d s k ->
  crosses3 ins A s k = true ->
  c_p a <> c_p b -> c_p a <> c_p c -> c_p a <> c_p d -> c_p b <> c_p c -> c_p b <> c_p d -> c_p c <> c_p d ->
  let D := ins s in
  let va := vtx3 D A a 0 in let vb := vtx3 D A b 1 in let vc := vtx3 D A c 2 in let vd := vtx3 D A d 3 in
  load3 diag A (c_cell a) (c_cell b) (c_cell c) (c_cell d) =
  (let '(w1, w2) := if D then (vb, vc) else (vc, vb) in
   if diag va w1 w2 vd then [(va, w1, w2); (w2, w1, vd)] else [(va, w1, vd); (va, vd, w2)]).
Proof. exact load3_oriented. Qed.

End AdaptiveDCSep.

Print Assumptions AdaptiveDCSep.C04_edge3_reaches_every_quadruple.
Print Assumptions AdaptiveDCSep.C04_adaptive_sign_changes_give_triangles_partial.
Print Assumptions AdaptiveDCSep.C04_adaptive_mesh_separates_partial.
Print Assumptions AdaptiveDCSep.C04_adaptive_quads_oriented.

(* the FACE recursion reaches every quadruple too (sign-free; Render/OctTreeSepC.v, OctTreeSepD*.v, OctTreeSepE.v): for two hosts
   c0 / c1 fitting the two sides of a face of normal N ([pffits3]) and a minimal edge of axis Qax N or Rax N lying in the face
   plane strictly inside the face ([inface]), whose four leaves lie below the hosts, [load3]'s output is among [face3]'s.
   Proof: one branching host holds one cube on each side across the edge, which gives the position trichotomy without any
   dyadic-alignment argument ([cube_halves], [cube_in_host]); off the mid line the quarter face recurses, on the mid line
   C04_edge3_reaches_every_quadruple closes it; six (N, A) cases.  Still NOT proved: the assembly over a whole tree
   (call_face3 / walk3: 18 position cases at a branch), hence the "_partial" theorems above keep their suffix. *)
Module AdaptiveDCSep3.
Import OctTree OctTreeGeom OctTreeNet OctTreeFace OctTreeSem OctTreeSep OctTreeSepC OctTreeSepE.
Local Open Scope Z_scope.
Theorem C04_face3_reaches_every_quadruple : forall ins diag N A, oaxis N -> (A = Qax N \/ A = Rax N) ->
  forall f c0 c1 sf k0 a b c d s k,
  pffits3 ins N false c0 sf k0 -> pffits3 ins N true c1 sf k0 ->
  (oheight (c_t c0) < f)%nat -> (oheight (c_t c1) < f)%nat ->
  In a (pleaves3 c0) -> In d (pleaves3 c1) ->
  In b (pleaves3 (if A =? Qax N then c0 else c1)) -> In c (pleaves3 (if A =? Qax N then c1 else c0)) ->
  min_edge3 A a b c d s k -> inface N sf k0 A s k ->
  incl (load3 diag A (c_cell a) (c_cell b) (c_cell c) (c_cell d)) (face3 diag f N (c_cell c0) (c_cell c1)).
Proof. exact face3_complete. Qed.
End AdaptiveDCSep3.
Print Assumptions AdaptiveDCSep3.C04_face3_reaches_every_quadruple.

(* ------------------------------------------------------------------ *)
(* (g) adaptive octrees: the mesh sits at ALL sign changes (full)       *)
(* ------------------------------------------------------------------ *)
(* The whole walk is complete (Render/OctTreeSepH1/H2/H4.v, one axis each: induction on the tree, 18 position cases at a branch -
   both coordinates central: the edge recursion; one central: the face recursion on a quarter of the central plane; none: the
   child), so the "_partial" theorems of (f) hold WITHOUT the central-line hypothesis: every sign-changing minimal edge between
   leaves of a consistent tree - whatever mix of levels - forces four ambiguous leaves and yields the explicit quad of [load3],
   non-empty when the leaves are distinct, IN THE MESH; and along any path of minimal edges between lattice points the number of
   emitting edges is odd iff the ends differ in sign, their triangles being in the mesh.  Together with
   C04_dc_adaptive_surface_at_sign_changes (soundness) and C04_dc_adaptive_no_holes this is the lattice-resolution statement
   "the mesh separates inside from outside" on adaptive octrees.  Remaining hypotheses: [distinct3] (the four leaves around the
   edge are distinct as required by push_triangle; not yet derived from geometry), the clear region boundary of no_holes. *)
Module AdaptiveDCSep5.
Import OctTree OctTreeGeom OctTreeNet OctTreeSem OctTreeSep OctTreeSepH.
Local Open Scope Z_scope.


Theorem C04_walk3_reaches_every_quadruple : forall ins diag A, oaxis A -> forall f t p o k0 a b c d s k,
  oconsistent ins t o k0 -> (oheight t < f)%nat ->
  In a (oleaves t p o k0) -> In b (oleaves t p o k0) -> In c (oleaves t p o k0) -> In d (oleaves t p o k0) ->
  min_edge3 A a b c d s k ->
  incl (load3 diag A (c_cell a) (c_cell b) (c_cell c) (c_cell d)) (walk3 diag f t p).
Proof. exact walk3_complete. Qed.

Theorem C04_adaptive_sign_changes_give_triangles : forall ins diag t k0 A a b c d s k,
  oconsistent ins t (0, 0, 0) k0 -> oaxis A ->
  In a (oleaves t [] (0, 0, 0) k0) -> In b (oleaves t [] (0, 0, 0) k0) ->
  In c (oleaves t [] (0, 0, 0) k0) -> In d (oleaves t [] (0, 0, 0) k0) ->
  min_edge3 A a b c d s k -> ins s <> ins (ostep A s (osize k)) ->
  o_is_ambig (c_t a) = true /\ o_is_ambig (c_t b) = true /\ o_is_ambig (c_t c) = true /\ o_is_ambig (c_t d) = true /\
  load3 diag A (c_cell a) (c_cell b) (c_cell c) (c_cell d) =
    quad3 diag (ins s) (vtx3 (ins s) A a 0) (vtx3 (ins s) A b 1) (vtx3 (ins s) A c 2) (vtx3 (ins s) A d 3) /\
  (distinct3 a b c d -> load3 diag A (c_cell a) (c_cell b) (c_cell c) (c_cell d) <> []) /\
  incl (load3 diag A (c_cell a) (c_cell b) (c_cell c) (c_cell d)) (mesh_walk diag t).
Proof. exact OctTreeSepH.adaptive_sign_changes_give_triangles. Qed.

Theorem C04_adaptive_mesh_separates : forall ins diag t k0 l p q,
  oconsistent ins t (0, 0, 0) k0 ->
  Forall (step3_ok ins) l -> Forall s3_distinct l -> joins3 p l q ->
  Nat.odd (length (emitting3 diag l)) = xorb (ins p) (ins q) /\
  (forall e, In e l -> step3_in t k0 e -> incl (s3_load diag e) (mesh_walk diag t)).
Proof. exact OctTreeSepH.adaptive_mesh_separates. Qed.

End AdaptiveDCSep5.

Print Assumptions AdaptiveDCSep5.C04_walk3_reaches_every_quadruple.
Print Assumptions AdaptiveDCSep5.C04_adaptive_sign_changes_give_triangles.
Print Assumptions AdaptiveDCSep5.C04_adaptive_mesh_separates.
