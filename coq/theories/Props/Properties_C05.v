(* C05 — specialised tapes agree with the full expression on their region.
   Statements only.  (push_preserves and its corollaries are added from
   Eval/PushSem.v.) *)
From Coq Require Import List Arith.
From LF Require Import Base.Opcode Base.Num Base.Arena Eval.Deck Eval.Push.

(* a terminal tape (no min/max left) is a fixed point of push *)
Theorem C05_terminal_fixpoint :
  forall n (fn : clause -> keep) (t : tape), t_terminal t = true -> tape_push n fn t = t.
Proof. intros n fn t H; unfold tape_push; rewrite H; reflexivity. Qed.
Print Assumptions C05_terminal_fixpoint.
