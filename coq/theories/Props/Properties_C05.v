(* C05 — specialised tapes agree with the full expression on their region.
   Statements only.  (push_preserves and its corollaries are added from
   Eval/PushSem.v.) *)
From Coq Require Import List Arith.
From LF Require Import Base.Opcode Base.Num Base.Arena Eval.Deck Eval.Push Eval.PushSem.

(* a terminal tape (no min/max left) is a fixed point of push *)
Theorem C05_terminal_fixpoint :
  forall n (fn : clause -> keep) (t : tape), t_terminal t = true -> tape_push n fn t = t.
Proof. intros n fn t H; unfold tape_push; rewrite H; reflexivity. Qed.
Print Assumptions C05_terminal_fixpoint.

(* Tape::push preserves the value of the root and of every kept clause, shortens
   the tape, and yields a well-formed tape again (so pushes nest), whenever each
   KEEP_A / KEEP_B decision is justified at the evaluated point.  Parametric in
   the number type: for binary32 this is bit-identity. *)
Theorem C05_push_preserves :
  forall (num : Type) (O : ops num) (oracle_at : nat -> num -> num -> num -> num) (d : deck)
         n t v fn,
    tape_wf d n t -> length v = n -> justified O oracle_at d v fn t ->
    let t' := tape_push n fn t in
    let w := eval_tape O oracle_at d (t_clauses t) v in
    let w' := eval_tape O oracle_at d (t_clauses t') v in
    sget O w' (t_root t') = sget O w (t_root t) /\
    (forall c', In c' (t_clauses t') -> sget O w' (c_id c') = sget O w (c_id c')) /\
    length (t_clauses t') <= length (t_clauses t) /\
    sub_rewrite (t_clauses t') (t_clauses t) /\
    tape_wf d n t'.
Proof. exact @push_preserves. Qed.
Print Assumptions C05_push_preserves.

(* any depth of nested specialisation *)
Theorem C05_nested_push :
  forall (num : Type) (O : ops num) (oracle_at : nat -> num -> num -> num -> num) (d : deck)
         n v fns t,
    tape_wf d n t -> length v = n -> all_justified O oracle_at d n v fns t ->
    let t' := push_all n fns t in
    tape_wf d n t' /\
    sget O (eval_tape O oracle_at d (t_clauses t') v) (t_root t')
    = sget O (eval_tape O oracle_at d (t_clauses t) v) (t_root t) /\
    length (t_clauses t') <= length (t_clauses t).
Proof. exact @nested_push. Qed.
Print Assumptions C05_nested_push.

(* specialising to a point (valueAndPush): decisions read from the values at
   that point are justified there *)
Theorem C05_point_push :
  forall (num : Type) (O : ops num) (oracle_at : nat -> num -> num -> num -> num) (d : deck)
         n t v,
    tape_wf d n t -> length v = n -> sel_gt O -> sel_lt O ->
    let w := eval_tape O oracle_at d (t_clauses t) v in
    let t' := tape_push n (keep_point O w) t in
    tape_wf d n t' /\
    sget O (eval_tape O oracle_at d (t_clauses t') v) (t_root t') = sget O w (t_root t).
Proof. exact @point_push. Qed.
Print Assumptions C05_point_push.

(* specialising to a box: decisions read from bounds that enclose the point's
   slot values are justified at the point; a min/max argument that may be NaN
   (flag set) forces both branches to be kept, every unflagged slot holds an
   ordered (non-NaN) value *)
Theorem C05_interval_push :
  forall (num : Type) (O : ops num) (oracle_at : nat -> num -> num -> num -> num) (d : deck)
         (ok : num -> Prop) n t v lo hi maybe_nan,
    tape_wf d n t -> length v = n -> ord_laws O ok ->
    let w := eval_tape O oracle_at d (t_clauses t) v in
    encloses O lo hi w -> flags_sound O ok maybe_nan w ->
    let t' := tape_push n (keep_interval O lo hi maybe_nan) t in
    tape_wf d n t' /\
    sget O (eval_tape O oracle_at d (t_clauses t') v) (t_root t') = sget O w (t_root t).
Proof. exact @interval_push. Qed.
Print Assumptions C05_interval_push.

(* Tape::getBase(point): walking up the parent chain stops at an INTERVAL-type level whose
   stored region contains the query, or at the root; if every interval level agrees with the
   root tape on its own region (the conclusion of the theorems above for that level), the
   returned tape agrees with the full expression at the query — for ANY query point, inside
   or outside the innermost region, and for every number type (NaN coordinates included:
   they satisfy no comparison and reach the root). *)
From LF Require Import Eval.GetBase.
Theorem C05_get_base_point :
  forall (num : Type) (O : ops num) (T : Type) (ev : T -> pt -> num)
         (chain : list (@level num T)) (root : T) (p : pt),
    chain_ok O ev chain root -> ev (get_base_pt O chain root p) p = ev root p.
Proof. exact @get_base_pt_sound. Qed.
Print Assumptions C05_get_base_point.

(* Tape::getBase(Region): the same for every point of the query box, given that <= on the
   coordinates involved is transitive (floats without NaN) *)
Theorem C05_get_base_region :
  forall (num : Type) (O : ops num) (T : Type) (ev : T -> pt -> num),
    (forall a b c, o_leb O a b = true -> o_leb O b c = true -> o_leb O a c = true) ->
  forall (chain : list (@level num T)) (root : T) (lo hi p : pt),
    chain_ok O ev chain root ->
    in_level O p {| l_interval := true; l_lo := lo; l_hi := hi; l_tape := root |} = true ->
    ev (get_base_box O chain root lo hi) p = ev root p.
Proof. exact @get_base_box_sound. Qed.
Print Assumptions C05_get_base_region.

(* THE KEEP FUNCTIONS ARE THE SOURCE'S.  The lambdas that IntervalEvaluator::push (eval_interval.cpp) and
   ArrayEvaluator::valueAndPush (eval_array.cpp) hand to Tape::push - which branch of a min / max survives, decided from the
   per-clause bounds and may-be-NaN flags, respectively from the slot-0 values - are re-read on every run by
   translate/gen_keep.py (Gen/KeepFns_gen.v: the if / else-if / return chains as nested ifs, in source order; the push types
   INTERVAL + region and SPECIALIZED are checked too) and are the [keep_interval] / [keep_point] of the model that
   C05_interval_push / C05_point_push are about, for every number type *)
From LF Require Gen.KeepFns_gen Eval.KeepAgree.
Theorem C05_keep_functions_from_source :
  forall (num : Type) (O : ops num),
    (forall lo hi maybe_nan c, KeepFns_gen.keep_interval_gen O lo hi maybe_nan c = keep_interval O lo hi maybe_nan c) /\
    (forall v c, KeepFns_gen.keep_point_gen O v c = keep_point O v c).
Proof. intros num O. split; [exact (KeepAgree.keep_interval_gen_eq O) | exact (KeepAgree.keep_point_gen_eq O)]. Qed.
Print Assumptions C05_keep_functions_from_source.
