(* C13 — tree handles are memory-safe and leak-free under any call sequence.
   Statements only.  [rstep] is one client-visible step of the intrusive
   reference-counting mechanism of libfive::Tree (a node allocation holding
   copies of child handles, a handle copy, or Tree::~Tree with its explicit
   work-list loop); [Inv]: count = #handles + #statics + #parent edges for every
   alive node, dead nodes own nothing, counts of alive nodes are positive. *)
From Coq Require Import List Arith.
From LF Require Import Conc.Refcount Conc.RefcountSem Conc.RefcountAssign.

(* the reference-count invariant holds in every state reachable by ANY finite
   sequence of operations (aliasing, sharing, any deletion order) *)
Theorem C13_invariant_every_reachable_state : forall (fuel : nat) (ops : list rop),
  ops_cost ops < fuel -> Inv (run fuel empty_state ops).
Proof. exact reachable_inv. Qed.

Theorem C13_step_preserves_invariant : forall fuel s o,
  Inv s -> fuel_ok fuel s -> Inv (rstep fuel s o).
Proof. exact rstep_inv. Qed.

(* no use-after-free, no double free, no count underflow: the instrumented
   destructor (which fails on any access to a dead cell) always completes, and
   deletes each cell at most once *)
Theorem C13_no_use_after_free : forall fuel s i n,
  Inv s -> fuel_ok fuel s -> hnd s i = Some n ->
  exists log,
    drop_i fuel (r_heap s) n = Done (drop fuel (r_heap s) n) log /\
    NoDup log /\
    (forall m, In m log <-> live (r_heap s) m = true /\ live (drop fuel (r_heap s) n) m = false) /\
    alive_cells (drop fuel (r_heap s) n) + length log = alive_cells (r_heap s).
Proof. exact no_use_after_free. Qed.

(* operations never consume or invalidate their argument handles *)
Theorem C13_args_untouched : forall fuel s o,
  match o with RDrop _ => False | _ => True end ->
  length (r_heap s) <= length (r_heap (rstep fuel s o)) /\
  (forall n, n < length (r_heap s) ->
     live (r_heap (rstep fuel s o)) n = live (r_heap s) n /\
     c_kids (hget (r_heap (rstep fuel s o)) n) = c_kids (hget (r_heap s) n) /\
     c_rc (hget (r_heap s) n) <= c_rc (hget (r_heap (rstep fuel s o)) n)).
Proof. exact alloc_copy_untouched. Qed.

(* deleting one handle leaves everything still owned by another handle intact *)
Theorem C13_delete_keeps_the_rest : forall fuel s i n,
  Inv s -> fuel_ok fuel s -> hnd s i = Some n ->
  let s' := rstep fuel s (RDrop i) in
  forall m, reach (r_heap s) (handles_of s' ++ r_statics s') m ->
    live (r_heap s') m = true /\ c_kids (hget (r_heap s') m) = c_kids (hget (r_heap s) m).
Proof. exact drop_untouched. Qed.

(* leak-free: once every handle is deleted, only what the singletons own is alive;
   in every reachable state alive <-> reachable from a handle or a singleton *)
Theorem C13_leak_free : forall s n,
  Inv s -> handles_of s = nil -> live (r_heap s) n = true -> reach (r_heap s) (r_statics s) n.
Proof. exact leak_free. Qed.

Theorem C13_alive_iff_reachable : forall fuel s0 ops n,
  Inv s0 -> edges (r_heap s0) + ops_cost ops < fuel ->
  let s := run fuel s0 ops in
  live (r_heap s) n = true <-> reach (r_heap s) (handles_of s ++ r_statics s) n.
Proof. exact alive_iff_reachable_run. Qed.

(* the destructor's loop terminates within (number of child edges + 1) iterations:
   no recursion, whatever the depth or width of the expression *)
Theorem C13_destructor_terminates : forall s i n,
  Inv s -> hnd s i = Some n ->
  let fuel := edges (r_heap s) + 1 in
  exists log, drop_i fuel (r_heap s) n = Done (drop fuel (r_heap s) n) log.
Proof. exact destructor_terminates_edges. Qed.

(* non-vacuity: a 5-cell heap with sharing and a duplicated child satisfies Inv *)
Theorem C13_invariant_example : Inv ex_state.
Proof. exact ex_inv. Qed.

(* copy-assignment [t = other] of handle i (holding node n) from a source handle
   that need not be in the client's pool (e.g. the child handle stored inside n,
   as in [t = t->lhs();]) and of which only the target node c is known.
   [rassign_good]: retain c, then run ~Tree() on the old node (libfive:
   Tree(other.ptr, true, flags), then move-assign; the old value dies last).
   It preserves the invariant, the destructor never touches a deleted cell, and
   no handle dangles afterwards. *)
Theorem C13_assign_preserves_invariant : forall fuel s i n c,
  Inv s -> fuel_ok fuel s -> hnd s i = Some n ->
  live (r_heap s) c = true ->
  let s' := rassign_good fuel s i c in
  Inv s' /\
  hnd s' i = Some c /\ live (r_heap s') c = true /\
  (forall j m, hnd s' j = Some m -> live (r_heap s') m = true) /\
  (forall j, j <> i -> hnd s' j = hnd s j) /\
  (exists log, drop_i fuel (inc (r_heap s) c) n = Done (r_heap s') log).
Proof. exact assign_good_preserves_inv. Qed.

(* [rassign_bad]: `this->~Tree(); new (this) Tree(other);` -- ~Tree() on the old
   node first, then retain c.  On the legal state [walk_state] (node 0 a leaf
   owned only by node 1; node 1 a unary node over 0 owned only by handle 0)
   assigning handle 0 from its own child deletes nodes 1 and 0 before the source
   is retained: the handle ends up on a deleted cell whose count was incremented
   anyway, and the invariant fails.  The good order on the same state is fine. *)
Theorem C13_destroy_then_copy_refuted :
  let s := walk_state in
  Inv s /\ fuel_ok 10 s /\ hnd s 0 = Some 1 /\
  c_rc (hget (r_heap s) 1) = 1 /\
  In 0 (c_kids (hget (r_heap s) 1)) /\ live (r_heap s) 0 = true /\
  live (drop 10 (r_heap s) 1) 1 = false /\
  live (drop 10 (r_heap s) 1) 0 = false /\
  (let sb := rassign_bad 10 s 0 0 in
   hnd sb 0 = Some 0 /\
   c_alive (hget (r_heap sb) 0) = false /\
   c_rc (hget (r_heap sb) 0) = 1 /\
   ~ Inv sb) /\
  (let sg := rassign_good 10 s 0 0 in
   hnd sg 0 = Some 0 /\
   c_alive (hget (r_heap sg) 0) = true /\
   c_rc (hget (r_heap sg) 0) = 1 /\
   live (r_heap sg) 1 = false /\
   Inv sg).
Proof. exact assign_bad_refuted. Qed.

(* when the old node n has another owner (count >= 2) the two orders compute the
   same state, whatever c is (also c = n): a test that only assigns between
   independently owned handles cannot tell them apart *)
Theorem C13_assign_orders_agree_when_shared : forall fuel s i n c,
  hnd s i = Some n ->
  2 <= c_rc (hget (r_heap s) n) ->
  rassign_good fuel s i c = rassign_bad fuel s i c /\
  r_heap (rassign_good fuel s i c) = inc (dec (r_heap s) n) c.
Proof. exact assign_orders_agree_when_shared. Qed.

Print Assumptions C13_invariant_every_reachable_state.
Print Assumptions C13_step_preserves_invariant.
Print Assumptions C13_no_use_after_free.
Print Assumptions C13_args_untouched.
Print Assumptions C13_delete_keeps_the_rest.
Print Assumptions C13_leak_free.
Print Assumptions C13_alive_iff_reachable.
Print Assumptions C13_destructor_terminates.
Print Assumptions C13_invariant_example.
Print Assumptions C13_assign_preserves_invariant.
Print Assumptions C13_destroy_then_copy_refuted.
Print Assumptions C13_assign_orders_agree_when_shared.

(* THE DESTRUCTOR STEALS EVERY CHILD, FROM THE SOURCE.  translate/gen_dtor.py re-reads data.hpp (the members of type Tree of
   every alternative of the node variant) and Tree::~Tree in tree.cpp (the members its get_if ladder pushes on the work list;
   the skeleton - decrement-and-test, `t == ptr || !--t->refcount`, `delete t` last, the constructor's `d->refcount++` - is
   checked by shape) on every run (Gen/TreeDtor_gen.v).  Every alternative that has Tree members is handled and ALL of them are
   moved out before `delete t`, which is what the model's [drop_loop] assumes when it continues with all kids of a freed node;
   a member left in place would be destroyed recursively by the node's own destructor (stack depth = chain length) *)
From LF Require Gen.TreeDtor_gen Conc.RefcountDtor.
Theorem C13_destructor_steals_every_child :
  forall alt fs, In (alt, fs) TreeDtor_gen.node_tree_fields_gen -> fs <> nil ->
  exists s, RefcountDtor.lookup alt TreeDtor_gen.dtor_stolen_gen = Some s /\ s = fs.
Proof. exact RefcountDtor.destructor_steals_every_child. Qed.
(* [dtor_tables_shape]: unary [lhs], binary [lhs; rhs], remap [x; y; z; t], apply [target; value; t]; 8 alternatives *)
Theorem C13_destructor_tables_shape : RefcountDtor.dtor_tables_shape.
Proof. exact RefcountDtor.dtor_tables_shape_ok. Qed.
Print Assumptions C13_destructor_steals_every_child.
Print Assumptions C13_destructor_tables_shape.
