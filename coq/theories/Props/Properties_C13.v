(* C13 — tree handles are memory-safe and leak-free under any call sequence.
   Statements only.  [rstep] is one client-visible step of the intrusive
   reference-counting mechanism of libfive::Tree (a node allocation holding
   copies of child handles, a handle copy, or Tree::~Tree with its explicit
   work-list loop); [Inv]: count = #handles + #statics + #parent edges for every
   alive node, dead nodes own nothing, counts of alive nodes are positive. *)
From Coq Require Import List Arith.
From LF Require Import Conc.Refcount Conc.RefcountSem.

(* the reference-count invariant holds in every state reachable by ANY finite
   sequence of operations (aliasing, sharing, any deletion order) *)
Theorem C13_invariant_every_reachable_state : forall (fuel : nat) (ops : list rop),
  ops_cost ops < fuel -> Inv (run fuel empty_state ops).
Proof. exact reachable_inv. Qed.

Theorem C13_step_preserves_invariant : forall fuel s o,
  Inv s -> fuel_ok fuel s -> Inv (rstep fuel s o).
Proof. exact rstep_inv. Qed.

(* no use-after-free, no double free, no count underflow: the instrumented
   destructor (which fails on any access to a dead cell) always completes, and
   deletes each cell at most once *)
Theorem C13_no_use_after_free : forall fuel s i n,
  Inv s -> fuel_ok fuel s -> hnd s i = Some n ->
  exists log,
    drop_i fuel (r_heap s) n = Done (drop fuel (r_heap s) n) log /\
    NoDup log /\
    (forall m, In m log <-> live (r_heap s) m = true /\ live (drop fuel (r_heap s) n) m = false) /\
    alive_cells (drop fuel (r_heap s) n) + length log = alive_cells (r_heap s).
Proof. exact no_use_after_free. Qed.

(* operations never consume or invalidate their argument handles *)
Theorem C13_args_untouched : forall fuel s o,
  match o with RDrop _ => False | _ => True end ->
  length (r_heap s) <= length (r_heap (rstep fuel s o)) /\
  (forall n, n < length (r_heap s) ->
     live (r_heap (rstep fuel s o)) n = live (r_heap s) n /\
     c_kids (hget (r_heap (rstep fuel s o)) n) = c_kids (hget (r_heap s) n) /\
     c_rc (hget (r_heap s) n) <= c_rc (hget (r_heap (rstep fuel s o)) n)).
Proof. exact alloc_copy_untouched. Qed.

(* deleting one handle leaves everything still owned by another handle intact *)
Theorem C13_delete_keeps_the_rest : forall fuel s i n,
  Inv s -> fuel_ok fuel s -> hnd s i = Some n ->
  let s' := rstep fuel s (RDrop i) in
  forall m, reach (r_heap s) (handles_of s' ++ r_statics s') m ->
    live (r_heap s') m = true /\ c_kids (hget (r_heap s') m) = c_kids (hget (r_heap s) m).
Proof. exact drop_untouched. Qed.

(* leak-free: once every handle is deleted, only what the singletons own is alive;
   in every reachable state alive <-> reachable from a handle or a singleton *)
Theorem C13_leak_free : forall s n,
  Inv s -> handles_of s = nil -> live (r_heap s) n = true -> reach (r_heap s) (r_statics s) n.
Proof. exact leak_free. Qed.

Theorem C13_alive_iff_reachable : forall fuel s0 ops n,
  Inv s0 -> edges (r_heap s0) + ops_cost ops < fuel ->
  let s := run fuel s0 ops in
  live (r_heap s) n = true <-> reach (r_heap s) (handles_of s ++ r_statics s) n.
Proof. exact alive_iff_reachable_run. Qed.

(* the destructor's loop terminates within (number of child edges + 1) iterations:
   no recursion, whatever the depth or width of the expression *)
Theorem C13_destructor_terminates : forall s i n,
  Inv s -> hnd s i = Some n ->
  let fuel := edges (r_heap s) + 1 in
  exists log, drop_i fuel (r_heap s) n = Done (drop fuel (r_heap s) n) log.
Proof. exact destructor_terminates_edges. Qed.

(* non-vacuity: a 5-cell heap with sharing and a duplicated child satisfies Inv *)
Theorem C13_invariant_example : Inv ex_state.
Proof. exact ex_inv. Qed.

Print Assumptions C13_invariant_every_reachable_state.
Print Assumptions C13_step_preserves_invariant.
Print Assumptions C13_no_use_after_free.
Print Assumptions C13_args_untouched.
Print Assumptions C13_delete_keeps_the_rest.
Print Assumptions C13_leak_free.
Print Assumptions C13_alive_iff_reachable.
Print Assumptions C13_destructor_terminates.
Print Assumptions C13_invariant_example.
