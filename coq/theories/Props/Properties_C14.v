(* C14 — trees are immutable values that may be shared across threads.  Statements only;
   model in Conc/Threads.v (each std::atomic read-modify-write of TreeData::refcount is one
   step; [shuffle] = every interleaving of the threads' programs), proofs in Conc/ThreadsSem.v.
   The absence of OTHER shared mutable state (lazily filled tables, static singletons) is the
   ThreadSanitizer oracle's part (check/props/c14.py). *)
From Coq Require Import List Arith.
From LF Require Import Conc.Threads Conc.ThreadsSem.
Import ListNotations.

(* for any number of threads, each starting with the references [ks] says it owns and only
   ever copying / destroying references it holds, under EVERY interleaving: *)
Theorem C14_refcount_safe_under_all_interleavings :
  forall (ths : list (list rop)) (ks : list nat) (l : list rop),
    Forall2 thread_ok ks ths -> 0 < sum ks -> shuffle ths l ->
    (* no operation ever touches a freed node *)
    uaf (rrun (init ks) l) = false /\
    (* the counter is exactly the number of references still held *)
    rc (rrun (init ks) l) = sum (map2 owned_after ks ths) /\
    (* the node is freed at most once, and exactly when everything was released *)
    frees (rrun (init ks) l) <= 1 /\
    (frees (rrun (init ks) l) = 1 <-> sum (map2 owned_after ks ths) = 0).
Proof.
  intros ths ks l Hok Hpos HS.
  split; [exact (no_use_after_free ths ks l Hok Hpos HS)|].
  split; [exact (rc_final ths ks l Hok Hpos HS)|].
  split; [exact (freed_at_most_once ths ks l Hok Hpos HS) | exact (freed_iff_all_released ths ks l Hok Hpos HS)].
Qed.

(* the free is performed by the very last operation of the interleaving, a decrement; it never
   happens while operations are still to come *)
Theorem C14_freed_by_the_last_decrement :
  forall ths ks l, Forall2 thread_ok ks ths -> 0 < sum ks -> shuffle ths l ->
  forall l1 o l2, l = l1 ++ o :: l2 ->
    frees (rrun (init ks) l1) = 0 /\
    (frees (rrun (init ks) (l1 ++ [o])) = 1 -> l2 = [] /\ o = Dec).
Proof.
  intros ths ks l Hok Hpos HS l1 o l2 E. split.
  - exact (never_freed_early ths ks l Hok Hpos HS l1 o l2 E).
  - exact (freed_by_last_dec ths ks l Hok Hpos HS l1 o l2 E).
Qed.

(* the same invariant at every prefix of every interleaving *)
Theorem C14_invariant_at_every_prefix :
  forall ths ks l n, Forall2 thread_ok ks ths -> 0 < sum ks -> shuffle ths l ->
  exists done rest, length done = length ths /\ length rest = length ths /\ ths = map2 (@app rop) done rest /\
    shuffle done (firstn n l) /\ shuffle rest (skipn n l) /\
    let owned_now := map2 owned_after ks done in
    let s := rrun (init ks) (firstn n l) in
    rc s = sum owned_now /\ uaf s = false /\ (0 < sum owned_now -> frees s = 0) /\ (sum owned_now = 0 -> frees s = 1).
Proof. exact prefix_invariant. Qed.

(* what atomicity buys: the same programs with a copy split into load and store have an
   interleaving with a use-after-free, while every interleaving of the atomic programs is safe *)
Theorem C14_nonatomic_refuted :
  nshuffle nao_ths nao_bad /\
  n_uaf (nrun (ninit 3) nao_bad) = true /\ n_frees (nrun (ninit 3) nao_bad) = 1 /\
  map atomize nao_ths = ex_ths /\ Forall2 thread_ok ex_ks ex_ths /\ sum ex_ks = 3 /\
  (forall l, shuffle ex_ths l -> uaf (rrun (init ex_ks) l) = false /\ frees (rrun (init ex_ks) l) = 1).
Proof. exact nonatomic_refuted_owned. Qed.

(* what deciding from the decrement's OWN return value buys: a destructor that decrements
   atomically and then reads the counter again to decide has an interleaving in which two owners
   both read zero and both free the node, while the programs it stands for are safe under
   every interleaving of the modelled protocol *)
Theorem C14_reread_after_decrement_refuted :
  dshuffle reread_ths reread_bad /\
  frees (drun (init [1; 1]) reread_bad) = 2 /\ uaf (drun (init [1; 1]) reread_bad) = true /\
  map dmerge reread_ths = [[Dec]; [Dec]] /\ Forall2 thread_ok [1; 1] [[Dec]; [Dec]] /\
  (forall l, shuffle [[Dec]; [Dec]] l -> frees (rrun (init [1; 1]) l) = 1 /\ uaf (rrun (init [1; 1]) l) = false).
Proof. exact reread_refuted. Qed.

(* non-vacuity: a concrete three-thread program has several interleavings, all safe *)
Theorem C14_example : forall l, shuffle ex_ths l ->
  uaf (rrun (init ex_ks) l) = false /\ frees (rrun (init ex_ks) l) = 1 /\ rc (rrun (init ex_ks) l) = 0 /\ length l = 7.
Proof. exact three_threads_safe. Qed.

Print Assumptions C14_refcount_safe_under_all_interleavings.
Print Assumptions C14_freed_by_the_last_decrement.
Print Assumptions C14_invariant_at_every_prefix.
Print Assumptions C14_nonatomic_refuted.
Print Assumptions C14_reread_after_decrement_refuted.
Print Assumptions C14_example.
