(* C07 — tree rewriting never changes the function.
   Statements only; every proof is [exact <lemma>].  [ok_result a res f] says:
   the result arena extends [a] (no existing node is touched), is well formed,
   the returned identity is live, and it denotes [f] in every environment. *)
From Coq Require Import Reals List.
From LF Require Import Base.Opcode Base.Num Base.Arena Base.Sem Base.RInst
  Tree.Build Tree.BuildSem Tree.RemapSem Tree.Flatten Tree.FlattenSem
  Tree.Optimize Tree.OptimizeSem Tree.EqSound.

Section C07.
  Context {num : Type} (O : ops num) (osem : nat -> num -> num -> num -> num).
  Hypothesis LAWS : laws O.

  (* simplifications applied while building: all 14 unary opcodes, every rule *)
  Theorem C07_unary_sem : forall (a : arena num) op l,
    arena_wf a -> l < length a -> args op = Some 1 ->
    ok_result O osem a (mk_unary O a op l) (fun r => o_un O op (val O osem a l r)).
  Proof. exact (unary_sem O osem LAWS). Qed.

  (* all 12 binary opcodes, every branch of the if / else-if ladder, any fuel *)
  Theorem C07_binary_sem : forall fuel (a : arena num) op l r,
    arena_wf a -> l < length a -> r < length a -> args op = Some 2 ->
    ok_result O osem a (mk_binary O fuel a op l r)
      (fun e => o_bin O op (val O osem a l e) (val O osem a r e)).
  Proof. exact (binary_sem O osem LAWS). Qed.

  (* remap = composition with the coordinate maps (incl. both shortcuts) *)
  Theorem C07_remap_sem : forall (a : arena num) t x y z,
    arena_wf a -> base_ok O a ->
    t < length a -> x < length a -> y < length a -> z < length a ->
    ok_result O osem a (mk_remap a t x y z)
      (fun r => val O osem a t (upd_xyz r (val O osem a x r) (val O osem a y r) (val O osem a z r))).
  Proof. exact (remap_sem O osem). Qed.

  (* apply = lexically scoped substitution *)
  Theorem C07_apply_sem : forall (a : arena num) t v e res,
    arena_wf a -> t < length a -> v < length a -> e < length a ->
    mk_apply a t v e = Some res ->
    getn a v = NNullary VAR_FREE /\
    ok_result O osem a res (fun r => val O osem a t (upd_var r v (val O osem a e r))).
  Proof. exact (apply_sem O osem). Qed.

  (* flattening (environment-passing machine) preserves the function *)
  Theorem C07_flatten_sem : forall (a : arena num) i,
    arena_wf a -> base_ok O a -> i < length a -> noT a i ->
    ok_result O osem a (flatten O a i) (fun r => val O osem a i r).
  Proof. exact (flatten_sem O osem LAWS). Qed.

  (* ... also when the tree already holds transformed oracles (a remapped oracle remapped
     again, lazy remaps / applies above and inside the coordinate trees):
     TransformedOracleClause::remap composes the coordinate trees with the coordinate maps.
     [good a i]: below every apply node reachable from i the transformed oracles have
     variable-independent components (the C++ does not substitute applied variables inside
     coordinate trees); implied by [noT a i], vacuous when no apply node is reachable *)
  Theorem C07_flatten_sem_oracles : forall (a : arena num) i,
    arena_wf a -> base_ok O a -> i < length a -> good O osem a i ->
    ok_result O osem a (flatten O a i) (fun r => val O osem a i r).
  Proof. exact (flatten_sem_o O osem LAWS). Qed.

  Theorem C07_good_of_noT : forall (a : arena num) i,
    arena_wf a -> i < length a -> noT a i -> good O osem a i.
  Proof. exact (good_noT O osem). Qed.
End C07.

(* the reals satisfy the laws, for every interpretation of the opcodes the
   rewriting rules never look inside *)
Theorem C07_reals_instance : forall uf bf,
  (forall x, bf OP_POW x 1%R = x) -> (forall x, bf OP_NTH_ROOT x 1%R = x) ->
  laws (R_ops uf bf).
Proof. exact R_laws. Qed.

(* Tree::optimized (flatten, affine-map accumulation, commutative lists, canonical
   map) preserves the function: over the reals, for every interpretation of the
   opcodes the rewriting never inspects, every DAG (sharing, remap/apply nodes,
   constants 0 / 1 / -1, repeated and reordered operands). *)
Theorem C07_optimized_sem : forall uf bf,
  (forall x, bf OP_POW x 1%R = x) -> (forall x, bf OP_NTH_ROOT x 1%R = x) ->
  forall osem (a : arena R) i,
    arena_wf a -> base_ok (R_ops uf bf) a -> i < length a -> noT a i ->
    let '(a', j) := optimized (R_ops uf bf) a i in
    extends a a' /\ arena_wf a' /\ j < length a' /\
    forall r, val (R_ops uf bf) osem a' j r = val (R_ops uf bf) osem a i r.
Proof. exact optimized_sem_noT. Qed.

(* two trees that the deep-equality test calls equal denote the same function *)
Theorem C07_eq_sound : forall uf bf,
  (forall x, bf OP_POW x 1%R = x) -> (forall x, bf OP_NTH_ROOT x 1%R = x) ->
  forall osem (a : arena R) i j,
    arena_wf a -> base_ok (R_ops uf bf) a -> i < length a -> j < length a -> noT a i -> noT a j ->
    snd (tree_eq (R_ops uf bf) a i j) = true ->
    forall r, val (R_ops uf bf) osem a i r = val (R_ops uf bf) osem a j r.
Proof. exact eq_sound. Qed.

(* Tree::optimized with transformed oracles anywhere: the underlying tree and the three
   coordinate trees of every TransformedOracleClause are flattened and optimised against
   the shared canonical map, to any nesting depth; the value is preserved whether or not
   the model's level fuel ran out *)
Theorem C07_optimized_sem_oracles : forall uf bf,
  (forall x, bf OP_POW x 1%R = x) -> (forall x, bf OP_NTH_ROOT x 1%R = x) ->
  forall osem (a : arena R) i,
    arena_wf a -> base_ok (R_ops uf bf) a -> i < length a -> good (R_ops uf bf) osem a i ->
    let '(a', j) := optimized (R_ops uf bf) a i in
    extends a a' /\ arena_wf a' /\ base_ok (R_ops uf bf) a' /\ j < length a' /\
    forall r, val (R_ops uf bf) osem a' j r = val (R_ops uf bf) osem a i r.
Proof. exact optimized_sem_o. Qed.

Theorem C07_eq_sound_oracles : forall uf bf,
  (forall x, bf OP_POW x 1%R = x) -> (forall x, bf OP_NTH_ROOT x 1%R = x) ->
  forall osem (a : arena R) i j,
    arena_wf a -> base_ok (R_ops uf bf) a -> i < length a -> j < length a ->
    good (R_ops uf bf) osem a i -> good (R_ops uf bf) osem a j ->
    snd (tree_eq (R_ops uf bf) a i j) = true ->
    forall r, val (R_ops uf bf) osem a i r = val (R_ops uf bf) osem a j r.
Proof. exact eq_sound_o. Qed.

(* THE CONSTRUCTION-TIME RULES ARE THE SOURCE'S.  translate/gen_build.py re-reads Tree::unary and Tree::binary (tree.cpp) on every
   run - the if / else-if ladders over `std::get_if<TreeConstant / TreeUnaryOp>`, `v->value == c`, `v->op == ...`,
   `lhs.id() == rhs.id()`, with the C++ subtlety that a matched outer pattern whose inner tests fail leaves the ladder for the
   default - into a rule table (Gen/BuildRules_gen.v); the results `-rhs`, `rhs - v->lhs`, `square(lhs)` ... are resolved through
   the operator list of operations.hpp and the forwarding macros of operations.cpp are checked.  The table, run by the
   interpreter of Tree/BuildRules.v (first guard that holds owns the call; nested calls go through the tables again),
   IS the model's mk_unary / mk_binary that C07_unary_sem / C07_binary_sem are about: every opcode, every fuel, every arena,
   every number type.  (Recorded, not derived: constant folding through ArrayEvaluator is o_un / o_bin - the fold's token
   sequence is checked; the literals 0.0, 1.0f, 0, 1, -1 are the model's is_zero / is_one / is_mone.) *)
From LF Require Tree.BuildRules Gen.BuildRules_gen Tree.BuildAgree.
Theorem C07_build_rules_from_source :
  forall (num : Type) (O : ops num),
    (forall (a : arena num) (op : opcode) (l : nat),
       BuildRules.interp_unary O BuildRules_gen.unary_rules_gen a op l = mk_unary O a op l) /\
    (forall (fuel : nat) (a : arena num) (op : opcode) (l r : nat),
       BuildRules.interp_binary O BuildRules_gen.unary_rules_gen BuildRules_gen.binary_rules_gen fuel a op l r
       = mk_binary O fuel a op l r).
Proof.
  intros num O. split; [exact (BuildAgree.unary_rules_from_source O) | exact (BuildAgree.binary_rules_from_source O)].
Qed.

Print Assumptions C07_unary_sem.
Print Assumptions C07_binary_sem.
Print Assumptions C07_remap_sem.
Print Assumptions C07_apply_sem.
Print Assumptions C07_flatten_sem.
Print Assumptions C07_reals_instance.
Print Assumptions C07_optimized_sem.
Print Assumptions C07_eq_sound.
Print Assumptions C07_flatten_sem_oracles.
Print Assumptions C07_good_of_noT.
Print Assumptions C07_optimized_sem_oracles.
Print Assumptions C07_eq_sound_oracles.
Print Assumptions C07_build_rules_from_source.
