(* C01 — point evaluation computes the function the expression denotes.
   Statements only. *)
From Coq Require Import Reals List Arith.
From LF Require Import Base.Opcode Base.Num Base.Arena Base.Sem Tree.Build Tree.BuildSem Eval.Deck Eval.Batch Eval.DeckSem Eval.DeckSemReach Base.RInst Tree.Flatten Tree.FlattenSem Tree.Optimize Tree.OptimizePure Eval.EvalDenotes.
From LF Require Gen.ArrayKernels_gen Eval.KernelsAgree Eval.DerivSem Eval.ModKernel.

(* Batch evaluation is slot-wise: position k of a batch of any size (any
   count_simd, any stale contents in the other positions) is the single-point
   evaluation of position k of the inputs.  Holds for every number type, in
   particular IEEE binary32: "bit-identical for every batch size and slot". *)
Theorem C01_batch_pointwise :
  forall (num : Type) (O : ops num) (oracle_at : nat -> num -> num -> num -> num)
         (cs w : nat) (d : deck) (tape : list clause) (v : bslots) (k : nat),
    k < cs -> k < w -> wide w v ->
    slice O k (eval_tape_b O oracle_at cs d tape v) = eval_tape O oracle_at d tape (slice O k v).
Proof. exact @batch_pointwise. Qed.
(* THE VALUE KERNELS ARE THE SOURCE'S.  [vkern_gen] is regenerated on every run from ArrayEvaluator::operator()
   (eval_array.cpp) by translate/gen_kernels.py, one match arm per C++ case, read over the reals; it is the
   real-number instance the semantic theorems use ([DerivSem.vk], i.e. [RD]'s unary / binary kernels) *)
Theorem C01_value_kernels_from_source :
  forall op a b, (op = OP_MOD -> b <> 0%R) -> ArrayKernels_gen.vkern_gen op a b = DerivSem.vk op a b.
Proof. exact KernelsAgree.vkern_gen_eq. Qed.
(* THE MOD LOOP IS THE FLOOR MODULO.  The OP_MOD arm of [vkern_gen] is the C++ loop body statement by statement
   (d = fabs (a / b); d = -ceil d or floor d by the xor of the operands' signs; out = a - b * d; two clamps "for
   safety").  Over the reals and for a non-zero divisor it computes a - b * floor (a / b) ([DerivSem.Rmod], the
   meaning of mod in every semantic theorem), the result lies in [0, b) for b > 0 and in (b, 0] for b < 0, so the
   clamps never fire.  For b = 0 the C++ computes NaN; nothing is claimed there. *)
Theorem C01_mod_kernel_is_floor_mod :
  forall a b : R, b <> 0%R -> ArrayKernels_gen.vkern_gen OP_MOD a b = DerivSem.Rmod a b.
Proof. exact ModKernel.mod_kernel_is_floor_mod. Qed.
Theorem C01_mod_kernel_range :
  forall a b : R, b <> 0%R ->
    ((0 < b)%R -> (0 <= ArrayKernels_gen.vkern_gen OP_MOD a b < b)%R) /\
    ((b < 0)%R -> (b < ArrayKernels_gen.vkern_gen OP_MOD a b <= 0)%R).
Proof. exact ModKernel.mod_kernel_range. Qed.

Print Assumptions C01_batch_pointwise.

(* Tree::walk + Deck::Deck + leaves-to-root tape evaluation compute the
   denotation of the (flattened, optimised) DAG: for every number type, every
   well-formed arena whose nodes REACHABLE from the root are plain (constants, X/Y/Z
   singletons, free variables, unary and binary operations) -- lower, unreachable ids may
   hold anything (the invalid singleton, the remap / apply nodes of the source) --, every
   point and variable assignment.  Includes the correctness of the two-pass
   reference-counted topological sort (Kahn's algorithm with an explicit stack). *)
Theorem C01_deck_correct :
  forall (num : Type) (O : ops num) (osem : nat -> num -> num -> num -> num)
         (oracle_at : nat -> num -> num -> num -> num)
         (a : arena num) (root : nat) (vars : nat -> num) (x y z : num),
    arena_wf a -> base_ok O a -> root < length a ->
    (forall m, DeckSemReach.reach a root m -> pure_at a m) ->
    let d := mk_deck a root in
    tape_value O oracle_at d (d_tape d) (d_root d) vars x y z
    = val O osem a root {| ex := x; ey := y; ez := z; ev := vars |}.
Proof. exact @deck_correct_reach. Qed.
Print Assumptions C01_deck_correct.

(* the hypotheses are satisfiable above the five static nodes: x + y at id 5 *)
Example C01_deck_correct_nonvacuous :
  forall (num : Type) (O : ops num),
    let a := init_arena O ++ (NBinary OP_ADD idX idY :: nil) in
    arena_wf a /\ base_ok O a /\ 5 < length a /\ (forall m, DeckSemReach.reach a 5 m -> pure_at a m).
Proof.
  intros num O a. split; [|split; [|split]].
  - unfold a, arena_wf, init_arena, idX, idY; simpl. repeat split; auto with arith.
  - reflexivity.
  - simpl; auto with arith.
  - assert (H : forall m, DeckSemReach.reach a 5 m -> m = 5 \/ m = 0 \/ m = 1).
    { intros m Hm; induction Hm as [|p c Hp IH Hc]; [left; reflexivity|].
      destruct IH as [->|[->| ->]]; simpl in Hc; [|contradiction Hc|contradiction Hc].
      destruct Hc as [<-|[<-|[]]]; auto. }
    intros m Hm. destruct (H m Hm) as [->|[->| ->]]; unfold pure_at; simpl; auto.
Qed.

(* The whole pipeline of Deck(Tree) + ArrayEvaluator::value — construction-time
   simplification (C07), flatten, affine / commutative optimisation, walk, slot
   layout, leaves-to-root evaluation — returns the real-valued denotation of the
   expression the client built: for every DAG of constants, X/Y/Z, free
   variables, unary / binary operations, remap and apply nodes (any sharing and
   nesting), every point and variable assignment, every interpretation of the
   opcodes the rewriting never inspects. *)
Theorem C01_eval_denotes : forall uf bf,
  (forall x, bf OP_POW x 1%R = x) -> (forall x, bf OP_NTH_ROOT x 1%R = x) ->
  forall osem oracle_at (a : arena R) i vars x y z,
    arena_wf a -> base_ok (R_ops uf bf) a -> i < length a -> src_ok a i -> noT a i ->
    let '(a', j) := optimized (R_ops uf bf) a i in
    let d := mk_deck a' j in
    tape_value (R_ops uf bf) oracle_at d (d_tape d) (d_root d) vars x y z
    = val (R_ops uf bf) osem a i {| ex := x; ey := y; ez := z; ev := vars |}.
Proof. exact eval_denotes. Qed.
Print Assumptions C01_eval_denotes.
Print Assumptions C01_value_kernels_from_source.
Print Assumptions C01_mod_kernel_is_floor_mod.
Print Assumptions C01_mod_kernel_range.
