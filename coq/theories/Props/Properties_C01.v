(* C01 — point evaluation computes the function the expression denotes.
   Statements only. *)
From Coq Require Import List Arith.
From LF Require Import Base.Opcode Base.Num Base.Arena Eval.Deck Eval.Batch.

(* Batch evaluation is slot-wise: position k of a batch of any size (any
   count_simd, any stale contents in the other positions) is the single-point
   evaluation of position k of the inputs.  Holds for every number type, in
   particular IEEE binary32: "bit-identical for every batch size and slot". *)
Theorem C01_batch_pointwise :
  forall (num : Type) (O : ops num) (oracle_at : nat -> num -> num -> num -> num)
         (cs w : nat) (d : deck) (tape : list clause) (v : bslots) (k : nat),
    k < cs -> k < w -> wide w v ->
    slice O k (eval_tape_b O oracle_at cs d tape v) = eval_tape O oracle_at d tape (slice O k v).
Proof. exact @batch_pointwise. Qed.
Print Assumptions C01_batch_pointwise.
