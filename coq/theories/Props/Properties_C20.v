(* C20 — progress reports are monotone and complete.  Statements only; proofs in
   Render/ProgressSem.v, model in Render/Progress.v (header there maps it to the code). *)
From Coq Require Import List Arith QArith Permutation.
From LF Require Import Render.Progress Render.ProgressSem.
Import ListNotations.
Local Open Scope nat_scope.

(* the loop that announces the build phase computes the size of the full 2^N-ary tree *)
Theorem C20_announced_total : forall N L, announced N L = total_ticks N L.
Proof. exact announced_total. Qed.

(* BUILD: whatever cells were pruned (terminal at any depth), collapsed or ambiguous, and in
   whatever order the workers tick, the counter ends exactly at the announced total and never
   overshoots it on the way *)
Theorem C20_build_complete : forall N L c evs,
  wf_cell N L c -> Permutation (build_events N L c) evs -> sum evs = total_ticks N L.
Proof. exact build_schedule_total. Qed.

Theorem C20_build_no_overshoot : forall N L c evs k,
  wf_cell N L c -> Permutation (build_events N L c) evs -> sum (firstn k evs) <= total_ticks N L.
Proof. exact build_schedule_no_overshoot. Qed.

(* an ambiguous cell is completed by exactly one of its 2^N children's arrivals: the last *)
Theorem C20_one_arrival_completes : forall k, 0 < k ->
  length (filter (fun b => b) (arrivals k (k - 1))) = 1 /\ nth (k - 1) (arrivals k (k - 1)) false = true.
Proof. intros k Hk; split; [apply arrivals_one_last | apply arrivals_last_true]; exact Hk. Qed.

(* WALK: ticks = live (non-singleton) cells of the final tree = the announced total *)
Theorem C20_walk_complete : forall N c, wf_fcell N c -> walk_ticks N c = live c.
Proof. exact walk_ticks_live. Qed.

(* RESET: every block of every nested pool is freed and ticked exactly once, for every
   requested worker count (the repaired ObjectPool::reset) *)
Theorem C20_reset_complete : forall w pools, 0 < w -> reset_ticks w pools = num_blocks pools.
Proof. exact reset_ticks_blocks. Qed.

Theorem C20_block_striding : forall w n, 0 < w ->
  Permutation (flat_map (fun i => worker_blocks i w n) (seq 0 w)) (seq 0 n).
Proof. exact worker_blocks_perm. Qed.

(* the code before the repair: an empty pool above a non-empty one loses the nested ticks *)
Theorem C20_reset_old_refuted : reset_ticks_old 8 [(0, 0); (0, 1)] = 0 /\ num_blocks [(0, 0); (0, 1)] = 1.
Proof. exact reset_ticks_old_refuted. Qed.

(* REPORTED VALUE: in [0,1] while counters do not exceed totals, non-decreasing as counters
   and phases advance, exactly 1 when every phase is complete *)
Theorem C20_reported_range : forall ps cur,
  (forall p, In p ps -> ph_counter p <= ph_total p) -> (0 <= reported ps cur <= 1)%Q.
Proof. exact reported_range. Qed.

Theorem C20_reported_monotone : forall ps ps' cur,
  Forall2 advances ps ps' -> (reported ps cur <= reported ps' cur)%Q /\ (reported ps cur <= reported ps (S cur))%Q.
Proof. intros ps ps' cur H; split; [apply reported_mono_counter; exact H | apply reported_mono_phase]. Qed.

Theorem C20_reported_complete : forall ps,
  (forall p, In p ps -> ph_counter p = ph_total p /\ ph_total p <> 0) -> total_weight ps <> 0 ->
  (reported ps (length ps - 1) == 1)%Q.
Proof. exact reported_complete. Qed.

(* FINISH: idempotent, never unlocks an unlocked mutex, harmless on a handler that never
   started, and stops the reporting thread; the old code is refuted *)
Theorem C20_finish_protocol :
  (forall s, h_finish true (h_finish true s) = h_finish true s) /\
  (forall s, h_ub s = false -> h_mutex_locked s = true -> h_ub (h_finish true (h_finish true s)) = false) /\
  (forall b, h_finish b h_init = h_init) /\
  (forall b, h_thread_running (h_finish b (h_launch h_init)) = false).
Proof.
  split; [exact finish_idempotent|]. split; [exact finish_twice_safe'|].
  split; [exact finish_never_started | exact finish_stops_thread].
Qed.

Theorem C20_finish_old_refuted : h_ub (h_finish false (h_finish false (h_launch h_init))) = true.
Proof. exact finish_twice_old_refuted. Qed.

Print Assumptions C20_announced_total.
Print Assumptions C20_build_complete.
Print Assumptions C20_build_no_overshoot.
Print Assumptions C20_one_arrival_completes.
Print Assumptions C20_walk_complete.
Print Assumptions C20_reset_complete.
Print Assumptions C20_block_striding.
Print Assumptions C20_reset_old_refuted.
Print Assumptions C20_reported_range.
Print Assumptions C20_reported_monotone.
Print Assumptions C20_reported_complete.
Print Assumptions C20_finish_protocol.
Print Assumptions C20_finish_old_refuted.

(* finish() IS THE SOURCE'S.  translate/gen_progress.py re-reads ProgressHandler::finish (progress.cpp) on every run - the guard
   `future.valid()`, `done = true`, `timed_mut.unlock()`, `future.get()`, each translated into its effect on the handler
   state; the constructor must only lock timed_mut and the destructor only call finish() - and the result is the repaired
   [h_finish true] of the model that the finish-protocol theorems above are about (with `future.wait()`, the code before the
   repair, it is [h_finish false], whose second call is undefined behaviour) *)
From LF Require Gen.ProgressFinish_gen Render.ProgressAgree.
Theorem C20_finish_from_source : forall s, ProgressFinish_gen.finish_gen s = h_finish true s.
Proof. exact ProgressAgree.finish_gen_eq. Qed.
Print Assumptions C20_finish_from_source.
