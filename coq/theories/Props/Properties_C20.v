(* C20 - placeholder until Render/ProgressSem.v is integrated *)
From LF Require Import Render.Progress.
Theorem C20_announced_leaf : forall N, announced N 0 = 1.
Proof. reflexivity. Qed.
Print Assumptions C20_announced_leaf.
