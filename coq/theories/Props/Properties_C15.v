(* C15 — evaluator answers do not depend on what was asked before.  Statements only
   (filled from Eval/EvalState.v). *)
From Coq Require Import List Arith.
From LF Require Import Base.Opcode Base.Num Eval.Deck Eval.Batch.

(* values(count): stale contents of the other batch positions never matter
   (shared with C01: batch_pointwise for every number type) *)
Theorem C15_values_ignore_stale_positions :
  forall (num : Type) (O : ops num) (oracle_at : nat -> num -> num -> num -> num)
         (cs w : nat) (d : deck) (tape : list clause) (v : bslots) (k : nat),
    k < cs -> k < w -> wide w v ->
    slice O k (eval_tape_b O oracle_at cs d tape v) = eval_tape O oracle_at d tape (slice O k v).
Proof. exact @batch_pointwise. Qed.
Print Assumptions C15_values_ignore_stale_positions.

From LF Require Import Eval.EvalState.

(* value + derivative rows are reused across queries: every position beyond the
   current count and every non-leaf row holds arbitrary stale data.  The answer
   of a batched value / derivative query at position k is a function of the LEAF
   rows at position k only (constants, variables, coordinates, derivative seeds). *)
Theorem C15_answer_frame :
  forall (num dnum : Type) (vk : opcode -> num -> num -> num)
         (dk : opcode -> num -> num -> num -> dnum -> dnum -> dnum)
         (cs : nat) (tape : list clause) (k : nat) (v1 v2 : rows num) (d1 d2 : rows dnum),
    wf tape -> k < cs ->
    (forall s, leaf tape s -> v1 s k = v2 s k /\ d1 s k = d2 s k) ->
    forall s,
      fst (derivs vk dk cs tape v1 d1) s k = fst (derivs vk dk cs tape v2 d2) s k /\
      snd (derivs vk dk cs tape v1 d1) s k = snd (derivs vk dk cs tape v2 d2) s k.
Proof. exact @answer_frame_all. Qed.

(* for every two finite histories (queries of any batch size, variable and seed
   writes) whose leaf rows agree afterwards, the next query answers identically *)
Theorem C15_history_independent :
  forall (num dnum : Type) (vk : opcode -> num -> num -> num)
         (dk : opcode -> num -> num -> num -> dnum -> dnum -> dnum)
         (cs : nat) (tape : list clause) (k : nat) (h1 h2 : list event) (st1 st2 : state),
    wf tape -> k < cs ->
    (forall s, leaf tape s ->
       fst (run vk dk tape h1 st1) s k = fst (run vk dk tape h2 st2) s k /\
       snd (run vk dk tape h1 st1) s k = snd (run vk dk tape h2 st2) s k) ->
    forall s,
      fst (step vk dk tape (run vk dk tape h1 st1) (EDerivs cs)) s k =
      fst (step vk dk tape (run vk dk tape h2 st2) (EDerivs cs)) s k /\
      snd (step vk dk tape (run vk dk tape h1 st1) (EDerivs cs)) s k =
      snd (step vk dk tape (run vk dk tape h2 st2) (EDerivs cs)) s k.
Proof. exact @history_independent. Qed.

(* FeatureEvaluator's array-wise run over the incoming features (arguments and
   result row replicated from slot 0, count set): feature i gets the kernel applied
   to the slot-0 values and the i-th feature derivatives -- nothing else *)
Theorem C15_feature_run_frame :
  forall (num dnum : Type) (dk : opcode -> num -> num -> num -> dnum -> dnum -> dnum)
         (cs n : nat) (c : clause) (fa fb : nat -> dnum) (v : rows num) (d : rows dnum) (i : nat),
    c_a c <> c_id c -> c_b c <> c_id c -> c_a c <> c_b c -> i < n -> n <= cs ->
    feature_run dk cs n c fa fb v d (c_id c) i =
    dk (c_op c) (v (c_a c) 0) (v (c_b c) 0) (v (c_id c) 0) (fa i) (fb i).
Proof. exact @feature_run_frame. Qed.

(* the code before the repair (result row not replicated) depends on stale data *)
Theorem C15_old_feature_run_refuted :
  forall (c : clause) (cs n : nat) (fa fb : nat -> nat) (d : rows nat),
    c_a c <> c_id c -> c_b c <> c_id c -> 1 < n -> n <= cs ->
    exists v1 v2 : rows nat,
      (forall s, v1 s 0 = v2 s 0) /\ (forall k, v1 (c_a c) k = v2 (c_a c) k) /\
      (forall k, v1 (c_b c) k = v2 (c_b c) k) /\ v1 (c_id c) 1 <> v2 (c_id c) 1 /\
      feature_run_old dk_own cs n c fa fb v1 d (c_id c) 1 <>
      feature_run_old dk_own cs n c fa fb v2 d (c_id c) 1.
Proof. exact old_feature_run_depends_on_stale. Qed.

(* updating a variable = rebuilding the evaluator with the new value *)
Theorem C15_setvar_is_rebuild :
  forall (num dnum : Type) (vk : opcode -> num -> num -> num)
         (dk : opcode -> num -> num -> num -> dnum -> dnum -> dnum)
         (cs : nat) (tape : list clause) (k : nat) (v : rows num) (d d0 : rows dnum)
         (lv : nat -> option num) (pos : rows num) (s : nat) (x : num),
    wf tape -> k < cs -> vleaf_equiv tape v (fresh lv pos) ->
    (forall s', leaf tape s' -> d s' k = d0 s' k) ->
    forall s',
      fst (derivs vk dk cs tape (set_var v s x) d) s' k =
      fst (derivs vk dk cs tape (fresh (pset lv s (Some x)) pos) d0) s' k /\
      snd (derivs vk dk cs tape (set_var v s x) d) s' k =
      snd (derivs vk dk cs tape (fresh (pset lv s (Some x)) pos) d0) s' k.
Proof. exact @setvar_answers. Qed.

Print Assumptions C15_answer_frame.
Print Assumptions C15_history_independent.
Print Assumptions C15_feature_run_frame.
Print Assumptions C15_old_feature_run_refuted.
Print Assumptions C15_setvar_is_rebuild.

(* setVar IS THE SOURCE'S (by shape).  translate/gen_setvar.py accepts ArrayEvaluator::setVar and IntervalEvaluator::setVar only in
   their recorded parsed shape - the row of a known variable is overwritten unconditionally and entirely, the return value only
   reports whether slot 0 changed, an unknown variable changes nothing - and emits the state transformers of Gen/SetVar_gen.v.
   For a known variable the array evaluator's transformer is the [set_var] of C15_setvar_is_rebuild, whatever the old row held
   (in particular when the old slot-0 value compares equal to the new one: +0 / -0), and both transformers are the identity
   for an unknown variable *)
From LF Require Gen.SetVar_gen.
Theorem C15_setvar_from_source :
  forall (num : Type) (neqb : num -> num -> bool),
    (forall (v : rows num) s x, fst (SetVar_gen.array_setvar_gen neqb v (Some s) x) = set_var v s x) /\
    (forall (v : rows num) x, SetVar_gen.array_setvar_gen neqb v None x = (v, false)) /\
    (forall (lo hi : nat -> num) s x k,
       fst (fst (SetVar_gen.interval_setvar_gen neqb lo hi (Some s) x)) k = (if Nat.eqb k s then x else lo k) /\
       snd (fst (SetVar_gen.interval_setvar_gen neqb lo hi (Some s) x)) k = (if Nat.eqb k s then x else hi k)) /\
    (forall (lo hi : nat -> num) x, SetVar_gen.interval_setvar_gen neqb lo hi None x = (lo, hi, false)).
Proof. intros num neqb. repeat split. Qed.
Print Assumptions C15_setvar_from_source.
