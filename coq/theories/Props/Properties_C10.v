(* C10 — 2D contours are closed loops that bound the slice.  Statements only.

   Proved part: Contours::collect (contours.cpp), the welding of the directed segments emitted
   by the marching-squares pass into polylines; Render/Contours.v is the model (the two std::map
   tables, the chain growth and the welding walk as the code does them), Render/ContoursSem.v the
   proofs; the model is run against the implementation on segment soups by check/props/c10.py.
   Emission (Render/DCGrid2.v, DCGrid2Sem.v): Dual<2>::walk + DCContourer::load on a UNIFORM grid
   with the patch tables libfive builds at start-up (Gen/MarchTables_gen.v, dumped from the
   implementation on every run): the soup is a disjoint union of directed cycles, for every
   filled / empty assignment of the lattice points.
   That the loops BOUND the solid and wind around it (Render/DCBoundary2.v), again on a uniform
   grid and for every filled / empty assignment: one segment per sign-changing lattice edge,
   joining the two cells adjacent to it; every lattice path from an inside to an outside point
   crosses a segment of the soup (an odd number of them), closed paths cross evenly; every segment
   is directed with the inside end of its lattice edge on its LEFT (counter-clockwise around
   filled regions, clockwise around holes; x to the right, y upwards); a contour vertex that
   lies in its own cell is within sqrt 2 * h of the zero set of any field continuous along
   lattice edges with these corner signs.
   ADAPTIVE QUADTREES (Render/QuadTree.v, QuadTreeSem.v): the topological part of
   DCTree<2>::collectChildren (merging, cornersAreManifold / isManifold / leafsAreManifold, collapse
   into a leaf of level region.level, the numerical tests an arbitrary oracle), the recursive walk
   Dual<2>::work / edge2 and DCContourer::load with its minimum-level rule, on trees whose leaves have
   different sizes: the collapse tests preserve the lattice-sign invariant, the soup of ANY consistent
   tree is a disjoint union of directed cycles, and every welded contour is closed -- for every sign
   assignment of the lattice with a clear region boundary, every depth and every verdict of the
   numerical tests.  "The loops wind around the solid" on adaptive trees stays with the oracle.  Not proved (and false in the
   implementation, see the recorded finding): that the unclamped QEF vertex stays in its cell;
   it is an explicit hypothesis of C10_contour_vertices_near_surface. *)
From Coq Require Import List Arith Permutation.
From Coq Require Import ZArith Bool Reals.
From LF Require Render.QuadTreeSep.
From LF Require Import Render.Contours Render.ContoursSem Gen.MarchTables_gen Render.DCGrid2 Render.DCGrid2Sem.
From LF Require Import Render.DCBoundary2.
From LF Require Render.QuadTree Render.QuadTreeSem.
From LF Require Gen.LeafsManifold_gen Gen.ManifoldTables_gen Render.LeafsAgree.
Import ListNotations.

(* nothing is lost, duplicated or invented: the consecutive pairs of the returned polylines
   are exactly the input segments — for EVERY soup, in every emission order *)
Theorem C10_segments_preserved : forall segs, Permutation (flat_map pairs (collect segs)) segs.
Proof. exact collect_pairs_perm_any. Qed.

(* every returned polyline has at least one segment and follows input segments only *)
Theorem C10_polylines_are_paths : forall segs l, In l (collect segs) ->
  2 <= length l /\ incl (pairs l) segs.
Proof. intros segs l H; split; [apply (collect_nonempty segs l H) | apply (collect_path_any segs l H)]. Qed.

(* NO DANGLING ENDPOINT: when every vertex is entered exactly as often as it is left, and at most
   once (a disjoint union of directed cycles, which is what a solid strictly inside the region
   produces), every returned polyline is closed — whatever the order of the segments *)
Theorem C10_loops_are_closed : forall segs, loops segs -> forall l, In l (collect segs) -> closed l.
Proof. exact collect_closed_loops. Qed.

(* the hypothesis cannot be weakened: an open path may come back fragmented, and balanced degrees
   without manifoldness can leave open pieces *)
Theorem C10_loops_hypothesis_tight :
  (manifold [(3,4);(1,2);(2,3)] /\ ~ (forall l, In l (collect [(3,4);(1,2);(2,3)]) -> closed l)) /\
  ((forall v, out_deg v star3 = in_deg v star3) /\ ~ (forall l, In l (collect star3) -> closed l)).
Proof. split; [exact collect_closed_manifold_refuted | exact collect_closed_balanced_refuted]. Qed.

(* EMISSION on a uniform grid: for every filled / empty assignment with finitely many sign
   changes, every contour vertex is left exactly as often as it is entered, and at most once *)
Theorem C10_emission_gives_cycles : forall ins E, covers2 ins E ->
  forall v, (out_deg2 v (contour_soup ins E) = in_deg2 v (contour_soup ins E)) /\
            (out_deg2 v (contour_soup ins E) <= 1)%nat.
Proof. exact emission_loops. Qed.

(* EMISSION + WELDING: with any injective numbering of the vertices (pushVertex hands out fresh
   indices), every contour Contours::collect returns for a uniform-grid slice is closed *)
Theorem C10_uniform_grid_contours_closed : forall ins E idx,
  covers2 ins E -> inj_on idx (contour_soup ins E) ->
  forall l, In l (collect (renum idx (contour_soup ins E))) -> closed l.
Proof. exact emission_then_welding_closed. Qed.

(* non-vacuity for every finite solid: the sign-changing edges of any finite set of filled
   lattice points satisfy the hypothesis *)
Theorem C10_every_finite_solid_covered : forall F, covers2 (filled_in F) (edges_of F).
Proof. exact covers2_edges_of. Qed.

(* ------------------------------------------------------------------ *)
(* the loops BOUND the solid (uniform grid)                             *)
(* ------------------------------------------------------------------ *)
Local Open Scope Z_scope.

(* THE SEGMENTS ARE THE BOUNDARY EDGES.  A lattice edge (axis A in {1, 2}, start p) carries a segment
   iff its ends differ in [ins], then exactly one; its two ends are vertices (cell, patch >= 0) of
   the two distinct cells p - perp and p on either side of the edge, one each.  Hence the soup has
   as many segments as E has sign-changing edges; [edges_of F] lists exactly those of a finite F. *)
Theorem C10_segments_are_boundary_edges :
  (forall ins A p, is_axis2 A = true ->
     (emit2 ins A p <> [] <-> sign_change2 ins (A, p) = true) /\
     length (emit2 ins A p) = (if sign_change2 ins (A, p) then 1 else 0)%nat /\
     (forall s, In s (emit2 ins A p) ->
        emit2 ins A p = [s] /\
        ((fst (fst s) = psub2 p (bits2 (3 - A)) /\ fst (snd s) = p) \/
         (fst (fst s) = p /\ fst (snd s) = psub2 p (bits2 (3 - A)))) /\
        psub2 p (bits2 (3 - A)) <> p /\ 0 <= snd (fst s) /\ 0 <= snd (snd s))) /\
  (forall ins E, (forall e, In e E -> is_axis2 (fst e) = true) ->
     length (contour_soup ins E) = length (filter (sign_change2 ins) E)) /\
  (forall ins E, covers2 ins E -> (forall e, In e E -> sign_change2 ins e = true) ->
     length (contour_soup ins E) = length E) /\
  (forall F A p, is_axis2 A = true ->
     (In (A, p) (edges_of F) <-> sign_change2 (filled_in F) (A, p) = true)) /\
  (forall F, length (contour_soup (filled_in F) (edges_of F)) = length (edges_of F)).
Proof. exact segments_are_boundary_edges. Qed.

(* DISCRETE SEPARATION.  Along a lattice path (unit steps along the axes from p) the steps whose ends
   differ in [ins] are the steps that run through an emitted segment; their number is odd iff the
   two ends of the path differ in [ins]: inside -> outside crosses at least once, closed paths
   evenly.  With [covers2] a separating segment is in the soup. *)
Theorem C10_contours_separate_inside_from_outside :
  (forall ins p l, valid_path2 l ->
     crossings2 ins p l = segs_crossed ins p l /\
     Nat.odd (segs_crossed ins p l) = xorb (ins p) (ins (path_end2 p l)) /\
     (ins p = true -> ins (path_end2 p l) = false -> (1 <= segs_crossed ins p l)%nat) /\
     (path_end2 p l = p -> Nat.even (segs_crossed ins p l) = true)) /\
  (forall ins E p l, covers2 ins E -> valid_path2 l -> ins p <> ins (path_end2 p l) ->
     exists e s, In e (path_edges2 p l) /\ In e E /\ sign_change2 ins e = true /\
                 emit2 ins (fst e) (snd e) = [s] /\ In s (contour_soup ins E)).
Proof. exact contours_separate. Qed.

(* ORIENTATION.  [seg_dir s] = o_to - o_from on cell origins; n = the unit vector from the OUTSIDE end
   of the lattice edge to its INSIDE end.  Always seg_dir s = rot_cw n and (seg_dir s) x n = +1:
   the solid is on the LEFT of the direction of travel, for both axes and both sign configurations,
   for every segment of every soup.  libfive's contours are counter-clockwise around filled regions. *)
Theorem C10_contours_wind_consistently :
  (forall ins A p s, is_axis2 A = true -> In s (emit2 ins A p) ->
     (ins p = true /\ ins (padd2 p (bits2 A)) = false /\
      seg_dir s = rot_cw (pneg2 (bits2 A)) /\ cross2 (seg_dir s) (pneg2 (bits2 A)) = 1) \/
     (ins p = false /\ ins (padd2 p (bits2 A)) = true /\
      seg_dir s = rot_cw (bits2 A) /\ cross2 (seg_dir s) (bits2 A) = 1)) /\
  (forall ins A p s, is_axis2 A = true -> In s (emit2 ins A p) ->
     cross2 (seg_dir s) (psub2 (dbl (inside_pt ins A p)) (centre2x (fst (fst s)))) = 1 /\
     cross2 (seg_dir s) (psub2 (dbl (outside_pt ins A p)) (centre2x (fst (fst s)))) = -1) /\
  (forall ins E s, (forall e, In e E -> is_axis2 (fst e) = true) -> In s (contour_soup ins E) ->
     exists A p, In (A, p) E /\ sign_change2 ins (A, p) = true /\ emit2 ins A p = [s] /\
                 ins (inside_pt ins A p) = true /\ ins (outside_pt ins A p) = false /\
                 psub2 (inside_pt ins A p) (outside_pt ins A p) = inward ins A p /\
                 seg_dir s = rot_cw (inward ins A p) /\
                 cross2 (seg_dir s) (inward ins A p) = 1).
Proof.
  split; [exact contours_orientation | split; [exact inside_left_outside_right | exact contours_wind_consistently]].
Qed.

(* COMPUTED EXAMPLES.  2 x 2 block + two points: 16 boundary edges, 16 segments; the mask-9 saddle: 8.
   Paths with 1, 2 and (closed) 4 crossings.  Every segment of the saddles, the block and a ring
   (solid with a hole) has the solid on its left; signed areas: positive, the hole's loop negative. *)
Theorem C10_boundary_examples :
  (length (edges_of F_block) = 16%nat /\ length (soup_of F_block) = 16%nat) /\
  (mask2 (filled_in F_saddle) (0, 0) = 9 /\ length (soup_of F_saddle) = 8%nat) /\
  (valid_path2 out_path2 /\ filled_in F_block (0, 0) = true /\
   filled_in F_block (path_end2 (0, 0) out_path2) = false /\
   segs_crossed (filled_in F_block) (0, 0) out_path2 = 1%nat) /\
  (valid_path2 saddle_loop /\ path_end2 (0, 0) saddle_loop = (0, 0) /\
   segs_crossed (filled_in F_saddle) (0, 0) saddle_path = 2%nat /\
   segs_crossed (filled_in F_saddle) (0, 0) saddle_loop = 4%nat) /\
  (wind_ok (filled_in F_saddle) (edges_of F_saddle) = true /\
   wind_ok (filled_in F_saddle') (edges_of F_saddle') = true /\
   wind_ok (filled_in F_block) (edges_of F_block) = true /\
   wind_ok (filled_in F_ring) (edges_of F_ring) = true) /\
  (shoelace (soup_of F_point) = 2 /\ shoelace (soup_of F_block) = 12 /\
   shoelace (soup_of F_ring) = 16 /\
   shoelace (contour_soup (filled_in F_ring) (incident (1, 1))) = -2).
Proof. exact boundary2_examples. Qed.

Local Open Scope R_scope.

(* NEAR THE CURVE.  pos2 h og p = og + h p; f continuous along lattice edges, f < 0 at filled and
   0 < f at empty lattice points.  A sign-changing edge contains a zero of f, which lies in both
   cells adjacent to the edge; a contour vertex that lies in its own cell (HYPOTHESIS, not a
   property of the unclamped 2D QEF solve) is within sqrt 2 * h of such a zero.  Non-vacuous:
   the disc of radius 1/2 on the unit grid. *)
Theorem C10_contour_vertices_near_surface :
  (forall ins (f : R2 -> R) h og A p,
     0 <= h -> is_axis2 A = true -> edge_continuous2 f h og A p ->
     sign_at2 ins f h og p -> sign_at2 ins f h og (padd2 p (bits2 A)) ->
     emit2 ins A p <> [] ->
     exists z, f z = 0 /\ (exists t, 0 <= t <= 1 /\ z = edge_pt2 h og A p t) /\
               forall v, In v (soup_verts (emit2 ins A p)) -> in_cell2 h og (fst v) z) /\
  (forall h og c x y, 0 <= h -> in_cell2 h og c x -> in_cell2 h og c y -> dist2 x y <= sqrt 2 * h) /\
  (forall ins (f : R2 -> R) h og E (vpos : vertex2 -> R2),
     0 <= h -> (forall e, In e E -> is_axis2 (fst e) = true) ->
     (forall A p, is_axis2 A = true -> edge_continuous2 f h og A p) ->
     (forall p, sign_at2 ins f h og p) ->
     forall v, In v (soup_verts (contour_soup ins E)) -> in_cell2 h og (fst v) (vpos v) ->
       exists z, f z = 0 /\ in_cell2 h og (fst v) z /\ dist2 (vpos v) z <= sqrt 2 * h) /\
  (forall v, In v (soup_verts (contour_soup (filled_in F_point) (edges_of F_point))) ->
     exists z, disc_f z = 0 /\ in_cell2 1 O2R (fst v) z /\ dist2 (centre2 (fst v)) z <= sqrt 2).
Proof.
  split; [exact seg_cells_meet_curve | split; [exact cell_diameter2 |
          split; [exact contour_vertices_near_curve | exact disc_example]]].
Qed.

(* ------------------------------------------------------------------ *)
(* adaptive quadtrees: cells of different levels, collapsed cells        *)
(* ------------------------------------------------------------------ *)
Import QuadTree QuadTreeSem.

(* COLLAPSING IS TOPOLOGY-SAFE: one bottom-up pass of collectChildren (for EVERY verdict [ok] of the
   numerical tests) keeps the tree consistent with the lattice signs: merged cells are uniform, a
   collapsed leaf stores the signs of its own corners, has a mixed manifold mask and no filled, empty,
   filled pattern along any of its sides *)
Theorem C10_collapse_preserves_invariant : forall ins ok t o k p,
  consistent ins t o k -> consistent ins (QuadTree.collect ok k p t) o k.
Proof. exact collect_consistent. Qed.

(* EMISSION ON ANY CONSISTENT ADAPTIVE TREE: every contour vertex (leaf, patch) is left exactly as
   often as it is entered, and at most once -- whatever the levels of neighbouring leaves *)
Theorem C10_adaptive_walk_balanced : forall ins t k,
  consistent ins t (0, 0)%Z k -> boundary_clear ins k ->
  forall v, qout_deg v (contour_walk t) = qin_deg v (contour_walk t) /\ (qout_deg v (contour_walk t) <= 1)%nat.
Proof. exact walk_balanced. Qed.

(* COLLAPSE + WALK + WELDING: every contour returned for an adaptive quadtree is a closed polyline *)
Theorem C10_adaptive_contours_closed : forall ins ok pre k idx,
  consistent ins pre (0, 0)%Z k -> boundary_clear ins k ->
  let soup := contour_walk (QuadTree.collect ok k [] pre) in
  qinj_on idx soup ->
  forall l, In l (Contours.collect (qrenum idx soup)) -> closed l.
Proof. exact adaptive_contours_closed_any. Qed.

(* the hypotheses are satisfiable by EVERY lattice sign function: pruning + subdivision to unit cells
   ([build]) gives a consistent tree, so the whole pipeline is closed for every solid strictly inside
   the region, every depth and every verdict of the numerical tests *)
Theorem C10_adaptive_pipeline_closed : forall ins ok k,
  boundary_clear ins k ->
  let soup := contour_walk (QuadTree.collect ok k [] (build ins k (0, 0)%Z)) in
  (forall v, qout_deg v soup = qin_deg v soup /\ (qout_deg v soup <= 1)%nat) /\
  (forall l, In l (Contours.collect (qrenum (qcanon_idx soup) soup)) -> closed l).
Proof. exact adaptive_pipeline_closed. Qed.

(* the run-time checkers of the correspondence stage decide the hypotheses soundly *)
Theorem C10_adaptive_checkers_sound : forall ins,
  (forall t o k, consistentb ins t o k = true -> consistent ins t o k) /\
  (forall k, boundary_clearb ins k = true -> boundary_clear ins k).
Proof. intros ins; split; [exact (consistentb_sound ins) | exact (boundary_clearb_sound ins)]. Qed.

(* NON-VACUITY: a 16 x 16 lattice whose collapsed tree has leaves of levels 3, 2, 1 and 0 next to each
   other; its 11 segments weld into one closed polyline *)
Theorem C10_adaptive_example :
  consistentb ins_notch post_notch (0, 0)%Z 4%nat = true /\
  (let s := contour_walk post_notch in
   Contours.collect (qrenum (qcanon_idx s) s) = [[0; 8; 4; 7; 2; 1; 5; 10; 6; 3; 9; 0]]%nat).
Proof. split; [exact notch_post_consistent | exact notch_contours]. Qed.

(* NECESSITY: collapsing a cell on which leafsAreManifold fails gives a vertex of degree 2 / 2, and a
   solid touching the region boundary an open segment *)
Theorem C10_collapse_tests_needed :
  consistentb ins_two bad_two (0, 0)%Z 3%nat = false /\
  qout_deg ([3; 0]%Z, 0%Z) (contour_walk bad_two) = 2%nat /\ qin_deg ([3; 0]%Z, 0%Z) (contour_walk bad_two) = 2%nat.
Proof. destruct collapse_tests_needed as (_ & _ & _ & _ & _ & A & B & C & _). auto. Qed.
Theorem C10_boundary_clear_needed :
  let t := build ins_edge 1%nat (0, 0)%Z in
  consistentb ins_edge t (0, 0)%Z 1%nat = true /\ boundary_clearb ins_edge 1%nat = false /\
  contour_walk t = [(([0]%Z, 0%Z), ([2]%Z, 0%Z))].
Proof. exact boundary_clear_needed. Qed.

(* THE COLLAPSE TESTS ARE THE SOURCE'S: DCTree<2>::leafsAreManifold is re-read from dc_tree2.cpp on every run (which
   child's which corner is compared with which corners of the parent), and the corner table of cornersAreManifold too *)
Theorem C10_collapse_tests_from_source :
  (forall (cs : Z -> QuadTree.qtree) (k : Z -> bool),
     LeafsManifold_gen.leafs_manifold2_gen cs k =
     QuadTree.leafs_manifold (cs 0%Z) (cs 1%Z) (cs 2%Z) (cs 3%Z) (k 0%Z) (k 1%Z) (k 2%Z) (k 3%Z)) /\
  (forall m, (0 <= m < 16)%Z ->
     QuadTree.corners_manifold m = nth (Z.to_nat m) ManifoldTables_gen.gen_corner2 false).
Proof. split; [exact LeafsAgree.leafs_manifold2_gen_eq | exact LeafsAgree.corners_manifold2_table]. Qed.

Print Assumptions C10_segments_preserved.
Print Assumptions C10_polylines_are_paths.
Print Assumptions C10_loops_are_closed.
Print Assumptions C10_loops_hypothesis_tight.
Print Assumptions C10_emission_gives_cycles.
Print Assumptions C10_uniform_grid_contours_closed.
Print Assumptions C10_every_finite_solid_covered.
Print Assumptions C10_segments_are_boundary_edges.
Print Assumptions C10_contours_separate_inside_from_outside.
Print Assumptions C10_contours_wind_consistently.
Print Assumptions C10_boundary_examples.
Print Assumptions C10_contour_vertices_near_surface.
Print Assumptions C10_collapse_preserves_invariant.
Print Assumptions C10_adaptive_walk_balanced.
Print Assumptions C10_adaptive_contours_closed.
Print Assumptions C10_adaptive_pipeline_closed.
Print Assumptions C10_adaptive_checkers_sound.
Print Assumptions C10_adaptive_example.
Print Assumptions C10_collapse_tests_needed.
Print Assumptions C10_boundary_clear_needed.
Print Assumptions C10_collapse_tests_from_source.

(* ------------------------------------------------------------------ *)
(* C10 on ADAPTIVE quadtrees: the contour bounds the slice.  Statements only; proofs in
   Render/QuadTreeSep.v (model Render/QuadTree.v, closedness Render/QuadTreeSem.v).
   2D analogue of AdaptiveDC.C04_dc_adaptive_surface_at_sign_changes, with the converse, the
   orientation and the crossing parity.  For every sign function [ins] of the lattice and every tree
   consistent with it (collapsed cells next to finer ones, pruned cells of any size):
   - every segment of the soup is the one segment emitted for two AMBIGUOUS LEAVES facing each other
     across a minimal edge (a whole side of the smaller leaf) whose end points differ in sign;
   - every pair of leaves facing each other across a minimal edge whose end points differ in sign
     yields one segment, it is in the soup, and (clear region boundary) the soup has no duplicates;
   - the segment is directed with the inside end of its minimal edge on its LEFT;
   - a path along minimal edges crosses an odd number of segments iff its ends differ in sign. *)
Module AdaptiveSep.
Import QuadTreeSep.
Local Open Scope Z_scope.


Theorem C10_adaptive_segments_at_sign_changes : forall ins t k,
  consistent ins t (0, 0) k ->
  forall x, In x (contour_walk t) ->
  exists A a b s k', (A = 1 \/ A = 2) /\
    In a (leaves t [] (0, 0) k) /\ In b (leaves t [] (0, 0) k) /\ min_edge A a b s k' /\
    is_ambig_leaf (pc_t a) = true /\ is_ambig_leaf (pc_t b) = true /\
    ins s <> ins (adv A s (csize k')) /\
    load A (pc_cell a) (pc_cell b) = [x] /\ x = seg_of ins A a b s k'.
Proof. exact adaptive_segments_at_sign_changes. Qed.

Theorem C10_adaptive_sign_changes_give_segments : forall ins t k,
  consistent ins t (0, 0) k ->
  forall A a b s k', (A = 1 \/ A = 2) ->
    In a (leaves t [] (0, 0) k) -> In b (leaves t [] (0, 0) k) -> min_edge A a b s k' ->
    ins s <> ins (adv A s (csize k')) ->
    is_ambig_leaf (pc_t a) = true /\ is_ambig_leaf (pc_t b) = true /\
    load A (pc_cell a) (pc_cell b) = [seg_of ins A a b s k'] /\
    In (seg_of ins A a b s k') (contour_walk t) /\
    (boundary_clear ins k -> NoDup (contour_walk t)).
Proof. exact adaptive_sign_changes_give_segments. Qed.

Theorem C10_adaptive_segments_oriented : forall ins A a b s k,
  A = 1 \/ A = 2 -> ins s <> ins (adv A s (csize k)) ->
  let x := seg_of ins A a b s k in
  let fwd := if A =? 1 then ins s else ins (adv A s (csize k)) in
  let pin := if ins s then s else adv A s (csize k) in
  let pout := if ins s then adv A s (csize k) else s in
  (fwd = true -> fst (fst x) = pc_p a /\ fst (snd x) = pc_p b) /\
  (fwd = false -> fst (fst x) = pc_p b /\ fst (snd x) = pc_p a) /\
  ins pin = true /\ ins pout = false /\
  cross2 (if fwd then a_to_b A else vneg (a_to_b A)) (vsub pin pout) = csize k /\ 0 < csize k.
Proof. exact adaptive_segments_oriented. Qed.

Theorem C10_adaptive_contours_separate : forall ins t k,
  consistent ins t (0, 0) k ->
  forall l p q, Forall (step_ok t k) l -> joins p l q ->
    incl (crossed l) (contour_walk t) /\
    Nat.odd (length (crossed l)) = xorb (ins p) (ins q).
Proof. exact adaptive_contours_separate. Qed.

(* the correspondence is one to one: two minimal edges between leaves with the same segment coincide *)
Theorem C10_adaptive_edge_of_segment_unique : forall t k ins A a b s k1 A' a' b' s' k2,
  (A = 1 \/ A = 2) -> (A' = 1 \/ A' = 2) ->
  In a (leaves t [] (0, 0) k) -> In b (leaves t [] (0, 0) k) ->
  In a' (leaves t [] (0, 0) k) -> In b' (leaves t [] (0, 0) k) ->
  min_edge A a b s k1 -> min_edge A' a' b' s' k2 ->
  seg_of ins A a b s k1 = seg_of ins A' a' b' s' k2 ->
  A = A' /\ a = a' /\ b = b' /\ s = s' /\ k1 = k2.
Proof. exact adaptive_edge_of_segment_unique. Qed.


(* NON-VACUITY on the notch example (levels 3, 2, 1, 0 side by side): the minimal edge (6,8)-(6,9) between the level-0
   leaf [1;0;1;2] and the collapsed level-1 leaf [1;1;2] has a sign change, its segment is in the soup *)
Theorem C10_adaptive_separation_example :
  min_edge 2 notch_a notch_b (6, 8) 0 /\
  In (seg_of ins_notch 2 notch_a notch_b (6, 8) 0) (contour_walk post_notch).
Proof.
  split; [exact notch_min_edge|].
  destruct notch_sign_change_segment as (_ & _ & _ & _ & _ & _ & E & H). rewrite E. exact H.
Qed.
End AdaptiveSep.

Print Assumptions AdaptiveSep.C10_adaptive_segments_at_sign_changes.
Print Assumptions AdaptiveSep.C10_adaptive_sign_changes_give_segments.
Print Assumptions AdaptiveSep.C10_adaptive_segments_oriented.
Print Assumptions AdaptiveSep.C10_adaptive_contours_separate.
Print Assumptions AdaptiveSep.C10_adaptive_edge_of_segment_unique.
Print Assumptions AdaptiveSep.C10_adaptive_separation_example.
