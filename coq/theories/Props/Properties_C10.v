(* C10 — 2D contours are closed loops that bound the slice.  Statements only.

   Proved part: Contours::collect (contours.cpp), the welding of the directed segments emitted
   by the marching-squares pass into polylines; Render/Contours.v is the model (the two std::map
   tables, the chain growth and the welding walk as the code does them), Render/ContoursSem.v the
   proofs; the model is run against the implementation on segment soups by check/props/c10.py.
   Oracle-only part: that the segment soup of a solid strictly inside the region consists of
   closed cycles (each vertex entered once and left once) and winds around the solid. *)
From Coq Require Import List Arith Permutation.
From LF Require Import Render.Contours Render.ContoursSem.
Import ListNotations.

(* nothing is lost, duplicated or invented: the consecutive pairs of the returned polylines
   are exactly the input segments — for EVERY soup, in every emission order *)
Theorem C10_segments_preserved : forall segs, Permutation (flat_map pairs (collect segs)) segs.
Proof. exact collect_pairs_perm_any. Qed.

(* every returned polyline has at least one segment and follows input segments only *)
Theorem C10_polylines_are_paths : forall segs l, In l (collect segs) ->
  2 <= length l /\ incl (pairs l) segs.
Proof. intros segs l H; split; [apply (collect_nonempty segs l H) | apply (collect_path_any segs l H)]. Qed.

(* NO DANGLING ENDPOINT: when every vertex is entered exactly as often as it is left, and at most
   once (a disjoint union of directed cycles, which is what a solid strictly inside the region
   produces), every returned polyline is closed — whatever the order of the segments *)
Theorem C10_loops_are_closed : forall segs, loops segs -> forall l, In l (collect segs) -> closed l.
Proof. exact collect_closed_loops. Qed.

(* the hypothesis cannot be weakened: an open path may come back fragmented, and balanced degrees
   without manifoldness can leave open pieces *)
Theorem C10_loops_hypothesis_tight :
  (manifold [(3,4);(1,2);(2,3)] /\ ~ (forall l, In l (collect [(3,4);(1,2);(2,3)]) -> closed l)) /\
  ((forall v, out_deg v star3 = in_deg v star3) /\ ~ (forall l, In l (collect star3) -> closed l)).
Proof. split; [exact collect_closed_manifold_refuted | exact collect_closed_balanced_refuted]. Qed.

Print Assumptions C10_segments_preserved.
Print Assumptions C10_polylines_are_paths.
Print Assumptions C10_loops_are_closed.
Print Assumptions C10_loops_hypothesis_tight.
