(* C10 — 2D contours are closed loops that bound the slice.  Statements only.

   Proved part: Contours::collect (contours.cpp), the welding of the directed segments emitted
   by the marching-squares pass into polylines; Render/Contours.v is the model (the two std::map
   tables, the chain growth and the welding walk as the code does them), Render/ContoursSem.v the
   proofs; the model is run against the implementation on segment soups by check/props/c10.py.
   Emission (Render/DCGrid2.v, DCGrid2Sem.v): Dual<2>::walk + DCContourer::load on a UNIFORM grid
   with the patch tables libfive builds at start-up (Gen/MarchTables_gen.v, dumped from the
   implementation on every run): the soup is a disjoint union of directed cycles, for every
   filled / empty assignment of the lattice points.
   Oracle-only part: grids with cells of different levels (merged cells), and that the loops
   wind around the solid. *)
From Coq Require Import List Arith Permutation.
From Coq Require Import ZArith.
From LF Require Import Render.Contours Render.ContoursSem Gen.MarchTables_gen Render.DCGrid2 Render.DCGrid2Sem.
Import ListNotations.

(* nothing is lost, duplicated or invented: the consecutive pairs of the returned polylines
   are exactly the input segments — for EVERY soup, in every emission order *)
Theorem C10_segments_preserved : forall segs, Permutation (flat_map pairs (collect segs)) segs.
Proof. exact collect_pairs_perm_any. Qed.

(* every returned polyline has at least one segment and follows input segments only *)
Theorem C10_polylines_are_paths : forall segs l, In l (collect segs) ->
  2 <= length l /\ incl (pairs l) segs.
Proof. intros segs l H; split; [apply (collect_nonempty segs l H) | apply (collect_path_any segs l H)]. Qed.

(* NO DANGLING ENDPOINT: when every vertex is entered exactly as often as it is left, and at most
   once (a disjoint union of directed cycles, which is what a solid strictly inside the region
   produces), every returned polyline is closed — whatever the order of the segments *)
Theorem C10_loops_are_closed : forall segs, loops segs -> forall l, In l (collect segs) -> closed l.
Proof. exact collect_closed_loops. Qed.

(* the hypothesis cannot be weakened: an open path may come back fragmented, and balanced degrees
   without manifoldness can leave open pieces *)
Theorem C10_loops_hypothesis_tight :
  (manifold [(3,4);(1,2);(2,3)] /\ ~ (forall l, In l (collect [(3,4);(1,2);(2,3)]) -> closed l)) /\
  ((forall v, out_deg v star3 = in_deg v star3) /\ ~ (forall l, In l (collect star3) -> closed l)).
Proof. split; [exact collect_closed_manifold_refuted | exact collect_closed_balanced_refuted]. Qed.

(* EMISSION on a uniform grid: for every filled / empty assignment with finitely many sign
   changes, every contour vertex is left exactly as often as it is entered, and at most once *)
Theorem C10_emission_gives_cycles : forall ins E, covers2 ins E ->
  forall v, (out_deg2 v (contour_soup ins E) = in_deg2 v (contour_soup ins E)) /\
            (out_deg2 v (contour_soup ins E) <= 1)%nat.
Proof. exact emission_loops. Qed.

(* EMISSION + WELDING: with any injective numbering of the vertices (pushVertex hands out fresh
   indices), every contour Contours::collect returns for a uniform-grid slice is closed *)
Theorem C10_uniform_grid_contours_closed : forall ins E idx,
  covers2 ins E -> inj_on idx (contour_soup ins E) ->
  forall l, In l (collect (renum idx (contour_soup ins E))) -> closed l.
Proof. exact emission_then_welding_closed. Qed.

(* non-vacuity for every finite solid: the sign-changing edges of any finite set of filled
   lattice points satisfy the hypothesis *)
Theorem C10_every_finite_solid_covered : forall F, covers2 (filled_in F) (edges_of F).
Proof. exact covers2_edges_of. Qed.

Print Assumptions C10_segments_preserved.
Print Assumptions C10_polylines_are_paths.
Print Assumptions C10_loops_are_closed.
Print Assumptions C10_loops_hypothesis_tight.
Print Assumptions C10_emission_gives_cycles.
Print Assumptions C10_uniform_grid_contours_closed.
Print Assumptions C10_every_finite_solid_covered.
