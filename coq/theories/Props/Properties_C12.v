(* C12 — library calls leave the caller's floating-point environment intact (partial).
   The runtime state and Boost's rounding policies are observed, not modelled from
   source: the theorem propagates the per-primitive fact (validated by the harness on
   every run for every opcode x evaluator kind x input class x rounding mode x entry
   point) to all call trees and histories. *)
From Coq Require Import List.
From LF Require Import Conc.FpEnv.
From LF Require Gen.IntervalEnv_gen Conc.FpEnvOps.

Theorem C12_env_preserved :
  forall (prim : Type) (eff : prim -> fpenv -> fpenv) (history : list (call prim)),
    (forall c p, In c history -> uses prim c p -> preserving prim eff p) ->
    forall e, fold_left (fun e' c => exec prim eff c e') history e = e.
Proof. exact env_preserved. Qed.

Theorem C12_leak_propagates :
  forall (prim : Type) (eff : prim -> fpenv -> fpenv) p e,
    eff p e <> e -> exec prim eff (Seq prim (Skip prim) (Prim prim p)) e <> e.
Proof. exact leak_propagates. Qed.

(* THE OPERATIONS OF THE CLASS Interval, FROM THE SOURCE.  translate/gen_fpenv.py re-reads interval.hpp on every run and lists,
   for every control-flow path through every operation (both arms of every ?: and if, every case of mod's switch with its
   fall-through, up to the path's return), the calls of Boost interval primitives, `std::fegetround` saves and `std::fesetround`
   restores in execution order (Gen/IntervalEnv_gen.v).  Boost's primitives restore the mode themselves (policy save_state)
   except those in [FpEnvOps.leaky] - nth_root, observed - which may leave ANY mode behind.  Every path of every operation
   returns with the rounding mode it was entered with: *)
Module IntervalOps.
Import IntervalEnv_gen FpEnvOps.
Theorem C12_interval_ops_restore_mode :
  forall op p, In (op, p) all_paths ->
  forall (mode : Type) (leak : String.string -> mode -> mode) (stale m : mode), run_path mode leak stale m p = m.
Proof. exact interval_ops_restore_mode. Qed.

(* [paths_nonvacuous] (Conc/FpEnvOps.v): the table has >= 25 operations and >= 30 paths, nth_root's only path is
   [EvSave; EvPrim "nth_root"; EvRestore], and some path contains a leaky primitive *)
Theorem C12_interval_paths_nonvacuous : paths_nonvacuous.
Proof. exact interval_paths_nonvacuous. Qed.

(* [unbracketed_leaks_stmt]: the save / restore bracket is needed - without the restore (the code before the repair), with the
   path ending between the call and the restore, with the bracket after the call, or with the mode saved ONCE in a function-local
   static (then the first caller's mode is put back into every later caller), [path_ok] fails and the caller is left
   in whatever mode the primitive left *)
Theorem C12_unbracketed_leaks : unbracketed_leaks_stmt.
Proof. exact unbracketed_leaks. Qed.

(* the table's scope: outside interval.hpp no source file names a Boost interval primitive or a rounding-mode /
   FP-environment setter (157 files scanned on every run) *)
Theorem C12_no_other_rounding_sites : fpenv_foreign_sites = nil /\ 100 <= fpenv_files_scanned.
Proof. exact no_foreign_fpenv_sites. Qed.
End IntervalOps.

Print Assumptions C12_env_preserved.
Print Assumptions IntervalOps.C12_interval_ops_restore_mode.
Print Assumptions IntervalOps.C12_interval_paths_nonvacuous.
Print Assumptions IntervalOps.C12_unbracketed_leaks.
Print Assumptions IntervalOps.C12_no_other_rounding_sites.
Print Assumptions C12_leak_propagates.
