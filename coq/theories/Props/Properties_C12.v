(* C12 — library calls leave the caller's floating-point environment intact (partial).
   The runtime state and Boost's rounding policies are observed, not modelled from
   source: the theorem propagates the per-primitive fact (validated by the harness on
   every run for every opcode x evaluator kind x input class x rounding mode x entry
   point) to all call trees and histories. *)
From Coq Require Import List.
From LF Require Import Conc.FpEnv.

Theorem C12_env_preserved :
  forall (prim : Type) (eff : prim -> fpenv -> fpenv) (history : list (call prim)),
    (forall c p, In c history -> uses prim c p -> preserving prim eff p) ->
    forall e, fold_left (fun e' c => exec prim eff c e') history e = e.
Proof. exact env_preserved. Qed.

Theorem C12_leak_propagates :
  forall (prim : Type) (eff : prim -> fpenv -> fpenv) p e,
    eff p e <> e -> exec prim eff (Seq prim (Skip prim) (Prim prim p)) e <> e.
Proof. exact leak_propagates. Qed.

Print Assumptions C12_env_preserved.
Print Assumptions C12_leak_propagates.
