(* C09 — the height-map equals a brute-force scan of the voxel grid.  Statements
   only (filled from Render/HeightmapSem.v). *)
From Coq Require Import List Arith.
From LF Require Import Render.Heightmap.

(* splitting never creates or loses voxels (counted) — superseded by split_partitions *)
Theorem C09_split_sizes_example :
  let v := {| cx := 0; cy := 0; cz := 0; sx := 5; sy := 3; sz := 1 |} in
  voxels (fst (split true true true v)) + voxels (snd (split true true true v)) = voxels v.
Proof. reflexivity. Qed.
Print Assumptions C09_split_sizes_example.
