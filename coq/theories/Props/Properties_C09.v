(* C09 — the height-map equals a brute-force scan of the voxel grid.  Statements
   only.  [inside i j k] is the sign of the expression at the centre of voxel
   (i,j,k); [classify] is the interval evaluator, only assumed sound
   ([classify_sound]: a view classified Filled has every voxel centre inside, Empty
   none — properties C02 and C05); depths are z indices (voxel centres increase
   with the index), None = minus infinity. *)
From Coq Require Import List Arith Permutation.
From LF Require Import Render.Heightmap Render.HeightmapSem.

(* splitting a view partitions its voxels exactly, for every axis mask *)
Theorem C09_split_partitions : forall (mx my mz : bool) (v : view),
  let lo := fst (split mx my mz v) in
  let hi := snd (split mx my mz v) in
  let a := pick_axis mx my mz v in
  (forall i j k, in_view v i j k <-> in_view lo i j k \/ in_view hi i j k) /\
  (forall i j k, ~ (in_view lo i j k /\ in_view hi i j k)) /\
  voxels lo + voxels hi = voxels v /\
  (2 <= axis_size a v ->
     1 <= axis_size a lo < axis_size a v /\ 1 <= axis_size a hi < axis_size a v /\
     (1 <= voxels v -> 1 <= voxels lo < voxels v /\ 1 <= voxels hi < voxels v)) /\
  (mx = true -> sx v <= axis_size a v) /\
  (my = true -> sy v <= axis_size a v) /\
  (mz = true -> sz v <= axis_size a v).
Proof. exact split_partitions. Qed.

(* rendering a view leaves every pixel at the maximum of its old depth and the
   topmost inside voxel of its column: exactly the brute-force scan, whatever the
   (sound) interval oracle answers and however blocks get skipped, filled or split *)
Theorem C09_recurse_eq_brute :
  forall (inside : nat -> nat -> nat -> bool) (classify : view -> cls) (limit : nat),
    classify_sound inside classify -> 1 <= limit ->
    forall (fuel : nat) (v : view) (im : image),
      sx v + sy v + sz v <= fuel + 2 ->
      forall i j, in_xy v i j ->
        recurse inside classify fuel limit v im i j = omax (im i j) (brute inside v i j).
Proof. exact recurse_eq_brute. Qed.

(* the whole render: any worker count, any order of the per-worker regions *)
Theorem C09_render_eq_brute :
  forall inside classify (limit fuel pfuel workers : nat) (root : view) (vs : list view),
    classify_sound inside classify -> 1 <= limit ->
    sx root + sy root + sz root <= fuel + 2 ->
    Permutation (partition pfuel workers (root :: nil)) vs ->
    forall i j,
      (in_xy root i j ->
         render_list inside classify fuel limit vs (fun _ _ => None) i j = brute inside root i j) /\
      (~ in_xy root i j ->
         render_list inside classify fuel limit vs (fun _ _ => None) i j = None).
Proof. exact render_partition_eq_brute. Qed.

Theorem C09_workers_independent :
  forall inside classify (limit fuel pf1 pf2 w1 w2 : nat) (root : view) (vs1 vs2 : list view),
    classify_sound inside classify -> 1 <= limit ->
    sx root + sy root + sz root <= fuel + 2 ->
    Permutation (partition pf1 w1 (root :: nil)) vs1 ->
    Permutation (partition pf2 w2 (root :: nil)) vs2 ->
    forall i j,
      render_list inside classify fuel limit vs1 (fun _ _ => None) i j =
      render_list inside classify fuel limit vs2 (fun _ _ => None) i j.
Proof. exact render_workers_independent. Qed.

Print Assumptions C09_split_partitions.
Print Assumptions C09_recurse_eq_brute.
Print Assumptions C09_render_eq_brute.
Print Assumptions C09_workers_independent.

(* THE RECURSION IS THE SOURCE'S.  translate/gen_heightmap.py re-reads Heightmap::recurse (heightmap.cpp) on every run: the
   order of its tests (everything already at the top of the view; small enough for pixel-by-pixel; interval classification),
   the fill condition `out.isFilled() && out.isSafe()`, the recursion condition `!out.isEmpty()`, the default split mask and
   the order of the two recursive calls (rs.second, the higher half, first) - statements recognised by their parsed shape,
   conditions and actions translated (Gen/HeightmapRecurse_gen.v).  It is the model's [recurse] with the classification
   oracle read off the interval result as the code reads it ([classify_of]): *)
From LF Require Gen.HeightmapRecurse_gen Render.HeightmapAgree.
Theorem C09_recurse_from_source :
  forall (inside : nat -> nat -> nat -> bool) (filled safe empty : view -> bool) fuel limit v im,
    HeightmapRecurse_gen.recurse_gen inside filled safe empty fuel limit v im
    = recurse inside (HeightmapAgree.classify_of filled safe empty) fuel limit v im.
Proof. exact HeightmapAgree.recurse_gen_eq. Qed.
Print Assumptions C09_recurse_from_source.
