(* C19 — bounded QEF solutions stay in their cell and report their true error.
   Statements only.  [bounded_search] is the descending-dimension search of
   QEF<N>::solveBounded over the candidates returned by the (oracle) constrained
   least-squares solve for each of the 3^N - 1 proper subspaces; the accumulation
   and the error formula are the matrices of qef.hpp. *)
From Coq Require Import Reals List Arith Permutation.
From LF Require Import Render.Qef Render.QefSem.

(* the position returned by the search lies in the box, whenever the corner
   candidates have comparable (non-NaN) errors; bounds only need to be ordered *)
Theorem C19_bounded_in_box :
  forall (num : Type) (Q : qops (num:=num)) (lo hi : vec) (cands : nat -> cand) (n : nat),
    1 <= n -> length lo = n -> length hi = n -> box_ok Q lo hi n ->
    (forall j, j < 3 ^ n -> pinned_ok Q n lo hi j (c_pos (cands j))) ->
    (forall j, j < 3 ^ n -> dimension n j = 0 -> q_ltb Q (c_err (cands j)) (q_inf Q) = true) ->
    contains Q lo hi (c_pos (bounded_search Q n lo hi cands)) = true.
Proof. exact @bounded_in_box. Qed.

(* if moreover one face candidate has a comparable error, the result is one of the
   candidates, with its constrained axes exactly on their faces *)
Theorem C19_returns_pinned_candidate :
  forall (num : Type) (Q : qops (num:=num)) (lo hi : vec) (cands : nat -> cand) (n : nat),
    1 <= n -> length lo = n -> length hi = n -> box_ok Q lo hi n ->
    (forall j, j < 3 ^ n -> pinned_ok Q n lo hi j (c_pos (cands j))) ->
    (forall j, j < 3 ^ n -> dimension n j = 0 -> q_ltb Q (c_err (cands j)) (q_inf Q) = true) ->
    forall j0, j0 < 3 ^ n -> dimension n j0 = n - 1 ->
      q_ltb Q (c_err (cands j0)) (q_inf Q) = true ->
      exists j, j < 3 ^ n /\ dimension n j <= n - 1 /\
        bounded_search Q n lo hi cands = cands j /\
        pinned_ok Q n lo hi j (c_pos (cands j)) /\
        contains Q lo hi (c_pos (cands j)) = true.
Proof. exact @search_returns_true_candidate. Qed.

(* the comparability premise is necessary: with NaN errors everywhere (what zero
   samples produced before the repair) the search returns its dummy, outside the box *)
Theorem C19_nan_errors_refuted :
  let r := bounded_search TQ 1 zs_lo zs_hi zs_cands in
  1 <= 1 /\ length zs_lo = 1 /\ length zs_hi = 1 /\ box_ok TQ zs_lo zs_hi 1 /\
  (forall j, j < 3 ^ 1 -> pinned_ok TQ 1 zs_lo zs_hi j (c_pos (zs_cands j))) /\
  (forall j, c_err (zs_cands j) = TNaN) /\
  r = dummy TQ 1 /\ c_pos r = (TFin 0 :: nil) /\ c_err r = TInf /\
  contains TQ zs_lo zs_hi (c_pos r) = false.
Proof. exact zero_sample_failure. Qed.

(* the error is a sum of squared residuals, hence non-negative, for every sample
   list (any number of samples, rank-deficient, parallel normals ...) *)
Theorem C19_error_is_sum_of_squares :
  forall (rinf : R) (n : nat) (ss : list sample) (pos : list R) (value : R),
    Forall (sample_dim n) ss -> length pos = n ->
    qerror (RQ rinf) (accum rinf ss (qef0 (RQ rinf) n)) pos value = SS rinf ss pos value.
Proof. exact error_is_sum_of_squares. Qed.

Theorem C19_error_nonneg :
  forall (rinf : R) (n : nat) (ss : list sample) (pos : list R) (value : R),
    Forall (sample_dim n) ss -> length pos = n ->
    (0 <= qerror (RQ rinf) (accum rinf ss (qef0 (RQ rinf) n)) pos value)%R.
Proof. exact error_nonneg. Qed.

(* accumulating samples is order-independent: the three matrices are equal *)
Theorem C19_insert_perm :
  forall (rinf : R) (ss ss' : list sample),
    Permutation ss ss' -> forall q, accum rinf ss q = accum rinf ss' q.
Proof. exact insert_perm_eq. Qed.

Print Assumptions C19_bounded_in_box.
Print Assumptions C19_returns_pinned_candidate.
Print Assumptions C19_nan_errors_refuted.
Print Assumptions C19_error_is_sum_of_squares.
Print Assumptions C19_error_nonneg.
Print Assumptions C19_insert_perm.
