(* C19 — bounded QEF solutions stay in their cell and report their true error.
   Statements only (filled from Render/QefSem.v). *)
From Coq Require Import List Arith.
From LF Require Import Render.Qef.

(* sanity of the subspace numbering (a finite test, superseded by QefSem.v):
   26 = 222_3 is the whole cell, 0 = 000_3 a corner, 5 = 12_3 an edge of a square *)
Theorem C19_dimension_examples : dimension 3 26 = 3 /\ dimension 3 0 = 0 /\ dimension 2 5 = 1.
Proof. repeat split; reflexivity. Qed.
Print Assumptions C19_dimension_examples.
