(* C08 — saved shapes load back as the same shapes; the opcode numbering is frozen.
   Statements only. *)
From Coq Require Import List NArith Bool.
From LF Require Import Base.Opcode Base.Num Base.Arena Base.Sem Tree.Build Tree.BuildSem Gen.OpcodeTable_gen Serial.Codec Serial.CodecSem.
Import ListNotations.

(* The numbering regenerated from opcode.hpp on this run is the frozen on-disk
   table (files written by earlier versions keep their meaning) ... *)
Theorem C08_opcode_table_frozen :
  gen_codes = map (fun o => (o, code o)) all_opcodes /\ gen_last_op = LAST_OP /\
  gen_end_of_item = END_OF_ITEM.
Proof. repeat split; reflexivity. Qed.

(* ... every code is a distinct byte below LAST_OP <= 254, so none collides with
   the END_OF_ITEM marker, and decoding inverts encoding *)
Theorem C08_codes_injective_bytes :
  (forall a b, code a = code b -> a = b) /\
  (forall o, (code o < LAST_OP)%N) /\ (LAST_OP <= 254)%N /\
  (forall o, code o <> END_OF_ITEM) /\
  (forall o, of_code (code o) = Some o).
Proof.
  repeat split.
  - exact code_inj.
  - exact code_lt_last.
  - discriminate.
  - exact code_ne_end.
  - exact of_code_code.
Qed.

(* arities / commutativity / idempotence used by the codec and the optimiser
   are the ones of opcode.cpp *)
Theorem C08_opcode_attributes :
  forallb (fun p => match args (fst p), snd p with
                    | Some a, Some b => Nat.eqb a b
                    | None, None => true
                    | _, _ => false end) gen_args = true /\
  length gen_args = length all_opcodes /\
  forallb (fun o => Bool.eqb (is_commutative o) (existsb (opcode_eqb o) gen_commutative)) all_opcodes = true /\
  forallb (fun o => Bool.eqb (is_idempotent o) (existsb (opcode_eqb o) gen_idempotent)) all_opcodes = true.
Proof. repeat split; reflexivity. Qed.

(* any byte string (quotes, backslashes, NUL, 0xFF, empty ...) round-trips *)
Theorem C08_string_roundtrip : forall s rest : list byte,
  deser_string (ser_string s ++ rest) = (s, rest).
Proof. exact string_roundtrip. Qed.

Theorem C08_u32_roundtrip : forall (n : N) (rest : list byte),
  (n < 2 ^ 32)%N -> read_u32 (u32le n ++ rest) = (n, rest).
Proof. exact u32_roundtrip. Qed.

(* the variable section: each named variable is bound to the reloaded tree at the
   same stream position (the look-ahead for END_OF_ITEM peeks, it does not consume
   the opening quote) *)
Theorem C08_vars_roundtrip : forall (trees : list nat) (ids : idmap) (vs : list (nat * list byte))
    (fuel : nat) (rest : list N),
  vars_ok ids vs -> length vs < fuel ->
  deser_vars fuel trees (ser_vars ids vs ++ [END_OF_ITEM] ++ rest) [] =
  (map (fun v => (tget trees (id_at ids (fst v)), snd v)) vs, rest).
Proof. exact vars_roundtrip. Qed.

(* whole archives: any number of shapes (with shared sub-trees and 't'
   back-references) serialise to bytes that deserialise -- by re-running the smart
   constructors into any well-formed arena -- to shapes related to the originals ... *)
Theorem C08_archive_roundtrip :
  forall (num : Type) (O : ops num) (osem : nat -> num -> num -> num -> num), laws O ->
  forall (enc : num -> N) (dec : N -> num) (a : arena num), arena_wf a ->
  forall (shapes : list shape) (b : arena num),
    Forall (shape_ok enc dec a) shapes -> arena_wf b -> base_ok O b ->
    (N.of_nat (total_nodes a shapes) <= 2 ^ 32)%N ->
    exists bytes ids' b' trees' shapes',
      serialize O enc a shapes = (a, bytes) /\
      deserialize O dec b bytes = (b', shapes') /\
      rel O osem a ids' b' trees' /\ extends b b' /\
      Forall2 (shape_rel ids' trees') shapes shapes'.
Proof. intros num O osem HL enc dec a Hwf. exact (archive_roundtrip O osem HL enc dec a Hwf). Qed.

(* ... where "related" means: same name, same docstring, the root denotes the same
   function (for environments that agree on X,Y,Z and give each reloaded variable
   the value of the variable it came from), each named variable keeps its name and
   is bound to the corresponding reloaded variable *)
Theorem C08_shape_rel_meaning :
  forall (num : Type) (O : ops num) (osem : nat -> num -> num -> num -> num)
         (a : arena num) (ids : idmap) (b : arena num) (trees : list nat) (s s' : shape),
    rel O osem a ids b trees -> shape_rel ids trees s s' ->
    sh_name s' = sh_name s /\ sh_doc s' = sh_doc s /\
    (forall r r', env_corr a ids trees r r' ->
       val O osem b (sh_tree s') r' = val O osem a (sh_tree s) r) /\
    Forall2 (fun v v' : nat * list byte =>
       snd v' = snd v /\
       (forall r r', env_corr a ids trees r r' -> val O osem b (fst v') r' = val O osem a (fst v) r) /\
       (getn a (fst v) = NNullary VAR_FREE ->
        getn b (fst v') = NNullary VAR_FREE /\
        (forall r r', env_corr a ids trees r r' -> ev r' (fst v') = ev r (fst v))))
      (sh_vars s) (sh_vars s').
Proof. intros; eapply shape_rel_sem; eassumption. Qed.

Print Assumptions C08_opcode_table_frozen.
Print Assumptions C08_codes_injective_bytes.
Print Assumptions C08_opcode_attributes.
Print Assumptions C08_string_roundtrip.
Print Assumptions C08_u32_roundtrip.
Print Assumptions C08_vars_roundtrip.
Print Assumptions C08_archive_roundtrip.
Print Assumptions C08_shape_rel_meaning.

(* THE FORMAT'S BYTE CONSTANTS ARE THE SOURCE'S.  translate/gen_serial.py re-reads serializer.cpp / deserializer.cpp on every run:
   the shape tags written by serializeShape and accepted by the deserialiser, the string delimiter and the escape rule of
   serializeString (recognised by shape: quote, per character `if (c == Q || c == B) put(B); put(c)`, quote) -
   Gen/SerialConst_gen.v - and they are the constants of the codec model the round-trip theorem is about (the opcode numbering
   and END_OF_ITEM are tied by Gen/OpcodeTable_gen.v) *)
From LF Require Gen.SerialConst_gen.
Theorem C08_format_constants_from_source :
  SerialConst_gen.tag_full_gen = TAG_T /\ SerialConst_gen.tag_ref_gen = TAG_t /\
  SerialConst_gen.tag_read_1_gen = TAG_T /\ SerialConst_gen.tag_read_2_gen = TAG_t /\
  SerialConst_gen.quote_gen = QUOTE /\ SerialConst_gen.escape_gen = BSLASH /\
  SerialConst_gen.escaped_1_gen = QUOTE /\ SerialConst_gen.escaped_2_gen = BSLASH.
Proof. repeat split. Qed.
Print Assumptions C08_format_constants_from_source.
