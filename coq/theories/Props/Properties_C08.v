(* C08 — saved shapes load back as the same shapes; the opcode numbering is frozen.
   Statements only. *)
From Coq Require Import List NArith Bool.
From LF Require Import Base.Opcode Gen.OpcodeTable_gen.
Import ListNotations.

(* The numbering regenerated from opcode.hpp on this run is the frozen on-disk
   table (files written by earlier versions keep their meaning) ... *)
Theorem C08_opcode_table_frozen :
  gen_codes = map (fun o => (o, code o)) all_opcodes /\ gen_last_op = LAST_OP /\
  gen_end_of_item = END_OF_ITEM.
Proof. repeat split; reflexivity. Qed.

(* ... every code is a distinct byte below LAST_OP <= 254, so none collides with
   the END_OF_ITEM marker, and decoding inverts encoding *)
Theorem C08_codes_injective_bytes :
  (forall a b, code a = code b -> a = b) /\
  (forall o, (code o < LAST_OP)%N) /\ (LAST_OP <= 254)%N /\
  (forall o, code o <> END_OF_ITEM) /\
  (forall o, of_code (code o) = Some o).
Proof.
  repeat split.
  - exact code_inj.
  - exact code_lt_last.
  - discriminate.
  - exact code_ne_end.
  - exact of_code_code.
Qed.

(* arities / commutativity / idempotence used by the codec and the optimiser
   are the ones of opcode.cpp *)
Theorem C08_opcode_attributes :
  forallb (fun p => match args (fst p), snd p with
                    | Some a, Some b => Nat.eqb a b
                    | None, None => true
                    | _, _ => false end) gen_args = true /\
  length gen_args = length all_opcodes /\
  forallb (fun o => Bool.eqb (is_commutative o) (existsb (opcode_eqb o) gen_commutative)) all_opcodes = true /\
  forallb (fun o => Bool.eqb (is_idempotent o) (existsb (opcode_eqb o) gen_idempotent)) all_opcodes = true.
Proof. repeat split; reflexivity. Qed.

Print Assumptions C08_opcode_table_frozen.
Print Assumptions C08_codes_injective_bytes.
Print Assumptions C08_opcode_attributes.
