(* Opcodes of libfive (tree/opcode.hpp, unpacked numbering) and their static
   attributes (opcode.cpp: args, isCommutative, isIdempotent).
   OpcodeTable_gen.v is regenerated from /repo on every run and must agree. *)
From Coq Require Import List NArith Bool.
Import ListNotations.

Inductive opcode :=
| INVALID | CONSTANT | VAR_X | VAR_Y | VAR_Z | VAR_FREE | CONST_VAR
| OP_SQUARE | OP_SQRT | OP_NEG | OP_SIN | OP_COS | OP_TAN | OP_ASIN | OP_ACOS
| OP_ATAN | OP_EXP | OP_ABS | OP_LOG | OP_RECIP
| OP_ADD | OP_MUL | OP_MIN | OP_MAX | OP_SUB | OP_DIV | OP_ATAN2 | OP_POW
| OP_NTH_ROOT | OP_MOD | OP_NANFILL | OP_COMPARE
| ORACLE.

Definition all_opcodes : list opcode :=
  [INVALID; CONSTANT; VAR_X; VAR_Y; VAR_Z; VAR_FREE; CONST_VAR;
   OP_SQUARE; OP_SQRT; OP_NEG; OP_SIN; OP_COS; OP_TAN; OP_ASIN; OP_ACOS;
   OP_ATAN; OP_EXP; OP_ABS; OP_LOG; OP_RECIP;
   OP_ADD; OP_MUL; OP_MIN; OP_MAX; OP_SUB; OP_DIV; OP_ATAN2; OP_POW;
   OP_NTH_ROOT; OP_MOD; OP_NANFILL; OP_COMPARE; ORACLE].

(* The frozen on-disk numbering (files written by earlier versions). *)
Definition code (o : opcode) : N :=
  match o with
  | INVALID => 0 | CONSTANT => 1 | VAR_X => 2 | VAR_Y => 3 | VAR_Z => 4
  | VAR_FREE => 5 | CONST_VAR => 6
  | OP_SQUARE => 7 | OP_SQRT => 8 | OP_NEG => 9 | OP_SIN => 10 | OP_COS => 11
  | OP_TAN => 12 | OP_ASIN => 13 | OP_ACOS => 14 | OP_ATAN => 15 | OP_EXP => 16
  | OP_ABS => 28 | OP_LOG => 30 | OP_RECIP => 29
  | OP_ADD => 17 | OP_MUL => 18 | OP_MIN => 19 | OP_MAX => 20 | OP_SUB => 21
  | OP_DIV => 22 | OP_ATAN2 => 23 | OP_POW => 24 | OP_NTH_ROOT => 25
  | OP_MOD => 26 | OP_NANFILL => 27 | OP_COMPARE => 31
  | ORACLE => 32
  end%N.

Definition LAST_OP : N := 33.
Definition END_OF_ITEM : N := 255.

(* Opcode::args; None = the "-1" answer for INVALID *)
Definition args (o : opcode) : option nat :=
  match o with
  | CONSTANT | VAR_X | VAR_Y | VAR_Z | VAR_FREE | ORACLE => Some 0
  | OP_SQUARE | OP_SQRT | OP_NEG | OP_SIN | OP_COS | OP_TAN | OP_ASIN
  | OP_ACOS | OP_ATAN | OP_EXP | OP_ABS | OP_LOG | OP_RECIP | CONST_VAR => Some 1
  | OP_ADD | OP_MUL | OP_MIN | OP_MAX | OP_SUB | OP_DIV | OP_ATAN2 | OP_POW
  | OP_NTH_ROOT | OP_MOD | OP_NANFILL | OP_COMPARE => Some 2
  | INVALID => None
  end.

Definition is_commutative (o : opcode) : bool :=
  match o with OP_ADD | OP_MUL | OP_MIN | OP_MAX => true | _ => false end.

Definition is_idempotent (o : opcode) : bool :=
  match o with OP_MIN | OP_MAX => true | _ => false end.

Definition opcode_eqb (a b : opcode) : bool := N.eqb (code a) (code b).

Definition of_code (n : N) : option opcode :=
  find (fun o => N.eqb (code o) n) all_opcodes.

Lemma code_inj : forall a b, code a = code b -> a = b.
Proof. intros a b; destruct a; destruct b; simpl; intro H; try reflexivity; discriminate H. Qed.

Lemma opcode_eqb_eq a b : opcode_eqb a b = true <-> a = b.
Proof.
  unfold opcode_eqb. rewrite N.eqb_eq. split; [apply code_inj | intros ->; reflexivity].
Qed.

Lemma opcode_eqb_refl a : opcode_eqb a a = true.
Proof. apply opcode_eqb_eq; reflexivity. Qed.

Lemma opcode_eq_dec : forall a b : opcode, {a = b} + {a <> b}.
Proof. decide equality. Defined.

Lemma of_code_code : forall o, of_code (code o) = Some o.
Proof. destruct o; reflexivity. Qed.

Lemma all_opcodes_complete : forall o, In o all_opcodes.
Proof. destruct o; simpl; tauto. Qed.

Lemma code_lt_last : forall o, (code o < LAST_OP)%N.
Proof. destruct o; reflexivity. Qed.

Lemma code_ne_end : forall o, code o <> END_OF_ITEM.
Proof. destruct o; discriminate. Qed.
