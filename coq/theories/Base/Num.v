(* Abstract numbers.  Every model function that computes with "numbers" lives
   in a Section over [num] and an [ops num] record, so that (a) theorems about
   real-valued meaning instantiate it with R, (b) theorems about bit-identity /
   history independence hold for every instance (binary32 included), and (c) the
   extracted OCaml functions take the record as an argument: the driver passes
   binary32-on-doubles, doubles or rationals with no Extract Constant. *)
From LF Require Import Base.Opcode.

Record ops (num : Type) := {
  o_un   : opcode -> num -> num;          (* unary kernels, by opcode *)
  o_bin  : opcode -> num -> num -> num;   (* binary kernels, by opcode *)
  o_zero : num;
  o_one  : num;
  o_eqb  : num -> num -> bool;            (* C++ operator== on float *)
  o_ltb  : num -> num -> bool;            (* C++ operator<  on float *)
  o_isnan : num -> bool;
}.
Arguments o_un {num}. Arguments o_bin {num}. Arguments o_zero {num}.
Arguments o_one {num}. Arguments o_eqb {num}. Arguments o_ltb {num}.
Arguments o_isnan {num}.

Section Derived.
  Context {num : Type} (O : ops num).
  Definition o_neg (a : num) := o_un O OP_NEG a.
  Definition o_add (a b : num) := o_bin O OP_ADD a b.
  Definition o_sub (a b : num) := o_bin O OP_SUB a b.
  Definition o_mul (a b : num) := o_bin O OP_MUL a b.
  Definition o_div (a b : num) := o_bin O OP_DIV a b.
  Definition o_mone : num := o_neg (o_one O).
End Derived.
