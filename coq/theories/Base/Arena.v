(* The expression heap as an append-only SSA arena.

   A libfive Tree handle is a pointer into an immutable DAG whose nodes only
   ever reference older nodes; pointer identity is observable (x*x -> square,
   min(x,x) -> x, flatten reuses a node iff no child changed).  The model keeps
   the heap as a list of node shapes whose *indices are the identities*. *)
From Coq Require Import List Arith Bool Lia.
From LF Require Import Base.Opcode Base.Num.
Import ListNotations.

Section Arena.
  Context {num : Type}.

  Inductive node :=
  | NConst (c : num)
  | NNullary (op : opcode)            (* VAR_X VAR_Y VAR_Z VAR_FREE *)
  | NUnary (op : opcode) (a : nat)
  | NBinary (op : opcode) (a b : nat)
  | NOracle (k : nat)                 (* opaque oracle number k *)
  | NOracleT (x y z u : nat)          (* TransformedOracleClause: oracle u at (x,y,z) *)
  | NRemap (x y z t : nat)
  | NApply (v e t : nat)              (* v: id of a VAR_FREE node *)
  | NInvalid.

  Definition arena := list node.

  Definition getn (a : arena) (i : nat) : node := nth i a NInvalid.

  (* TreeData::op() *)
  Definition node_op (n : node) : opcode :=
    match n with
    | NConst _ => CONSTANT
    | NNullary op => op
    | NUnary op _ => op
    | NBinary op _ _ => op
    | NOracle _ => ORACLE
    | NOracleT _ _ _ _ => ORACLE
    | NRemap _ _ _ _ | NApply _ _ _ | NInvalid => INVALID
    end.

  (* every child index is older than the node itself *)
  Definition node_wf (len : nat) (n : node) : Prop :=
    match n with
    | NUnary op a => a < len /\ args op = Some 1
    | NBinary op a b => a < len /\ b < len /\ args op = Some 2
    | NRemap x y z t => x < len /\ y < len /\ z < len /\ t < len
    | NOracleT x y z t => x < len /\ y < len /\ z < len /\ t < len
    | NApply v e t => v < len /\ e < len /\ t < len
    | _ => True
    end.

  Fixpoint arena_wf_from (k : nat) (a : arena) : Prop :=
    match a with
    | [] => True
    | n :: r => node_wf k n /\ arena_wf_from (S k) r
    end.
  Definition arena_wf (a : arena) := arena_wf_from 0 a.

  Lemma arena_wf_from_app k a b :
    arena_wf_from k (a ++ b) <-> arena_wf_from k a /\ arena_wf_from (k + length a) b.
  Proof.
    revert k; induction a as [|n a IH]; intros k; simpl.
    - rewrite Nat.add_0_r; tauto.
    - rewrite IH. replace (S k + length a) with (k + S (length a)) by lia. tauto.
  Qed.

  Lemma arena_wf_snoc a n :
    arena_wf (a ++ [n]) <-> arena_wf a /\ node_wf (length a) n.
  Proof. unfold arena_wf; rewrite arena_wf_from_app; simpl; tauto. Qed.

  Lemma arena_wf_nth_from k a i :
    arena_wf_from k a -> i < length a -> node_wf (k + i) (nth i a NInvalid).
  Proof.
    revert k i; induction a as [|n a IH]; intros k i Hwf Hi; simpl in *; [lia|].
    destruct Hwf as [Hn Hr]. destruct i as [|i].
    - rewrite Nat.add_0_r; exact Hn.
    - replace (k + S i) with (S k + i) by lia. apply IH; [exact Hr | lia].
  Qed.

  Lemma arena_wf_nth a i : arena_wf a -> i < length a -> node_wf i (getn a i).
  Proof. intros; unfold getn; apply (arena_wf_nth_from 0); assumption. Qed.

  (* push a node, returning the extended arena and the new identity *)
  Definition push (a : arena) (n : node) : arena * nat := (a ++ [n], length a).

  Lemma getn_app_old a b i : i < length a -> getn (a ++ b) i = getn a i.
  Proof. intros; unfold getn; apply app_nth1; assumption. Qed.

  Lemma getn_snoc_new a n : getn (a ++ [n]) (length a) = n.
  Proof. unfold getn; rewrite app_nth2, Nat.sub_diag by lia; reflexivity. Qed.

End Arena.
Arguments node : clear implicits.
Arguments arena : clear implicits.
