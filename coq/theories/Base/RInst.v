(* The real-number instance of [ops]: the reference semantics the properties
   talk about.  Opcodes whose meaning the rewriting rules never look inside
   (sin cos tan asin acos atan exp log sqrt; atan2 pow nth_root mod nanfill
   compare) are Section variables: every theorem holds for *every*
   interpretation of them (subject to f x 1 = x for pow / nth_root, which is
   what the construction rules use). *)
From Coq Require Import Reals Lra Bool.
From LF Require Import Base.Opcode Base.Num Base.Arena Base.Sem Tree.Build Tree.BuildSem.
Local Open Scope R_scope.

Section RInst.
  Variable uf : opcode -> R -> R.
  Variable bf : opcode -> R -> R -> R.
  Hypothesis pow_1 : forall x, bf OP_POW x 1 = x.
  Hypothesis root_1 : forall x, bf OP_NTH_ROOT x 1 = x.

  Definition R_un (op : opcode) (a : R) : R :=
    match op with
    | OP_SQUARE => a * a
    | OP_NEG => - a
    | OP_ABS => Rabs a
    | OP_RECIP => / a
    | CONST_VAR => a
    | _ => uf op a
    end.

  Definition R_bin (op : opcode) (a b : R) : R :=
    match op with
    | OP_ADD => a + b
    | OP_MUL => a * b
    | OP_MIN => Rmin a b
    | OP_MAX => Rmax a b
    | OP_SUB => a - b
    | OP_DIV => a / b
    | _ => bf op a b
    end.

  Definition R_ops : ops R :=
    {| o_un := R_un; o_bin := R_bin; o_zero := 0; o_one := 1;
       o_eqb := fun a b => if Req_EM_T a b then true else false;
       o_ltb := fun a b => if Rlt_dec a b then true else false;
       o_isnan := fun _ => false |}.

  Lemma R_eqb_true a b : o_eqb R_ops a b = true -> a = b.
  Proof. simpl; destruct (Req_EM_T a b); [auto | discriminate]. Qed.

  Theorem R_laws : laws R_ops.
  Proof.
    constructor; unfold o_add, o_sub, o_mul, o_div, o_neg, o_mone, o_neg; simpl; intros.
    - apply R_eqb_true; assumption.
    - lra. - lra. - lra. - lra. - lra. - lra. - lra. - lra. - lra. - lra. - lra. - lra. - lra.
    - reflexivity.
    - unfold Rdiv; rewrite Rinv_1; lra.
    - apply pow_1.
    - apply root_1.
    - unfold Rmin; destruct (Rle_dec x x); reflexivity.
    - unfold Rmax; destruct (Rle_dec x x); reflexivity.
    - apply Rabs_Rabsolu.
    - apply Rabs_pos_eq. nra.
    - lra.
  Qed.
End RInst.
