(* Denotational semantics of arena nodes: the mathematical definitions the
   properties refer to (remap = composition with the coordinate maps,
   apply = lexically scoped substitution). *)
From Coq Require Import List Arith Bool Lia.
From LF Require Import Base.Opcode Base.Num Base.Arena.
Import ListNotations.

Section Sem.
  Context {num : Type} (O : ops num).
  Variable oracle_sem : nat -> num -> num -> num -> num.  (* opaque oracle k at (x,y,z) *)

  Record env := { ex : num; ey : num; ez : num; ev : nat -> num }.

  Definition upd_xyz (r : env) (x y z : num) : env :=
    {| ex := x; ey := y; ez := z; ev := ev r |}.
  Definition upd_var (r : env) (v : nat) (c : num) : env :=
    {| ex := ex r; ey := ey r; ez := ez r;
       ev := fun w => if Nat.eqb w v then c else ev r w |}.

  Definition dflt : env -> num := fun _ => o_zero O.
  Definition getv (vs : list (env -> num)) (i : nat) : env -> num := nth i vs dflt.

  (* value of a node whose children are among [vs]; [self] is its own id *)
  Definition nodeval (vs : list (env -> num)) (self : nat) (n : node num) : env -> num :=
    fun r =>
    match n with
    | NConst c => c
    | NNullary VAR_X => ex r
    | NNullary VAR_Y => ey r
    | NNullary VAR_Z => ez r
    | NNullary VAR_FREE => ev r self
    | NNullary _ => o_zero O
    | NUnary op a => o_un O op (getv vs a r)
    | NBinary op a b => o_bin O op (getv vs a r) (getv vs b r)
    | NOracle k => oracle_sem k (ex r) (ey r) (ez r)
    | NRemap x y z t => getv vs t (upd_xyz r (getv vs x r) (getv vs y r) (getv vs z r))
    | NOracleT x y z t => getv vs t (upd_xyz r (getv vs x r) (getv vs y r) (getv vs z r))
    | NApply v e t => getv vs t (upd_var r v (getv vs e r))
    | NInvalid => o_zero O
    end.

  Definition vals_step (vs : list (env -> num)) (n : node num) :=
    vs ++ [nodeval vs (length vs) n].
  Definition vals (a : arena num) : list (env -> num) := fold_left vals_step a [].
  Definition val (a : arena num) (i : nat) : env -> num := getv (vals a) i.

  Lemma vals_snoc a n : vals (a ++ [n]) = vals a ++ [nodeval (vals a) (length (vals a)) n].
  Proof. unfold vals; rewrite fold_left_app; reflexivity. Qed.

  Lemma vals_length a : length (vals a) = length a.
  Proof.
    induction a as [|n a IH] using rev_ind; [reflexivity|].
    rewrite vals_snoc, !app_length, IH; reflexivity.
  Qed.

  Lemma vals_app_prefix a b : exists t, vals (a ++ b) = vals a ++ t.
  Proof.
    induction b as [|n b IH] using rev_ind.
    - exists []. rewrite !app_nil_r; reflexivity.
    - destruct IH as [t Ht]. rewrite app_assoc, vals_snoc, Ht.
      eexists. rewrite <- app_assoc. reflexivity.
  Qed.

  (* appending never changes old values *)
  Lemma val_extend a b i : i < length a -> val (a ++ b) i = val a i.
  Proof.
    intros Hi. unfold val, getv. destruct (vals_app_prefix a b) as [t ->].
    apply app_nth1. rewrite vals_length; exact Hi.
  Qed.

  (* value of a freshly pushed node *)
  Lemma val_push a n : val (a ++ [n]) (length a) = nodeval (vals a) (length a) n.
  Proof.
    unfold val, getv. rewrite vals_snoc, app_nth2; rewrite vals_length; [|lia].
    rewrite Nat.sub_diag; reflexivity.
  Qed.

  (* value of node i is its shape evaluated over the values of the prefix *)
  Lemma val_node a i : i < length a ->
    val a i = nodeval (vals (firstn i a)) i (getn a i).
  Proof.
    intros Hi.
    rewrite <- (firstn_skipn (S i) a) at 1.
    assert (Hl : length (firstn (S i) a) = S i) by (rewrite firstn_length; lia).
    rewrite val_extend by lia.
    assert (Hs : firstn (S i) a = firstn i a ++ [getn a i]).
    { unfold getn. clear Hl. revert i Hi. induction a as [|n a IH]; intros i Hi; simpl in *; [lia|].
      destruct i; [reflexivity|]. simpl. f_equal. apply IH. lia. }
    rewrite Hs.
    assert (Hl2 : length (firstn i a) = i) by (rewrite firstn_length; lia).
    pose proof (val_push (firstn i a) (getn a i)) as Hp.
    rewrite Hl2 in Hp. exact Hp.
  Qed.

  Lemma getv_vals_firstn a i j : j < i -> i <= length a ->
    getv (vals (firstn i a)) j = val a j.
  Proof.
    intros Hj Hi. rewrite <- (firstn_skipn i a) at 2.
    rewrite val_extend; [reflexivity|]. rewrite firstn_length; lia.
  Qed.

End Sem.
Arguments env : clear implicits.
