(* C07 (optimizer half): Tree::optimized_helper preserves the denotation.

   Proved for the real-number instance [R_ops uf bf] (every interpretation of
   the opcodes the rewriting never inspects, subject to pow x 1 = x and
   nth_root x 1 = x), for every arena, every state whose canonical map
   satisfies the invariant [st_ok], every node id and every sufficient fuel.

   HYPOTHESES.
   - The four mutually recursive functions are relative to [coord], the model of
     Tree::optimized_helper as called by TransformedOracleClause::optimized on the
     underlying tree and the three coordinate trees (flatten if flagged, then
     optimise, shared canonical map).  Section WithCoord proves everything from the
     specification [coord_ok] of that call; [coord_lvl_sem] discharges it for every
     level of the level fuel, level 0 (component left untouched, out-of-fuel flag
     raised) included: VALUE PRESERVATION DOES NOT DEPEND ON THE FLAG.
   - [flat_ok a i] is [good a i] (FlattenSem.v): below every apply node reachable
     from i (through all links, coordinate trees included) the transformed oracles
     have variable-independent components -- the C++ does not substitute applied
     variables inside coordinate trees.  Implied by [noT a i]; vacuous without apply
     nodes.  Needed because coordinate trees are now flattened by the optimiser.
   - [fuel_enough fuel i] is [4*i+3 <= fuel] ([opt_fuel i = 4*(i+1)] suffices).
     Per context: opt_tree 4*i+3, opt_other 4*i+1, opt_affine 4*i+2, opt_comm
     4*i+4 in general and 4*i+1 when node i is a commutative node of the very
     opcode being collected ([comm_fuel]).
   - [optimized_sem_noT], [optimized_sem], [cooptimize_sem] keep their former
     statements ([noT]); [optimized_sem_o], [cooptimize_sem_o], [optimized_helper_sem_o]
     are the versions for trees with transformed oracles anywhere ([good]).

   Main results: [opt_tree_sem], [opt_other_sem], [opt_affine_sem],
   [opt_comm_sem] (one simultaneous induction on fuel, [opt_all_sem]),
   [fold_comm_ok], [rebuild_affine_ok], [collapse_ok], [uniq_ok],
   [lift_uniq_ok], [optimized_helper_sem] (any valid threaded canonical map),
   [optimized_sem_noT], [optimized_sem], [cooptimize_sem] (the two calls of
   Tree::eq against one shared canonical map). *)
From Coq Require Import List Arith Bool Lia Reals Lra Permutation.
From LF Require Import Base.Opcode Base.Num Base.Arena Base.Sem Base.RInst
  Tree.Build Tree.BuildSem Tree.Flatten Tree.FlattenSem Tree.Optimize.
Import ListNotations.

(* ------------------------------------------------------------------ *)
(* insertion sort is a permutation, for any comparison *)
Section SortPerm.
  Context {A : Type} (lt : A -> A -> bool).
  Lemma insert_perm x l : Permutation (insert lt x l) (x :: l).
  Proof.
    induction l as [|y r IH]; simpl; [reflexivity|].
    destruct (lt x y); [reflexivity|].
    eapply perm_trans; [apply perm_skip; exact IH | apply perm_swap].
  Qed.
  Lemma isort_perm l : Permutation (isort lt l) l.
  Proof.
    induction l as [|x l IH]; simpl; [constructor|].
    eapply perm_trans; [apply insert_perm | apply perm_skip; exact IH].
  Qed.
End SortPerm.

(* ------------------------------------------------------------------ *)
(* folds of an associative-commutative operation over non-empty lists *)
Section CFold.
  Variable f : R -> R -> R.
  Hypothesis f_assoc : forall a b c, f (f a b) c = f a (f b c).
  Hypothesis f_comm : forall a b, f a b = f b a.

  Definition cfold (l : list R) : R :=
    match l with [] => 0%R | x :: xs => fold_left f xs x end.

  Lemma fold_left_perm l l' : Permutation l l' -> forall a, fold_left f l a = fold_left f l' a.
  Proof.
    induction 1; intros a; simpl; auto.
    - rewrite !f_assoc, (f_comm y x); reflexivity.
    - rewrite IHPermutation1; apply IHPermutation2.
  Qed.

  Lemma cfold_perm l l' : Permutation l l' -> cfold l = cfold l'.
  Proof.
    induction 1; simpl; auto.
    - apply fold_left_perm; assumption.
    - rewrite (f_comm y x); reflexivity.
    - congruence.
  Qed.

  Lemma fold_left_pull l : forall a b, fold_left f l (f a b) = f a (fold_left f l b).
  Proof. induction l as [|x l IH]; intros a b; simpl; [reflexivity|]. rewrite f_assoc; apply IH. Qed.

  Lemma cfold_app l1 l2 : l1 <> [] -> l2 <> [] -> cfold (l1 ++ l2) = f (cfold l1) (cfold l2).
  Proof.
    destruct l1 as [|x xs]; [congruence|]. destruct l2 as [|y ys]; [congruence|]. intros _ _.
    simpl. rewrite fold_left_app. simpl. apply fold_left_pull.
  Qed.

  Hypothesis f_idem : forall a, f a a = a.

  Lemma dedup_cons2 x y r : dedup_adjacent (x :: y :: r) =
    if Nat.eqb x y then dedup_adjacent (y :: r) else x :: dedup_adjacent (y :: r).
  Proof. reflexivity. Qed.

  Lemma fold_dedup (v : nat -> R) l : forall a,
    fold_left f (map v (dedup_adjacent l)) a = fold_left f (map v l) a.
  Proof.
    induction l as [|x r IH]; intros a; [reflexivity|].
    destruct r as [|y r']; [reflexivity|].
    rewrite dedup_cons2. destruct (Nat.eqb x y) eqn:E.
    - apply Nat.eqb_eq in E; subst y. rewrite IH.
      simpl. rewrite f_assoc, f_idem. reflexivity.
    - cbn [map fold_left]. rewrite IH. reflexivity.
  Qed.

  Lemma hd_dedup d l : hd d (dedup_adjacent l) = hd d l.
  Proof.
    induction l as [|x r IH]; [reflexivity|].
    destruct r as [|y r']; [reflexivity|].
    rewrite dedup_cons2. destruct (Nat.eqb x y) eqn:E.
    - apply Nat.eqb_eq in E; subst y. rewrite IH. reflexivity.
    - reflexivity.
  Qed.

  Lemma dedup_nonempty l : dedup_adjacent l = [] -> l = [].
  Proof.
    induction l as [|x r IH]; [reflexivity|].
    destruct r as [|y r']; [discriminate|].
    rewrite dedup_cons2. destruct (Nat.eqb x y); [|discriminate].
    intros H; apply IH in H; discriminate H.
  Qed.

  Lemma cfold_dedup (v : nat -> R) l : cfold (map v (dedup_adjacent l)) = cfold (map v l).
  Proof.
    destruct l as [|x r]; [reflexivity|].
    pose proof (hd_dedup 0 (x :: r)) as Hh. pose proof (fold_dedup v (x :: r) (v x)) as Hf.
    destruct (dedup_adjacent (x :: r)) as [|h t] eqn:E.
    - apply dedup_nonempty in E; discriminate E.
    - simpl in Hh; subst h. simpl in Hf |- *. rewrite f_idem in Hf. exact Hf.
  Qed.
End CFold.

(* ------------------------------------------------------------------ *)
Section OptSem.
  Variable uf : opcode -> R -> R.
  Variable bf : opcode -> R -> R -> R.
  Hypothesis pow_1 : forall x, bf OP_POW x 1%R = x.
  Hypothesis root_1 : forall x, bf OP_NTH_ROOT x 1%R = x.
  Variable osem : nat -> R -> R -> R -> R.
  Notation O := (R_ops uf bf).
  Notation val := (val O osem).
  Notation ok_result := (ok_result O osem).
  Notation arena := (arena R).
  Notation env := (env R).
  Notation ost := (@ost R).
  Notation key := (@key R).

  Lemma LAWS : laws O.
  Proof. exact (R_laws uf bf pow_1 root_1). Qed.

  Ltac rsimp := cbn [o_add o_sub o_mul o_div o_neg o_mone o_bin o_un o_zero o_one
                     o_eqb o_ltb o_isnan R_ops R_bin R_un] in *.

  (* ---------------------------------------------------------------- *)
  (* keys of the canonical map and their denotation *)
  Definition key_den (a : arena) (k : key) : env -> R :=
    match k with
    | KNan | KInv => fun _ => 0%R
    | KConst c => fun _ => c
    | KOp op => nodeval O osem [] 0 (NNullary op)
    | KVar i => fun r => ev r i
    | KUn op x => fun r => o_un O op (val a x r)
    | KBin op x y => fun r => o_bin O op (val a x r) (val a y r)
    | KUniq i => val a i
    end.

  Definition key_wf (a : arena) (k : key) : Prop :=
    match k with
    | KUn _ x => x < length a
    | KBin _ x y => x < length a /\ y < length a
    | KUniq i => i < length a
    | _ => True
    end.

  Definition canon_ok (a : arena) (c : @canon R) : Prop :=
    Forall (fun p => snd p < length a /\ key_wf a (fst p) /\
                     forall r, val a (snd p) r = key_den a (fst p) r) c.

  Definition st_ok (st : ost) : Prop :=
    arena_wf (st_arena st) /\ base_ok O (st_arena st) /\ canon_ok (st_arena st) (st_canon st).

  Lemma key_of_den a i : arena_wf a -> i < length a ->
    key_wf a (key_of O a i) /\ forall r, val a i r = key_den a (key_of O a i) r.
  Proof.
    intros Hwf Hi. unfold key_of.
    destruct (getn a i) as [c|o|o x|o x y|k|x y z u|x y z t|v e t|] eqn:Hn.
    - cbn [o_isnan R_ops]. split; [exact I|]. intros r. apply (val_const O osem); auto.
    - destruct o; (split; [exact I|]; intros r; rewrite (val_node O osem a i) by exact Hi;
                   rewrite Hn; reflexivity).
    - split.
      + destruct (val_unary O osem a i o x (env0 O) Hwf Hi Hn) as [Hx _]. simpl; lia.
      + intros r. destruct (val_unary O osem a i o x r Hwf Hi Hn) as [_ ->]. reflexivity.
    - split.
      + destruct (val_binary O osem a i o x y (env0 O) Hwf Hi Hn) as (Hx & Hy & _). simpl; lia.
      + intros r. destruct (val_binary O osem a i o x y r Hwf Hi Hn) as (_ & _ & ->). reflexivity.
    - split; [exact Hi | reflexivity].
    - split; [exact Hi | reflexivity].
    - split; [exact Hi | reflexivity].
    - split; [exact Hi | reflexivity].
    - split; [exact I|]. intros r. rewrite (val_node O osem a i) by exact Hi. rewrite Hn. reflexivity.
  Qed.

  Lemma key_eqb_den k1 k2 : key_eqb O k1 k2 = true -> forall a r, key_den a k1 r = key_den a k2 r.
  Proof.
    destruct k1, k2; cbn [key_eqb]; try discriminate; intros H aa r; cbn [key_den]; try reflexivity.
    - apply (R_eqb_true uf bf) in H; subst; reflexivity.
    - apply opcode_eqb_eq in H; subst; reflexivity.
    - apply Nat.eqb_eq in H; subst; reflexivity.
    - apply andb_true_iff in H; destruct H as [H1 H2].
      apply opcode_eqb_eq in H1; apply Nat.eqb_eq in H2; subst; reflexivity.
    - apply andb_true_iff in H; destruct H as [H H3]. apply andb_true_iff in H; destruct H as [H1 H2].
      apply opcode_eqb_eq in H1; apply Nat.eqb_eq in H2, H3; subst; reflexivity.
    - apply Nat.eqb_eq in H; subst; reflexivity.
  Qed.

  Lemma key_extends a a' k : extends a a' -> key_wf a k ->
    key_wf a' k /\ forall r, key_den a' k r = key_den a k r.
  Proof.
    intros He Hk. pose proof (extends_length a a' He) as Hl.
    destruct k; cbn [key_wf key_den] in *; try (split; [exact I | reflexivity]).
    - split; [lia|]. intros r. rewrite (extends_val O osem a a') by auto. reflexivity.
    - destruct Hk. split; [lia|]. intros r. rewrite !(extends_val O osem a a') by auto. reflexivity.
    - split; [lia|]. intros r. apply (extends_val O osem); auto.
  Qed.

  Lemma canon_ok_extends a a' c : extends a a' -> canon_ok a c -> canon_ok a' c.
  Proof.
    intros He Hc. pose proof (extends_length a a' He) as Hl.
    unfold canon_ok in *. rewrite Forall_forall in *. intros p Hp.
    destruct (Hc p Hp) as (H1 & H2 & H3). destruct (key_extends a a' (fst p) He H2) as [H4 H5].
    split; [lia|]. split; [exact H4|]. intros r.
    rewrite H5, (extends_val O osem a a') by auto. apply H3.
  Qed.

  Lemma canon_find_some c k j : canon_find O c k = Some j ->
    exists k', In (k', j) c /\ key_eqb O k k' = true.
  Proof.
    induction c as [|[k' j'] c IH]; simpl; [discriminate|].
    destruct (key_eqb O k k') eqn:E.
    - intros H; inversion H; subst. exists k'; auto.
    - intros H. destruct (IH H) as (k'' & Hin & Hk). exists k''; auto.
  Qed.

  (* specification shared by everything that returns a state and an id *)
  Definition res_ok (a : arena) (res : ost * nat) (f : env -> R) : Prop :=
    st_ok (fst res) /\ extends a (st_arena (fst res)) /\
    snd res < length (st_arena (fst res)) /\
    forall r, val (st_arena (fst res)) (snd res) r = f r.

  Lemma res_weaken a res f g : res_ok a res f -> (forall r, f r = g r) -> res_ok a res g.
  Proof.
    intros (H1 & H2 & H3 & H4) Hfg. split; [exact H1|]. split; [exact H2|]. split; [exact H3|].
    intros r; rewrite H4; apply Hfg.
  Qed.

  Lemma res_trans a a1 res f : extends a a1 -> res_ok a1 res f -> res_ok a res f.
  Proof.
    intros He (H1 & H2 & H3 & H4). split; [exact H1|]. split; [eapply extends_trans; eauto|].
    split; [exact H3 | exact H4].
  Qed.

  Lemma uniq_ok st i : st_ok st -> i < length (st_arena st) ->
    res_ok (st_arena st) (uniq O st i) (val (st_arena st) i).
  Proof.
    intros (Hwf & Hb & Hc) Hi. unfold uniq.
    destruct (key_of_den (st_arena st) i Hwf Hi) as [Hkw Hkd].
    destruct (canon_find O (st_canon st) (key_of O (st_arena st) i)) as [j|] eqn:Hf.
    - destruct (canon_find_some _ _ _ Hf) as (k' & Hin & Hk).
      pose proof Hc as Hc'. unfold canon_ok in Hc'. rewrite Forall_forall in Hc'.
      destruct (Hc' _ Hin) as (H1 & H2 & H3); cbn [fst snd] in *.
      split; [split; [exact Hwf | split; [exact Hb | exact Hc]]|].
      cbn [fst snd]. split; [apply extends_refl|]. split; [exact H1|].
      intros r. rewrite H3, Hkd. symmetry. apply key_eqb_den; exact Hk.
    - split.
      + split; [exact Hwf|]. split; [exact Hb|]. cbn [fst snd st_arena st_canon].
        constructor; [|exact Hc]. cbn [fst snd]. auto.
      + cbn [fst snd st_arena st_canon]. split; [apply extends_refl|]. split; [exact Hi|reflexivity].
  Qed.

  Lemma lift_uniq_ok st res f : st_ok st -> ok_result (st_arena st) res f ->
    res_ok (st_arena st) (lift_uniq O st res) f.
  Proof.
    intros (Hwf & Hb & Hc) (He & Hwf' & Hlt & Hv). unfold lift_uniq.
    set (st' := {| st_arena := fst res; st_canon := st_canon st; st_oof := st_oof st |}).
    assert (Hok : st_ok st').
    { split; [exact Hwf'|]. split; cbn [st' st_arena st_canon].
      - eapply base_ok_extends; eauto.
      - eapply canon_ok_extends; eauto. }
    pose proof (uniq_ok st' (snd res) Hok Hlt) as Hu.
    eapply res_trans; [exact He|]. eapply res_weaken; [exact Hu|]. exact Hv.
  Qed.

  (* ---------------------------------------------------------------- *)
  (* lifted constructors *)
  Lemma bin_uniq_ok st op l r : st_ok st ->
    l < length (st_arena st) -> r < length (st_arena st) -> args op = Some 2 ->
    res_ok (st_arena st) (lift_uniq O st (mk_bin O (st_arena st) op l r))
           (fun e => o_bin O op (val (st_arena st) l e) (val (st_arena st) r e)).
  Proof.
    intros Hst Hl Hr Hop. apply lift_uniq_ok; [exact Hst|].
    apply (bin_sem O osem LAWS); auto. apply Hst.
  Qed.

  Lemma un_uniq_ok st op l : st_ok st -> l < length (st_arena st) -> args op = Some 1 ->
    res_ok (st_arena st) (lift_uniq O st (mk_unary O (st_arena st) op l))
           (fun e => o_un O op (val (st_arena st) l e)).
  Proof.
    intros Hst Hl Hop. apply lift_uniq_ok; [exact Hst|].
    apply (unary_sem O osem LAWS); auto. apply Hst.
  Qed.

  Lemma const_uniq_ok st c : st_ok st ->
    res_ok (st_arena st) (mk_const_uniq O st c) (fun _ => c).
  Proof.
    intros Hst. unfold mk_const_uniq. apply lift_uniq_ok; [exact Hst|].
    apply (const_sem O osem). apply Hst.
  Qed.

  Definition ids_ok (a : arena) (l : list nat) : Prop := Forall (fun n => n < length a) l.
  Definition vals_of (a : arena) (r : env) (l : list nat) : list R := map (fun n => val a n r) l.

  Lemma ids_ok_extends a a' l : extends a a' -> ids_ok a l -> ids_ok a' l.
  Proof.
    intros He. pose proof (extends_length a a' He). apply Forall_impl. intros; lia.
  Qed.

  Lemma vals_of_extends a a' r l : extends a a' -> ids_ok a l -> vals_of a' r l = vals_of a r l.
  Proof.
    intros He Hl. unfold vals_of. apply map_ext_in. intros n Hn.
    unfold ids_ok in Hl. rewrite Forall_forall in Hl. apply (extends_val O osem); auto.
  Qed.

  (* left fold of a binary constructor through uniq *)
  Lemma fold_bin_ok op : args op = Some 2 -> forall g st x,
    st_ok st -> x < length (st_arena st) -> ids_ok (st_arena st) g ->
    res_ok (st_arena st)
      (fold_left (fun (acc : ost * nat) b =>
                    lift_uniq O (fst acc) (mk_bin O (st_arena (fst acc)) op (snd acc) b))
                 g (st, x))
      (fun r => fold_left (o_bin O op) (vals_of (st_arena st) r g) (val (st_arena st) x r)).
  Proof.
    intros Hop. induction g as [|b g IH]; intros st x Hst Hx Hg.
    - cbn [fold_left vals_of map]. split; [exact Hst|]. cbn [fst snd].
      split; [apply extends_refl|]. split; [exact Hx | reflexivity].
    - cbn [fold_left fst snd]. inversion Hg as [|b' g' Hb Hg']; subst.
      pose proof (bin_uniq_ok st op x b Hst Hx Hb Hop) as H1.
      destruct (lift_uniq O st (mk_bin O (st_arena st) op x b)) as [st1 t1].
      destruct H1 as (Hst1 & He1 & Ht1 & Hv1); cbn [fst snd] in *.
      eapply res_trans; [exact He1|]. eapply res_weaken.
      + apply IH; auto. eapply ids_ok_extends; eauto.
      + intros r; cbn beta. rewrite Hv1. rewrite (vals_of_extends _ _ r g He1 Hg'). reflexivity.
  Qed.

  (* ---------------------------------------------------------------- *)
  (* commutative lists *)
  Definition comm_op (op : opcode) : Prop := op = OP_MUL \/ op = OP_MIN \/ op = OP_MAX.

  Lemma comm_args op : comm_op op -> args op = Some 2.
  Proof. intros [->|[->| ->]]; reflexivity. Qed.
  Lemma comm_assoc op : comm_op op -> forall a b c, o_bin O op (o_bin O op a b) c = o_bin O op a (o_bin O op b c).
  Proof.
    intros [->|[->| ->]] a b c; rsimp.
    - apply Rmult_assoc. - symmetry; apply Rmin_assoc. - symmetry; apply Rmax_assoc.
  Qed.
  Lemma comm_comm op : comm_op op -> forall a b, o_bin O op a b = o_bin O op b a.
  Proof.
    intros [->|[->| ->]] a b; rsimp.
    - apply Rmult_comm. - apply Rmin_comm. - apply Rmax_comm.
  Qed.
  Lemma comm_idem op : comm_op op -> is_idempotent op = true -> forall a, o_bin O op a a = a.
  Proof.
    intros [->|[->| ->]] H a; try discriminate H.
    - apply (L_min_same O LAWS). - apply (L_max_same O LAWS).
  Qed.

  Definition cval (op : opcode) (a : arena) (r : env) (l : list nat) : R :=
    cfold (o_bin O op) (vals_of a r l).

  Lemma ids_ok_dedup a l : ids_ok a l -> ids_ok a (dedup_adjacent l).
  Proof.
    induction l as [|x t IH]; intros H; [exact H|].
    destruct t as [|y t']; [exact H|]. rewrite dedup_cons2.
    inversion H as [|x' t'' Hx Ht]; subst. destruct (Nat.eqb x y); [apply IH; exact Ht|].
    constructor; [exact Hx | apply IH; exact Ht].
  Qed.

  Lemma fold_comm_ok st op l : st_ok st -> comm_op op -> ids_ok (st_arena st) l -> l <> [] ->
    res_ok (st_arena st) (fold_comm O st op l) (fun r => cval op (st_arena st) r l).
  Proof.
    intros Hst Hop Hl Hne. unfold fold_comm.
    pose proof (isort_perm Nat.ltb l) as Hp.
    set (s := isort Nat.ltb l) in *.
    set (s' := if is_idempotent op then dedup_adjacent s else s).
    assert (Hs : ids_ok (st_arena st) s) by (eapply Permutation_Forall; [apply Permutation_sym; exact Hp | exact Hl]).
    assert (Hs' : ids_ok (st_arena st) s').
    { unfold s'. destruct (is_idempotent op); [apply ids_ok_dedup|]; exact Hs. }
    assert (Hv : forall r, cval op (st_arena st) r s' = cval op (st_arena st) r l).
    { intros r. unfold cval. transitivity (cfold (o_bin O op) (vals_of (st_arena st) r s)).
      - unfold s'. destruct (is_idempotent op) eqn:Hid; [|reflexivity].
        unfold vals_of. apply cfold_dedup; [apply comm_assoc; exact Hop | apply comm_idem; assumption].
      - apply cfold_perm; [apply comm_assoc; exact Hop | apply comm_comm; exact Hop |].
        unfold vals_of. apply Permutation_map. exact Hp. }
    assert (Hne' : s' <> []).
    { unfold s'. intros E. assert (Es : s = []).
      { destruct (is_idempotent op); [apply dedup_nonempty in E|]; exact E. }
      rewrite Es in Hp. apply Permutation_nil in Hp. contradiction. }
    clearbody s'. destruct s' as [|x t]; [congruence|].
    inversion Hs'; subst.
    eapply res_weaken; [apply fold_bin_ok; auto; apply comm_args; exact Hop|].
    intros r; cbn beta. rewrite <- Hv. reflexivity.
  Qed.

  (* ---------------------------------------------------------------- *)
  (* affine maps *)
  Definition amap_sum (a : arena) (m : list (nat * R)) (r : env) : R :=
    fold_right (fun p acc => (snd p * val a (fst p) r + acc)%R) 0%R m.
  Definition amap_ok (a : arena) (m : list (nat * R)) : Prop :=
    Forall (fun p => fst p < length a) m.

  Lemma amap_ok_extends a a' m : extends a a' -> amap_ok a m -> amap_ok a' m.
  Proof. intros He. pose proof (extends_length a a' He). apply Forall_impl. intros; lia. Qed.

  Lemma amap_sum_extends a a' m r : extends a a' -> amap_ok a m -> amap_sum a' m r = amap_sum a m r.
  Proof.
    intros He. induction m as [|[n c] m IH]; intros Hm; [reflexivity|].
    inversion Hm; subst. cbn [amap_sum fold_right fst snd] in *.
    fold (amap_sum a' m r). fold (amap_sum a m r). rewrite IH by assumption.
    rewrite (extends_val O osem a a') by auto. reflexivity.
  Qed.

  Lemma amap_sum_cons a n c m r : amap_sum a ((n, c) :: m) r = (c * val a n r + amap_sum a m r)%R.
  Proof. reflexivity. Qed.

  Lemma amap_sum_perm a m m' r : Permutation m m' -> amap_sum a m r = amap_sum a m' r.
  Proof.
    induction 1 as [|[n c] l l' Hp IH|[n c] [n' c'] l|l l' l'' H1 IH1 H2 IH2].
    - reflexivity.
    - rewrite !amap_sum_cons, IH. reflexivity.
    - rewrite !amap_sum_cons. lra.
    - congruence.
  Qed.

  Lemma amap_add_sum a m n s r :
    amap_sum a (amap_add O m n s) r = (amap_sum a m r + s * val a n r)%R.
  Proof.
    induction m as [|[n' c] m IH].
    - cbn [amap_add]. rewrite amap_sum_cons. rsimp. cbn [amap_sum fold_right]. lra.
    - cbn [amap_add]. destruct (Nat.eqb n n') eqn:E.
      + apply Nat.eqb_eq in E; subst n'. rewrite !amap_sum_cons. rsimp. lra.
      + rewrite !amap_sum_cons, IH. lra.
  Qed.

  Lemma amap_add_ok a m n s : amap_ok a m -> n < length a -> amap_ok a (amap_add O m n s).
  Proof.
    intros Hm Hn. induction m as [|[n' c] m IH]; cbn [amap_add].
    - constructor; [exact Hn | constructor].
    - inversion Hm as [|p m' Hp Hm']; subst. destruct (Nat.eqb n n').
      + constructor; [exact Hp | exact Hm'].
      + constructor; [exact Hp | apply IH; exact Hm'].
  Qed.

  Lemma val_one a r : base_ok O a -> val a idOne r = 1%R.
  Proof.
    intros Hb. pose proof (base_ok_len O a Hb).
    rewrite (val_node O osem) by (unfold idOne; lia).
    rewrite (base_getn O a idOne Hb) by (unfold idOne; lia). reflexivity.
  Qed.

  Lemma add_term_ok st m n s : st_ok st -> amap_ok (st_arena st) m -> n < length (st_arena st) ->
    amap_ok (st_arena st) (add_term O st m n s) /\ forall r, amap_sum (st_arena st) (add_term O st m n s) r
              = (amap_sum (st_arena st) m r + s * val (st_arena st) n r)%R.
  Proof.
    intros (Hwf & Hb & Hc) Hm Hn. unfold add_term.
    pose proof (base_ok_len O _ Hb) as Hlen.
    destruct (getn (st_arena st) n) as [c|o|o x|o x y|k|x y z u|x y z t|v e t|] eqn:E;
      try (split; [apply amap_add_ok; assumption | intros r; apply amap_add_sum]).
    split; [apply amap_add_ok; [assumption | unfold idOne; lia]|].
    intros r. rewrite amap_add_sum, (val_one _ r Hb), (val_const O osem _ n c r Hn E). rsimp. lra.
  Qed.

  (* positive / negative split of UpAffine *)
  Lemma split_sum a (m : list (nat * R)) r :
    amap_sum a m r =
    (amap_sum a (filter (fun p => o_ltb O (o_zero O) (snd p)
                    || (negb (o_ltb O (snd p) (o_zero O)) && negb (o_eqb O (snd p) (o_zero O)))) m) r
     - amap_sum a (map (fun p => (fst p, o_neg O (snd p)))
                    (filter (fun p => negb (o_ltb O (o_zero O) (snd p)) && o_ltb O (snd p) (o_zero O)) m)) r)%R.
  Proof.
    induction m as [|[n c] m IH]; [cbn; lra|].
    cbn [filter map fst snd]. rsimp.
    destruct (Rlt_dec 0 c), (Rlt_dec c 0), (Req_EM_T c 0); cbn [orb andb negb map fst snd];
      rewrite ?amap_sum_cons; rewrite IH; rsimp; try subst c; lra.
  Qed.

  Lemma amap_ok_filter a P (m : list (nat * R)) : amap_ok a m -> amap_ok a (filter P m).
  Proof.
    unfold amap_ok. rewrite !Forall_forall. intros H p Hp. apply filter_In in Hp. apply H, Hp.
  Qed.

  Lemma amap_ok_neg a (m : list (nat * R)) : amap_ok a m ->
    amap_ok a (map (fun p => (fst p, o_neg O (snd p))) m).
  Proof.
    unfold amap_ok. rewrite !Forall_forall. intros H p Hp. apply in_map_iff in Hp.
    destruct Hp as (q & <- & Hq). cbn [fst]. apply H, Hq.
  Qed.

  Definition gsum (a : arena) (r : env) (g : list nat) : R := fold_right Rplus 0%R (vals_of a r g).

  Lemma fold_left_plus l : forall x, fold_left (o_bin O OP_ADD) l x = (x + fold_right Rplus 0 l)%R.
  Proof.
    induction l as [|y l IH]; intros x; cbn [fold_left fold_right]; [lra|].
    rewrite IH. rsimp. lra.
  Qed.

  Lemma span_mult_ok a m r : forall l g rest, span_mult O m l = (g, rest) ->
    amap_sum a l r = (m * gsum a r g + amap_sum a rest r)%R /\ length rest <= length l /\ (amap_ok a l -> ids_ok a g /\ amap_ok a rest).
  Proof.
    induction l as [|[n c] l IH]; intros g rest H; cbn [span_mult] in H.
    - inversion H; subst. split; [cbn; lra|]. split; [lia|]. intros _; split; constructor.
    - destruct (o_eqb O c m) eqn:E.
      + destruct (span_mult O m l) as [g' rest'] eqn:Hs. inversion H; subst.
        apply (R_eqb_true uf bf) in E; subst c.
        destruct (IH g' rest eq_refl) as (H1 & H2 & H3).
        split; [|split].
        * rewrite amap_sum_cons, H1. unfold gsum, vals_of. cbn [map fold_right]. lra.
        * cbn [length]; lia.
        * intros Hl. inversion Hl as [|p l' Hp Hl']; subst. destruct (H3 Hl') as [G1 G2].
          split; [constructor; [exact Hp | exact G1] | exact G2].
      + inversion H; subst. split; [unfold gsum; cbn [vals_of map fold_right]; lra|].
        split; [lia|]. intros Hl; split; [constructor | exact Hl].
  Qed.

  (* multiply a collected term by its multiplier *)
  Definition scale_term (st : ost) (t : nat) (m : R) : ost * nat :=
    if o_eqb O m (o_one O) then (st, t)
    else if Nat.eqb t idOne then mk_const_uniq O st m
    else let '(st', cm) := mk_const_uniq O st m in
         lift_uniq O st' (mk_bin O (st_arena st') OP_MUL t cm).

  Lemma scale_term_ok st t m : st_ok st -> t < length (st_arena st) ->
    res_ok (st_arena st) (scale_term st t m) (fun r => (m * val (st_arena st) t r)%R).
  Proof.
    intros Hst Ht. unfold scale_term.
    destruct (o_eqb O m (o_one O)) eqn:E.
    - apply (R_eqb_true uf bf) in E. cbn [o_one R_ops] in E. subst m.
      split; [exact Hst|]. cbn [fst snd]. split; [apply extends_refl|]. split; [exact Ht|].
      intros r; lra.
    - destruct (Nat.eqb t idOne) eqn:Et.
      + apply Nat.eqb_eq in Et; subst t.
        eapply res_weaken; [apply const_uniq_ok; exact Hst|].
        intros r; cbn beta. rewrite (val_one _ r) by apply Hst. lra.
      + pose proof (const_uniq_ok st m Hst) as H1.
        destruct (mk_const_uniq O st m) as [st' cm].
        destruct H1 as (Hst' & He & Hcm & Hv); cbn [fst snd] in *.
        pose proof (extends_length _ _ He) as Hl.
        eapply res_trans; [exact He|]. eapply res_weaken.
        * apply bin_uniq_ok; auto. lia.
        * intros r; cbn beta. rewrite Hv, (extends_val O osem _ _ t r He Ht). rsimp. lra.
  Qed.

  Definition oval (a : arena) (o : option nat) (r : env) : R :=
    match o with Some i => val a i r | None => 0%R end.
  Definition oid_ok (a : arena) (o : option nat) : Prop :=
    match o with Some i => i < length a | None => True end.

  Definition add_out (st : ost) (out : option nat) (t : nat) : ost * option nat :=
    match out with
    | Some o => let '(s', o') := lift_uniq O st (mk_bin O (st_arena st) OP_ADD o t) in (s', Some o')
    | None => (st, Some t)
    end.

  Definition ores_ok (a : arena) (res : ost * option nat) (f : env -> R) : Prop :=
    st_ok (fst res) /\ extends a (st_arena (fst res)) /\
    oid_ok (st_arena (fst res)) (snd res) /\
    forall r, oval (st_arena (fst res)) (snd res) r = f r.

  Lemma add_out_ok st out t : st_ok st -> oid_ok (st_arena st) out -> t < length (st_arena st) ->
    ores_ok (st_arena st) (add_out st out t)
            (fun r => (oval (st_arena st) out r + val (st_arena st) t r)%R).
  Proof.
    intros Hst Ho Ht. unfold add_out. destruct out as [o|]; cbn [oid_ok oval] in *.
    - pose proof (bin_uniq_ok st OP_ADD o t Hst Ho Ht eq_refl) as H1.
      destruct (lift_uniq O st (mk_bin O (st_arena st) OP_ADD o t)) as [s' o'].
      destruct H1 as (H1 & H2 & H3 & H4); cbn [fst snd] in *.
      split; [exact H1|]. cbn [fst snd oid_ok oval]. split; [exact H2|]. split; [exact H3|].
      intros r. rewrite H4. rsimp. reflexivity.
    - split; [exact Hst|]. cbn [fst snd oid_ok oval]. split; [apply extends_refl|].
      split; [exact Ht|]. intros r; lra.
  Qed.

  Lemma collapse_S f st n m t out :
    collapse O (S f) st ((n, m) :: t) out =
    let (g, rest) := span_mult O m t in
    let '(st1, t1) :=
      fold_left (fun (acc : ost * nat) b =>
                   lift_uniq O (fst acc) (mk_bin O (st_arena (fst acc)) OP_ADD (snd acc) b))
                g (st, n) in
    let '(st2, t2) := scale_term st1 t1 m in
    let '(st3, o3) := add_out st2 out t2 in
    collapse O f st3 rest o3.
  Proof. reflexivity. Qed.

  Lemma collapse_ok : forall fuel st l out,
    st_ok st -> amap_ok (st_arena st) l -> oid_ok (st_arena st) out -> length l <= fuel ->
    ores_ok (st_arena st) (collapse O fuel st l out)
            (fun r => (oval (st_arena st) out r + amap_sum (st_arena st) l r)%R).
  Proof.
    induction fuel as [|fuel IH]; intros st l out Hst Hl Ho Hlen.
    - destruct l; [|cbn in Hlen; lia]. cbn [collapse].
      split; [exact Hst|]. cbn [fst snd]. split; [apply extends_refl|]. split; [exact Ho|].
      intros r; cbn; lra.
    - destruct l as [|[n m] t].
      + cbn [collapse]. split; [exact Hst|]. cbn [fst snd]. split; [apply extends_refl|].
        split; [exact Ho|]. intros r; cbn; lra.
      + rewrite collapse_S. inversion Hl as [|p t' Hn Ht]; subst; cbn [fst] in Hn.
        destruct (span_mult O m t) as [g rest] eqn:Hsp.
        destruct (span_mult_ok (st_arena st) m (env0 O) t g rest Hsp) as (_ & Hlr & Hok).
        destruct (Hok Ht) as [Hg Hrest].
        pose proof (fold_bin_ok OP_ADD eq_refl g st n Hst Hn Hg) as H1.
        destruct (fold_left _ g (st, n)) as [st1 t1].
        destruct H1 as (Hst1 & He1 & Ht1 & Hv1); cbn [fst snd] in *.
        pose proof (scale_term_ok st1 t1 m Hst1 Ht1) as H2.
        destruct (scale_term st1 t1 m) as [st2 t2].
        destruct H2 as (Hst2 & He2 & Ht2 & Hv2); cbn [fst snd] in *.
        assert (He02 : extends (st_arena st) (st_arena st2)) by (eapply extends_trans; eauto).
        assert (Ho2 : oid_ok (st_arena st2) out).
        { destruct out; cbn [oid_ok] in *; [|exact I]. pose proof (extends_length _ _ He02); lia. }
        pose proof (add_out_ok st2 out t2 Hst2 Ho2 Ht2) as H3.
        destruct (add_out st2 out t2) as [st3 o3].
        destruct H3 as (Hst3 & He3 & Ho3 & Hv3); cbn [fst snd] in *.
        assert (He03 : extends (st_arena st) (st_arena st3)) by (eapply extends_trans; eauto).
        assert (Hrest3 : amap_ok (st_arena st3) rest) by (eapply amap_ok_extends; eauto).
        cbn [length] in Hlen.
        pose proof (IH st3 rest o3 Hst3 Hrest3 Ho3 ltac:(lia)) as H4.
        destruct H4 as (Hst4 & He4 & Ho4 & Hv4).
        split; [exact Hst4|]. split; [eapply extends_trans; eauto|]. split; [exact Ho4|].
        intros r. rewrite Hv4, Hv3, Hv2, Hv1.
        rewrite (amap_sum_extends _ _ rest r He03 Hrest).
        destruct (span_mult_ok (st_arena st) m r t g rest Hsp) as (Hs & _ & _).
        rewrite amap_sum_cons, Hs, fold_left_plus. unfold gsum.
        assert (Eo : oval (st_arena st2) out r = oval (st_arena st) out r).
        { destruct out; cbn [oval oid_ok] in *; [|reflexivity]. apply (extends_val O osem); auto. }
        rewrite Eo. lra.
  Qed.

  Lemma collapse_side_ok st l : st_ok st -> amap_ok (st_arena st) l ->
    res_ok (st_arena st) (collapse_side O st l) (amap_sum (st_arena st) l).
  Proof.
    intros Hst Hl. unfold collapse_side.
    pose proof (collapse_ok (length l) st l None Hst Hl I (le_n _)) as H.
    destruct (collapse O (length l) st l None) as [st1 o].
    destruct H as (H1 & H2 & H3 & H4); cbn [fst snd] in *.
    destruct o as [i|]; cbn [oval oid_ok] in *.
    - split; [exact H1|]. cbn [fst snd]. split; [exact H2|]. split; [exact H3|].
      intros r; rewrite H4; lra.
    - eapply res_trans; [exact H2|]. eapply res_weaken; [apply const_uniq_ok; exact H1|].
      intros r; cbn beta. rsimp. specialize (H4 r). lra.
  Qed.

  Lemma rebuild_affine_ok st m : st_ok st -> amap_ok (st_arena st) m ->
    res_ok (st_arena st) (rebuild_affine O st m) (amap_sum (st_arena st) m).
  Proof.
    intros Hst Hm. unfold rebuild_affine.
    pose proof (split_sum (st_arena st) m) as Hsplit.
    match type of Hsplit with
    | forall r, _ = (amap_sum _ ?P r - amap_sum _ ?N r)%R => set (pos := P) in *; set (neg := N) in *
    end.
    assert (Hpos : amap_ok (st_arena st) pos) by (apply amap_ok_filter; exact Hm).
    assert (Hneg : amap_ok (st_arena st) neg) by (apply amap_ok_neg, amap_ok_filter; exact Hm).
    pose proof (isort_perm (term_lt O) pos) as Pp. pose proof (isort_perm (term_lt O) neg) as Pn.
    set (spos := isort (term_lt O) pos) in *. set (sneg := isort (term_lt O) neg) in *.
    assert (Hspos : amap_ok (st_arena st) spos)
      by (eapply Permutation_Forall; [apply Permutation_sym; exact Pp | exact Hpos]).
    assert (Hsneg : amap_ok (st_arena st) sneg)
      by (eapply Permutation_Forall; [apply Permutation_sym; exact Pn | exact Hneg]).
    pose proof (collapse_side_ok st spos Hst Hspos) as H1.
    destruct (collapse_side O st spos) as [st1 p].
    destruct H1 as (Hst1 & He1 & Hp & Hv1); cbn [fst snd] in *.
    pose proof (collapse_side_ok st1 sneg Hst1 (amap_ok_extends _ _ _ He1 Hsneg)) as H2.
    destruct (collapse_side O st1 sneg) as [st2 n].
    destruct H2 as (Hst2 & He2 & Hn & Hv2); cbn [fst snd] in *.
    pose proof (extends_length _ _ He2) as Hl2.
    eapply res_trans; [eapply extends_trans; eauto|]. eapply res_weaken.
    - apply bin_uniq_ok; auto. lia.
    - intros r; cbn beta. rewrite Hv2, (extends_val O osem _ _ p r He2 Hp), Hv1.
      rewrite (amap_sum_extends _ _ sneg r He1 Hsneg).
      rewrite (amap_sum_perm _ _ _ r Pp), (amap_sum_perm _ _ _ r Pn), Hsplit. rsimp. reflexivity.
  Qed.

  (* ---------------------------------------------------------------- *)
  (* what [classify] tells about the value of a node *)
  Lemma classify_cases a i : arena_wf a -> i < length a ->
    match classify a i with
    | CAffNeg x => x < i /\ forall r, val a i r = (- val a x r)%R
    | CAffAdd x y => x < i /\ y < i /\ forall r, val a i r = (val a x r + val a y r)%R
    | CAffSub x y => x < i /\ y < i /\ forall r, val a i r = (val a x r - val a y r)%R
    | CAffMulL c y => y < i /\ forall r, val a i r = (c * val a y r)%R
    | CAffMulR x c => x < i /\ forall r, val a i r = (val a x r * c)%R
    | CAffDiv x c => x < i /\ forall r, val a i r = (val a x r / c)%R
    | CComm op x y => comm_op op /\ x < i /\ y < i /\
                      forall r, val a i r = o_bin O op (val a x r) (val a y r)
    | COther => True
    end.
  Proof.
    intros Hwf Hi. unfold classify.
    destruct (getn a i) as [c|o|o x|o x y|k|x y z u|x y z t|v e t|] eqn:Hn; try exact I.
    - destruct (val_unary O osem a i o x (env0 O) Hwf Hi Hn) as [Hx _].
      assert (Hv : forall r, val a i r = o_un O o (val a x r))
        by (intros r; apply (val_unary O osem a i o x r Hwf Hi Hn)).
      destruct o; try exact I. split; [exact Hx | exact Hv].
    - destruct (val_binary O osem a i o x y (env0 O) Hwf Hi Hn) as (Hx & Hy & _).
      assert (Hv : forall r, val a i r = o_bin O o (val a x r) (val a y r))
        by (intros r; apply (val_binary O osem a i o x y r Hwf Hi Hn)).
      assert (Hxl : x < length a) by lia. assert (Hyl : y < length a) by lia.
      destruct o; try exact I.
      + split; [exact Hx|]. split; [exact Hy | exact Hv].
      + assert (HC : comm_op OP_MUL /\ x < i /\ y < i /\
                     forall r, val a i r = o_bin O OP_MUL (val a x r) (val a y r))
          by (split; [left; reflexivity|]; auto).
        destruct (getn a x) as [c1| | | | | | | |] eqn:Ex;
          [split; [exact Hy|]; intros r; rewrite Hv, (val_const O osem a x c1 r Hxl Ex); reflexivity|..];
          (destruct (getn a y) as [c2| | | | | | | |] eqn:Ey;
           [split; [exact Hx|]; intros r; rewrite Hv, (val_const O osem a y c2 r Hyl Ey); reflexivity|..];
           exact HC).
      + split; [right; left; reflexivity|]. auto.
      + split; [right; right; reflexivity|]. auto.
      + split; [exact Hx|]. split; [exact Hy | exact Hv].
      + destruct (getn a y) as [c2| | | | | | | |] eqn:Ey; try exact I.
        split; [exact Hx|]. intros r. rewrite Hv, (val_const O osem a y c2 r Hyl Ey). reflexivity.
  Qed.

  Lemma val_oracleT a i x y z u r : arena_wf a -> i < length a -> getn a i = NOracleT x y z u ->
    (x < i /\ y < i /\ z < i /\ u < i) /\
    val a i r = val a u (upd_xyz r (val a x r) (val a y r) (val a z r)).
  Proof.
    intros Hwf Hi Hn. pose proof (arena_wf_nth a i Hwf Hi) as Hw; rewrite Hn in Hw; simpl in Hw.
    split; [exact Hw|].
    rewrite val_node by exact Hi; rewrite Hn; simpl. rewrite !getv_vals_firstn by lia. reflexivity.
  Qed.

  (* the children [classify] hands out are children of the node *)
  Notation good := (good O osem).
  Lemma classify_akids (a : arena) i :
    match classify a i with
    | CAffNeg x => In x (akids (getn a i))
    | CAffAdd x y | CAffSub x y => In x (akids (getn a i)) /\ In y (akids (getn a i))
    | CAffMulL _ y => In y (akids (getn a i))
    | CAffMulR x _ | CAffDiv x _ => In x (akids (getn a i))
    | CComm op x y => In x (akids (getn a i)) /\ In y (akids (getn a i))
    | COther => True
    end.
  Proof.
    unfold classify.
    destruct (getn a i) as [c|o|o x|o x y|k|x y z u|x y z t|v e t|]; try exact I.
    - destruct o; try exact I. simpl; auto.
    - destruct o; try exact I; try (simpl; auto; fail).
      + destruct (getn a x); try (simpl; auto; fail);
          destruct (getn a y); simpl; auto.
      + destruct (getn a y); try exact I. simpl; auto.
  Qed.

  Lemma good_child st st1 i k : arena_wf (st_arena st) -> extends (st_arena st) (st_arena st1) ->
    i < length (st_arena st) -> good (st_arena st) i -> In k (akids (getn (st_arena st) i)) ->
    good (st_arena st1) k.
  Proof.
    intros Hwf He Hi Hg Hk. pose proof (akid_lt osem _ i k Hwf Hi Hk).
    apply (good_ext O osem (st_arena st) (st_arena st1)); auto; [lia|]. eapply good_kid; eauto.
  Qed.

  (* ---------------------------------------------------------------- *)
  (* [coord]: Tree::optimized_helper as called on the components of a transformed
     oracle; everything below is relative to its specification [coord_ok], which is
     discharged for every level by [coord_lvl_sem] *)
  Section WithCoord.
  Variable coord : ost -> nat -> ost * nat.
  Hypothesis coord_ok : forall st i, st_ok st -> i < length (st_arena st) -> good (st_arena st) i ->
    res_ok (st_arena st) (coord st i) (val (st_arena st) i).
  Notation opt_tree := (opt_tree O coord).
  Notation opt_other := (opt_other O coord).
  Notation opt_affine := (opt_affine O coord).
  Notation opt_comm := (opt_comm O coord).

  (* ---------------------------------------------------------------- *)
  (* unfolding equations of the four mutually recursive functions *)
  Lemma opt_tree_S f st i :
    opt_tree (S f) st i =
    match classify (st_arena st) i with
    | CAffNeg _ | CAffAdd _ _ | CAffSub _ _ | CAffMulL _ _ | CAffMulR _ _ | CAffDiv _ _ =>
        let '(st1, m) := opt_affine f st (o_one O) i [] in
        rebuild_affine O st1 m
    | CComm op _ _ =>
        let '(st1, l) := opt_comm f st op i [] in
        fold_comm O st1 op l
    | COther => opt_other f st i
    end.
  Proof. reflexivity. Qed.

  Lemma opt_other_S f st i :
    opt_other (S f) st i =
    match getn (st_arena st) i with
    | NUnary op x =>
        let '(st1, x') := opt_tree f st x in
        let '(st2, self) := uniq O st1 i in
        if Nat.eqb x' x then (st2, self)
        else lift_uniq O st2 (mk_unary O (st_arena st2) op x')
    | NBinary op x y =>
        let '(st1, y') := opt_tree f st y in
        let '(st2, x') := opt_tree f st1 x in
        let '(st3, self) := uniq O st2 i in
        if Nat.eqb x' x && Nat.eqb y' y then (st3, self)
        else lift_uniq O st3 (mk_bin O (st_arena st3) op x' y')
    | NOracleT x y z u =>
        let '(st0, self) := uniq O st i in
        let '(st1, u') := coord st0 u in
        let '(st2, x') := coord st1 x in
        let '(st3, y') := coord st2 y in
        let '(st4, z') := coord st3 z in
        lift_uniq O st4 (push (st_arena st4) (NOracleT x' y' z' u'))
    | _ => uniq O st i
    end.
  Proof. reflexivity. Qed.

  Lemma opt_affine_S f st s i m :
    opt_affine (S f) st s i m =
    match classify (st_arena st) i with
    | CAffNeg x => opt_affine f st (o_neg O s) x m
    | CAffAdd x y =>
        let '(st1, m1) := opt_affine f st s y m in
        opt_affine f st1 s x m1
    | CAffSub x y =>
        let '(st1, m1) := opt_affine f st (o_neg O s) y m in
        opt_affine f st1 s x m1
    | CAffMulL c y => opt_affine f st (o_mul O c s) y m
    | CAffMulR x c => opt_affine f st (o_mul O c s) x m
    | CAffDiv x c => opt_affine f st (o_div O s c) x m
    | CComm op _ _ =>
        let '(st1, l) := opt_comm f st op i [] in
        let '(st2, n) := fold_comm O st1 op l in
        (st2, add_term O st2 m n s)
    | COther =>
        let '(st1, n) := opt_other f st i in
        (st1, add_term O st1 m n s)
    end.
  Proof. reflexivity. Qed.

  Lemma opt_comm_S f st op i l :
    opt_comm (S f) st op i l =
    match classify (st_arena st) i with
    | CComm op' x y =>
        if opcode_eqb op' op then
          let '(st1, l1) := opt_comm f st op y l in
          opt_comm f st1 op x l1
        else
          let '(st1, n) := opt_tree f st i in (st1, l ++ [n])
    | _ =>
        let '(st1, n) := opt_tree f st i in (st1, l ++ [n])
    end.
  Proof. reflexivity. Qed.

  (* ---------------------------------------------------------------- *)
  (* the four invariants *)
  Definition aff_ok (a : arena) (res : ost * list (nat * R)) (f : env -> R) : Prop :=
    st_ok (fst res) /\ extends a (st_arena (fst res)) /\
    amap_ok (st_arena (fst res)) (snd res) /\
    forall r, amap_sum (st_arena (fst res)) (snd res) r = f r.

  Definition comm_ok (a : arena) (op : opcode) (l : list nat) (res : ost * list nat)
             (f : env -> R) : Prop :=
    st_ok (fst res) /\ extends a (st_arena (fst res)) /\
    exists l2, snd res = l ++ l2 /\ l2 <> [] /\ ids_ok (st_arena (fst res)) l2 /\
               forall r, cval op (st_arena (fst res)) r l2 = f r.

  Definition comm_fuel (fuel : nat) (op : opcode) (a : arena) (i : nat) : Prop :=
    ((exists x y, classify a i = CComm op x y) /\ 4 * i + 1 <= fuel) \/ 4 * i + 4 <= fuel.

  Definition P_tree (fuel : nat) : Prop := forall st i,
    st_ok st -> i < length (st_arena st) -> good (st_arena st) i -> 4 * i + 3 <= fuel ->
    res_ok (st_arena st) (opt_tree fuel st i) (val (st_arena st) i).
  Definition P_other (fuel : nat) : Prop := forall st i,
    st_ok st -> i < length (st_arena st) -> good (st_arena st) i -> 4 * i + 1 <= fuel ->
    res_ok (st_arena st) (opt_other fuel st i) (val (st_arena st) i).
  Definition P_aff (fuel : nat) : Prop := forall st s i m,
    st_ok st -> i < length (st_arena st) -> good (st_arena st) i -> amap_ok (st_arena st) m -> 4 * i + 2 <= fuel ->
    aff_ok (st_arena st) (opt_affine fuel st s i m)
           (fun r => (s * val (st_arena st) i r + amap_sum (st_arena st) m r)%R).
  Definition P_comm (fuel : nat) : Prop := forall st op i l,
    st_ok st -> i < length (st_arena st) -> good (st_arena st) i -> comm_op op -> comm_fuel fuel op (st_arena st) i ->
    comm_ok (st_arena st) op l (opt_comm fuel st op i l) (val (st_arena st) i).

  Lemma aff_then_rebuild f st i : P_aff f -> st_ok st -> i < length (st_arena st) ->
    good (st_arena st) i -> 4 * i + 2 <= f ->
    res_ok (st_arena st)
      (let '(st1, m) := opt_affine f st (o_one O) i [] in rebuild_affine O st1 m)
      (val (st_arena st) i).
  Proof.
    intros PA Hst Hi Hg Hf.
    pose proof (PA st (o_one O) i [] Hst Hi Hg (Forall_nil _) Hf) as H1.
    destruct (opt_affine f st (o_one O) i []) as [st1 m].
    destruct H1 as (Hst1 & He1 & Hm & Hv); cbn [fst snd] in *.
    eapply res_trans; [exact He1|]. eapply res_weaken; [apply rebuild_affine_ok; assumption|].
    intros r. rewrite Hv. rsimp. cbn [amap_sum fold_right]. lra.
  Qed.

  Lemma comm_then_fold f st op i x y : P_comm f -> st_ok st -> i < length (st_arena st) ->
    good (st_arena st) i -> classify (st_arena st) i = CComm op x y -> comm_op op -> 4 * i + 1 <= f ->
    res_ok (st_arena st)
      (let '(st1, l) := opt_comm f st op i [] in fold_comm O st1 op l)
      (val (st_arena st) i).
  Proof.
    intros PC Hst Hi Hg Ec Hop Hf.
    assert (Hcf : comm_fuel f op (st_arena st) i) by (left; split; [exists x, y; exact Ec | exact Hf]).
    pose proof (PC st op i [] Hst Hi Hg Hop Hcf) as H1.
    destruct (opt_comm f st op i []) as [st1 l].
    destruct H1 as (Hst1 & He1 & l2 & Hl & Hne & Hids & Hv); cbn [fst snd app] in *. subst l.
    eapply res_trans; [exact He1|]. eapply res_weaken; [apply fold_comm_ok; assumption|].
    exact Hv.
  Qed.

  Lemma tree_step f : P_aff f -> P_comm f -> P_other f -> P_tree (S f).
  Proof.
    intros PA PC PO st i Hst Hi Hg Hf. rewrite opt_tree_S.
    pose proof (classify_cases (st_arena st) i (proj1 Hst) Hi) as Hc. revert Hc.
    destruct (classify (st_arena st) i) as [x|x y|x y|c y|x c|x c|op x y|] eqn:Ec; intros Hc;
      try (apply aff_then_rebuild; [exact PA | exact Hst | exact Hi | exact Hg | lia]).
    - destruct Hc as (Hop & _). eapply comm_then_fold; eauto. lia.
    - apply PO; auto. lia.
  Qed.

  Lemma st_ok_wf st : st_ok st -> arena_wf (st_arena st).
  Proof. intros H; apply H. Qed.

  Lemma other_step f : P_tree f -> P_other (S f).
  Proof.
    intros PT st i Hst Hi Hg Hf. rewrite opt_other_S.
    pose proof (st_ok_wf st Hst) as Hwf.
    assert (Hgk : forall st1 k, extends (st_arena st) (st_arena st1) ->
                  In k (akids (getn (st_arena st) i)) -> good (st_arena st1) k)
      by (intros st1 k0 He0 Hk0; exact (good_child st st1 i k0 Hwf He0 Hi Hg Hk0)).
    destruct (getn (st_arena st) i) as [c|o|o x|o x y|k|x y z u|x y z t|v e t|] eqn:Hn;
      try (apply uniq_ok; assumption); cbn [akids] in Hgk.
    - (* unary *)
      destruct (val_unary O osem _ i o x (env0 O) Hwf Hi Hn) as [Hxi _].
      assert (Hv : forall r, val (st_arena st) i r = o_un O o (val (st_arena st) x r))
        by (intros r; apply (val_unary O osem _ i o x r Hwf Hi Hn)).
      pose proof (shape_unary_args _ i o x Hwf Hi Hn) as Hop.
      pose proof (PT st x Hst ltac:(lia) (Hgk st x (extends_refl _) ltac:(simpl; auto)) ltac:(lia)) as H1.
      destruct (opt_tree f st x) as [st1 x'].
      destruct H1 as (Hst1 & He1 & Hx' & Hv1); cbn [fst snd] in *.
      pose proof (extends_length _ _ He1) as Hl1.
      pose proof (uniq_ok st1 i Hst1 ltac:(lia)) as H2.
      destruct (uniq O st1 i) as [st2 self].
      destruct H2 as (Hst2 & He2 & Hself & Hv2); cbn [fst snd] in *.
      pose proof (extends_length _ _ He2) as Hl2.
      assert (He02 : extends (st_arena st) (st_arena st2)) by (eapply extends_trans; eauto).
      eapply res_trans; [exact He02|].
      destruct (Nat.eqb x' x) eqn:Hxx.
      + split; [exact Hst2|]. cbn [fst snd]. split; [apply extends_refl|]. split; [exact Hself|].
        intros r. rewrite Hv2. apply (extends_val O osem); auto.
      + eapply res_weaken; [apply un_uniq_ok; auto; lia|].
        intros r; cbn beta. rewrite (extends_val O osem _ _ x' r He2 Hx'), Hv1, Hv. reflexivity.
    - (* binary *)
      destruct (val_binary O osem _ i o x y (env0 O) Hwf Hi Hn) as (Hxi & Hyi & _).
      assert (Hv : forall r, val (st_arena st) i r
                             = o_bin O o (val (st_arena st) x r) (val (st_arena st) y r))
        by (intros r; apply (val_binary O osem _ i o x y r Hwf Hi Hn)).
      pose proof (shape_binary_args _ i o x y Hwf Hi Hn) as Hop.
      pose proof (PT st y Hst ltac:(lia) (Hgk st y (extends_refl _) ltac:(simpl; auto)) ltac:(lia)) as H1.
      destruct (opt_tree f st y) as [st1 y'].
      destruct H1 as (Hst1 & He1 & Hy' & Hv1); cbn [fst snd] in *.
      pose proof (extends_length _ _ He1) as Hl1.
      pose proof (PT st1 x Hst1 ltac:(lia) (Hgk st1 x He1 ltac:(simpl; auto)) ltac:(lia)) as H2.
      destruct (opt_tree f st1 x) as [st2 x'].
      destruct H2 as (Hst2 & He2 & Hx' & Hv2); cbn [fst snd] in *.
      pose proof (extends_length _ _ He2) as Hl2.
      pose proof (uniq_ok st2 i Hst2 ltac:(lia)) as H3.
      destruct (uniq O st2 i) as [st3 self].
      destruct H3 as (Hst3 & He3 & Hself & Hv3); cbn [fst snd] in *.
      pose proof (extends_length _ _ He3) as Hl3.
      assert (He02 : extends (st_arena st) (st_arena st2)) by (eapply extends_trans; eauto).
      assert (He03 : extends (st_arena st) (st_arena st3)) by (eapply extends_trans; eauto).
      assert (He13 : extends (st_arena st1) (st_arena st3)) by (eapply extends_trans; eauto).
      eapply res_trans; [exact He03|].
      destruct (Nat.eqb x' x && Nat.eqb y' y) eqn:Hxx.
      + split; [exact Hst3|]. cbn [fst snd]. split; [apply extends_refl|]. split; [exact Hself|].
        intros r. rewrite Hv3. apply (extends_val O osem); auto.
      + eapply res_weaken; [apply bin_uniq_ok; auto; lia|].
        intros r; cbn beta.
        rewrite (extends_val O osem _ _ x' r He3 Hx'), Hv2.
        rewrite (extends_val O osem _ _ y' r He13 Hy'), Hv1.
        rewrite (extends_val O osem _ _ x r He1) by lia. rewrite Hv. reflexivity.
    - (* transformed oracle: rebuilt over children denoting the same functions *)
      assert (Hv : forall r, val (st_arena st) i r
                = val (st_arena st) u (upd_xyz r (val (st_arena st) x r) (val (st_arena st) y r)
                                               (val (st_arena st) z r)))
        by (intros r; apply (val_oracleT _ i x y z u r Hwf Hi Hn)).
      destruct (val_oracleT _ i x y z u (env0 O) Hwf Hi Hn) as [(Hxi & Hyi & Hzi & Hui) _].
      pose proof (uniq_ok st i Hst Hi) as H0.
      destruct (uniq O st i) as [st0 self].
      destruct H0 as (Hst0 & He0 & _ & _); cbn [fst snd] in *.
      pose proof (extends_length _ _ He0) as Hl0.
      pose proof (coord_ok st0 u Hst0 ltac:(lia) (Hgk st0 u He0 ltac:(simpl; auto))) as H1.
      destruct (coord st0 u) as [st1 u'].
      destruct H1 as (Hst1 & He1 & Hu' & Hv1); cbn [fst snd] in *.
      pose proof (extends_length _ _ He1) as Hl1.
      assert (He01 : extends (st_arena st) (st_arena st1)) by (eapply extends_trans; eauto).
      pose proof (coord_ok st1 x Hst1 ltac:(lia) (Hgk st1 x He01 ltac:(simpl; auto))) as H2.
      destruct (coord st1 x) as [st2 x'].
      destruct H2 as (Hst2 & He2 & Hx' & Hv2); cbn [fst snd] in *.
      pose proof (extends_length _ _ He2) as Hl2.
      assert (He02 : extends (st_arena st) (st_arena st2)) by (eapply extends_trans; eauto).
      pose proof (coord_ok st2 y Hst2 ltac:(lia) (Hgk st2 y He02 ltac:(simpl; auto))) as H3.
      destruct (coord st2 y) as [st3 y'].
      destruct H3 as (Hst3 & He3 & Hy' & Hv3); cbn [fst snd] in *.
      pose proof (extends_length _ _ He3) as Hl3.
      assert (He03 : extends (st_arena st) (st_arena st3)) by (eapply extends_trans; eauto).
      pose proof (coord_ok st3 z Hst3 ltac:(lia) (Hgk st3 z He03 ltac:(simpl; auto))) as H4.
      destruct (coord st3 z) as [st4 z'].
      destruct H4 as (Hst4 & He4 & Hz' & Hv4); cbn [fst snd] in *.
      pose proof (extends_length _ _ He4) as Hl4.
      assert (He04 : extends (st_arena st) (st_arena st4)) by (eapply extends_trans; eauto).
      assert (He14 : extends (st_arena st1) (st_arena st4))
        by (eapply extends_trans; [|exact He4]; eapply extends_trans; eauto).
      assert (He24 : extends (st_arena st2) (st_arena st4)) by (eapply extends_trans; eauto).
      eapply res_trans; [exact He04|].
      apply lift_uniq_ok; [exact Hst4|].
      apply (ok_push O osem); [apply st_ok_wf; exact Hst4 | cbn [node_wf]; lia |].
      intros r. cbn [nodeval].
      change (getv O (vals O osem (st_arena st4)) u') with (val (st_arena st4) u').
      change (getv O (vals O osem (st_arena st4)) x') with (val (st_arena st4) x').
      change (getv O (vals O osem (st_arena st4)) y') with (val (st_arena st4) y').
      change (getv O (vals O osem (st_arena st4)) z') with (val (st_arena st4) z').
      rewrite Hv4.
      rewrite (extends_val O osem _ _ y' r He4 Hy'), Hv3.
      rewrite (extends_val O osem _ _ x' r He24 Hx'), Hv2.
      rewrite (extends_val O osem _ _ u' _ He14 Hu'), Hv1.
      rewrite (extends_val O osem _ _ z r He03) by lia.
      rewrite (extends_val O osem _ _ y r He02) by lia.
      rewrite (extends_val O osem _ _ x r He01) by lia.
      rewrite (extends_val O osem _ _ u _ He0) by lia.
      symmetry; apply Hv.
  Qed.

  Lemma aff_weaken a res f g : aff_ok a res f -> (forall r, f r = g r) -> aff_ok a res g.
  Proof.
    intros (H1 & H2 & H3 & H4) Hfg. split; [exact H1|]. split; [exact H2|]. split; [exact H3|].
    intros r; rewrite H4; apply Hfg.
  Qed.

  Lemma aff_trans a a1 res f : extends a a1 -> aff_ok a1 res f -> aff_ok a res f.
  Proof.
    intros He (H1 & H2 & H3 & H4). split; [exact H1|]. split; [eapply extends_trans; eauto|].
    split; [exact H3 | exact H4].
  Qed.

  (* two children, the right one first *)
  Lemma aff_two f st s1 s2 x y m : P_aff f -> st_ok st ->
    x < length (st_arena st) -> y < length (st_arena st) ->
    good (st_arena st) x -> good (st_arena st) y -> amap_ok (st_arena st) m ->
    4 * x + 2 <= f -> 4 * y + 2 <= f ->
    aff_ok (st_arena st)
      (let '(st1, m1) := opt_affine f st s2 y m in opt_affine f st1 s1 x m1)
      (fun r => (s1 * val (st_arena st) x r + s2 * val (st_arena st) y r
                 + amap_sum (st_arena st) m r)%R).
  Proof.
    intros PA Hst Hx Hy Gx Gy Hm Hfx Hfy.
    pose proof (PA st s2 y m Hst Hy Gy Hm Hfy) as H1.
    destruct (opt_affine f st s2 y m) as [st1 m1].
    destruct H1 as (Hst1 & He1 & Hm1 & Hv1); cbn [fst snd] in *.
    pose proof (extends_length _ _ He1) as Hl1.
    pose proof (good_ext O osem _ _ x (st_ok_wf st Hst) He1 Hx Gx) as Gx1.
    eapply aff_trans; [exact He1|]. eapply aff_weaken; [apply PA; auto; lia|].
    intros r; cbn beta. rewrite Hv1, (extends_val O osem _ _ x r He1 Hx). lra.
  Qed.

  Lemma aff_step f : P_aff f -> P_comm f -> P_other f -> P_aff (S f).
  Proof.
    intros PA PC PO st s i m Hst Hi Hg Hm Hf. rewrite opt_affine_S.
    assert (Gk : forall k, In k (akids (getn (st_arena st) i)) -> good (st_arena st) k)
      by (intros k Hk; eapply good_kid; eauto).
    pose proof (classify_akids (st_arena st) i) as Hca. revert Hca.
    pose proof (classify_cases (st_arena st) i (st_ok_wf st Hst) Hi) as Hc. revert Hc.
    destruct (classify (st_arena st) i) as [x|x y|x y|c y|x c|x c|op x y|] eqn:Ec; intros Hc Hca;
      try (match type of Hca with _ /\ _ => destruct Hca as [Hca1 Hca2] end;
           pose proof (Gk _ Hca1) as Gx; pose proof (Gk _ Hca2) as Gy);
      try (pose proof (Gk _ Hca) as Gx).
    - destruct Hc as (Hx & Hv).
      eapply aff_weaken; [apply PA; auto; lia|]. intros r; cbn beta. rewrite Hv. rsimp. lra.
    - destruct Hc as (Hx & Hy & Hv).
      eapply aff_weaken; [apply aff_two; auto; lia|]. intros r; cbn beta. rewrite Hv. lra.
    - destruct Hc as (Hx & Hy & Hv).
      eapply aff_weaken; [apply aff_two; auto; lia|]. intros r; cbn beta. rewrite Hv. rsimp. lra.
    - destruct Hc as (Hy & Hv).
      eapply aff_weaken; [apply PA; auto; lia|]. intros r; cbn beta. rewrite Hv. rsimp. ring.
    - destruct Hc as (Hx & Hv).
      eapply aff_weaken; [apply PA; auto; lia|]. intros r; cbn beta. rewrite Hv. rsimp. ring.
    - destruct Hc as (Hx & Hv).
      eapply aff_weaken; [apply PA; auto; lia|]. intros r; cbn beta. rewrite Hv. rsimp.
      unfold Rdiv. ring.
    - destruct Hc as (Hop & _).
      pose proof (comm_then_fold f st op i x y PC Hst Hi Hg Ec Hop ltac:(lia)) as H1.
      destruct (opt_comm f st op i []) as [st1 l].
      destruct (fold_comm O st1 op l) as [st2 n].
      destruct H1 as (Hst2 & He2 & Hn & Hv2); cbn [fst snd] in *.
      pose proof (amap_ok_extends _ _ m He2 Hm) as Hm2.
      destruct (add_term_ok st2 m n s Hst2 Hm2 Hn) as [Ha Hs].
      split; [exact Hst2|]. cbn [fst snd]. split; [exact He2|]. split; [exact Ha|].
      intros r. rewrite Hs, Hv2, (amap_sum_extends _ _ m r He2 Hm). lra.
    - pose proof (PO st i Hst Hi Hg ltac:(lia)) as H1.
      destruct (opt_other f st i) as [st1 n].
      destruct H1 as (Hst1 & He1 & Hn & Hv1); cbn [fst snd] in *.
      pose proof (amap_ok_extends _ _ m He1 Hm) as Hm1.
      destruct (add_term_ok st1 m n s Hst1 Hm1 Hn) as [Ha Hs].
      split; [exact Hst1|]. cbn [fst snd]. split; [exact He1|]. split; [exact Ha|].
      intros r. rewrite Hs, Hv1, (amap_sum_extends _ _ m r He1 Hm). lra.
  Qed.

  Lemma comm_leaf f st op i l : P_tree f -> st_ok st -> i < length (st_arena st) ->
    good (st_arena st) i -> 4 * i + 3 <= f ->
    comm_ok (st_arena st) op l (let '(st1, n) := opt_tree f st i in (st1, l ++ [n]))
            (val (st_arena st) i).
  Proof.
    intros PT Hst Hi Hg Hf. pose proof (PT st i Hst Hi Hg Hf) as H1.
    destruct (opt_tree f st i) as [st1 n].
    destruct H1 as (Hst1 & He1 & Hn & Hv1); cbn [fst snd] in *.
    split; [exact Hst1|]. cbn [fst snd]. split; [exact He1|].
    exists [n]. split; [reflexivity|]. split; [discriminate|].
    split; [constructor; [exact Hn | constructor]|]. intros r. unfold cval; cbn. apply Hv1.
  Qed.

  Lemma cval_app op a r l1 l2 : comm_op op -> l1 <> [] -> l2 <> [] ->
    cval op a r (l1 ++ l2) = o_bin O op (cval op a r l1) (cval op a r l2).
  Proof.
    intros Hop H1 H2. unfold cval, vals_of. rewrite map_app.
    apply cfold_app; [apply comm_assoc; exact Hop | |];
      intros E; apply map_eq_nil in E; contradiction.
  Qed.

  Lemma comm_step f : P_tree f -> P_comm f -> P_comm (S f).
  Proof.
    intros PT PC st op i l Hst Hi Hg Hop Hcf. rewrite opt_comm_S.
    assert (Gk : forall k, In k (akids (getn (st_arena st) i)) -> good (st_arena st) k)
      by (intros k Hk; eapply good_kid; eauto).
    pose proof (classify_akids (st_arena st) i) as Hca. revert Hca.
    pose proof (classify_cases (st_arena st) i (st_ok_wf st Hst) Hi) as Hc. revert Hc.
    assert (Hleaf : (forall x y, classify (st_arena st) i <> CComm op x y) ->
                    comm_ok (st_arena st) op l
                      (let '(st1, n) := opt_tree f st i in (st1, l ++ [n])) (val (st_arena st) i)).
    { intros Hne. apply comm_leaf; auto. destruct Hcf as [[(x & y & E) _]|H]; [|lia].
      exfalso; eapply Hne; eauto. }
    destruct (classify (st_arena st) i) as [x|x y|x y|c y|x c|x c|op' x y|] eqn:Ec; intros Hc Hca;
      try (apply Hleaf; intros; discriminate).
    destruct Hca as [Hca1 Hca2]. pose proof (Gk _ Hca1) as Gx. pose proof (Gk _ Hca2) as Gy.
    destruct (opcode_eqb op' op) eqn:Eo.
    - apply opcode_eqb_eq in Eo; subst op'.
      destruct Hc as (_ & Hx & Hy & Hv).
      assert (Hf : 4 * i <= f) by (destruct Hcf as [[_ H]|H]; lia).
      assert (Hcy : comm_fuel f op (st_arena st) y) by (right; lia).
      pose proof (PC st op y l Hst ltac:(lia) Gy Hop Hcy) as H1.
      destruct (opt_comm f st op y l) as [st1 l1].
      destruct H1 as (Hst1 & He1 & ly & Hl1 & Hney & Hidy & Hvy); cbn [fst snd] in *.
      pose proof (extends_length _ _ He1) as Hl.
      assert (Hcx : comm_fuel f op (st_arena st1) x) by (right; lia).
      pose proof (PC st1 op x l1 Hst1 ltac:(lia)
                     (good_ext O osem _ _ x (st_ok_wf st Hst) He1 ltac:(lia) Gx) Hop Hcx) as H2.
      destruct (opt_comm f st1 op x l1) as [st2 l2'].
      destruct H2 as (Hst2 & He2 & lx & Hl2 & Hnex & Hidx & Hvx); cbn [fst snd] in *.
      split; [exact Hst2|]. cbn [fst snd]. split; [eapply extends_trans; eauto|].
      exists (ly ++ lx). split; [subst; rewrite app_assoc; reflexivity|].
      split; [intros E; apply app_eq_nil in E; destruct E; contradiction|].
      split; [apply Forall_app; split; [eapply ids_ok_extends; eauto | exact Hidx]|].
      intros r. rewrite cval_app by assumption. rewrite Hvx.
      unfold cval. rewrite (vals_of_extends _ _ r ly He2 Hidy). fold (cval op (st_arena st1) r ly).
      rewrite Hvy, (extends_val O osem _ _ x r He1) by lia. rewrite Hv. apply comm_comm; exact Hop.
    - apply Hleaf. intros x0 y0 E. inversion E; subst. rewrite opcode_eqb_refl in Eo. discriminate.
  Qed.

  Theorem opt_all_sem : forall fuel, P_tree fuel /\ P_other fuel /\ P_aff fuel /\ P_comm fuel.
  Proof.
    induction fuel as [|f (PT & PO & PA & PC)].
    - split; [|split; [|split]].
      + intros st i _ _ _ H; lia.
      + intros st i _ _ _ H; lia.
      + intros st s i m _ _ _ _ H; lia.
      + intros st op i l _ _ _ _ [[_ H]|H]; lia.
    - split; [|split; [|split]].
      + apply tree_step; assumption.
      + apply other_step; assumption.
      + apply aff_step; assumption.
      + apply comm_step; assumption.
  Qed.

  (* ---------------------------------------------------------------- *)
  (* the theorems *)
  Definition fuel_enough (fuel i : nat) : Prop := 4 * i + 3 <= fuel.
  (* the only shape restriction concerns the transformed oracles whose components are
     flattened here: [good] (FlattenSem.v), implied by [noT] *)
  Definition flat_ok (a : arena) (i : nat) : Prop := good a i.

  Theorem opt_tree_sem : forall fuel st i,
    st_ok st -> i < length (st_arena st) -> flat_ok (st_arena st) i -> fuel_enough fuel i ->
    let '(st', j) := opt_tree fuel st i in
    st_ok st' /\ extends (st_arena st) (st_arena st') /\ j < length (st_arena st') /\
    forall r, val (st_arena st') j r = val (st_arena st) i r.
  Proof.
    intros fuel st i Hst Hi Hg Hf.
    destruct (opt_all_sem fuel) as (PT & _). pose proof (PT st i Hst Hi Hg Hf) as H.
    destruct (opt_tree fuel st i) as [st' j]. exact H.
  Qed.

  (* the other three contexts, for completeness *)
  Theorem opt_other_sem : forall fuel st i,
    st_ok st -> i < length (st_arena st) -> good (st_arena st) i -> 4 * i + 1 <= fuel ->
    res_ok (st_arena st) (opt_other fuel st i) (val (st_arena st) i).
  Proof. intros fuel; apply (opt_all_sem fuel). Qed.

  Theorem opt_affine_sem : forall fuel st s i m,
    st_ok st -> i < length (st_arena st) -> good (st_arena st) i -> amap_ok (st_arena st) m ->
    4 * i + 2 <= fuel ->
    aff_ok (st_arena st) (opt_affine fuel st s i m)
           (fun r => (s * val (st_arena st) i r + amap_sum (st_arena st) m r)%R).
  Proof. intros fuel; apply (opt_all_sem fuel). Qed.

  Theorem opt_comm_sem : forall fuel st op i l,
    st_ok st -> i < length (st_arena st) -> good (st_arena st) i -> comm_op op ->
    comm_fuel fuel op (st_arena st) i ->
    comm_ok (st_arena st) op l (opt_comm fuel st op i l) (val (st_arena st) i).
  Proof. intros fuel; apply (opt_all_sem fuel). Qed.

  (* Tree::optimized_helper on a state, one level: flatten, then the stack machine *)
  Lemma helper_with_sem : forall st i,
    st_ok st -> i < length (st_arena st) -> good (st_arena st) i ->
    res_ok (st_arena st) (helper_with O coord st i) (val (st_arena st) i).
  Proof.
    intros st i (Hwf & Hb & Hc) Hi Hg. unfold helper_with.
    pose proof (flatten_sem_o O osem LAWS _ i Hwf Hb Hi Hg) as H1.
    pose proof (flatten_gr O osem _ i Hwf Hb Hi Hg) as G1.
    destruct (flatten O (st_arena st) i) as [a1 j].
    destruct H1 as (He1 & Hwf1 & Hj & Hv1); destruct G1 as (_ & _ & _ & Gj); cbn [fst snd] in *.
    set (st' := {| st_arena := a1; st_canon := st_canon st; st_oof := st_oof st |}).
    assert (Hst : st_ok st').
    { split; [exact Hwf1|]. split; cbn [st' st_arena st_canon];
        [eapply base_ok_extends; eauto | eapply canon_ok_extends; eauto]. }
    destruct (opt_all_sem (opt_fuel j)) as (PT & _).
    assert (Hf : 4 * j + 3 <= opt_fuel j) by (unfold opt_fuel; lia).
    pose proof (PT st' j Hst Hj Gj Hf) as H2. cbn [st' st_arena] in H2.
    eapply res_trans; [exact He1|]. eapply res_weaken; [exact H2|]. exact Hv1.
  Qed.
  End WithCoord.

  (* the specification of [coord] holds at every level: at level 0 the component is
     left as it is (and the out-of-fuel flag raised), which preserves the value too *)
  Theorem coord_lvl_sem : forall n st i,
    st_ok st -> i < length (st_arena st) -> good (st_arena st) i ->
    res_ok (st_arena st) (coord_lvl O n st i) (val (st_arena st) i).
  Proof.
    induction n as [|n IH]; intros st i Hst Hi Hg.
    - cbn [coord_lvl]. split; [exact Hst|]. cbn [fst snd set_oof st_arena].
      split; [apply extends_refl|]. split; [exact Hi | reflexivity].
    - cbn [coord_lvl]. apply helper_with_sem; assumption.
  Qed.

  Lemma st_ok_init a c o : arena_wf a -> base_ok O a -> canon_ok a c ->
    st_ok {| st_arena := a; st_canon := c; st_oof := o |}.
  Proof. intros; split; [|split]; assumption. Qed.

  (* Tree::optimized_helper with a threaded canonical map, any level fuel, sources
     with transformed oracles anywhere; holds whether or not the level fuel ran out *)
  Theorem optimized_helper_lvl_sem : forall n st i,
    st_ok st -> i < length (st_arena st) -> good (st_arena st) i ->
    res_ok (st_arena st) (optimized_helper_lvl O n st i) (val (st_arena st) i).
  Proof.
    intros n st i Hst Hi Hg. unfold optimized_helper_lvl.
    apply (helper_with_sem (coord_lvl O n) (coord_lvl_sem n)); assumption.
  Qed.

  Theorem optimized_helper_sem_o : forall a c i,
    arena_wf a -> base_ok O a -> canon_ok a c -> i < length a -> good a i ->
    res_ok a (optimized_helper O a c i) (val a i).
  Proof.
    intros a c i Hwf Hb Hc Hi Hg. unfold optimized_helper.
    apply (optimized_helper_lvl_sem (lvl_fuel a i)
             {| st_arena := a; st_canon := c; st_oof := false |}); auto.
    apply st_ok_init; assumption.
  Qed.

  Theorem optimized_helper_sem : forall a c i,
    arena_wf a -> base_ok O a -> canon_ok a c -> i < length a -> noT a i ->
    res_ok a (optimized_helper O a c i) (val a i).
  Proof.
    intros a c i Hwf Hb Hc Hi HnoT. apply optimized_helper_sem_o; auto.
    apply good_noT; assumption.
  Qed.

  (* Tree::optimized on a source with transformed oracles anywhere (lazy remaps /
     applies above and inside them) *)
  Theorem optimized_sem_o : forall a i,
    arena_wf a -> base_ok O a -> i < length a -> good a i ->
    let '(a', j) := optimized O a i in
    extends a a' /\ arena_wf a' /\ base_ok O a' /\ j < length a' /\
    forall r, val a' j r = val a i r.
  Proof.
    intros a i Hwf Hb Hi Hg. unfold optimized, optimized_full.
    pose proof (optimized_helper_sem_o a [] i Hwf Hb (Forall_nil _) Hi Hg) as H.
    destruct (optimized_helper O a [] i) as [st j].
    destruct H as (Hst & He & Hj & Hv); cbn [fst snd] in *.
    split; [exact He|]. split; [apply st_ok_wf; exact Hst|]. split; [apply Hst|].
    split; [exact Hj | exact Hv].
  Qed.

  (* Tree::optimized; [noT] is the hypothesis of [flatten_sem] *)
  Theorem optimized_sem_noT : forall a i,
    arena_wf a -> base_ok O a -> i < length a -> noT a i ->
    let '(a', j) := optimized O a i in
    extends a a' /\ arena_wf a' /\ j < length a' /\ forall r, val a' j r = val a i r.
  Proof.
    intros a i Hwf Hb Hi HnoT.
    pose proof (optimized_sem_o a i Hwf Hb Hi (good_noT O osem a i Hwf Hi HnoT)) as H.
    destruct (optimized O a i) as [a' j]. destruct H as (H1 & H2 & _ & H3 & H4). auto.
  Qed.

  (* remap-free, oracle-free arenas *)
  Definition pure (a : arena) (i : nat) : Prop :=
    forall j, j <= i ->
      match getn a j with
      | NConst _ | NNullary _ | NUnary _ _ | NBinary _ _ _ => True
      | _ => False
      end.

  Lemma pure_noT a i : pure a i -> noT a i.
  Proof.
    intros Hp j Hj. specialize (Hp j Hj). destruct (getn a j); try contradiction; reflexivity.
  Qed.

  Theorem optimized_sem : forall a i,
    arena_wf a -> base_ok O a -> i < length a -> pure a i ->
    let '(a', j) := optimized O a i in
    extends a a' /\ arena_wf a' /\ j < length a' /\ forall r, val a' j r = val a i r.
  Proof. intros a i Hwf Hb Hi Hp. apply optimized_sem_noT; auto. apply pure_noT; exact Hp. Qed.

  (* Tree::eq compares two handles optimized against one shared canonical map;
     both optimized handles still denote the original functions *)
  Theorem cooptimize_sem_o : forall a i j,
    arena_wf a -> base_ok O a -> i < length a -> j < length a -> good a i -> good a j ->
    let '(st1, i') := optimized_helper O a [] i in
    let '(st2, j') := optimized_helper O (st_arena st1) (st_canon st1) j in
    extends a (st_arena st2) /\ i' < length (st_arena st2) /\ j' < length (st_arena st2) /\
    forall r, val (st_arena st2) i' r = val a i r /\ val (st_arena st2) j' r = val a j r.
  Proof.
    intros a i j Hwf Hb Hi Hj Hni Hnj.
    pose proof (optimized_helper_sem_o a [] i Hwf Hb (Forall_nil _) Hi Hni) as H1.
    destruct (optimized_helper O a [] i) as [st1 i'].
    destruct H1 as (Hst1 & He1 & Hi' & Hv1); cbn [fst snd] in *.
    destruct Hst1 as (Hwf1 & Hb1 & Hc1).
    pose proof (extends_length _ _ He1) as Hl1.
    assert (Hnj1 : good (st_arena st1) j) by exact (good_ext O osem a (st_arena st1) j Hwf He1 Hj Hnj).
    pose proof (optimized_helper_sem_o (st_arena st1) (st_canon st1) j Hwf1 Hb1 Hc1 ltac:(lia) Hnj1) as H2.
    destruct (optimized_helper O (st_arena st1) (st_canon st1) j) as [st2 j'].
    destruct H2 as (Hst2 & He2 & Hj' & Hv2); cbn [fst snd] in *.
    pose proof (extends_length _ _ He2) as Hl2.
    split; [eapply extends_trans; eauto|]. split; [lia|]. split; [exact Hj'|].
    intros r. split.
    - rewrite (extends_val O osem _ _ i' r He2 Hi'). apply Hv1.
    - rewrite Hv2. apply (extends_val O osem); auto.
  Qed.

  Theorem cooptimize_sem : forall a i j,
    arena_wf a -> base_ok O a -> i < length a -> j < length a -> noT a i -> noT a j ->
    let '(st1, i') := optimized_helper O a [] i in
    let '(st2, j') := optimized_helper O (st_arena st1) (st_canon st1) j in
    extends a (st_arena st2) /\ i' < length (st_arena st2) /\ j' < length (st_arena st2) /\
    forall r, val (st_arena st2) i' r = val a i r /\ val (st_arena st2) j' r = val a j r.
  Proof.
    intros a i j Hwf Hb Hi Hj Hni Hnj.
    apply cooptimize_sem_o; auto; apply good_noT; assumption.
  Qed.
End OptSem.

Print Assumptions opt_tree_sem.
Print Assumptions optimized_sem.
Print Assumptions optimized_sem_noT.
Print Assumptions cooptimize_sem.
Print Assumptions optimized_sem_o.
Print Assumptions cooptimize_sem_o.
