(* Purity of Tree::optimized for sources WITH oracles, and sufficiency of the
   level fuel.

   [src_ok_o a i]   every node reachable from [i] through ANY child link (the
                    components of transformed oracles included) is a constant, a
                    canonical axis, a free variable, a unary / binary operation, a
                    remap, an apply, a user oracle, or a transformed oracle whose
                    underlying node is a user oracle.
   [hp true a j]    (OptimizePure.v) what comes out: plain nodes, user oracles and
                    transformed oracles over a user oracle whose three coordinate
                    trees are again of this kind: no lazy node anywhere below,
                    coordinate trees included.

   [flat_FR] / [flatten_FR]      flatten of a [src_ok_o] source: admissible as a
                    source again, free of lazy nodes along walk()'s links, level
                    bound not increased (relative to the environment's).
   [lvl_pr]         the specification of [coord_lvl n] on every component whose
                    level bound is below [n] (induction on the level).
   [optimized_helper_o], [optimized_o_pure], [optimized_full_flag]
                    Tree::optimized on a [src_ok_o] source returns an [hp true]
                    node and NEVER raises the out-of-fuel flag (the level fuel
                    [lvl_fuel a i = S (bnd_of a i)] suffices).
   [lvl_index_insufficient]      a level fuel equal to the node index + 1 does not. *)
From Coq Require Import List Arith Bool Lia.
From LF Require Import Base.Opcode Base.Num Base.Arena Tree.Build Tree.BuildSem
  Tree.RemapSem Tree.Flatten Tree.Optimize Eval.Deck Eval.DeckSem Tree.ReachShape Tree.Bnd
  Tree.OptimizePure.
Import ListNotations.

Section SrcO.
  Context {num : Type} (O : ops num).
  Notation node := (node num).
  Notation arena := (arena num).
  Notation ost := (@ost num).
  (* [vb]: are free variables (and apply nodes) admitted? *)
  Variable vb : bool.
  Notation plain_at := (@OptimizePure.plain_at num).
  Notation oshape := (@OptimizePure.oshape num true vb).
  Notation hp := (@OptimizePure.hp num true vb).
  Notation kp := (@OptimizePure.kp num true vb).

  (* all child links *)
  Definition fkids (n : node) : list nat :=
    match n with
    | NUnary _ x => [x]
    | NBinary _ x y => [x; y]
    | NOracleT x y z u => [x; y; z; u]
    | NRemap x y z t => [x; y; z; t]
    | NApply v e t => [v; e; t]
    | _ => []
    end.

  Definition soshape (a : arena) (m : nat) (n : node) : Prop :=
    match n with
    | NConst _ => True
    | NNullary VAR_X => m = idX
    | NNullary VAR_Y => m = idY
    | NNullary VAR_Z => m = idZ
    | NNullary VAR_FREE => vb = true
    | NUnary _ _ | NBinary _ _ _ | NRemap _ _ _ _ => True
    | NApply _ _ _ => vb = true
    | NOracle _ => True
    | NOracleT _ _ _ u => plain_at a u
    | _ => False
    end.

  Definition src_ok_o (a : arena) (i : nat) : Prop := all_ok fkids soshape a i.

  Lemma fkids_wf : forall len (n : node) k, node_wf len n -> In k (fkids n) -> k < len.
  Proof. intros len n k; destruct n; simpl; intuition lia. Qed.

  Lemma soshape_ext : forall a a' m, arena_wf a -> extends a a' -> m < length a ->
    soshape a m (getn a m) -> soshape a' m (getn a m).
  Proof.
    intros a a' m Hwf He Hm. pose proof (arena_wf_nth a m Hwf Hm) as Hw.
    destruct (getn a m); cbn [soshape node_wf] in *; auto.
    apply (plain_extends a a'); auto. lia.
  Qed.

  Lemma so_unfold a j :
    src_ok_o a j <-> soshape a j (getn a j) /\ forall k, In k (fkids (getn a j)) -> src_ok_o a k.
  Proof. apply all_unfold. Qed.

  Lemma so_kid a j k : src_ok_o a j -> In k (fkids (getn a j)) -> src_ok_o a k.
  Proof. apply all_kid. Qed.

  Lemma so_extends a a' j : arena_wf a -> extends a a' -> j < length a ->
    src_ok_o a j -> src_ok_o a' j.
  Proof. intros Hwf He Hj. apply (all_extends fkids soshape fkids_wf soshape_ext a a' Hwf He j Hj). Qed.

  (* a boolean check, to establish [src_ok_o] on concrete arenas *)
  Fixpoint sob (fuel : nat) (a : arena) (i : nat) : bool :=
    match fuel with
    | 0 => false
    | S f =>
        match getn a i with
        | NConst _ => true
        | NNullary VAR_X => Nat.eqb i idX
        | NNullary VAR_Y => Nat.eqb i idY
        | NNullary VAR_Z => Nat.eqb i idZ
        | NNullary VAR_FREE => vb
        | NNullary _ => false
        | NUnary _ x => sob f a x
        | NBinary _ x y => sob f a x && sob f a y
        | NOracle _ => true
        | NOracleT x y z u =>
            sob f a x && sob f a y && sob f a z && sob f a u &&
            match getn a u with NOracle _ => true | _ => false end
        | NRemap x y z t => sob f a x && sob f a y && sob f a z && sob f a t
        | NApply v e t => vb && sob f a v && sob f a e && sob f a t
        | NInvalid => false
        end
    end.

  Lemma sob_sound : forall fuel a i, sob fuel a i = true -> src_ok_o a i.
  Proof.
    induction fuel as [|f IH]; intros a i H; [discriminate H|].
    cbn [sob] in H. apply so_unfold.
    destruct (getn a i) as [c|o|o x|o x y|k|x y z u|x y z t|v e t|] eqn:Hn;
      cbn [soshape fkids]; try discriminate H.
    - split; [exact I | intros q []].
    - split; [|intros q []].
      destruct o; try discriminate H; try (apply Nat.eqb_eq; exact H); exact H.
    - split; [exact I|]. intros q [<-|[]]. apply IH; exact H.
    - apply andb_true_iff in H. destruct H as [H1 H2].
      split; [exact I|]. intros q [<-|[<-|[]]]; apply IH; assumption.
    - split; [exact I | intros q []].
    - repeat (apply andb_true_iff in H; let H' := fresh "G" in destruct H as [H H']).
      split.
      + destruct (getn a u) as [| | | |k| | | |] eqn:Eu; try discriminate G. exists k; exact Eu.
      + intros q [<-|[<-|[<-|[<-|[]]]]]; apply IH; assumption.
    - repeat (apply andb_true_iff in H; let H' := fresh "G" in destruct H as [H H']).
      split; [exact I|]. intros q [<-|[<-|[<-|[<-|[]]]]]; apply IH; assumption.
    - repeat (apply andb_true_iff in H; let H' := fresh "G" in destruct H as [H H']).
      split; [exact H|]. intros q [<-|[<-|[<-|[]]]]; apply IH; assumption.
  Qed.

  (* oracle-free sources and optimised outputs are sources *)
  Lemma src_ok_so a i : vb = true -> src_ok a i -> src_ok_o a i.
  Proof.
    intros Hv. apply (all_ok_change skids fkids (fun _ => sshape) soshape).
    intros a0 m n H. destruct n as [c|o|o x|o x y|k|x y z u|x y z t|v e t|];
      cbn in *; try contradiction; try (split; [try exact I; try exact Hv; exact H | apply incl_refl]).
    split; [|apply incl_refl]. destruct o; try contradiction; try exact H; exact Hv.
  Qed.

  Lemma hp_so a j : hp a j -> src_ok_o a j.
  Proof.
    apply (all_ok_change okids fkids oshape soshape).
    intros a0 m n H. destruct n as [c|o|o x|o x y|k|x y z u|x y z t|v e t|];
      cbn in *; try contradiction; (split; [try exact I; try exact H; try apply H | apply incl_refl]).
  Qed.

  Lemma hp_kp a j : hp a j -> kp a j.
  Proof.
    apply (all_ok_change okids kids oshape oshape).
    intros a0 m n H. split; [exact H | apply kids_okids].
  Qed.

  Lemma kreach_oreach (a : arena) j m : greach kids a j m -> greach okids a j m.
  Proof.
    induction 1 as [|n k Hn IH Hk]; [constructor|]. econstructor; [exact IH|].
    apply kids_okids; exact Hk.
  Qed.

  Lemma hp_kreach a j m : hp a j -> greach kids a j m -> hp a m.
  Proof.
    intros H Hm q Hq. apply H. eapply greach_trans; [apply kreach_oreach; exact Hm | exact Hq].
  Qed.

  (* wrappers around the generic constructor lemmas *)
  Lemma kp_unfold a j : kp a j <-> oshape a j (getn a j) /\ forall k, In k (kids (getn a j)) -> kp a k.
  Proof. apply all_unfold. Qed.

  Lemma kp_extends a a' j : arena_wf a -> extends a a' -> j < length a -> kp a j -> kp a' j.
  Proof. intros Hwf He Hj. apply (all_extends kids oshape kids_wf (oshape_ext true vb) a a' Hwf He j Hj). Qed.

  Lemma kp_leaf a j : oshape a j (getn a j) -> kids (getn a j) = [] -> kp a j.
  Proof. intros Hs Hk. apply kp_unfold. split; [exact Hs|]. rewrite Hk. intros k []. Qed.

  (* ---------------------------------------------------------------- *)
  (* live source of level bound [d], free of lazy nodes along walk()'s links *)
  Definition G (d : nat) (a : arena) (j : nat) : Prop :=
    j < length a /\ src_ok_o a j /\ kp a j /\ bnd_of a j <= d.
  (* ... possibly a lazy node *)
  Definition GS (d : nat) (a : arena) (j : nat) : Prop :=
    j < length a /\ src_ok_o a j /\ bnd_of a j <= d.

  Lemma G_GS d a j : G d a j -> GS d a j.
  Proof. intros (H1 & H2 & _ & H4). repeat split; assumption. Qed.

  Lemma G_mono d d' a j : d <= d' -> G d a j -> G d' a j.
  Proof. intros Hd (H1 & H2 & H3 & H4). repeat split; auto. lia. Qed.

  Lemma GS_mono d d' a j : d <= d' -> GS d a j -> GS d' a j.
  Proof. intros Hd (H1 & H2 & H4). repeat split; auto. lia. Qed.

  Lemma G_extends d a a' j : arena_wf a -> extends a a' -> G d a j -> G d a' j.
  Proof.
    intros Hwf He (H1 & H2 & H3 & H4). pose proof (extends_length a a' He).
    split; [lia|]. split; [eapply so_extends; eauto|]. split; [eapply kp_extends; eauto|].
    rewrite (bnd_extends a a' j He H1). exact H4.
  Qed.

  Lemma GS_extends d a a' j : arena_wf a -> extends a a' -> GS d a j -> GS d a' j.
  Proof.
    intros Hwf He (H1 & H2 & H4). pose proof (extends_length a a' He).
    split; [lia|]. split; [eapply so_extends; eauto|].
    rewrite (bnd_extends a a' j He H1). exact H4.
  Qed.

  Definition FR (d : nat) (a : arena) (res : arena * nat) : Prop :=
    extends a (fst res) /\ arena_wf (fst res) /\ G d (fst res) (snd res).
  Definition FRS (d : nat) (a : arena) (res : arena * nat) : Prop :=
    extends a (fst res) /\ arena_wf (fst res) /\ GS d (fst res) (snd res).

  Lemma FR_same d a j : arena_wf a -> G d a j -> FR d a (a, j).
  Proof. intros; split; [apply extends_refl|]; cbn [fst snd]; auto. Qed.

  Lemma FR_trans d a a1 res : extends a a1 -> FR d a1 res -> FR d a res.
  Proof. intros He (H1 & H2 & H3). split; [eapply extends_trans; eauto|]. auto. Qed.

  Lemma FR_mono d d' a res : d <= d' -> FR d a res -> FR d' a res.
  Proof. intros Hd (H1 & H2 & H3). split; [exact H1|]. split; [exact H2|]. eapply G_mono; eauto. Qed.

  Lemma FR_of d a res : grp fkids soshape a res -> grp kids oshape a res -> bres res d -> FR d a res.
  Proof.
    intros (H1 & H2 & H3 & H4) (_ & _ & _ & H5) Hb.
    split; [exact H1|]. split; [exact H2|]. repeat split; assumption.
  Qed.

  Lemma unary_FR d a op l : arena_wf a -> G d a l -> args op = Some 1 -> FR d a (mk_unary O a op l).
  Proof.
    intros Hwf (Hl & Hs & Hk & Hb) Hop. apply FR_of.
    - apply (unary_grp O fkids soshape fkids_wf soshape_ext); auto; try (intros; exact I); intros; reflexivity.
    - apply (unary_grp O kids oshape kids_wf (oshape_ext true vb)); auto; try (intros; exact I); intros; reflexivity.
    - apply unary_bnd; assumption.
  Qed.

  Lemma bin_FR d a op l r : arena_wf a -> G d a l -> G d a r -> args op = Some 2 ->
    FR d a (mk_bin O a op l r).
  Proof.
    intros Hwf (Hl & Hsl & Hkl & Hbl) (Hr & Hsr & Hkr & Hbr) Hop. apply FR_of.
    - apply (bin_grp O fkids soshape fkids_wf soshape_ext); auto; try (intros; exact I); intros; reflexivity.
    - apply (bin_grp O kids oshape kids_wf (oshape_ext true vb)); auto; try (intros; exact I); intros; reflexivity.
    - apply bin_bnd; assumption.
  Qed.

  (* pushing a node of source shape *)
  Lemma so_push a n : arena_wf a -> node_wf (length a) n -> soshape (a ++ [n]) (length a) n ->
    (forall k, In k (fkids n) -> src_ok_o a k) -> src_ok_o (a ++ [n]) (length a).
  Proof.
    intros Hwf Hn Hs Hk.
    apply (grp_push_node fkids soshape fkids_wf soshape_ext a n Hwf Hn Hs Hk).
  Qed.

  Lemma remap_FRS dt d a t x y z : arena_wf a -> GS dt a t -> GS d a x -> GS d a y -> GS d a z ->
    FRS (dt + d) a (mk_remap a t x y z).
  Proof.
    intros Hwf (Ht & St & Bt) (Hx & Sx & Bx) (Hy & Sy & By) (Hz & Sz & Bz).
    pose proof (remap_bnd a t x y z) as Hb. unfold bres in Hb.
    unfold mk_remap in *.
    destruct (Nat.eqb x idX && Nat.eqb y idY && Nat.eqb z idZ).
    - split; [apply extends_refl|]. cbn [fst snd] in *. split; [exact Hwf|]. repeat split; auto. lia.
    - destruct (f_xyz (flags_of a t) || f_oracle (flags_of a t)).
      + unfold push, FRS in *. cbn [fst snd] in *.
        assert (Hnw : node_wf (length a) (NRemap x y z t : node)) by (cbn [node_wf]; auto).
        split; [apply gext_snoc|]. split; [apply arena_wf_snoc; auto|].
        split; [rewrite app_length; simpl; lia|]. split; [|lia].
        apply so_push; [exact Hwf | exact Hnw | exact I|].
        intros k [<-|[<-|[<-|[<-|[]]]]]; assumption.
      + split; [apply extends_refl|]. cbn [fst snd] in *. split; [exact Hwf|]. repeat split; auto. lia.
  Qed.

  (* ---------------------------------------------------------------- *)
  (* Tree::flatten *)
  Definition fenv_G (a : arena) (m : fenv) (d : nat) : Prop :=
    G d a (fx m) /\ G d a (fy m) /\ G d a (fz m) /\
    forall w j, lookup (fvars m) w = Some j -> G d a j.

  Lemma fenv_G_extends a a' m d : arena_wf a -> extends a a' -> fenv_G a m d -> fenv_G a' m d.
  Proof.
    intros Hwf He (H1 & H2 & H3 & H4).
    split; [|split; [|split]]; try (eapply G_extends; eauto; fail).
    intros w j Hl. eapply G_extends; eauto.
  Qed.

  Lemma fenv_G_mono a m d d' : d <= d' -> fenv_G a m d -> fenv_G a m d'.
  Proof.
    intros Hd (H1 & H2 & H3 & H4).
    split; [|split; [|split]]; try (eapply G_mono; eauto; fail).
    intros w j Hl. eapply G_mono; eauto.
  Qed.

  Lemma kp_unary a j op x : getn a j = NUnary op x -> kp a x -> kp a j.
  Proof.
    intros H Hx. apply kp_unfold. rewrite H. split; [exact I|]. intros k [<-|[]]; exact Hx.
  Qed.

  Lemma kp_binary a j op x y : getn a j = NBinary op x y -> kp a x -> kp a y -> kp a j.
  Proof.
    intros H Hx Hy. apply kp_unfold. rewrite H. split; [exact I|].
    intros k [<-|[<-|[]]]; assumption.
  Qed.

  Theorem flat_FR : forall fuel a m i d,
    i < fuel -> arena_wf a -> i < length a -> fenv_G a m d -> src_ok_o a i ->
    FR (bnd_of a i + d) a (flat O fuel a m i).
  Proof.
    induction fuel as [|fuel IH]; intros a m i d Hfuel Hwf Hi Hm Hsrc; [lia|].
    cbn [flat].
    pose proof (arena_wf_nth a i Hwf Hi) as Hnw.
    pose proof Hsrc as Hsrc0.
    apply so_unfold in Hsrc. destruct Hsrc as [Hsh Hks].
    destruct (getn a i) as [c|o|o x|o x y|k|x y z u|x y z t|v e t|] eqn:Hn;
      cbn [soshape fkids node_wf] in *; try contradiction.
    - (* constant *)
      apply FR_same; auto. split; [exact Hi|]. split; [exact Hsrc0|].
      split; [apply kp_leaf; rewrite Hn; [exact I | reflexivity] | lia].
    - (* nullary *)
      destruct Hm as (Hx & Hy & Hz & Hmv).
      assert (Hself : FR (bnd_of a i + d) a (a, i)).
      { apply FR_same; auto. split; [exact Hi|]. split; [exact Hsrc0|].
        split; [apply kp_leaf; rewrite Hn; [exact Hsh | reflexivity] | lia]. }
      destruct o; try contradiction; try exact Hself;
        try (apply FR_same; auto; eapply G_mono; [|eassumption]; lia).
      destruct (lookup (fvars m) i) as [j|] eqn:Hl; [|exact Hself].
      apply FR_same; auto. eapply G_mono; [|exact (Hmv i j Hl)]. lia.
    - (* unary *)
      destruct Hnw as [Hxi Ha].
      assert (Hx : x < length a) by lia.
      pose proof (bnd_unary a i o x Hwf Hi Hn) as Hbn.
      pose proof (IH a m x d ltac:(lia) Hwf Hx Hm (Hks x (or_introl eq_refl))) as IHx.
      destruct (flat O fuel a m x) as [a1 x'].
      destruct IHx as (He1 & Hwf1 & Hx'); cbn [fst snd] in *.
      pose proof (extends_length _ _ He1) as Hl1.
      eapply FR_trans; [exact He1|]. rewrite Hbn.
      destruct (Nat.eqb x' x) eqn:Hxx.
      + apply Nat.eqb_eq in Hxx; subst x'. apply FR_same; [exact Hwf1|].
        destruct Hx' as (_ & _ & Kx & Bx).
        split; [lia|]. split; [exact (so_extends a a1 i Hwf He1 Hi Hsrc0)|]. split.
        * eapply kp_unary; [|exact Kx]. rewrite (extends_getn a a1 i He1 Hi). exact Hn.
        * rewrite (bnd_extends a a1 i He1 Hi), Hbn. lia.
      + apply unary_FR; assumption.
    - (* binary *)
      destruct Hnw as (Hxi & Hyi & Ha).
      assert (Hx : x < length a) by lia. assert (Hy : y < length a) by lia.
      pose proof (bnd_binary a i o x y Hwf Hi Hn) as Hbn.
      pose proof (IH a m y d ltac:(lia) Hwf Hy Hm (Hks y (or_intror (or_introl eq_refl)))) as IHy.
      destruct (flat O fuel a m y) as [a1 y'].
      destruct IHy as (He1 & Hwf1 & Hy'); cbn [fst snd] in *.
      pose proof (extends_length _ _ He1) as Hl1.
      pose proof (IH a1 m x d ltac:(lia) Hwf1 ltac:(lia) (fenv_G_extends a a1 m d Hwf He1 Hm)
                    (so_extends a a1 x Hwf He1 Hx (Hks x (or_introl eq_refl)))) as IHx.
      rewrite (bnd_extends a a1 x He1 Hx) in IHx.
      destruct (flat O fuel a1 m x) as [a2 x'].
      destruct IHx as (He2 & Hwf2 & Hx'); cbn [fst snd] in *.
      pose proof (extends_length _ _ He2) as Hl2.
      assert (He02 : extends a a2) by (eapply extends_trans; eauto).
      pose proof (G_extends _ a1 a2 y' Hwf1 He2 Hy') as Hy2.
      eapply FR_trans; [exact He02|].
      assert (Gx : G (bnd_of a i + d) a2 x') by (eapply G_mono; [|exact Hx']; lia).
      assert (Gy : G (bnd_of a i + d) a2 y') by (eapply G_mono; [|exact Hy2]; lia).
      destruct (Nat.eqb x' x && Nat.eqb y' y) eqn:Hxx.
      + apply andb_true_iff in Hxx; destruct Hxx as [H1 H2].
        apply Nat.eqb_eq in H1, H2; subst x' y'. apply FR_same; [exact Hwf2|].
        split; [lia|]. split; [exact (so_extends a a2 i Hwf He02 Hi Hsrc0)|]. split.
        * eapply kp_binary; [|apply Gx|apply Gy]. rewrite (extends_getn a a2 i He02 Hi). exact Hn.
        * rewrite (bnd_extends a a2 i He02 Hi). lia.
      + apply bin_FR; auto.
    - (* plain oracle: wrapped with the current coordinate trees *)
      destruct Hm as ((Hx1 & Sx & Kx & Bx) & (Hy1 & Sy & Ky & By) & (Hz1 & Sz & Kz & Bz) & Hmv).
      pose proof (bnd_oracle a i k Hwf Hi Hn) as Hbn.
      assert (Hnw' : node_wf (length a) (NOracleT (fx m) (fy m) (fz m) i : node)) by (cbn [node_wf]; auto).
      assert (Hpl : plain_at (a ++ [NOracleT (fx m) (fy m) (fz m) i]) i).
      { exists k. rewrite getn_app_old by exact Hi. exact Hn. }
      unfold push, FR; cbn [fst snd].
      split; [apply gext_snoc|]. split; [apply arena_wf_snoc; auto|].
      split; [rewrite app_length; simpl; lia|]. split; [|split].
      + apply so_push; [exact Hwf | exact Hnw' | exact Hpl|].
        intros j [<-|[<-|[<-|[<-|[]]]]]; assumption.
      + apply kp_leaf; rewrite getn_snoc_new; [split; [reflexivity | exact Hpl] | reflexivity].
      + rewrite bnd_snoc_new. cbn [node_bnd]. unfold bnd_of in Bx, By, Bz. lia.
    - (* transformed oracle: lazily remapped coordinate trees *)
      destruct Hnw as (Hxi & Hyi & Hzi & Hui).
      destruct Hm as (Gfx & Gfy & Gfz & Hmv).
      pose proof (bnd_oracleT a i x y z u Hwf Hi Hn) as Hbn.
      assert (Sx : src_ok_o a x) by (apply Hks; simpl; auto).
      assert (Sy : src_ok_o a y) by (apply Hks; simpl; auto).
      assert (Sz : src_ok_o a z) by (apply Hks; simpl; auto).
      assert (Su : src_ok_o a u) by (apply Hks; simpl; auto).
      assert (GSx : GS (bnd_of a x) a x) by (split; [lia|]; split; [exact Sx | lia]).
      pose proof (remap_FRS (bnd_of a x) d a x (fx m) (fy m) (fz m) Hwf
                    GSx (G_GS _ _ _ Gfx) (G_GS _ _ _ Gfy) (G_GS _ _ _ Gfz)) as R1.
      destruct (mk_remap a x (fx m) (fy m) (fz m)) as [a1 x'].
      destruct R1 as (He1 & Hwf1 & Gx'); cbn [fst snd] in *.
      pose proof (extends_length _ _ He1) as Hl1.
      assert (GSy : GS (bnd_of a y) a1 y).
      { apply (GS_extends _ a a1); auto. split; [lia|]; split; [exact Sy | lia]. }
      pose proof (remap_FRS (bnd_of a y) d a1 y (fx m) (fy m) (fz m) Hwf1
                    GSy
                    (GS_extends _ a a1 _ Hwf He1 (G_GS _ _ _ Gfx))
                    (GS_extends _ a a1 _ Hwf He1 (G_GS _ _ _ Gfy))
                    (GS_extends _ a a1 _ Hwf He1 (G_GS _ _ _ Gfz))) as R2.
      destruct (mk_remap a1 y (fx m) (fy m) (fz m)) as [a2 y'].
      destruct R2 as (He2 & Hwf2 & Gy'); cbn [fst snd] in *.
      pose proof (extends_length _ _ He2) as Hl2.
      assert (He02 : extends a a2) by (eapply extends_trans; eauto).
      assert (GSz : GS (bnd_of a z) a2 z).
      { apply (GS_extends _ a a2); auto. split; [lia|]; split; [exact Sz | lia]. }
      pose proof (remap_FRS (bnd_of a z) d a2 z (fx m) (fy m) (fz m) Hwf2
                    GSz
                    (GS_extends _ a a2 _ Hwf He02 (G_GS _ _ _ Gfx))
                    (GS_extends _ a a2 _ Hwf He02 (G_GS _ _ _ Gfy))
                    (GS_extends _ a a2 _ Hwf He02 (G_GS _ _ _ Gfz))) as R3.
      destruct (mk_remap a2 z (fx m) (fy m) (fz m)) as [a3 z'].
      destruct R3 as (He3 & Hwf3 & Gz'); cbn [fst snd] in *.
      pose proof (extends_length _ _ He3) as Hl3.
      assert (He03 : extends a a3) by (eapply extends_trans; eauto).
      assert (He13 : extends a1 a3) by (eapply extends_trans; eauto).
      pose proof (GS_extends _ a1 a3 x' Hwf1 He13 Gx') as (Hx3 & Sx3 & Bx3).
      pose proof (GS_extends _ a2 a3 y' Hwf2 He3 Gy') as (Hy3 & Sy3 & By3).
      destruct Gz' as (Hz3 & Sz3 & Bz3).
      assert (Hnw' : node_wf (length a3) (NOracleT x' y' z' u : node)) by (cbn [node_wf]; repeat split; lia).
      assert (Hpl : plain_at (a3 ++ [NOracleT x' y' z' u]) u).
      { apply (plain_extends a); [eapply extends_trans; [exact He03 | apply gext_snoc] | lia | exact Hsh]. }
      eapply FR_trans; [exact He03|].
      unfold push, FR; cbn [fst snd].
      split; [apply gext_snoc|]. split; [apply arena_wf_snoc; auto|].
      split; [rewrite app_length; simpl; lia|]. split; [|split].
      + apply so_push; [exact Hwf3 | exact Hnw' | exact Hpl|].
        intros j [<-|[<-|[<-|[<-|[]]]]]; try assumption.
        apply (so_extends a a3); auto. lia.
      + apply kp_leaf; rewrite getn_snoc_new; [split; [reflexivity | exact Hpl] | reflexivity].
      + rewrite bnd_snoc_new. cbn [node_bnd]. unfold bnd_of in *. lia.
    - (* remap *)
      destruct Hnw as (Hxi & Hyi & Hzi & Hti).
      assert (Hx : x < length a) by lia. assert (Hy : y < length a) by lia.
      assert (Hz : z < length a) by lia. assert (Ht : t < length a) by lia.
      pose proof (bnd_remap a i x y z t Hwf Hi Hn) as Hbn.
      assert (Sx : src_ok_o a x) by (apply Hks; simpl; auto).
      assert (Sy : src_ok_o a y) by (apply Hks; simpl; auto).
      assert (Sz : src_ok_o a z) by (apply Hks; simpl; auto).
      assert (St : src_ok_o a t) by (apply Hks; simpl; auto).
      pose proof (IH a m x d ltac:(lia) Hwf Hx Hm Sx) as IHx.
      destruct (flat O fuel a m x) as [a1 x'].
      destruct IHx as (He1 & Hwf1 & Hx'); cbn [fst snd] in *.
      pose proof (extends_length _ _ He1) as Hl1.
      pose proof (IH a1 m y d ltac:(lia) Hwf1 ltac:(lia) (fenv_G_extends a a1 m d Hwf He1 Hm)
                    (so_extends a a1 y Hwf He1 Hy Sy)) as IHy.
      rewrite (bnd_extends a a1 y He1 Hy) in IHy.
      destruct (flat O fuel a1 m y) as [a2 y'].
      destruct IHy as (He2 & Hwf2 & Hy'); cbn [fst snd] in *.
      pose proof (extends_length _ _ He2) as Hl2.
      assert (He02 : extends a a2) by (eapply extends_trans; eauto).
      pose proof (IH a2 m z d ltac:(lia) Hwf2 ltac:(lia) (fenv_G_extends a a2 m d Hwf He02 Hm)
                    (so_extends a a2 z Hwf He02 Hz Sz)) as IHz.
      rewrite (bnd_extends a a2 z He02 Hz) in IHz.
      destruct (flat O fuel a2 m z) as [a3 z'].
      destruct IHz as (He3 & Hwf3 & Hz'); cbn [fst snd] in *.
      pose proof (extends_length _ _ He3) as Hl3.
      assert (He03 : extends a a3) by (eapply extends_trans; eauto).
      assert (He13 : extends a1 a3) by (eapply extends_trans; eauto).
      set (d' := Nat.max (Nat.max (bnd_of a x) (bnd_of a y)) (bnd_of a z) + d).
      set (m' := {| fx := x'; fy := y'; fz := z'; fvars := fvars m |}).
      assert (Hm' : fenv_G a3 m' d').
      { destruct (fenv_G_extends a a3 m d Hwf He03 Hm) as (_ & _ & _ & Hmv).
        split; [|split; [|split]]; cbn [m' fx fy fz fvars].
        - eapply G_mono; [|exact (G_extends _ a1 a3 x' Hwf1 He13 Hx')]. unfold d'; lia.
        - eapply G_mono; [|exact (G_extends _ a2 a3 y' Hwf2 He3 Hy')]. unfold d'; lia.
        - eapply G_mono; [|exact Hz']. unfold d'; lia.
        - intros w j Hl. eapply G_mono; [|exact (Hmv w j Hl)]. unfold d'; lia. }
      eapply FR_trans; [exact He03|].
      pose proof (IH a3 m' t d' ltac:(lia) Hwf3 ltac:(lia) Hm' (so_extends a a3 t Hwf He03 Ht St)) as IHt.
      rewrite (bnd_extends a a3 t He03 Ht) in IHt.
      eapply FR_mono; [|exact IHt]. unfold d'. lia.
    - (* apply *)
      destruct Hnw as (Hvi & Hei & Hti).
      assert (He : e < length a) by lia. assert (Ht : t < length a) by lia.
      pose proof (bnd_apply a i v e t Hwf Hi Hn) as Hbn.
      assert (Se : src_ok_o a e) by (apply Hks; simpl; auto).
      assert (St : src_ok_o a t) by (apply Hks; simpl; auto).
      pose proof (IH a m e d ltac:(lia) Hwf He Hm Se) as IHe.
      destruct (flat O fuel a m e) as [a1 e'].
      destruct IHe as (He1 & Hwf1 & He'); cbn [fst snd] in *.
      pose proof (extends_length _ _ He1) as Hl1.
      set (d' := bnd_of a e + d).
      set (m' := {| fx := fx m; fy := fy m; fz := fz m; fvars := (v, e') :: fvars m |}).
      assert (Hm' : fenv_G a1 m' d').
      { destruct (fenv_G_extends a a1 m d Hwf He1 Hm) as (H1 & H2 & H3 & Hmv).
        split; [|split; [|split]]; cbn [m' fx fy fz fvars];
          try (eapply G_mono; [|eassumption]; unfold d'; lia).
        intros w j. cbn [lookup]. destruct (Nat.eqb w v).
        - intros H; inversion H; subst. exact He'.
        - intros Hl. eapply G_mono; [|exact (Hmv w j Hl)]. unfold d'; lia. }
      eapply FR_trans; [exact He1|].
      pose proof (IH a1 m' t d' ltac:(lia) Hwf1 ltac:(lia) Hm' (so_extends a a1 t Hwf He1 Ht St)) as IHt.
      rewrite (bnd_extends a a1 t He1 Ht) in IHt.
      eapply FR_mono; [|exact IHt]. unfold d'. lia.
  Qed.

  (* a handle whose remap flag is clear reaches (through walk()'s links) no lazy node *)
  Lemma noremap_kp : forall a : arena, arena_wf a -> forall i, i < length a ->
    f_remap (flags_of a i) = false -> src_ok_o a i -> kp a i.
  Proof.
    induction a as [|n a IH] using rev_ind; intros Hwf i Hi Hf Hs; [simpl in Hi; lia|].
    apply arena_wf_snoc in Hwf. destruct Hwf as [Hwf Hn].
    rewrite app_length in Hi; simpl in Hi.
    assert (Hext : extends a (a ++ [n])) by apply gext_snoc.
    assert (Hold : forall j, j < length a -> f_remap (flags_of a j) = false ->
                             src_ok_o (a ++ [n]) j -> kp (a ++ [n]) j).
    { intros j Hj Hfj Hsj. apply (kp_extends a (a ++ [n]) j Hwf Hext Hj). apply IH; auto.
      apply (all_extends_inv fkids soshape fkids_wf) with (a' := a ++ [n]); auto.
      intros a0 a0' m0 Hwf0 He0 Hm0. pose proof (arena_wf_nth a0 m0 Hwf0 Hm0) as Hw.
      destruct (getn a0 m0); cbn [soshape node_wf] in *; auto.
      intros [k Hk]. exists k. rewrite <- (extends_getn a0 a0' _ He0) by lia. exact Hk. }
    destruct (Nat.eq_dec i (length a)) as [->|Hne].
    - rewrite flags_of_snoc_new in Hf. apply so_unfold in Hs. rewrite getn_snoc_new in Hs.
      destruct Hs as [Hsh Hks].
      destruct n as [c|o|o x|o x y|k|x y z u|x y z t|v e t|];
        cbn [soshape fkids node_flags node_wf] in *; try contradiction.
      + apply kp_leaf; rewrite getn_snoc_new; [exact I | reflexivity].
      + apply kp_leaf; rewrite getn_snoc_new; [|reflexivity].
        destruct o; try contradiction; cbn; auto.
      + eapply kp_unary; [apply getn_snoc_new|].
        apply Hold; [lia | exact Hf | apply Hks; left; reflexivity].
      + cbn in Hf. apply orb_false_iff in Hf. destruct Hf as [Hf1 Hf2].
        eapply kp_binary; [apply getn_snoc_new| |]; apply Hold; try lia; auto;
          apply Hks; simpl; auto.
      + apply kp_leaf; rewrite getn_snoc_new; [reflexivity | reflexivity].
      + apply kp_leaf; rewrite getn_snoc_new; [split; [reflexivity | exact Hsh] | reflexivity].
      + cbn in Hf. discriminate Hf.
      + cbn in Hf. discriminate Hf.
    - rewrite flags_of_snoc_old in Hf by lia. apply Hold; auto; lia.
  Qed.

  Lemma fenv0_G a : arena_wf a -> base_ok O a -> fenv_G a fenv0 0.
  Proof.
    intros Hwf Hb. pose proof (base_ok_len O a Hb) as Hl.
    assert (H : forall j, j < 3 -> G 0 a j).
    { intros j Hj. assert (Hjl : j < length a) by lia.
      assert (Hg : getn a j = getn (init_arena O) j) by (apply (base_getn O a j Hb); lia).
      split; [exact Hjl|]. split; [|split].
      - apply so_unfold. rewrite Hg. destruct j as [|[|[|j]]]; [| | |lia]; (split; [reflexivity | intros k []]).
      - apply kp_leaf; rewrite Hg; destruct j as [|[|[|j]]]; try lia; reflexivity.
      - rewrite (bnd_node a Hwf j Hjl), Hg. destruct j as [|[|[|j]]]; try lia; cbn; lia. }
    split; [|split; [|split]]; cbn [fenv0 fx fy fz fvars]; try (apply H; unfold idX, idY, idZ; lia).
    intros w j Hw; discriminate Hw.
  Qed.

  Theorem flatten_FR a i : arena_wf a -> base_ok O a -> i < length a -> src_ok_o a i ->
    FR (bnd_of a i) a (flatten O a i).
  Proof.
    intros Hwf Hb Hi Hs. unfold flatten. destruct (f_remap (flags_of a i)) eqn:Hf.
    - eapply FR_mono; [|apply (flat_FR (S i) a fenv0 i 0); auto; apply fenv0_G; assumption]. lia.
    - apply FR_same; auto. split; [exact Hi|]. split; [exact Hs|].
      split; [apply noremap_kp; assumption | lia].
  Qed.

  (* flatten leaves a user oracle alone *)
  Lemma flags_oracle : forall (a : arena) i k, i < length a -> getn a i = NOracle k ->
    f_remap (flags_of a i) = false.
  Proof.
    induction a as [|n a IH] using rev_ind; intros i k Hi Hn; [simpl in Hi; lia|].
    rewrite app_length in Hi; simpl in Hi.
    destruct (Nat.eq_dec i (length a)) as [->|Hne].
    - rewrite flags_of_snoc_new. rewrite getn_snoc_new in Hn. subst n. reflexivity.
    - rewrite flags_of_snoc_old by lia. rewrite getn_app_old in Hn by lia. apply (IH i k); [lia | exact Hn].
  Qed.

  Lemma flatten_plain (a : arena) i : i < length a -> plain_at a i -> flatten O a i = (a, i).
  Proof. intros Hi [k Hk]. unfold flatten. rewrite (flags_oracle a i k Hi Hk). reflexivity. Qed.

  (* ---------------------------------------------------------------- *)
  (* the levels *)
  Definition cpn (n : nat) (a : arena) (c : nat) : Prop :=
    (src_ok_o a c /\ bnd_of a c < n) \/ (1 <= n /\ plain_at a c).

  Lemma cpn_ext n : forall a a' j, arena_wf a -> extends a a' -> j < length a ->
    cpn n a j -> cpn n a' j.
  Proof.
    intros a a' j Hwf He Hj [[H1 H2]|[H1 H2]]; [left|right].
    - split; [eapply so_extends; eauto|]. rewrite (bnd_extends a a' j He Hj). exact H2.
    - split; [exact H1|]. apply (plain_extends a a'); assumption.
  Qed.

  Lemma kreach_freach (a : arena) j m : greach kids a j m -> greach fkids a j m.
  Proof.
    induction 1 as [|n k Hn IH Hk]; [constructor|]. econstructor; [exact IH|].
    destruct (getn a n); simpl in *; tauto.
  Qed.

  Lemma kreach_bnd (a : arena) j m : arena_wf a -> j < length a -> greach kids a j m ->
    bnd_of a m <= bnd_of a j.
  Proof.
    intros Hwf Hj. induction 1 as [|n k Hn IH Hk]; [lia|].
    pose proof (greach_le kids kids_wf a j n Hwf Hj Hn) as Hle.
    assert (Hnl : n < length a) by lia.
    destruct (getn a n) as [c|o|o x|o x y|g|x y z u|x y z t|v e t|] eqn:E; cbn [kids] in Hk;
      try contradiction.
    - destruct Hk as [<-|[]]. rewrite <- (bnd_unary a n o x Hwf Hnl E). exact IH.
    - rewrite (bnd_binary a n o x y Hwf Hnl E) in IH. destruct Hk as [<-|[<-|[]]]; lia.
  Qed.

  Lemma tp_of_G n a j : arena_wf a -> G n a j -> tp true vb (cpn n) a j.
  Proof.
    intros Hwf (Hj & Hs & Hk & Hb). split; [exact Hk|].
    intros m x y z u Hm Hn.
    pose proof (greach_le kids kids_wf a j m Hwf Hj Hm) as Hle.
    assert (Hml : m < length a) by lia.
    pose proof (kreach_bnd a j m Hwf Hj Hm) as Hbm.
    rewrite (bnd_oracleT a m x y z u Hwf Hml Hn) in Hbm.
    assert (Sm : src_ok_o a m) by (intros q Hq; apply Hs; eapply greach_trans; [apply kreach_freach; exact Hm | exact Hq]).
    apply so_unfold in Sm. rewrite Hn in Sm. cbn [soshape fkids] in Sm. destruct Sm as [Hpl Hks].
    repeat split; try (left; split; [apply Hks; simpl; auto | lia]).
    right. split; [lia | exact Hpl].
  Qed.

  Notation st_pr := (@OptimizePure.st_pr num O true vb).

  (* the conclusion of the specification of [coord] *)
  Definition coord_res (fl : bool) (st : ost) (c : nat) (res : ost * nat) : Prop :=
    st_pr fl (fst res) /\ extends (st_arena st) (st_arena (fst res)) /\
    snd res < length (st_arena (fst res)) /\
    hp (st_arena (fst res)) (snd res) /\
    bnd_of (st_arena (fst res)) (snd res) <= bnd_of (st_arena st) c /\
    (plain_at (st_arena st) c -> snd res = c).

  Definition coord_spec (n : nat) (coord : ost -> nat -> ost * nat) : Prop :=
    forall fl st c, st_pr fl st -> c < length (st_arena st) -> cpn n (st_arena st) c ->
      coord_res fl st c (coord st c).

  Lemma helper_with_plain coord (st : ost) c : c < length (st_arena st) -> plain_at (st_arena st) c ->
    helper_with O coord st c = uniq O st c.
  Proof.
    intros Hc Hp. unfold helper_with. rewrite (flatten_plain _ c Hc Hp).
    unfold opt_fuel. replace (4 * S c) with (S (S (4 * c + 2))) by lia.
    destruct st as [a cn o]. cbn [st_arena st_canon st_oof] in *.
    apply opt_tree_plain. exact Hp.
  Qed.

  (* Tree::optimized_helper on a state: one level *)
  Lemma helper_with_o n coord : coord_spec n coord ->
    forall fl st i, st_pr fl st -> i < length (st_arena st) -> src_ok_o (st_arena st) i ->
      bnd_of (st_arena st) i <= n ->
      coord_res fl st i (helper_with O coord st i).
  Proof.
    intros Hc fl st i Hst Hi Hs Hb.
    assert (Hplain : plain_at (st_arena st) i -> snd (helper_with O coord st i) = i).
    { intros Hp. rewrite (helper_with_plain coord st i Hi Hp). apply (uniq_plain O true vb fl); assumption. }
    destruct Hst as (Hwf & Hbo & Hcn & Ho). unfold helper_with in *.
    pose proof (flatten_FR _ i Hwf Hbo Hi Hs) as H1.
    destruct (flatten O (st_arena st) i) as [a1 j].
    destruct H1 as (He1 & Hwf1 & Gj); cbn [fst snd] in *.
    set (st1 := {| st_arena := a1; st_canon := st_canon st; st_oof := st_oof st |}) in *.
    assert (Hst1 : st_pr fl st1).
    { split; [exact Hwf1|]. split; [|split]; cbn [st1 st_arena st_canon st_oof].
      - eapply base_ok_extends; eauto.
      - exact (canon_pr_extends O true vb _ _ _ Hwf He1 Hcn).
      - exact Ho. }
    assert (Gj' : G n a1 j) by (eapply G_mono; [|exact Gj]; lia).
    assert (Hlp : lpt true vb (cpn n) (bnd_of a1 j) a1 j).
    { split; [apply Gj|]. split; [|lia]. apply (tp_of_G n); assumption. }
    assert (Hf : 4 * j + 3 <= opt_fuel j) by (unfold opt_fuel; lia).
    pose proof (opt_tree_pr O true vb fl (cpn n) (cpn_ext n) (bnd_of a1 j) coord
                  (fun st0 c0 H1 H2 H3 => Hc fl st0 c0 H1 H2 H3) (opt_fuel j) st1 j Hst1 Hlp Hf) as H2.
    destruct (opt_tree O coord (opt_fuel j) st1 j) as [st' j'].
    destruct H2 as (G1 & G2 & G3 & G4 & G5); cbn [fst snd st1 st_arena] in *.
    split; [exact G1|]. split; [eapply extends_trans; eauto|]. split; [exact G3|].
    split; [exact G4|]. split; [|exact Hplain].
    destruct Gj as (_ & _ & _ & Bj). eapply Nat.le_trans; [exact G5 | exact Bj].
  Qed.

  Theorem lvl_pr : forall n, coord_spec n (coord_lvl O n).
  Proof.
    induction n as [|n IH]; intros fl st c Hst Hc Hcp.
    - destruct Hcp as [[_ H]|[H _]]; lia.
    - cbn [coord_lvl]. destruct Hcp as [[Hs Hb]|[_ Hp]].
      + apply (helper_with_o n (coord_lvl O n) IH); auto. lia.
      + rewrite (helper_with_plain _ st c Hc Hp).
        assert (Hlp : lph true vb (bnd_of (st_arena st) c) (st_arena st) c).
        { split; [exact Hc|]. split; [|lia]. destruct Hp as [k Hk].
          apply hp_leaf; rewrite Hk; [reflexivity | reflexivity]. }
        pose proof (uniq_pr O true vb fl (bnd_of (st_arena st) c) st c Hst Hlp) as (G1 & G2 & G3 & G4 & G5).
        split; [exact G1|]. split; [exact G2|]. split; [exact G3|]. split; [exact G4|].
        split; [|intros _; apply (uniq_plain O true vb fl); assumption].
        pose proof (uniq_st O true vb fl st c Hst Hc) as Hu.
        destruct Hp as [k Hk]. rewrite Hk in Hu. specialize (Hu eq_refl).
        destruct Hu as (_ & E & _). rewrite E in G5 |- *. exact G5.
  Qed.

  (* Tree::optimized_helper with a threaded canonical map *)
  Theorem optimized_helper_o a c i :
    arena_wf a -> base_ok O a -> canon_pr O true vb a c -> i < length a -> src_ok_o a i ->
    coord_res false {| st_arena := a; st_canon := c; st_oof := false |} i (optimized_helper O a c i).
  Proof.
    intros Hwf Hb Hc Hi Hs. unfold optimized_helper, optimized_helper_lvl.
    apply (helper_with_o (lvl_fuel a i) (coord_lvl O (lvl_fuel a i)) (lvl_pr _)); auto.
    - split; [exact Hwf|]. split; [exact Hb|]. split; [exact Hc | reflexivity].
    - cbn [st_arena]. unfold lvl_fuel. lia.
  Qed.

  (* Tree::optimized: hereditarily pure output, level bound not increased, flag clear *)
  Theorem optimized_o_pure a i :
    arena_wf a -> base_ok O a -> i < length a -> src_ok_o a i ->
    let '((a', j), fl) := optimized_full O a i in
    extends a a' /\ arena_wf a' /\ base_ok O a' /\ j < length a' /\ hp a' j /\
    bnd_of a' j <= bnd_of a i /\ fl = false.
  Proof.
    intros Hwf Hb Hi Hs. unfold optimized_full.
    pose proof (optimized_helper_o a [] i Hwf Hb (Forall_nil _) Hi Hs) as H.
    destruct (optimized_helper O a [] i) as [st j].
    destruct H as ((H1 & H2 & _ & Ho) & H3 & H4 & H5 & H6 & _); cbn [fst snd st_arena] in *.
    repeat split; assumption.
  Qed.

  (* P3: with the computed level fuel the out-of-fuel flag is never raised *)
  Corollary optimized_full_flag a i :
    arena_wf a -> base_ok O a -> i < length a -> src_ok_o a i ->
    snd (optimized_full O a i) = false.
  Proof.
    intros Hwf Hb Hi Hs. pose proof (optimized_o_pure a i Hwf Hb Hi Hs) as H.
    destruct (optimized_full O a i) as [[a' j] fl]. apply H.
  Qed.
End SrcO.

(* ------------------------------------------------------------------ *)
(* computed examples (a number type with decidable operations) *)
Definition ops_nat : ops nat :=
  {| o_un := fun _ x => x; o_bin := fun _ x y => x + y; o_zero := 0; o_one := 1;
     o_eqb := Nat.eqb; o_ltb := Nat.ltb; o_isnan := fun _ => false |}.

(* boolean version of [hp true true]: no lazy node anywhere below, coordinate trees
   of transformed oracles included *)
Fixpoint hpb (fuel : nat) (a : arena nat) (j : nat) : bool :=
  match fuel with
  | 0 => false
  | S f =>
      match getn a j with
      | NConst _ | NNullary _ | NOracle _ => true
      | NUnary _ x => hpb f a x
      | NBinary _ x y => hpb f a x && hpb f a y
      | NOracleT x y z u =>
          hpb f a x && hpb f a y && hpb f a z &&
          match getn a u with NOracle _ => true | _ => false end
      | _ => false
      end
  end.

(* P2 d.  An already transformed oracle (7: oracle 0 at (x + y, y, z)) remapped a second
   time, lazily (8: node 7 at (x * y, y, z)): the coordinate tree of the result is the
   lazy remap of x + y by (x * y, y, z), which the model now flattens and optimises when
   the oracle clause is optimised, exactly as TransformedOracleClause::optimized does *)
Definition nested_arena : arena nat :=
  init_arena ops_nat ++
  [NOracle 0; NBinary OP_ADD idX idY; NOracleT 6 idY idZ 5; NBinary OP_MUL idX idY;
   NRemap 8 idY idZ 7].

Example nested_flag_false : snd (optimized_full ops_nat nested_arena 9) = false.
Proof. vm_compute. reflexivity. Qed.

Example nested_coordinates_flat :
  let '((a', j), fl) := optimized_full ops_nat nested_arena 9 in
  fl = false /\ hpb (S j) a' j = true /\
  exists x m, getn a' j = NOracleT x idY idZ 5 /\ getn a' 5 = NOracle 0 /\
              getn a' x = NBinary OP_ADD idY m /\ getn a' m = NBinary OP_MUL idX idY.
Proof. vm_compute. split; [reflexivity|]. split; [reflexivity|]. repeat eexists. Qed.

(* flatten alone leaves the lazy remap of x + y in place (as the C++ does: it is
   TransformedOracleClause::optimized that flattens it) *)
Example nested_flatten_lazy :
  let '(a', j) := flatten ops_nat nested_arena 9 in
  exists x y z, getn a' j = NOracleT x y z 5 /\ getn a' x = NRemap 8 idY idZ 6.
Proof. vm_compute. repeat eexists. Qed.

(* a DAG that remaps a shared sub-tree by itself doubles the nesting depth at every node:
   node index + 1 levels do not suffice (4 remaps, root 9, depth 16), the computed bound
   [lvl_fuel] does *)
Definition doubling_arena (k : nat) : arena nat :=
  init_arena ops_nat ++ [NOracle 0] ++ map (fun j => NRemap (5 + j) idY idZ (5 + j)) (seq 0 k).

Example lvl_index_insufficient :
  st_oof (fst (optimized_helper_lvl ops_nat 10
                 {| st_arena := doubling_arena 4; st_canon := []; st_oof := false |} 9)) = true /\
  snd (optimized_full ops_nat (doubling_arena 4) 9) = false /\
  bnd_of (doubling_arena 4) 9 = 16.
Proof. vm_compute. repeat split. Qed.

Example nested_src_ok : src_ok_o false nested_arena 9.
Proof. apply (sob_sound false 10). vm_compute. reflexivity. Qed.

Print Assumptions flat_FR.
Print Assumptions lvl_pr.
Print Assumptions optimized_o_pure.
Print Assumptions optimized_full_flag.
