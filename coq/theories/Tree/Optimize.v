(* Tree::optimized_helper (tree.cpp).

   The four explicit stacks (todo / out / affine / commutative) only encode
   *which context the current node sits in*: directly under an affine map,
   directly under a commutative list of some opcode, or neither.  The DAG is
   traversed as its tree unfolding (no memo; uniq() dedups afterwards), the
   right operand before the left.  The model is therefore three mutually
   recursive functions threading the arena and the canonical map
   (DESIGN.md, Appendix A).  "Node order" (pointer order in C++) is the arena
   identity here; the correspondence compares modulo AC-normalisation. *)
From Coq Require Import List Arith Bool Lia.
From LF Require Import Base.Opcode Base.Num Base.Arena Tree.Build Tree.Flatten.
Import ListNotations.

Section Optimize.
  Context {num : Type} (O : ops num).
  Notation node := (node num).
  Notation arena := (arena num).

  (* TreeData::key *)
  Inductive key :=
  | KNan | KInv
  | KConst (c : num)
  | KOp (op : opcode)
  | KVar (i : nat)
  | KUn (op : opcode) (a : nat)
  | KBin (op : opcode) (a b : nat)
  | KUniq (i : nat).             (* oracles: keyed by their own address *)

  Definition key_of (a : arena) (i : nat) : key :=
    match getn a i with
    | NConst c => if o_isnan O c then KNan else KConst c
    | NNullary VAR_FREE => KVar i
    | NNullary op => KOp op
    | NUnary op x => KUn op x
    | NBinary op x y => KBin op x y
    | NOracle _ | NOracleT _ _ _ _ | NRemap _ _ _ _ | NApply _ _ _ => KUniq i
    | NInvalid => KInv
    end.

  Definition key_eqb (k1 k2 : key) : bool :=
    match k1, k2 with
    | KNan, KNan | KInv, KInv => true
    | KConst c1, KConst c2 => o_eqb O c1 c2
    | KOp o1, KOp o2 => opcode_eqb o1 o2
    | KVar i, KVar j => Nat.eqb i j
    | KUn o1 a1, KUn o2 a2 => opcode_eqb o1 o2 && Nat.eqb a1 a2
    | KBin o1 a1 b1, KBin o2 a2 b2 => opcode_eqb o1 o2 && Nat.eqb a1 a2 && Nat.eqb b1 b2
    | KUniq i, KUniq j => Nat.eqb i j
    | _, _ => false
    end.

  Definition canon := list (key * nat).
  (* [st_oof]: the LEVEL fuel ran out somewhere (a coordinate tree of a transformed
     oracle was left un-optimised); never set when the level fuel suffices *)
  Record ost := { st_arena : arena; st_canon : canon; st_oof : bool }.

  Fixpoint canon_find (c : canon) (k : key) : option nat :=
    match c with
    | [] => None
    | (k', j) :: r => if key_eqb k k' then Some j else canon_find r k
    end.

  (* the deduplicator lambda *)
  Definition uniq (st : ost) (i : nat) : ost * nat :=
    let k := key_of (st_arena st) i in
    match canon_find (st_canon st) k with
    | Some j => (st, j)
    | None => ({| st_arena := st_arena st; st_canon := (k, i) :: st_canon st;
                  st_oof := st_oof st |}, i)
    end.

  (* lift an arena constructor into the state and uniq its result *)
  Definition lift_uniq (st : ost) (res : arena * nat) : ost * nat :=
    uniq {| st_arena := fst res; st_canon := st_canon st; st_oof := st_oof st |} (snd res).

  Inductive cls :=
  | CAffNeg (x : nat)
  | CAffAdd (x y : nat)
  | CAffSub (x y : nat)
  | CAffMulL (c : num) (y : nat)      (* constant on the left: recurse into rhs *)
  | CAffMulR (x : nat) (c : num)
  | CAffDiv (x : nat) (c : num)
  | CComm (op : opcode) (x y : nat)
  | COther.

  Definition classify (a : arena) (i : nat) : cls :=
    match getn a i with
    | NUnary OP_NEG x => CAffNeg x
    | NBinary OP_ADD x y => CAffAdd x y
    | NBinary OP_SUB x y => CAffSub x y
    | NBinary OP_MUL x y =>
        match getn a x with
        | NConst c => CAffMulL c y
        | _ => match getn a y with
               | NConst c => CAffMulR x c
               | _ => CComm OP_MUL x y
               end
        end
    | NBinary OP_DIV x y =>
        match getn a y with
        | NConst c => CAffDiv x c
        | _ => COther
        end
    | NBinary OP_MIN x y => CComm OP_MIN x y
    | NBinary OP_MAX x y => CComm OP_MAX x y
    | _ => COther
    end.

  (* AffineMap: term id -> accumulated coefficient; operator[] default 0.0f *)
  Definition amap := list (nat * num).
  Fixpoint amap_add (m : amap) (n : nat) (s : num) : amap :=
    match m with
    | [] => [(n, o_add O (o_zero O) s)]
    | (n', c) :: r => if Nat.eqb n n' then (n', o_add O c s) :: r else (n', c) :: amap_add r n s
    end.

  Definition add_term (st : ost) (m : amap) (n : nat) (s : num) : amap :=
    match getn (st_arena st) n with
    | NConst c => amap_add m idOne (o_mul O s c)
    | _ => amap_add m n s
    end.

  (* insertion sort with an explicit strict order *)
  Section Sort.
    Context {A : Type} (lt : A -> A -> bool).
    Fixpoint insert (x : A) (l : list A) : list A :=
      match l with
      | [] => [x]
      | y :: r => if lt x y then x :: l else y :: insert x r
      end.
    Definition isort (l : list A) : list A := fold_right insert [] l.
  End Sort.

  Fixpoint dedup_adjacent (l : list nat) : list nat :=
    match l with
    | [] => []
    | x :: r => match r with
                | y :: _ => if Nat.eqb x y then dedup_adjacent r else x :: dedup_adjacent r
                | [] => [x]
                end
    end.

  (* UpCommutative: sort, drop duplicates for min/max, left fold with uniq *)
  Definition fold_comm (st : ost) (op : opcode) (l : list nat) : ost * nat :=
    let s := isort Nat.ltb l in
    let s := if is_idempotent op then dedup_adjacent s else s in
    match s with
    | [] => (st, idInvalid)
    | x :: r =>
        fold_left (fun (acc : ost * nat) b =>
                     lift_uniq (fst acc) (mk_bin O (st_arena (fst acc)) op (snd acc) b))
                  r (st, x)
    end.

  Definition term_lt (p q : nat * num) : bool :=
    if negb (o_eqb O (snd p) (snd q)) then o_ltb O (snd p) (snd q) else Nat.ltb (fst p) (fst q).

  (* take the maximal prefix with multiplier [m] *)
  Fixpoint span_mult (m : num) (l : list (nat * num)) : list nat * list (nat * num) :=
    match l with
    | (n, c) :: r => if o_eqb O c m then let (g, rest) := span_mult m r in (n :: g, rest)
                     else ([], l)
    | [] => ([], [])
    end.

  Definition mk_const_uniq (st : ost) (c : num) : ost * nat :=
    lift_uniq st (mk_const (st_arena st) c).

  (* the collapse lambda of UpAffine; fuel = length of the list *)
  Fixpoint collapse (fuel : nat) (st : ost) (l : list (nat * num)) (out : option nat) : ost * option nat :=
    match fuel with
    | 0 => (st, out)
    | S f =>
      match l with
      | [] => (st, out)
      | (n, m) :: r =>
          let (g, rest) := span_mult m r in
          (* accumulate all subtrees with the same multiplier *)
          let '(st1, t) :=
            fold_left (fun (acc : ost * nat) b =>
                         lift_uniq (fst acc) (mk_bin O (st_arena (fst acc)) OP_ADD (snd acc) b))
                      g (st, n) in
          let '(st2, t2) :=
            if o_eqb O m (o_one O) then (st1, t)
            else if Nat.eqb t idOne then mk_const_uniq st1 m
            else let '(st', cm) := mk_const_uniq st1 m in
                 lift_uniq st' (mk_bin O (st_arena st') OP_MUL t cm) in
          let '(st3, o3) :=
            match out with
            | Some o => let '(s', o') := lift_uniq st2 (mk_bin O (st_arena st2) OP_ADD o t2) in (s', Some o')
            | None => (st2, Some t2)
            end in
          collapse f st3 rest o3
      end
    end.

  Definition collapse_side (st : ost) (l : list (nat * num)) : ost * nat :=
    let '(st1, o) := collapse (length l) st l None in
    match o with
    | Some i => (st1, i)
    | None => mk_const_uniq st1 (o_zero O)
    end.

  (* UpAffine *)
  Definition rebuild_affine (st : ost) (m : amap) : ost * nat :=
    let pos := filter (fun p => o_ltb O (o_zero O) (snd p)
                                || (negb (o_ltb O (snd p) (o_zero O)) && negb (o_eqb O (snd p) (o_zero O)))) m in
    let neg := map (fun p => (fst p, o_neg O (snd p)))
                   (filter (fun p => negb (o_ltb O (o_zero O) (snd p)) && o_ltb O (snd p) (o_zero O)) m) in
    let pos := isort term_lt pos in
    let neg := isort term_lt neg in
    let '(st1, p) := collapse_side st pos in
    let '(st2, n) := collapse_side st1 neg in
    lift_uniq st2 (mk_bin O (st_arena st2) OP_SUB p n).

  (* [coord]: Tree::optimized_helper(canonical) as called by
     TransformedOracleClause::optimized on the underlying tree and on the three
     coordinate trees (flatten if flagged, then optimise, SHARED canonical map).
     The flattened root can be a new node, so this call is not covered by the
     structural fuel: it is a parameter here and tied below by a level fuel. *)
  Section Level.
  Variable coord : ost -> nat -> ost * nat.

  Fixpoint opt_tree (fuel : nat) (st : ost) (i : nat) {struct fuel} : ost * nat :=
    match fuel with
    | 0 => (st, idInvalid)
    | S f =>
      match classify (st_arena st) i with
      | CAffNeg _ | CAffAdd _ _ | CAffSub _ _ | CAffMulL _ _ | CAffMulR _ _ | CAffDiv _ _ =>
          let '(st1, m) := opt_affine f st (o_one O) i [] in
          rebuild_affine st1 m
      | CComm op _ _ =>
          let '(st1, l) := opt_comm f st op i [] in
          fold_comm st1 op l
      | COther => opt_other f st i
      end
    end

  (* the Up task of a node that is neither affine nor commutative *)
  with opt_other (fuel : nat) (st : ost) (i : nat) {struct fuel} : ost * nat :=
    match fuel with
    | 0 => (st, idInvalid)
    | S f =>
      match getn (st_arena st) i with
      | NUnary op x =>
          let '(st1, x') := opt_tree f st x in
          let '(st2, self) := uniq st1 i in
          if Nat.eqb x' x then (st2, self)
          else lift_uniq st2 (mk_unary O (st_arena st2) op x')
      | NBinary op x y =>
          let '(st1, y') := opt_tree f st y in
          let '(st2, x') := opt_tree f st1 x in
          let '(st3, self) := uniq st2 i in
          if Nat.eqb x' x && Nat.eqb y' y then (st3, self)
          else lift_uniq st3 (mk_bin O (st_arena st3) op x' y')
      | NOracleT x y z u =>
          let '(st0, self) := uniq st i in
          let '(st1, u') := coord st0 u in
          let '(st2, x') := coord st1 x in
          let '(st3, y') := coord st2 y in
          let '(st4, z') := coord st3 z in
          lift_uniq st4 (push (st_arena st4) (NOracleT x' y' z' u'))
      | _ => uniq st i
      end
    end

  (* node [i] sits directly under the affine map [m] with incoming scale [s] *)
  with opt_affine (fuel : nat) (st : ost) (s : num) (i : nat) (m : amap) {struct fuel} : ost * amap :=
    match fuel with
    | 0 => (st, m)
    | S f =>
      match classify (st_arena st) i with
      | CAffNeg x => opt_affine f st (o_neg O s) x m
      | CAffAdd x y =>
          let '(st1, m1) := opt_affine f st s y m in
          opt_affine f st1 s x m1
      | CAffSub x y =>
          let '(st1, m1) := opt_affine f st (o_neg O s) y m in
          opt_affine f st1 s x m1
      | CAffMulL c y => opt_affine f st (o_mul O c s) y m
      | CAffMulR x c => opt_affine f st (o_mul O c s) x m
      | CAffDiv x c => opt_affine f st (o_div O s c) x m
      | CComm op _ _ =>
          let '(st1, l) := opt_comm f st op i [] in
          let '(st2, n) := fold_comm st1 op l in
          (st2, add_term st2 m n s)
      | COther =>
          let '(st1, n) := opt_other f st i in
          (st1, add_term st1 m n s)
      end
    end

  (* node [i] sits directly under a commutative list of opcode [op] *)
  with opt_comm (fuel : nat) (st : ost) (op : opcode) (i : nat) (l : list nat) {struct fuel} : ost * list nat :=
    match fuel with
    | 0 => (st, l)
    | S f =>
      match classify (st_arena st) i with
      | CComm op' x y =>
          if opcode_eqb op' op then
            let '(st1, l1) := opt_comm f st op y l in
            opt_comm f st1 op x l1
          else
            let '(st1, n) := opt_tree f st i in (st1, l ++ [n])
      | _ =>
          let '(st1, n) := opt_tree f st i in (st1, l ++ [n])
      end
    end.

  (* Each recursive call descends to a strictly older node but alternates
     between the four functions; 4 * (i + 1) is always enough. *)
  Definition opt_fuel (i : nat) : nat := 4 * (S i).

  (* Tree::optimized_helper on a state: flatten when the remap flag is set, then
     the stack machine on the flattened root, with its own structural fuel *)
  Definition helper_with (st : ost) (i : nat) : ost * nat :=
    let (a1, j) := flatten O (st_arena st) i in
    opt_tree (opt_fuel j)
             {| st_arena := a1; st_canon := st_canon st; st_oof := st_oof st |} j.
  End Level.

  Definition set_oof (st : ost) : ost :=
    {| st_arena := st_arena st; st_canon := st_canon st; st_oof := true |}.

  (* LEVEL fuel = nesting depth of transformed oracles: at level [S n] a
     coordinate tree is handled by the level-[n] optimized_helper; at level 0 it
     is left untouched and the out-of-fuel flag is raised *)
  Fixpoint coord_lvl (n : nat) : ost -> nat -> ost * nat :=
    match n with
    | 0 => fun st i => (set_oof st, i)
    | S k => helper_with (coord_lvl k)
    end.

  (* Tree::optimized_helper with [n] levels of nested transformed oracles *)
  Definition optimized_helper_lvl (n : nat) (st : ost) (i : nat) : ost * nat :=
    helper_with (coord_lvl n) st i.

  (* A computable bound on the nesting depth of transformed oracles that
     flatten + optimise can produce from node [i] (bottom-up, like the flags):
     an oracle under k nested remaps whose coordinate maps hold oracles
     themselves nests k deep.  (The underlying oracle of a transformed oracle is
     taken to be a plain one, as flatten produces them.)  The node index is NOT a bound (a DAG that remaps a
     shared sub-tree by itself doubles the depth at every node:
     [lvl_index_insufficient] in OptimizePure.v). *)
  Definition getb (bs : list nat) (i : nat) : nat := nth i bs 0.
  Definition node_bnd (bs : list nat) (n : node) : nat :=
    match n with
    | NUnary _ x => getb bs x
    | NBinary _ x y => Nat.max (getb bs x) (getb bs y)
    | NOracle _ => 1
    | NOracleT x y z _ => S (Nat.max (Nat.max (getb bs x) (getb bs y)) (getb bs z))
    | NRemap x y z t => getb bs t + Nat.max (Nat.max (getb bs x) (getb bs y)) (getb bs z)
    | NApply v e t => getb bs t + getb bs e
    | _ => 0
    end.
  Definition all_bnd (a : arena) : list nat :=
    fold_left (fun bs n => bs ++ [node_bnd bs n]) a [].
  Definition bnd_of (a : arena) (i : nat) : nat := getb (all_bnd a) i.

  Definition lvl_fuel (a : arena) (i : nat) : nat := S (bnd_of a i).

  (* Tree::optimized_helper on an unflagged handle; [canonical] is threaded *)
  Definition optimized_helper (a : arena) (c : canon) (i : nat) : ost * nat :=
    optimized_helper_lvl (lvl_fuel a i) {| st_arena := a; st_canon := c; st_oof := false |} i.

  (* Tree::optimized, with the out-of-fuel flag *)
  Definition optimized_full (a : arena) (i : nat) : (arena * nat) * bool :=
    let '(st, j) := optimized_helper a [] i in ((st_arena st, j), st_oof st).

  (* Tree::optimized *)
  Definition optimized (a : arena) (i : nat) : arena * nat := fst (optimized_full a i).

  (* Tree::eq via cooptimize against one shared canonical map *)
  Definition tree_eq (a : arena) (i j : nat) : arena * bool :=
    let '(st1, i') := optimized_helper a [] i in
    let '(st2, j') := optimized_helper (st_arena st1) (st_canon st1) j in
    (st_arena st2, Nat.eqb i' j').

End Optimize.
