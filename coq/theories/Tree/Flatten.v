(* Tree::flatten (tree.cpp): the Down/Up task machine with an environment map
   is structural recursion over the arena (children are older than parents)
   threading the growing arena.  No memoisation, rhs before lhs, exactly like
   the explicit stacks: a shared sub-tree under a remap is rebuilt once per
   occurrence. *)
From Coq Require Import List Arith Bool Lia.
From LF Require Import Base.Opcode Base.Num Base.Arena Tree.Build.
Import ListNotations.

Section Flatten.
  Context {num : Type} (O : ops num).
  Notation node := (node num).
  Notation arena := (arena num).

  (* the map k.m: replacements for X, Y, Z and for applied variables *)
  Record fenv := { fx : nat; fy : nat; fz : nat; fvars : list (nat * nat) }.
  Definition fenv0 := {| fx := idX; fy := idY; fz := idZ; fvars := [] |}.

  Fixpoint lookup (l : list (nat * nat)) (w : nat) : option nat :=
    match l with
    | [] => None
    | (v, j) :: r => if Nat.eqb w v then Some j else lookup r w
    end.

  Fixpoint flat (fuel : nat) (a : arena) (m : fenv) (i : nat) : arena * nat :=
    match fuel with
    | 0 => (a, idInvalid)
    | S f =>
      match getn a i with
      | NConst _ => (a, i)
      | NNullary VAR_X => (a, fx m)
      | NNullary VAR_Y => (a, fy m)
      | NNullary VAR_Z => (a, fz m)
      | NNullary VAR_FREE =>
          (a, match lookup (fvars m) i with Some j => j | None => i end)
      | NNullary _ => (a, i)
      | NUnary op x =>
          let (a1, x') := flat f a m x in
          if Nat.eqb x' x then (a1, i) else mk_unary O a1 op x'
      | NBinary op x y =>
          let (a1, y') := flat f a m y in
          let (a2, x') := flat f a1 m x in
          if Nat.eqb x' x && Nat.eqb y' y then (a2, i) else mk_bin O a2 op x' y'
      | NOracle _ => push a (NOracleT (fx m) (fy m) (fz m) i)
      | NOracleT x y z u =>
          let (a1, x') := mk_remap a x (fx m) (fy m) (fz m) in
          let (a2, y') := mk_remap a1 y (fx m) (fy m) (fz m) in
          let (a3, z') := mk_remap a2 z (fx m) (fy m) (fz m) in
          push a3 (NOracleT x' y' z' u)
      | NRemap x y z t =>
          let (a1, x') := flat f a m x in
          let (a2, y') := flat f a1 m y in
          let (a3, z') := flat f a2 m z in
          flat f a3 {| fx := x'; fy := y'; fz := z'; fvars := fvars m |} t
      | NApply v e t =>
          let (a1, e') := flat f a m e in
          flat f a1 {| fx := fx m; fy := fy m; fz := fz m; fvars := (v, e') :: fvars m |} t
      | NInvalid => (a, i)
      end
    end.

  (* Tree::flatten *)
  Definition flatten (a : arena) (i : nat) : arena * nat :=
    if f_remap (flags_of a i) then flat (S i) a fenv0 i else (a, i).

End Flatten.
